"""C13 — conditional g(r) and S(q): weighted definitions, dispatch, reductions to the partial / total functions.

Functions under contract: static.gr.conditional_gr, static.sq.conditional_sq (real ASTs, re-read every run).
Callee contract used: utils.pbc.remove_pbc (C02), utils.funcs.nidealfac (inlined; own unit in C03).

Spec of conditional_gr (statement of C13 + docs/gr.md).  One configuration, N >= 2 particles, d in {2,3}, any invertible cell,
B = int(min L / 2 / rdelta) >= 1 bins of width rdelta on [0, B rdelta], V = prod L, e_k = k rdelta,
shell_k = nidealfac(d) pi (e_{k+1}^d - e_k^d):
  cnt_w(k) = sum_{i<j} w_ij [ |D(i,j)| in bin k ]          (every unordered pair once; numpy bin convention)
  w_ij     = Re(A_i conj A_j)          scalar kinds: bool -> {0,1}, float, complex
           = Re sum_c A_ic conj A_jc   vector  (dot product)
           = tr(A_i A_j)               tensor  (trace of the product)
  gA(k)    = 2 V cnt_w(k) / (N_A^2 shell_k),   N_A = #selected for bool, N otherwise   [= 1/(N_A rho_A) sum_{i != j} ...]
  gr(k)    = 2 V cnt_1(k) / (N^2 shell_k)      (the total g(r)),   r_k = e_{k+1} - rdelta/2
  gA_norm  = (gA - <A>^2) / (<A^2> - <A>^2)    float scalar only.
Reductions, on the real function with the special input: A_i = [type_i = a] gives the C03 partial g_aa (T = 1);
A = 1 (float) and A = True (bool) give the C03 total; a vector field gives the sum over its components of the scalar gA
(second symbolic run of the real body per component).

Spec of conditional_sq (statement + docs/sq.md).  q_m = 2 pi n_m / L component-wise for the m-th integer row of `qvector`,
  F(m)  = sum_i A_i exp(-i q_m . r_i) / sqrt(N_A)      (bool: over selected particles, N_A = #selected; else N_A = N)
  Sq(m) = |F(m)|^2   (vector: summed over components), table = per-vector values rounded to 8 decimals, and their
  mean per distinct rounded |q| (pandas groupby contract).
"""
import z3

from contracts.C03 import _sum, g_spec, nidealfac_spec, outer_sigmas
from contracts.C03 import cnt_spec as c03_cnt_spec
from contracts.common import PBC, Traj, min_image
from pyvc import arr as A
from pyvc import sigma, sv
from pyvc.sigma import Sum
from pyvc.vc import Unit

MOD_GR = "PyMatterSim.static.gr"
MOD_SQ = "PyMatterSim.static.sq"

NOT_DECIDED = [
    "bin membership of distances within one ulp of a bin edge, and the value of int(Lmin/2/rdelta) at float rounding (A1: floats are reals)",
    "complex tensor fields (dtype complex128 with conditiontype='tensor'): the code stores the complex trace into a float array "
    "(numpy discards the imaginary part with a ComplexWarning); the statement lists symmetric (real) tensors only — not under contract",
    "boolean conditions combined with conditiontype 'vector'/'tensor', and tensor conditions passed to conditional_sq (no such kind in the statement)",
    "effect of the 8-decimal rounding on which |q| values coincide (the per-|q| mean is proved relative to the rounded q column: "
    "pandas groupby contract), and the order/uniqueness of the group keys (assumed pandas contract)",
    "gA_norm when A is constant (<A^2> = <A>^2): the documented quotient is undefined there (precondition of the gA_norm clause)",
    "selections with no selected particle (N_A = 0): division by zero in both functions; excluded by the precondition N_A >= 1",
]
TRUSTED = [
    "assumed contract of np.histogram(a, bins=B, range=(lo,hi), weights=w): equal-width bins, last bin closed, weighted counts; complex "
    "weights accumulate componentwise (pyvc/lib.py np_histogram)",
    "assumed contract of boolean-mask row selection a[mask]: rows in increasing index order = a bijection sel:[0,count)->{j: mask_j}; "
    "Sigma re-indexing along it: sum_{p<count} g(sel(p)) = sum_{j<n} [mask_j] g(j) (pyvc/arr.py Masked.enumeration, pyvc/axioms.py)",
    "Sigma rules used as axiom instances: unfold, extensionality (also between an integer- and a real-valued sum: Z->R commutes with "
    "finite sums), constant summand sum_{t<n} c = n c, linearity for designated applications (vector = sum over components)",
    "assumed pandas contracts: DataFrame(0, index=range(n), columns=...), DataFrame(2-D array, columns=...), column get/set, `df[c] += v` "
    "(an integer zero column promoted to float keeps its values), join by position, round(8) = element-wise decimal rounding, "
    "Series.groupby(keys).mean().reset_index() = one row per distinct key with the group mean (pyvc/pandas_model.py)",
    "np.iscomplexobj (pyvc/libext/C13.py; used only by the proposed fix), np.linalg.norm, np.exp(i x) = cos x + i sin x, np.conj, np.trace, "
    "np.matmul, math.sqrt with sqrt(x)^2 = x for x >= 0",
    "callee contract of remove_pbc (proved in C02); nidealfac is inlined (own unit in C03)",
    "loop engine: a scalar accumulator that the body turns into an array is broadcast in the pre-state; the first iteration from the real "
    "(scalar) state is checked against the first iteration from the broadcast state (obligation loop-first-iteration, part of `safety`)",
    "proof-based matching of Sigma terms (contracts/C13.py match_sigmas): an engine Sigma-term is rewritten to the spec term only after "
    "their equality has been proved; the equalities are listed as their own obligations (N_A=number-selected, gA_norm:<A>,<A^2>)",
]

# ------------------------------------------------------------------------------------------------------------------
# conditional_gr


def _cond_array(ctx, kind, N, m, tr=None, species=None):
    """symbolic condition array of the given kind and the accessor el(i) -> scalar / list / matrix of spec values"""
    if kind == "bool":
        a = ctx.array("A", (N,), "bool")
        return a, lambda i: a.get((i,))
    if kind.startswith("species"):       # boolean selection of one species: A_i = [type_i == a]
        a = ctx.array_of((N,), lambda idx: sv.cmp("==", tr.typ(0, idx[0]), species), "bool", name="A")
        return a, lambda i: sv.cmp("==", tr.typ(0, i), species)
    if kind == "alltrue":
        a = ctx.array_of((N,), lambda idx: True, "bool", name="A")
        return a, lambda i: True
    if kind == "ones":
        a = ctx.array_of((N,), lambda idx: sv.to_frac(1.0), "float", name="A")
        return a, lambda i: sv.to_frac(1.0)
    if kind == "float":
        a = ctx.array("A", (N,), "float")
        return a, lambda i: a.get((i,))
    if kind in ("complex", "complex64"):
        a = ctx.array("A", (N,), "complex")
        if kind == "complex64":        # single-precision complex field: numpy dtype name complex64 (same value model)
            ctx.state.heap[a.sid].meta["dtype_name"] = "complex64"
        return a, lambda i: a.get((i,))
    if kind == "vector":
        a = ctx.array("A", (N, m), "float")
        return a, lambda i: [a.get((i, c)) for c in range(m)]
    if kind == "cvector":
        a = ctx.array("A", (N, m), "complex")
        return a, lambda i: [a.get((i, c)) for c in range(m)]
    if kind == "tensor":
        a = ctx.array("A", (N, m, m), "float")
        return a, lambda i: [[a.get((i, r, c)) for c in range(m)] for r in range(m)]
    raise ValueError(kind)


def _re_mul_conj(x, y):
    """Re(x conj y)"""
    x, y = sv.norm(x), sv.norm(y)
    if isinstance(x, sv.Cx) or isinstance(y, sv.Cx):
        x, y = sv.as_cx(x), sv.as_cx(y)
        return sv.add(sv.mul(x.re, y.re), sv.mul(x.im, y.im))
    return sv.mul(x, y)


def weight(kind, el, i, j, m):
    """w_ij of the statement"""
    if kind in BOOL_KINDS:
        return sv.ite(sv.and_(el(i), el(j)), 1, 0)
    if kind in ("float", "complex", "complex64", "ones"):
        return _re_mul_conj(el(i), el(j))
    if kind in ("vector", "cvector"):
        ai, aj = el(i), el(j)
        return _sum([_re_mul_conj(ai[c], aj[c]) for c in range(m)])
    if kind == "tensor":
        ai, aj = el(i), el(j)
        return _sum([sv.mul(ai[r][c], aj[c][r]) for r in range(m) for c in range(m)])
    raise ValueError(kind)


def cntw_spec(inp, w, k, B):
    """sum_{i < N-1} sum_{j = i+1 .. N-1} w(i,j) [inbin_k |D(i,j)|]; w None = 1"""
    tr, N, rd, p = inp["tr"], inp["N"], inp["rd"], inp["p"]
    hi = sv.mul(B, rd)
    width = sv.div(sv.sub(hi, 0), B)

    def edge(q):
        return sv.add(0, sv.mul(q, width))

    def inbin(x):
        return sv.or_(sv.and_(sv.cmp("<=", edge(k), x), sv.cmp("<", x, edge(sv.add(k, 1)))),
                      sv.and_(sv.cmp("==", k, sv.sub(B, 1)), sv.cmp("==", x, hi)))

    def dist(i, j):
        D = min_image(tr, 0, i, j, p)
        return sv.sqrt(_sum([sv.mul(x, x) for x in D]))

    def inner(i):
        def body(jj):
            j = A.simp(sv.add(sv.add(i, 1), jj))
            return sv.ite(inbin(dist(i, j)), (1 if w is None else w(i, j)), 0)
        return Sum(0, A.simp(sv.sub(sv.sub(N, 1), i)), body)
    return Sum(0, A.simp(sv.sub(N, 1)), inner)


def gA_spec(inp, cnt, NA, k):
    """2 V cnt / (N_A^2 shell_k)"""
    d, rd = inp["d"], inp["rd"]
    V = inp["V"]
    e0, e1 = sv.mul(k, rd), sv.mul(sv.add(k, 1), rd)
    shell = sv.mul(sv.mul(nidealfac_spec(d), sv.PI), sv.sub(sv.power(e1, d), sv.power(e0, d)))
    return sv.div(sv.mul(sv.mul(2, V), cnt), sv.mul(sv.mul(NA, NA), shell))


def match_sigmas(ctx, unit, out, engine_sigmas, specs):
    """Sigma-terms are hash-consed per lambda-lifted body, but the lifted form depends on z3's argument ordering, so the
    engine's term for e.g. sum_i A_i need not be the spec's term syntactically.  For every engine Sigma-application with the
    sort and range of a spec term, find the spec term it equals: syntactically, else by proof (Sigma-extensionality, small
    query).  Returns (pairs [(engine z3 term, spec z3 term)], goals [z3 equalities that were used], rest [unmatched engine terms])."""
    from pyvc import solve
    from pyvc.vc import _opts
    pairs, goals, rest = [], [], []
    assum = out.state.all_assumptions()
    for e in engine_sigmas:
        hit = None
        for T in specs:
            t = sv.znum(T)
            if sv.is_conc(T) or sigma.sigma_def_of(t) is None or t.sort() != e.sort():
                continue
            if not (z3.simplify(t.arg(0) - e.arg(0)).eq(z3.IntVal(0)) and z3.simplify(t.arg(1) - e.arg(1)).eq(z3.IntVal(0))):
                continue
            if e.eq(t):
                hit = t
                break
            v = solve.prove(assum, e == t, 4, _opts(unit.solver_opts, ctx))
            if v.status == solve.PROVED:
                hit = t
                break
        if hit is None:
            rest.append(e)
        else:
            pairs.append((e, hit))
            goals.append(e == hit)
    return pairs, goals, rest


def _conj(goals):
    return z3.And(*goals) if goals else z3.BoolVal(True)


GR_KINDS = {
    # kind: (conditiontype argument, has gA_norm)
    "bool": (None, False), "float": (None, True), "complex": (None, False), "complex64": (None, False),
    "vector": ("vector", False), "cvector": ("vector", False), "tensor": ("tensor", False),
    "species1": (None, False), "species2": (None, False), "alltrue": (None, False), "ones": (None, True),
}
BOOL_KINDS = ("bool", "species1", "species2", "alltrue")


class CondGr(Unit):
    module = MOD_GR
    qualname = "conditional_gr"
    prop = "C13"
    summaries = PBC
    timeout = 8
    solver_opts = {"rounds": 4, "const_sum": True}

    def cases(self):
        cs = [f"d={d}/{k}" for d in (2, 3) for k in GR_KINDS]
        # a real scalar stored in an INTEGER dtype (coordination numbers, counts): still "a real scalar A", not a selection
        cs += ["d=2/vector/m=3", "d=3/badtype", "d=2/float/int-dtype", "d=3/float/int-dtype"]
        return cs

    def _parse(self, case):
        parts = case.split("/")
        d = int(parts[0][2:])
        kind = parts[1]
        m = int(parts[2][2:]) if len(parts) > 2 and parts[2].startswith("m=") else d
        return d, kind, m

    def setup(self, ctx, case):
        d, kind, m = self._parse(case)
        tr = Traj(ctx, d, T=1)
        N = tr.N
        ctx.assume(N >= 2)
        rd = ctx.real("rdelta")
        ctx.assume(rd > 0)
        p = [ctx.int(f"ppp_{k}") for k in range(d)]
        for k in range(d):
            ctx.assume(sv.or_(sv.cmp("==", p[k], 0), sv.cmp("==", p[k], 1)))
        ppp = A.from_nested(p, "int")
        from contracts.C02 import _inv_spec
        ctx.array_fact("HM", lambda s, a, b: sv.zb(sv.cmp("!=", _inv_spec(tr.Hm(sv.SV(s)), d)[0], 0)))
        # at least one bin: min L >= 2 rdelta (so every box length is positive)
        Ls = [tr.bl(0, c) for c in range(d)]
        for L in Ls:
            ctx.assume(sv.cmp(">=", L, sv.mul(2, rd)))
        minL = Ls[0]
        for L in Ls[1:]:
            minL = sv.minv(minL, L)
        Bspec = sv.trunc(sv.div(sv.div(minL, 2), rd))
        V = Ls[0]
        for L in Ls[1:]:
            V = sv.mul(V, L)
        snap = tr.snapshot(0)
        inp = dict(tr=tr, N=N, d=d, rd=rd, p=p, kind=kind, m=m, Bspec=Bspec, V=V, k=ctx.int("k"), T=1)
        if kind == "badtype":
            cond, el = _cond_array(ctx, "float", N, m)
            ct = "matrix"
        else:
            sp = None
            if kind.startswith("species"):
                sp = int(kind[-1])
                inp["a"] = sp
            cond, el = _cond_array(ctx, kind, N, m, tr=tr, species=sp)
            if case.endswith("/int-dtype"):
                ai = ctx.array("Aint", (N,), "int")
                cond, el = ai, (lambda i, ai=ai: sv.to_real(ai.get((i,))))
            ct = GR_KINDS[kind][0]
        inp["el"] = el
        inp["cond"] = cond
        inp["snap"], inp["ppp"] = snap, ppp
        if kind in BOOL_KINDS:
            NA = Sum(0, N, lambda i: sv.ite(el(i), 1, 0))
            ctx.assume(sv.cmp(">=", NA, 1))         # at least one selected particle
        else:
            NA = N
        inp["NA"] = NA
        if GR_KINDS.get(kind, (None, False))[1] and kind != "ones":
            # the normalised variant is defined when A is not constant: <A^2> != <A>^2
            sumA, sumA2 = Sum(0, N, lambda i: el(i)), Sum(0, N, lambda i: sv.mul(el(i), el(i)))
            if case.endswith("/int-dtype"):
                # the same two numbers written as integer sums (sum_i A_i and sum_i A_i^2 of integers are integers)
                sumA = Sum(0, N, lambda i: cond.get((i,)))
                sumA2 = Sum(0, N, lambda i: sv.mul(cond.get((i,)), cond.get((i,))))
            mean, msq = sv.div(sv.to_real(sumA), N), sv.div(sv.to_real(sumA2), N)
            inp["mean"], inp["msq"], inp["sumA"], inp["sumA2"] = mean, msq, sumA, sumA2
            ctx.assume(sv.cmp("!=", msq, sv.mul(mean, mean)))
        return [snap, cond], {"conditiontype": ct, "ppp": ppp, "rdelta": rd}, inp

    def clause_names(self, case):
        d, kind, m = self._parse(case)
        if kind == "badtype":
            return []
        names = ["columns", "rows=int(Lmin/2/rdelta)", "r=bin-centre", "bin-edges=k*rdelta", "gr:count", "gr:normalisation",
                 "gA:count", "gA:normalisation", "div0"]
        if kind == "float":
            names += ["gA_norm:<A>,<A^2>", "gA_norm"]
        if kind in BOOL_KINDS:
            names += ["N_A=number-selected"]
        if kind == "vector" and m == d:
            names += ["vector:count=sum-of-component-counts", "vector:gA=sum-of-component-gA"]
        if kind.startswith("species"):
            names += ["reduction:count=cnt_aa(C03)", "reduction:gA=g_aa(C03)"]
        if kind in ("alltrue", "ones"):
            names += ["reduction:count=cnt_total(C03)", "reduction:gA=g_total(C03)", "reduction:N_A=N", "reduction:cnt_total(C03)=cnt_1", "reduction:gA=gr"]
        return names

    def may_only_raise(self, case):
        return case.endswith("badtype")

    def raises(self, ctx, case, inp, out):
        return inp["kind"] == "badtype" and out.exc == "ValueError"

    def ensures(self, ctx, case, inp, out):
        from pyvc.interp import Ref
        from pyvc.pandas_model import df_content
        kind, m, k, N = inp["kind"], inp["m"], inp["k"], inp["N"]
        if kind == "badtype":
            yield "raises-ValueError", False
            return
        res = out.value
        want_order = ["r", "gr", "gA"] + (["gA_norm"] if GR_KINDS[kind][1] else [])
        isdf = isinstance(res, Ref) and res.kind == "df"
        ok = isdf and df_content(res)["order"] == want_order
        yield "columns", bool(ok)
        if not (isdf and all(nm in df_content(res)["cols"] for nm in want_order)):
            return
        c = df_content(res)["cols"]
        Bt = df_content(res)["n"]          # number of rows = number of bins (a term over the inputs)
        yield "rows=int(Lmin/2/rdelta)", sv.cmp("==", Bt, inp["Bspec"])
        # every bin-wise clause is proved for an arbitrary bin number B >= 1 (universal generalisation of the row count)
        Bpos = sv.cmp(">=", Bt, 1)
        inr = sv.and_(sv.cmp(">=", k, 0), sv.cmp("<", k, Bt), Bpos)

        def gen(goal, extra=()):
            g, _ = sv.generalize(goal, [Bt] + list(extra), "B")
            return g
        rk = c["r"].get((k,))
        yield "r=bin-centre", gen(sv.implies(inr, sv.cmp("==", rk, sv.sub(sv.mul(sv.add(k, 1), inp["rd"]), sv.div(inp["rd"], 2))))), {"ring_only": True}
        # the bin edges used by the count spec (numpy's lo + k (hi - lo)/B on [0, B rdelta]) are k rdelta
        hi = sv.mul(Bt, inp["rd"])
        yield "bin-edges=k*rdelta", gen(sv.implies(inr, sv.cmp("==", sv.add(0, sv.mul(k, sv.div(sv.sub(hi, 0), Bt))), sv.mul(k, inp["rd"])))), {"ring_only": True}
        NA = inp["NA"]
        el = inp["el"]
        raws = {}
        for name, w, na in (("gr", None, N), ("gA", (lambda i, j: weight(kind, el, i, j, m)), NA)):
            v = sv.norm(c[name].get((k,)))
            if isinstance(v, sv.Cx):
                # the statement's weights Re(A_i conj A_j) are real: a complex-valued column is not the specified one
                yield f"{name}:count", False
                yield f"{name}:normalisation", False
                continue
            sig = outer_sigmas(sv.zr(v))
            if name == "gA" and na is not N:
                # the selected count as the code computes it = number of selected particles; from here on written as the spec term
                prs, gls, sig = match_sigmas(ctx, self, out, sig, [na])
                yield "N_A=number-selected", (_conj(gls) if len(prs) == 1 else False)
                if prs:
                    v = sv.SV(z3.substitute(sv.zr(v), *prs))
            if len(sig) != 1:
                yield f"{name}:count", False
                yield f"{name}:normalisation", False
                continue
            raw = sv.SV(sig[0])
            raws[name] = (v, raw)
            want = cntw_spec(inp, w, k, Bt)
            yield f"{name}:count", gen(sv.implies(inr, sv.cmp("==", raw, want))), {"timeout": 5}
            gn = gen(sv.implies(sv.and_(inr, sv.cmp(">=", na, 1)), sv.cmp("==", v, gA_spec(inp, raw, na, k))), [raw] + ([na] if na is not N else []))
            yield f"{name}:normalisation", gn, {"ring_only": True}
            if name == "gA" and (kind.startswith("species") or kind in ("alltrue", "ones")):
                # reductions to the C03 specs (T = 1 frame): the partial g_aa of the selected species / the total g(r)
                ab = (inp["a"], inp["a"]) if kind.startswith("species") else None
                inp03 = dict(tr=inp["tr"], T=1, N=N, rd=inp["rd"], B=Bt, p=inp["p"], d=inp["d"], V=inp["V"],
                             Na={(ab[0] - 1 if ab else 0): na})
                cnt03 = c03_cnt_spec(inp03, ab, k)
                tag = "aa" if ab else "total"
                yield f"reduction:count=cnt_{tag}(C03)", gen(sv.implies(inr, sv.cmp("==", raw, cnt03)))
                if ab:
                    g2 = gen(sv.implies(sv.and_(inr, sv.cmp(">=", na, 1)), sv.cmp("==", v, g_spec(inp03, ab, raw, k))), [raw, na])
                else:
                    # N_A = N is its own obligation (constant-sum rule); the identity is then shown with N_A rewritten to N
                    yield "reduction:N_A=N", sv.cmp("==", na, N)
                    g2 = sv.zb(sv.implies(inr, sv.cmp("==", v, g_spec(inp03, ab, raw, k))))
                    if na is not N:
                        g2 = z3.substitute(g2, (sv.znum(na), sv.znum(N)))
                    g2 = gen(g2, [raw])
                yield f"reduction:gA=g_{tag}(C03)", g2, {"ring_only": True}
                if not ab:
                    # gA = the function's own total column: both counts equal the same spec count (gr:count, reduction:count=...),
                    # N_A = N (above); remaining identity with the common count generalised
                    vgr = c["gr"].get((k,))
                    sgr = outer_sigmas(sv.zr(vgr))
                    yield "reduction:cnt_total(C03)=cnt_1", gen(sv.implies(inr, sv.cmp("==", cnt03, cntw_spec(inp, None, k, Bt))))
                    if len(sgr) == 1:
                        Ri = z3.Int("R_count")
                        g3 = sv.zb(sv.implies(inr, sv.cmp("==", v, vgr)))
                        pairs = [(t, Ri if z3.is_int(t) else z3.ToReal(Ri)) for t in (sig[0], sgr[0])]
                        pairs += [(sv.znum(na), sv.znum(N))] if na is not N else []
                        g3 = z3.substitute(g3, *pairs)
                        yield "reduction:gA=gr", gen(g3), {"ring_only": True}
                    else:
                        yield "reduction:gA=gr", False
        if kind == "vector" and m == inp["d"] and "gA" in raws:
            # "a vector field equals the sum over its components": second symbolic run of the REAL body per component with the
            # scalar field A[:, c] (conditiontype None); gA_vector(k) = sum_c gA_{A_c}(k)
            from pyvc.interp import FuncVal, load_module
            mod = load_module(MOD_GR)
            fv = FuncVal(mod, mod.defs["conditional_gr"])
            cr = inp["cond"].reader()
            comp_cells, comp_raw = [], []
            for cc in range(m):
                cond_c = A.new_arr((N,), lambda idx, cc=cc: cr((idx[0], cc)), "float")
                ctx.interp.depth += 1
                try:
                    res_c = ctx.interp.call_function(fv, [inp["snap"], cond_c], {"conditiontype": None, "ppp": inp["ppp"], "rdelta": inp["rd"]})
                finally:
                    ctx.interp.depth -= 1
                cell = df_content(res_c)["cols"]["gA"].get((k,))
                sg = outer_sigmas(sv.zr(cell))
                comp_cells.append(cell)
                comp_raw.append(sg[0] if len(sg) == 1 else None)
            vv, rawv = raws["gA"]
            if all(r is not None for r in comp_raw):
                lin = [(sv.zr(rawv), comp_raw)]
                tot = _sum([sv.SV(r) for r in comp_raw])
                yield ("vector:count=sum-of-component-counts", gen(sv.implies(inr, sv.cmp("==", rawv, tot))),
                       {"solver_opts": dict(self.solver_opts, sigma_linear=lin), "timeout": 20})
                Rs = [z3.Real(f"R_comp{cc}") for cc in range(m)]
                lhs = z3.substitute(sv.zr(vv), (sv.zr(rawv), sv.zr(_sum([sv.SV(r) for r in Rs]))))
                rhs = sv.zr(_sum([sv.SV(z3.substitute(sv.zr(cell), (r, R))) for cell, r, R in zip(comp_cells, comp_raw, Rs)]))
                yield "vector:gA=sum-of-component-gA", gen(z3.Implies(sv.zb(inr), lhs == rhs)), {"ring_only": True}
            else:
                yield "vector:count=sum-of-component-counts", False
                yield "vector:gA=sum-of-component-gA", False
        # divisors introduced by the code: N, N_A (>= 1 by precondition), V = prod L > 0, shell_k > 0
        rd = inp["rd"]
        shell_pos = sv.cmp(">", sv.sub(sv.power(sv.mul(sv.add(k, 1), rd), inp["d"]), sv.power(sv.mul(k, rd), inp["d"])), 0)
        yield "div0", sv.implies(sv.and_(sv.cmp(">=", k, 0)), sv.and_(shell_pos, sv.cmp(">", inp["V"], 0), sv.cmp(">=", NA, 1)))
        if kind == "float":
            v = c["gA_norm"].get((k,))
            gA = c["gA"].get((k,))
            inA = {t.get_id() for t in outer_sigmas(sv.zr(gA))}
            sg = [t for t in outer_sigmas(sv.zr(v)) if t.get_id() not in inA]
            prs, gls, rest = match_sigmas(ctx, self, out, sg, [inp["sumA"], inp["sumA2"]])
            yield "gA_norm:<A>,<A^2>", (_conj(gls) if not rest and len(prs) == 2 else False)
            if prs:
                v = sv.SV(z3.substitute(sv.zr(v), *prs))
            mean, msq = inp["mean"], inp["msq"]
            want = sv.div(sv.sub(gA, sv.mul(mean, mean)), sv.sub(msq, sv.mul(mean, mean)))
            yield "gA_norm", gen(sv.implies(inr, sv.cmp("==", v, want))), {"ring_only": True}

    def replay(self, case, clause, model, seed):
        d, kind, m = self._parse(case)
        return _replay_cgr(d, kind, m, clause, model, seed, int_dtype=case.endswith("/int-dtype"))


def _brute_gr(pos, H, ppp, rdelta, B, W):
    """sum over ordered pairs i != j of W[i, j] [ |min-image(r_j - r_i)| in bin k ] (numpy bin convention on [0, B rdelta]);
    returns (hist (B,), near_edge flag)"""
    import numpy as np
    N = len(pos)
    Hinv = np.linalg.inv(H)
    hist = np.zeros(B)
    near = False
    for i in range(N):
        for j in range(N):
            if i == j:
                continue
            mm = (pos[j] - pos[i]) @ Hinv
            mm = mm - np.rint(mm) * ppp
            r = float(np.linalg.norm(mm @ H))
            if abs(r / rdelta - round(r / rdelta)) < 1e-9:
                near = True
            if r > B * rdelta:
                continue
            b = B - 1 if r >= B * rdelta else min(int(r / rdelta), B - 1)
            hist[b] += W[i, j]
    return hist, near


def _replay_cgr(d, kind, m, clause, model, seed, int_dtype=False):
    """real conditional_gr on seeded configurations (orthogonal and triclinic cells, mixed periodicity) against the brute-force
    weighted ordered-pair histogram of the statement"""
    import importlib

    import logging

    import numpy as np
    logging.disable(logging.CRITICAL)
    G = importlib.import_module(MOD_GR)
    RUm = importlib.import_module("PyMatterSim.reader.reader_utils")
    rng = np.random.default_rng(seed + 31 * d + sum(map(ord, kind)))
    tried = 0
    if kind == "badtype":
        N = 5
        L = np.full(d, 4.0)
        snap = RUm.SingleSnapshot(timestep=0, nparticle=N, particle_type=np.ones(N, dtype=int), positions=rng.uniform(0, 4, size=(N, d)), boxlength=L,
                                  boxbounds=np.column_stack([np.zeros(d), L]), realbounds=np.column_stack([np.zeros(d), L]), hmatrix=np.diag(L))
        for ct in ("matrix", "Vector", "scalar"):
            try:
                G.conditional_gr(snap, rng.uniform(size=N), conditiontype=ct, ppp=np.ones(d, dtype=int), rdelta=0.5)
                return {"ran": True, "failed": True, "detail": f"conditiontype={ct!r} does not raise ValueError"}
            except ValueError:
                pass
            except Exception as e:
                return {"ran": True, "failed": True, "detail": f"conditiontype={ct!r} raises {type(e).__name__}, expected ValueError"}
        return {"ran": True, "failed": False, "searched": 3}
    for trial in range(10):
        N = int(rng.integers(2, 14)) if trial else 2
        L = rng.uniform(3.0, 6.0, size=d)
        H = np.diag(L)
        if trial % 2 == 1:
            H[1, 0] = rng.uniform(-0.4, 0.4) * L[0]
            if d == 3:
                H[2, 0] = rng.uniform(-0.3, 0.3) * L[0]
                H[2, 1] = rng.uniform(-0.3, 0.3) * L[1]
        ppp = np.array([int(rng.integers(0, 2)) for _ in range(d)]) if trial >= 4 else np.ones(d, dtype=int)
        rdelta = float(rng.choice([0.25, 0.4, 0.5]))
        pos = rng.uniform(0, 1, size=(N, d)) @ H
        types = np.array([1 + (i % 2) for i in range(N)])
        rng.shuffle(types)
        ct = GR_KINDS[kind][0]
        if kind == "bool":
            cond = rng.uniform(size=N) < 0.6
            if not cond.any():
                cond[0] = True
        elif kind.startswith("species"):
            cond = types == int(kind[-1])
            if not cond.any():
                continue
        elif kind == "alltrue":
            cond = np.ones(N, dtype=bool)
        elif kind == "ones":
            cond = np.ones(N)
        elif kind == "float" and int_dtype:
            cond = rng.integers(-3, 16, size=N).astype(np.int64 if trial % 2 else np.int32)      # e.g. coordination numbers: a real scalar in an integer dtype
            if np.all(cond == cond[0]):
                cond[0] += 1
        elif kind == "float":
            cond = rng.normal(size=N)
        elif kind == "complex":
            cond = rng.normal(size=N) + 1j * rng.normal(size=N)
        elif kind == "complex64":
            cond = (rng.normal(size=N) + 1j * rng.normal(size=N)).astype(np.complex64)
        elif kind == "vector":
            cond = rng.normal(size=(N, m))
        elif kind == "cvector":
            cond = rng.normal(size=(N, m)) + 1j * rng.normal(size=(N, m))
        elif kind == "tensor":
            cond = rng.normal(size=(N, m, m))
            if trial % 3 == 0:
                cond = cond + np.transpose(cond, (0, 2, 1))     # symmetric tensors in a third of the samples
        snap = RUm.SingleSnapshot(timestep=0, nparticle=N, particle_type=types.copy(), positions=pos.copy(), boxlength=L.copy(),
                                  boxbounds=np.column_stack([np.zeros(d), L]), realbounds=np.column_stack([np.zeros(d), L]), hmatrix=H.copy())
        inputs = {"d": d, "kind": kind, "N": N, "hmatrix": H.tolist(), "ppp": ppp.tolist(), "rdelta": rdelta, "positions": pos.tolist(),
                  "condition": np.asarray(cond).tolist() if np.asarray(cond).dtype != complex else [str(x) for x in np.asarray(cond).ravel()], "conditiontype": ct}
        try:
            import warnings
            with warnings.catch_warnings():
                warnings.simplefilter("ignore")
                res = G.conditional_gr(snap, cond.copy(), conditiontype=ct, ppp=ppp, rdelta=rdelta)
        except Exception as e:
            return {"ran": True, "failed": True, "detail": f"raises {type(e).__name__}: {e}", "inputs": inputs, "searched": tried}
        tried += 1
        B = int(L.min() / 2.0 / rdelta)
        V = float(np.prod(L))
        edges = np.arange(B + 1) * rdelta
        shell = (4.0 / 3 if d == 3 else 1.0) * np.pi * (edges[1:] ** d - edges[:-1] ** d)
        if kind in BOOL_KINDS:
            a = cond.astype(float)
            W = np.outer(a, a)
            NA = int(cond.sum())
        elif kind in ("float", "ones", "complex", "complex64"):
            W = np.real(np.outer(cond.astype(complex), np.conj(cond.astype(complex))))
            NA = N
        elif kind in ("vector", "cvector"):
            W = np.real(np.einsum("ic,jc->ij", cond, np.conj(cond)))
            NA = N
        else:
            W = np.einsum("iab,jba->ij", cond, cond)
            NA = N
        want_cols = ["r", "gr", "gA"] + (["gA_norm"] if GR_KINDS[kind][1] else [])
        if list(res.columns) != want_cols or len(res) != B:
            if clause in ("", "columns") or len(res) != B or any(cn not in res.columns for cn in want_cols):
                return {"ran": True, "failed": True, "detail": f"columns {list(res.columns)} / {len(res)} rows, expected {want_cols} / {B}", "inputs": inputs}
        h1, near = _brute_gr(pos, H, ppp, rdelta, B, np.ones((N, N)))
        hA, _ = _brute_gr(pos, H, ppp, rdelta, B, W)
        if near:
            continue
        want = {"r": edges[1:] - rdelta / 2, "gr": V * h1 / (N * N * shell), "gA": V * hA / (NA * NA * shell)}
        if kind == "float":
            mean, msq = cond.mean(), (cond ** 2).mean()
            want["gA_norm"] = (want["gA"] - mean ** 2) / (msq - mean ** 2)
        if kind in ("alltrue", "ones"):
            want["gA"] = want["gr"]          # A = 1 reproduces the total
        for name, w in want.items():
            if np.iscomplexobj(res[name].values) and np.abs(np.imag(res[name].values)).max() > 1e-9:
                return {"ran": True, "failed": True, "searched": tried, "inputs": inputs,
                        "detail": f"column {name} is complex-valued (imaginary part up to {np.abs(np.imag(res[name].values)).max()!r}); the statement's weights Re(A_i conj A_j) are real"}
            got = np.real(res[name].values).astype(float)
            rt, at = (1e-5, 1e-6) if kind == "complex64" else (1e-9, 1e-12)      # single-precision input: single-precision products
            if not np.allclose(got, w, rtol=rt, atol=at):
                kb = int(np.argmax(np.abs(got - w)))
                return {"ran": True, "failed": True, "searched": tried, "inputs": inputs,
                        "detail": f"column {name}, bin {kb}: got {got[kb]!r}, expected {w[kb]!r} (weighted ordered-pair histogram, 2 V cnt / (N_A^2 shell))"}
        if kind.startswith("species") or kind == "alltrue":
            # the same numbers from the real gr class (binary system / total), one frame
            S = RUm.Snapshots(nsnapshots=1, snapshots=[snap])
            ref = G.gr(S, ppp=ppp, rdelta=rdelta).getresults()
            col = f"gr{kind[-1]}{kind[-1]}" if kind.startswith("species") else "gr"
            if len(set(types.tolist())) == 2 and not np.allclose(res["gA"].values, ref[col].values, rtol=1e-9, atol=1e-12):
                return {"ran": True, "failed": True, "searched": tried, "inputs": inputs, "detail": f"gA differs from gr(...).getresults()[{col!r}]"}
    return {"ran": True, "failed": False, "searched": tried}




# ------------------------------------------------------------------------------------------------------------------
# conditional_sq

SQ_KINDS = ("bool", "species1", "alltrue", "float", "ones", "complex", "vector", "cvector")
SQ_BOOL = ("bool", "species1", "alltrue")


def _unround8(v):
    """v = round8(x) -> x (None if v is not such an application)"""
    t = sv.znum(v)
    if z3.is_app(t) and t.decl().name() == "round8" and t.num_args() == 1:
        return sv.SV(t.arg(0))
    return None


def sq_q(inp, m, c):
    """component c of the m-th wave vector: (2 pi / L_c) n_mc  (docs/sq.md)"""
    return sv.mul(sv.to_real(inp["qv"].get((m, c))), sv.div(sv.mul(2, sv.PI), inp["tr"].bl(0, c)))


def sq_mode_sum(inp, m, comp=None):
    """sum_i A_i exp(-i q_m . r_i) as a Cx of two Sigma terms (bool: A_i in {0,1}, i.e. the sum over the selected particles);
    comp selects the vector component of A"""
    tr, N, d, kind, el = inp["tr"], inp["N"], inp["d"], inp["kind"], inp["el"]

    def body(i):
        theta = _sum([sv.mul(sq_q(inp, m, c), tr.pos(0, i, c)) for c in range(d)])
        e = sv.exp(sv.Cx(0, sv.neg(theta)))
        a = el(i)
        if comp is not None:
            a = a[comp]
        if kind in SQ_BOOL:
            return sv.Cx(sv.ite(a, e.re, 0), sv.ite(a, e.im, 0))
        return sv.mul(sv.as_cx(a), e)
    return sv.as_cx(Sum(0, N, body))


class CondSq(Unit):
    module = MOD_SQ
    qualname = "conditional_sq"
    prop = "C13"
    timeout = 8
    solver_opts = {"rounds": 4, "const_sum": True}

    def cases(self):
        # qvector is an integer array (what utils.wavevector produces) in the main cases; two cases pass the same integer vectors as a
        # float64 array (e.g. reloaded with np.loadtxt): conversions that do not copy then alias the caller's array
        return [f"d={d}/{k}" for d in (2, 3) for k in SQ_KINDS] + ["d=2/ones/qvector-float64", "d=3/float/qvector-float64"]

    def _parse(self, case):
        parts = case.split("/")
        return int(parts[0][2:]), parts[1]

    def _qfloat(self, case):
        return case.endswith("/qvector-float64")

    def setup(self, ctx, case):
        d, kind = self._parse(case)
        tr = Traj(ctx, d, T=1)
        N = tr.N
        nq = ctx.int("nq")
        ctx.assume(nq >= 1)
        for c in range(d):
            ctx.assume(sv.cmp(">", tr.bl(0, c), 0))
        snap = tr.snapshot(0)
        if self._qfloat(case):          # float64 array holding integer values n_m
            qi = ctx.array("QV", (nq, d), "int")
            qv = ctx.array_of((nq, d), lambda idx: sv.to_real(qi.get(idx)), "float", name="QVf")
        else:
            qv = ctx.array("QV", (nq, d), "int")
        ctx.state.origin[qv.sid] = "argument qvector"
        sp = 1 if kind == "species1" else None
        cond, el = _cond_array(ctx, kind, N, d, tr=tr, species=sp)
        if kind in SQ_BOOL:
            NA = Sum(0, N, lambda i: sv.ite(el(i), 1, 0))
            ctx.assume(sv.cmp(">=", NA, 1))         # at least one selected particle
        else:
            NA = N
        ctx.state.origin.setdefault(cond.sid, "argument condition")
        inp = dict(tr=tr, N=N, d=d, nq=nq, kind=kind, el=el, qv=qv, m=ctx.int("m"), g=ctx.int("g"), NA=NA, watch=[qv.sid, cond.sid])
        return [snap, qv, cond], {}, inp

    def _fft_cols(self, kind, d):
        return [f"FFT{c}" for c in range(d)] if kind in ("vector", "cvector") else ["FFT"]

    def clause_names(self, case):
        d, kind = self._parse(case)
        names = ["frame:qvector-and-condition-not-written", "columns", "rows=one-per-wave-vector", "q-components=2pi*n/L", "q=|q-vector|", "rounded-to-8-decimals"]
        for f in self._fft_cols(kind, d):
            names += [f"{f}:sum=sum_i-A_i-exp(-iq.r_i)", f"{f}:normalisation=1/sqrt(N_A)"]
        names += ["Sq=|FFT|^2", "Sq=|sum|^2/N_A", "average:columns", "average:mean-of-Sq-over-equal-rounded-|q|"]
        if kind in SQ_BOOL:
            names += ["N_A=number-selected"]
        if kind in ("species1", "alltrue", "ones"):
            names += ["reduction:Sq=C04-density-mode-spec"]
        if kind == "alltrue":
            names += ["reduction:N_A=N"]
        return names

    def ensures(self, ctx, case, inp, out):
        from pyvc.interp import Ref
        from pyvc.pandas_model import df_content
        d, kind, m, g, N, nq, NA = inp["d"], inp["kind"], inp["m"], inp["g"], inp["N"], inp["nq"], inp["NA"]
        res = out.value
        # purity of the call (a second call with the same arrays must see the same inputs): no store event reaches the caller's arrays
        written = [e for e in out.state.events if e[0] == "store" and e[1] in inp["watch"]]
        if not written:
            yield "frame:qvector-and-condition-not-written", True
        for e in written:
            yield "frame:qvector-and-condition-not-written", (z3.Not(z3.And(*e[3])) if e[3] else False)
        fcols = self._fft_cols(kind, d)
        want_order = [f"q{c}" for c in range(d)] + ["q", "Sq"] + fcols
        ok = isinstance(res, tuple) and len(res) == 2 and all(isinstance(r, Ref) and r.kind == "df" for r in res) \
            and df_content(res[0])["order"] == want_order
        yield "columns", bool(ok)
        if not ok:
            return
        c = df_content(res[0])["cols"]
        yield "rows=one-per-wave-vector", sv.cmp("==", df_content(res[0])["n"], nq)
        inr = sv.and_(sv.cmp(">=", m, 0), sv.cmp("<", m, nq))
        cells = {nm: c[nm].get((m,)) for nm in want_order}
        raw = {}
        allr = True
        for nm, v in cells.items():
            parts = (v.re, v.im) if isinstance(sv.norm(v), sv.Cx) else (v,)
            un = [_unround8(x) for x in parts]
            if any(u is None for u in un):
                allr = False
            raw[nm] = un
        yield "rounded-to-8-decimals", bool(allr)
        if not allr:
            return
        yield "q-components=2pi*n/L", sv.implies(inr, sv.and_(*[sv.cmp("==", raw[f"q{cc}"][0], sq_q(inp, m, cc)) for cc in range(d)])), {"ring_only": True}
        qq = _sum([sv.mul(sq_q(inp, m, cc), sq_q(inp, m, cc)) for cc in range(d)])
        qarg = sv.znum(raw["q"][0])
        is_sqrt = z3.is_app(qarg) and qarg.decl().name() == "sqrt"
        if is_sqrt:
            yield "q=|q-vector|", sv.implies(inr, sv.cmp("==", sv.SV(qarg.arg(0)), qq)), {"ring_only": True}
        else:
            yield "q=|q-vector|", sv.implies(inr, sv.cmp("==", raw["q"][0], sv.sqrt(qq)))
        # the selected count as the code computes it = number of selected particles; from here on written as the spec term
        if NA is not N:
            cand = []
            for un in raw.values():
                for u in un:
                    for t in outer_sigmas(sv.zr(u)):
                        for a in [t] + list(t.children()):
                            if z3.is_int(a) and sigma.sigma_def_of(a) is not None and all(not a.eq(x) for x in cand):
                                cand.append(a)
            prs, gls, rest = match_sigmas(ctx, self, out, cand, [NA])
            yield "N_A=number-selected", (_conj(gls) if prs and not rest else False)
            if prs:
                raw = {nm: [sv.SV(z3.substitute(sv.zr(u), *prs)) for u in un] for nm, un in raw.items()}
        # Fourier sums
        sums = []
        rootNA = sv.sqrt(sv.to_real(NA))
        for ci, f in enumerate(fcols):
            comp = ci if len(fcols) > 1 else None
            spec = sq_mode_sum(inp, m, comp)
            goals_sum, goals_norm = [], []
            for part, got, want in (("re", raw[f][0], spec.re), ("im", raw[f][1], spec.im)):
                sig = [t for t in outer_sigmas(sv.zr(got)) if not (NA is not N and t.eq(sv.znum(NA)))]
                if sv.is_conc(want) or len(sig) != 1:
                    goals_sum.append(False)
                    goals_norm.append(False)
                    continue
                e = sv.SV(sig[0])
                sums.append((e, want))
                goals_sum.append(sv.implies(inr, sv.cmp("==", e, want)))
                gn, _ = sv.generalize(sv.implies(inr, sv.cmp("==", got, sv.div(e, rootNA))), [e], "S")
                goals_norm.append(sv.SV(gn))
            yield f"{f}:sum=sum_i-A_i-exp(-iq.r_i)", (sv.and_(*goals_sum) if all(x is not False for x in goals_sum) else False), {"timeout": 5}
            yield f"{f}:normalisation=1/sqrt(N_A)", (sv.and_(*goals_norm) if all(x is not False for x in goals_norm) else False), {"ring_only": True}
        sqarg = raw["Sq"][0]
        mod2 = _sum([sv.add(sv.mul(raw[f][0], raw[f][0]), sv.mul(raw[f][1], raw[f][1])) for f in fcols])
        yield "Sq=|FFT|^2", sv.implies(inr, sv.cmp("==", sqarg, mod2)), {"ring_only": True}
        # the statement's formula |sum_i A_i exp(-i q.r_i)|^2 / N_A, with the sums generalised and s = sqrt(N_A), s^2 = N_A
        if len(sums) == 2 * len(fcols):
            tot = _sum([sv.mul(e, e) for e, _ in sums])
            # s := sqrt(N_A) and N_A = s^2 (sqrt axiom, N_A >= 1): after these rewrites a rational identity in the sums and s
            goal = sv.zb(sv.implies(inr, sv.cmp("==", sqarg, sv.div(tot, sv.to_real(NA)))))
            s_ = sv.real("s_rootNA")
            goal = z3.substitute(goal, (sv.zr(rootNA), sv.zr(s_)))
            goal = z3.substitute(goal, (sv.zr(sv.to_real(NA)), sv.zr(sv.mul(s_, s_))))
            gz, _ = sv.generalize(goal, [e for e, _ in sums], "G")
            yield "Sq=|sum|^2/N_A", z3.Implies(sv.zb(sv.cmp(">", s_, 0)), gz), {"ring_only": True}
        else:
            yield "Sq=|sum|^2/N_A", False
        # second table: per distinct rounded |q| the mean of the rounded Sq values
        c2 = df_content(res[1])
        meta = ctx.state.heap.get(res[1].sid)
        meta = out.state.heap[res[1].sid].meta.get("groupby")
        ok2 = c2["order"] == ["q", "Sq"] and meta is not None
        yield "average:columns", bool(ok2)
        if ok2:
            K, G = meta["K"], meta["G"]
            kg = K(g)
            qcol, sqcol = c["q"].reader(), c["Sq"].reader()
            num = Sum(0, nq, lambda t: sv.ite(sv.cmp("==", qcol((t,)), kg), sqcol((t,)), 0))
            den = Sum(0, nq, lambda t: sv.ite(sv.cmp("==", qcol((t,)), kg), 1, 0))
            ing = sv.and_(sv.cmp(">=", g, 0), sv.cmp("<", g, G))
            yield "average:mean-of-Sq-over-equal-rounded-|q|", sv.implies(ing, sv.and_(sv.cmp("==", c2["cols"]["q"].get((g,)), kg),
                                                                                         sv.cmp("==", c2["cols"]["Sq"].get((g,)), sv.div(num, den)),
                                                                                         sv.cmp("==", c2["n"], G)))
        else:
            yield "average:mean-of-Sq-over-equal-rounded-|q|", False
        # reductions to the C04 density-mode definition rho_a(m) = sum_{i: type_i = a} exp(-i q_m . r_i), S_aa = |rho_a|^2 / N_a
        # (T = 1, before rounding); A = 1: the total S(q) = |rho|^2 / N
        if kind in ("species1", "alltrue", "ones") and len(sums) == 2:
            tr = inp["tr"]

            def rho_body(i):
                theta = _sum([sv.mul(sq_q(inp, m, cc), tr.pos(0, i, cc)) for cc in range(d)])
                e = sv.exp(sv.Cx(0, sv.neg(theta)))
                if kind == "species1":
                    sel = sv.cmp("==", tr.typ(0, i), 1)
                    return sv.Cx(sv.ite(sel, e.re, 0), sv.ite(sel, e.im, 0))
                return e
            rho = sv.as_cx(Sum(0, N, rho_body))
            if kind == "alltrue":
                yield "reduction:N_A=N", sv.cmp("==", NA, N)
            Na = N if kind != "species1" else NA        # N_a = #{i: type_i = a}
            goal = sv.implies(sv.and_(inr, sv.cmp(">=", NA, 1)),
                              sv.cmp("==", sv.div(_sum([sv.mul(e, e) for e, _ in sums]), sv.to_real(NA)),
                                     sv.div(sv.add(sv.mul(rho.re, rho.re), sv.mul(rho.im, rho.im)), sv.to_real(Na))))
            yield "reduction:Sq=C04-density-mode-spec", goal

    def replay(self, case, clause, model, seed):
        d, kind = self._parse(case)
        return _replay_csq(d, kind, clause, model, seed)


def _replay_csq(d, kind, clause, model, seed):
    """real conditional_sq on seeded configurations / integer wave-vector lists against the direct evaluation of
    |sum_i A_i exp(-i q.r_i)|^2 / N_A and the per-|q| mean"""
    import importlib
    import logging

    import numpy as np
    logging.disable(logging.CRITICAL)
    Sm = importlib.import_module(MOD_SQ)
    RUm = importlib.import_module("PyMatterSim.reader.reader_utils")
    rng = np.random.default_rng(seed + 77 * d + sum(map(ord, kind)))
    tried = 0
    for trial in range(12):
        N = int(rng.integers(1, 14)) if trial else 1
        L = rng.uniform(3.0, 6.0, size=d)
        if trial % 3 == 0:
            L[:] = L[0]                      # cubic box: several vectors share |q|
        pos = rng.uniform(-1, 1, size=(N, d)) * L
        types = np.array([1 + (i % 2) for i in range(N)])
        rng.shuffle(types)
        nq = int(rng.integers(1, 9))
        qv = rng.integers(-3, 4, size=(nq, d))
        if trial % 3 == 0 and nq >= 2:
            qv[1] = qv[0][::-1]              # same modulus, different direction
        if kind == "bool":
            cond = rng.uniform(size=N) < 0.6
            if not cond.any():
                cond[0] = True
        elif kind == "species1":
            cond = types == 1
            if not cond.any():
                continue
        elif kind == "alltrue":
            cond = np.ones(N, dtype=bool)
        elif kind == "ones":
            cond = np.ones(N)
        elif kind == "float":
            cond = rng.normal(size=N)
        elif kind == "complex":
            cond = rng.normal(size=N) + 1j * rng.normal(size=N)
        elif kind == "vector":
            cond = rng.normal(size=(N, d))
        elif kind == "cvector":
            cond = rng.normal(size=(N, d)) + 1j * rng.normal(size=(N, d))
        snap = RUm.SingleSnapshot(timestep=0, nparticle=N, particle_type=types.copy(), positions=pos.copy(), boxlength=L.copy(),
                                  boxbounds=np.column_stack([np.zeros(d), L]), realbounds=np.column_stack([np.zeros(d), L]), hmatrix=np.diag(L))
        inputs = {"d": d, "kind": kind, "N": N, "boxlength": L.tolist(), "positions": pos.tolist(), "qvector": qv.tolist(),
                  "condition": [str(x) for x in np.asarray(cond).ravel()]}
        try:
            import warnings
            with warnings.catch_warnings():
                warnings.simplefilter("ignore")
                # the integer wave vectors as the caller's own array, every third trial as float64 (e.g. reloaded with np.loadtxt); the
                # call must leave the caller's arrays bit-for-bit unchanged (a second call with the same arrays sees the same inputs)
                qv_arg = qv.astype(np.float64) if tried % 3 == 2 else qv.copy()
                cond_arg = cond.copy()
                qv_before, cond_before = qv_arg.tobytes(), cond_arg.tobytes()
                inputs["qvector_dtype"] = str(qv_arg.dtype)
                res, ave = Sm.conditional_sq(snap, qv_arg, cond_arg)
        except Exception as e:
            return {"ran": True, "failed": True, "detail": f"raises {type(e).__name__}: {e}", "inputs": inputs, "searched": tried}
        if qv_arg.tobytes() != qv_before or cond_arg.tobytes() != cond_before:
            which = "qvector" if qv_arg.tobytes() != qv_before else "condition"
            return {"ran": True, "failed": True, "searched": tried, "inputs": inputs,
                    "detail": f"conditional_sq modified the caller's {which} array in place (dtype {qv_arg.dtype if which == 'qvector' else cond_arg.dtype}): "
                              f"first rows now {(qv_arg if which == 'qvector' else cond_arg)[:2].tolist()}, were {qv[:2].tolist() if which == 'qvector' else cond[:2].tolist()}"}
        tried += 1
        q = 2 * np.pi * qv / L[np.newaxis, :]
        Aarr = cond.astype(float) if cond.dtype == bool else cond
        NA = int(cond.sum()) if cond.dtype == bool else N
        ph = np.exp(-1j * (q @ pos.T))                       # (nq, N)
        F = (ph @ Aarr) / np.sqrt(NA)                        # (nq,) or (nq, d)
        Sq = (np.abs(F) ** 2).sum(axis=1) if F.ndim == 2 else np.abs(F) ** 2
        fcols = [f"FFT{c}" for c in range(d)] if kind in ("vector", "cvector") else ["FFT"]
        want_cols = [f"q{c}" for c in range(d)] + ["q", "Sq"] + fcols
        if list(res.columns) != want_cols or len(res) != nq:
            return {"ran": True, "failed": True, "detail": f"columns {list(res.columns)} / {len(res)} rows, expected {want_cols} / {nq}", "inputs": inputs}

        def bad(got, want, what):
            got, want = np.asarray(got), np.asarray(want)
            if not np.allclose(got, want, rtol=1e-9, atol=2e-8):
                kb = int(np.argmax(np.abs(got - want)))
                return {"ran": True, "failed": True, "searched": tried, "inputs": inputs,
                        "detail": f"{what}, row {kb}: got {got[kb]!r}, expected {want[kb]!r}"}
            return None
        for cc in range(d):
            r = bad(res[f"q{cc}"].values, q[:, cc], f"column q{cc} (2 pi n / L)")
            if r:
                return r
        r = bad(res["q"].values, np.linalg.norm(q, axis=1), "column q (|q|)") or bad(res["Sq"].values, Sq, "column Sq (|sum_i A_i exp(-iq.r_i)|^2/N_A)")
        if r:
            return r
        for ci, f in enumerate(fcols):
            r = bad(res[f].values, F[:, ci] if F.ndim == 2 else F, f"column {f} (sum_i A_i exp(-iq.r_i)/sqrt(N_A))")
            if r:
                return r
        if not np.allclose(res["Sq"].values, np.round(res["Sq"].values, 8), atol=1e-15):
            return {"ran": True, "failed": True, "searched": tried, "inputs": inputs, "detail": "Sq not rounded to 8 decimals"}
        # per-|q| mean of the table's own (rounded) values
        keys = np.unique(res["q"].values)
        means = np.array([res["Sq"].values[res["q"].values == kk].mean() for kk in keys])
        if list(ave.columns) != ["q", "Sq"] or len(ave) != len(keys):
            return {"ran": True, "failed": True, "searched": tried, "inputs": inputs, "detail": f"average table: columns {list(ave.columns)}, {len(ave)} rows, expected ['q','Sq'], {len(keys)}"}
        r = bad(ave["q"].values, keys, "average table keys") or bad(ave["Sq"].values, means, "average table: mean of Sq over equal rounded |q|")
        if r:
            return r
        if kind in ("species1", "alltrue") and len(set(types.tolist())) == 2:
            # the same numbers from the real sq class (binary system, one frame), before its 6-decimal rounding
            S = RUm.Snapshots(nsnapshots=1, snapshots=[snap])
            ref = Sm.sq(S, qvector=qv.copy()).getresults()
            col = "Sq11" if kind == "species1" else "Sq"
            keys6 = np.unique(np.round(np.linalg.norm(q, axis=1), 6))
            m6 = np.array([np.round(Sq, 6)[np.round(np.linalg.norm(q, axis=1), 6) == kk].mean() for kk in keys6])
            if len(ref) == len(keys6) and not np.allclose(ref[col].values, m6, atol=2e-6):
                return {"ran": True, "failed": True, "searched": tried, "inputs": inputs, "detail": f"differs from sq(...).getresults()[{col!r}]"}
    return {"ran": True, "failed": False, "searched": tried}


UNITS = [CondGr(), CondSq()]
# callee contracts of other properties used at call sites: their units are re-verified with this check
from contracts.common import callee_units as _callee_units   # noqa: E402
UNITS = UNITS + _callee_units([('C02', None)], UNITS)

MANIFEST = {
    "text": "conditional_gr and conditional_sq (real ASTs, re-read every run; one configuration, symbolic particle number N, symbolic cell "
            "matrix / box lengths, symbolic bin width, bin index, wave-vector list length and row; d in {2,3}).  conditional_gr, for the "
            "condition kinds bool, float, complex (complex128 and complex64), float vector, complex vector, float tensor (and a vector length "
            "different from d): the table has one row per bin, B = int(Lmin/2/rdelta) rows, r = bin centre; (count) the Sigma-term accumulated "
            "by the real particle loop / inner tensor loop / np.histogram equals the sum over every unordered pair i<j exactly once of "
            "w_ij [|min-image distance| in bin k] with w_ij = Re(A_i conj A_j) (bool -> {0,1}), Re sum_c A_ic conj A_jc (vector), "
            "tr(A_i A_j) (tensor), and 1 for the gr column; (normalisation) gA = 2 V cnt / (N_A^2 shell_k) with N_A = number of selected "
            "particles for bool (proved equal to the code's count) and N otherwise, gr = 2 V cnt / (N^2 shell_k), for any count value (ring "
            "normal form); gA_norm = (gA - <A>^2)/(<A^2> - <A>^2) for float scalars; ValueError for any other conditiontype; divisors "
            "non-zero.  Reductions on the real function: A_i = [type_i = a] gives exactly the C03 spec of the partial g_aa (count and "
            "normalisation, T = 1); A = 1 (float) and A = True (bool) give the C03 total and equal the function's own gr column (N_A = N by "
            "the constant-sum rule); a vector field gives the sum over its components of the scalar gA (second symbolic run of the real "
            "body per component, Sigma linearity).  conditional_sq, for bool, float, complex, float vector, complex vector: one row per "
            "wave vector; q-components = (2 pi / L_c) n_mc and q = |q_m|; every FFT column = sum_i A_i exp(-i q_m . r_i) / sqrt(N_A) (bool: "
            "the loop over the mask-selected rows is re-indexed to sum_j [A_j] ...; N_A = number selected), Sq = |FFT|^2 summed over "
            "components = |sum|^2 / N_A, every value rounded to 8 decimals; second table = per distinct rounded |q| the mean of the rounded "
            "Sq values; reductions: a species selection gives |rho_a|^2 / N_a and A = 1 / all-True gives |rho|^2 / N of the C04 density-mode "
            "definition (before rounding). Extension round: a real scalar stored in an integer dtype is the float-scalar case (not a selection), proved with integer-sum specs; conditional_sq leaves the caller's wave-vector and condition arrays unwritten (frame clause; integer and float64 wave-vector arrays).",
    "note": "floats as reals (A1); assumed library contracts: np.histogram (weighted), boolean-mask selection enumeration + Sigma re-indexing, "
            "pandas frame construction / column update / join / round / groupby-mean, np.linalg.norm, exp(ix) = cos x + i sin x, "
            "remove_pbc callee contract (C02); preconditions N >= 2 (g), Lmin >= 2 rdelta (at least one bin), N_A >= 1, A not constant for "
            "gA_norm; complex tensors and the rounding-induced coincidence of |q| classes are not decided.  On the pinned tree the "
            "complex64 case of conditional_gr FAILS (dispatch on dtype == 'complex128': no conjugation, spurious gA_norm) — 4 obligations, "
            "failing replays, fix in design_notes/C13.fix-1.diff (np.iscomplexobj); with the fix all obligations are proved.",
}


def extra_checks(tier, seed, repo):
    return {}
