"""C06 — relaxation functions equal their definitions averaged over all time origins.

Functions under contract (real ASTs of PyMatterSim/dynamic/dynamics.py and utils/funcs.py, re-read every run):
  alpha2factor, cage_relative, Dynamics.__init__, Dynamics.relaxation, LogDynamics.__init__, LogDynamics.relaxation,
  Dynamics.sq4.

Definitions (property statement + docs/dynamics.md), for T frames, N particles, d in {2,3}, origin n0 and end frame n1 > n0:
  raw displacement         r_i   = x_i(n1) - x_i(n0)
  (only wrapped coords)    D_i   = remove_pbc(r_i; cell of frame n0, ppp)             -- contract of C02 (pbc_spec_row)
  (neighbour file)         D'_i  = D_i - (1/cn_i) sum_{t<cn_i} D_{nl(n0; i, 1+t)}      -- neighbour list of the ORIGIN frame:
                           nl(n0; ., .) = record n0 of the neighbour file as read_neighbors delivers it with Nmax = max_neighbors
                           (class NbFile; established by __init__, used by relaxation / sq4 through the same spec functions)
  selection                sel_i = condition[n0, i] (all particles when no condition), N_sel = #sel
  F(n0,n1)  = (1/(d N_sel)) sum_{i in sel} sum_axis cos(q_i D'_{i,axis}),   q_i = qconst / diameter_i
  Q(n0,n1)  = (1/N_sel) #{ i in sel : |D'_i|^2 < a2_i }   ('>' for fast),   a2_i = (a diameter_i)^2
  M2(n0,n1) = (1/N_sel) sum_{i in sel} |D'_i|^2,   M4 = (1/N_sel) sum_{i in sel} |D'_i|^4
Linear sampling, row k (lag l = k+1, 0 <= k < T-1), <.> = average over ALL origins n0 = 0 .. T-1-l:
  t = time[k], isf = <F>, Qt = <Q>, X4_Qt = N_sel (<Q^2> - <Q>^2), msd = <M2>, alpha2 = c_d <M4>/<M2>^2 - 1, c_3 = 3/5, c_2 = 1/2
Log sampling: the same quantities with n0 = 0 as the only origin, X4_Qt = 0.
"""
import z3

from pyvc import arr as A
from pyvc import sv
from pyvc.interp import FuncVal, PyRaise, Ref, load_module, new_obj
from pyvc.sigma import Sum
from pyvc.state import Content, cur
from pyvc.vc import Unit

from contracts.C02 import _inv_spec, pbc_spec_row

MOD = "PyMatterSim.dynamic.dynamics"
RU = "PyMatterSim.reader.reader_utils"
FUNCS = "PyMatterSim.utils.funcs"

NOT_DECIDED = [
    "Dynamics.sq4: the table of every origin frame is now the one C13's contract of conditional_sq specifies (built from C13's spec functions "
    "sq_q / sq_mode_sum: round8(|sum_i [mobile_i] exp(-i q_m.r_i)|^2 / N_mobile) averaged over equal round8(|q_m|)); what stays outside: the "
    "default wave-vector set is an opaque integer array whose defining arguments (ndim, numofq = int(2 qrange / min 2pi/L) of frame 0, "
    "onlypositive=False) are checked (its content: C04, bounded there); the group keys K_n(g) of the |q| column are the relational result "
    "of pandas groupby (C13), and the number of distinct |q| is taken to be the same for every origin frame (constant box: otherwise pandas "
    "aligns tables of different length, outside the statement); origin frames whose slow (fast, selected) subset is empty and an empty "
    "wave-vector set are outside the precondition (conditional_sq divides by sqrt(0) / C13 requires nq >= 1)",
    "the neighbour file itself: __init__ is proved against the callee contract of read_neighbors (C05, re-verified here) with the handle's "
    "position counted in records; that record p starts at line p (1 + N) of the text (all records have N rows) is the glue between C05's "
    "'handle advanced by 1 + nparticle lines' and the record counter, not an obligation; a file with fewer records than frames is outside "
    "the precondition (read_neighbors raises on the empty line)",
    "int()/round() of floating quotients and the floating-point accuracy of the averages (A1: floats are reals); comparisons |D|^2 < a2 exactly at the cutoff",
    "chi4 when a per-frame selection changes its size from origin to origin: neither the statement (one N) nor docs/dynamics.md eq. (3) "
    "(N^-1 (<W^2> - <W>^2) with the non-averaged overlap W) defines N there; the code multiplies the variance of the overlap FRACTION by the "
    "selection size of frame 0 (len(a2_cuts) after the loops: the last executed pair has origin 0) for every row, and the contract pins "
    "exactly that; for a selection of constant size this is the statement's formula and, by the lemma chi4:N(<Q^2>-<Q>^2)=(1/N)(<W^2>-<W>^2), "
    "the documented one",
    "degenerate inputs outside the statement: a particle with an empty neighbour row (cn = 0), an origin frame with an empty selection, "
    "a frame pair without any motion (alpha2 = 0/0) — excluded by preconditions, the real code returns NaN there",
]
TRUSTED = [
    "callee contract of remove_pbc at its call sites: the result row is a function of (input row, cell of the ORIGIN frame, mask) — left "
    "uninterpreted in the relaxation units (so everything proved holds for C02.pbc_spec_row, which C02 proves for the real remove_pbc); "
    "preconditions det != 0 and ppp in {0,1}^d are obligations at the call site",
    "callee contract of cage_relative at its call sites = the spec cage_row that the unit cage_relative proves for the real body",
    "callee contract of read_neighbors in the two __init__ units (summ_read_neighbors = the clauses C05 proves for the real body on a "
    "neighbour-list file: coordination-number-column = min(cn, Nmax), values-shifted-by-id-origin, zero-padding, width = 1 + max row count, "
    "int dtype, handle advanced by one record); open() returns an opaque handle at record 0, close() marks it closed (pyvc/text.py)",
    "NL / NLwidth are defined symbols (definitional extension): NL(p,i,c) := what read_neighbors delivers for record p of the file, "
    "NLwidth(p) := 1 + row maximum; __init__ is proved to store NL(n,.,.) as neighborlists[n], the relaxation / sq4 units read "
    "self.neighborlists through the same functions (NbFile.nl / width / nl_array / neighborlists) and use the well-formedness of the rows "
    "(pre_nl) by instances — justified by the lemma delivered-rows-well-formed for a well-formed file (every particle lists >= 1 id, ids "
    "in 1..N, max_neighbors >= 1)",
    "callee contract of conditional_sq in the sq4 unit = the table C13's unit conditional_sq[bool] proves (second result: per distinct "
    "rounded |q| the mean of round8(|sum_i A_i exp(-i q.r_i)|^2 / N_A)), written with C13's spec functions; its preconditions (boolean "
    "vector of length N, N_A >= 1, nq >= 1, positive box lengths) are obligations at the call site; the group-key function K_n and the "
    "common number of groups are the relational part of that contract",
    "np.cos is an uninterpreted function (only equality of arguments is used)",
    "pandas: DataFrame(2-D array, columns=names) has column j = data[:, j]; Series.map(dict).values is the element-wise lookup",
    "quantified preconditions (every cell non-singular, every neighbour row well formed: 1 <= cn <= width-1 and ids in range, every origin "
    "frame has a selected particle, every particle type of the first frame is a key of the diameters map) are used through instances "
    "at the frame / particle index of the call site (World.pre_*), or as z3 quantifiers in the small units (cage_relative, __init__)",
    "induction principle: the two generic sum lemmas have proved base (M = 1) and step (M -> M+1) obligations on fresh symbols and an "
    "uninterpreted summand q, and are used at M = T with q := each pair quantity (schematic instantiation)",
    "boolean-mask selection model of pyvc.arr.Masked (a[m] op b[m] = (a op b)[m] for equal masks; reductions carry the factor [m_i])",
    "products/quotients of unknowns treated as uninterpreted functions in the first proof attempt (sound weakening)",
]


def _sum(xs):
    acc = 0
    for x in xs:
        acc = sv.add(acc, x)
    return acc


def _and(*xs):
    return sv.and_(*xs)


def _in(lo, x, hi):
    return sv.and_(sv.cmp("<=", lo, x), sv.cmp("<", x, hi))


def _memo1(f):
    cache = {}

    def g(i):
        k = i if sv.is_conc(i) else ("z", i.t.get_id())
        if k not in cache:
            cache[k] = f(i)
        return cache[k]
    return g


# ------------------------------------------------------------------------------------------------------
# the symbolic world: one trajectory, its optional cells / neighbour lists / selection, and the definitions


NBFILE = "neighbors.dat"
RN_KEY = "PyMatterSim.neighbors.read_neighbors.read_neighbors"


class NbFile:
    """The neighbour file of a trajectory of T frames with N particles, and what read_neighbors delivers from it.

    File content (uninterpreted, docs/neighbors.md layout `id cn id_1 .. id_cn`, one record = header + N rows, rows in any id order):
      CNF(p, i)     number of ids listed in record p (p-th frame of the file, in file order) for particle i (file id i + 1)
      NBF(p, i, t)  t-th listed id minus 1 (zero-based particle index), 0 <= t < CNF(p, i)
    Delivered array of record p (the clauses C05 proves for the real read_neighbors: coordination-number-column,
    values-shifted-by-id-origin, zero-padding, width), Nmax = the cap handed to read_neighbors (max_neighbors):
      nl(p, i, 0) = min(CNF(p, i), Nmax);   nl(p, i, c) = NBF(p, i, c - 1) for 1 <= c <= nl(p, i, 0);   0 beyond
      width(p)    = 1 + MAXC(p),  MAXC(p) = max_i nl(p, i, 0)  (relational: 0 <= MAXC(p) <= Nmax, nl(p, i, 0) <= MAXC(p) for every row)
    NL / NLwidth are DEFINED symbols (definitional extension): NL(p, i, c) := delivered(p, i, c), NLwidth(p) := 1 + MAXC(p).
    Dynamics.__init__ is proved to store exactly NL(n, ., .) as self.neighborlists[n]; the relaxation units take
    self.neighborlists from the same functions (`nl`, `width`, `nl_array`, `neighborlists`)."""

    def __init__(self, ctx, T, N):
        I = z3.IntSort()
        self.T, self.N = T, N
        self.NLf = z3.Function("NL", I, I, I, I)
        self.Wf = z3.Function("NLwidth", I, I)
        self.CNF = z3.Function("CNF", I, I, I)
        self.NBF = z3.Function("NBF", I, I, I, I)
        self.MAXC = z3.Function("MAXC", I, I)
        self._ctx, self._nmax = ctx, None

    @property
    def Nmax(self):
        """the cap handed to read_neighbors (argument max_neighbors of __init__); only the file-level facts mention it"""
        if self._nmax is None:
            self._nmax = self._ctx.int("max_neighbors")
        return self._nmax

    # ---- the spec functions shared by __init__ (ensures) and relaxation / sq4 (value of self.neighborlists)
    def nl(self, n, i, c):
        return sv.SV(self.NLf(sv.znum(n), sv.znum(i), sv.znum(c)))

    def width(self, n):
        return sv.SV(self.Wf(sv.znum(n)))

    def nl_array(self, n):
        return A.new_arr((self.N, self.width(n)), lambda idx: self.nl(n, idx[0], idx[1]), "int", frame=n)

    def neighborlists(self):
        """value of Dynamics.neighborlists after __init__ with a neighbour file: one delivered array per frame, in file order"""
        return Ref(cur().alloc(Content("list", A.SeqVal(self.T, self.nl_array))), "list")

    # ---- file level
    def cnf(self, p, i):
        return sv.SV(self.CNF(sv.znum(p), sv.znum(i)))

    def nbf(self, p, i, t):
        return sv.SV(self.NBF(sv.znum(p), sv.znum(i), sv.znum(t)))

    def maxc(self, p):
        return sv.SV(self.MAXC(sv.znum(p)))

    def delivered(self, p, i, c):
        """element (i, c) of the array read_neighbors returns for record p (contract of C05)"""
        cn = sv.minv(self.cnf(p, i), self.Nmax)
        t = A.simp(sv.sub(c, 1))
        return sv.ite(sv.cmp("==", c, 0), cn, sv.ite(sv.and_(sv.cmp(">=", t, 0), sv.cmp("<", t, cn)), self.nbf(p, i, t), 0))

    def def_nl(self, p, i, c):
        return sv.cmp("==", self.nl(p, i, c), self.delivered(p, i, c))

    def def_width(self, p):
        return sv.cmp("==", self.width(p), sv.add(1, self.maxc(p)))

    def max_fact(self, p, i):
        """relational contract of the row maximum (C05 clause `width`): bounds, and an upper bound of every row's (capped) count"""
        m = self.maxc(p)
        return _and(sv.cmp(">=", m, 0), sv.cmp("<=", m, sv.maxv(self.Nmax, 0)),
                    sv.implies(_in(0, i, self.N), sv.cmp("<=", sv.minv(self.cnf(p, i), self.Nmax), m)))

    def wellformed(self, p, i, t):
        """precondition on the file: every particle of every record lists at least one neighbour, listed ids are ids of the N particles"""
        return sv.implies(_and(_in(0, p, self.T), _in(0, i, self.N)),
                          _and(sv.cmp(">=", self.cnf(p, i), 1), sv.implies(_in(0, t, self.cnf(p, i)), _in(0, self.nbf(p, i, t), self.N))))

    def pre_nl(self, n, i, t):
        """every delivered neighbour row is well formed: 1 <= cn <= width-1, listed ids are particle indices
        (consequence of `wellformed`, Nmax >= 1 and the definitions: lemma delivered-rows-well-formed)"""
        cn = self.nl(n, i, 0)
        return sv.implies(_and(_in(0, n, self.T), _in(0, i, self.N)),
                          _and(sv.cmp(">=", cn, 1), sv.cmp("<=", cn, sv.sub(self.width(n), 1)),
                               sv.implies(_in(0, t, cn), _in(0, self.nl(n, i, sv.add(1, t)), self.N))))

    def register_facts(self, ctx):
        """the definitions and the file preconditions as facts instantiated at every application in a query"""
        ctx.assume(sv.cmp(">=", self.Nmax, 1))
        z = lambda x: sv.SV(x)   # noqa: E731
        ctx.array_fact("NL", lambda p, i, c: sv.zb(self.def_nl(z(p), z(i), z(c))))
        ctx.array_fact("NLwidth", lambda p: sv.zb(self.def_width(z(p))))
        ctx.array_fact("NBF", lambda p, i, t: sv.zb(self.wellformed(z(p), z(i), z(t))))
        ctx.array_fact("CNF", lambda p, i: sv.zb(sv.and_(self.wellformed(z(p), z(i), 0), self.max_fact(z(p), z(i)))))


def _free_cell(n, d):
    """a real frame always carries its cell; on the unwrapped-coordinate paths nothing may depend on it: a free function of (frame,
    row, column), not a heap array (an extra symbolic input array made one d = 3 cage loop-step query undecided after the library
    tables were corrected: the obligation does not mention the cell, the solver's search did)"""
    HF = z3.Function("Hfree", z3.IntSort(), z3.IntSort(), z3.IntSort(), z3.RealSort())
    return A.new_arr((d, d), lambda idx: sv.SV(HF(sv.znum(n), sv.znum(idx[0]), sv.znum(idx[1]))), "float")


class World:
    def __init__(self, ctx, d, pbc, cage, cond, fast, log_cond=False):
        self.d, self.pbc, self.cage, self.cond, self.fast = d, pbc, cage, cond, fast
        T, N = ctx.int("T"), ctx.int("N")
        self.T, self.N = T, N
        ctx.assume(T >= 2)
        ctx.assume(N >= 1)
        self.X = ctx.array("X", (T, N, d), "float", origin="positions of the trajectory")
        self.TS = ctx.array("ts", (T,), "int", origin="timesteps")
        self.tm = ctx.array("time", (sv.sub(T, 1),), "float", origin="self.time")
        self.diam = ctx.array("diam", (N,), "float", origin="self.diameters")
        self.a2 = ctx.array("a2", (N,), "float", origin="self.a2_cuts")
        self.ptype = ctx.array("ptype", (T, N), "int", origin="particle types")
        self.qconst = ctx.real("qconst")
        self.log_cond = log_cond
        if pbc:
            self.HM = ctx.array("H", (T, d, d), "float", origin="cells of the trajectory")
            self.p = [ctx.int(f"ppp_{k}") for k in range(d)]
            for pk in self.p:
                ctx.assume(sv.and_(sv.cmp(">=", pk, 0), sv.cmp("<=", pk, 1)))
            ctx.assume(sv.or_(*[sv.cmp("==", pk, 1) for pk in self.p]))        # __init__ raises otherwise
            self.ppp = A.from_nested(list(self.p), "int")
            R_, I_ = z3.RealSort(), z3.IntSort()
            # remove_pbc's result row is a function of (row, cell, mask) only — its contract (C02.pbc_spec_row) says which one;
            # here the function is left uninterpreted: everything proved holds for every such function, in particular for C02's
            self.PBCF = [z3.Function(f"remove_pbc_row_{a}", *([R_] * (d + d * d) + [I_] * d), R_) for a in range(d)]
        else:
            self.p = [0] * d
            self.ppp = A.from_nested([0] * d, "int")
        ctx.state.origin[self.ppp.sid] = "self.ppp"
        if cage:
            # self.neighborlists as Dynamics.__init__ establishes it from the neighbour file (unit DynInit, cases */nbfile)
            self.nbfile = NbFile(ctx, T, N)
        if cond:
            if log_cond:
                self.C = ctx.array("C", (N,), "bool", origin="condition")
            else:
                self.C = ctx.array("C", (T, N), "bool", origin="condition")

    # ---- raw data accessors
    def pos(self, n, i, a):
        return self.X.get((n, i, a))

    def Hm(self, n):
        return [[self.HM.get((n, r, c)) for c in range(self.d)] for r in range(self.d)]

    def pbc_row(self, row, Hm, p):
        """row of remove_pbc(RIJ, hmatrix, ppp) as an (uninterpreted) function of the input row, the cell and the mask"""
        args = [sv.zr(x) for x in row] + [sv.zr(Hm[r][c]) for r in range(self.d) for c in range(self.d)] + [sv.znum(x) for x in p]
        return [sv.SV(f(*args)) for f in self.PBCF]

    def nl(self, n, i, c):
        return self.nbfile.nl(n, i, c)

    def width(self, n):
        return self.nbfile.width(n)

    def sel(self, n, i):
        if not self.cond:
            return True
        return self.C.get((i,)) if self.log_cond else self.C.get((n, i))

    # ---- instances of the quantified preconditions
    def pre_cell(self, n):
        """every frame's cell is non-singular"""
        det, _ = _inv_spec(self.Hm(n), self.d)
        return sv.implies(_in(0, n, self.T), sv.cmp("!=", det, 0))

    def pre_nl(self, n, i, t):
        """every neighbour row is well formed: 1 <= cn <= width-1, listed ids are particle indices — for the arrays that __init__
        reads from a well-formed neighbour file this is the lemma `delivered-rows-well-formed` (extra_checks)"""
        return self.nbfile.pre_nl(n, i, t)

    def pre_sel(self, n):
        """every origin frame has at least one selected particle"""
        return sv.implies(_in(0, n, self.T), sv.cmp(">=", self.nsel(n), 1))

    def pre_diam(self, i):
        return sv.implies(_in(0, i, self.N), sv.cmp(">", self.diam.get((i,)), 0))

    # ---- the definitions
    def nsel(self, n0):
        if not self.cond:
            return self.N
        return Sum(0, self.N, lambda i: sv.ite(self.sel(n0, i), 1, 0))

    def disp(self, n0, n1):
        """i -> [D'_{i,axis}]: displacement from frame n0 to n1 as the statement defines it"""
        d = self.d

        def raw(i):
            return [sv.sub(self.pos(n1, i, a), self.pos(n0, i, a)) for a in range(d)]
        D = raw
        if self.pbc:
            Hm = self.Hm(n0)

            def D(i):   # noqa
                return self.pbc_row(raw(i), Hm, self.p)
        D = _memo1(D)
        if self.cage:
            return _memo1(lambda i: cage_row(D, lambda j, c: self.nl(n0, j, c), i, d))
        return D

    def pair(self, n0, n1):
        """(F, Q, M2, M4) of the frame pair (n0, n1)"""
        d, N = self.d, self.N
        D = self.disp(n0, n1)
        ns = self.nsel(n0)

        def r2(i):
            return _sum([sv.mul(D(i)[a], D(i)[a]) for a in range(d)])

        def q(i):
            return sv.div(self.qconst, self.diam.get((i,)))

        def mobile(i):
            return sv.cmp(">" if self.fast else "<", r2(i), self.a2.get((i,)))
        F = sv.div(Sum(0, N, lambda i: sv.ite(self.sel(n0, i), lambda: _sum([sv.cos(sv.mul(D(i)[a], q(i))) for a in range(d)]), 0)), sv.mul(ns, d))
        Q = sv.div(Sum(0, N, lambda i: sv.ite(sv.and_(self.sel(n0, i), mobile(i)), 1, 0)), ns)
        M2 = sv.div(Sum(0, N, lambda i: sv.ite(self.sel(n0, i), lambda: r2(i), 0)), ns)
        M4 = sv.div(Sum(0, N, lambda i: sv.ite(self.sel(n0, i), lambda: sv.mul(r2(i), r2(i)), 0)), ns)
        return {"F": F, "Q": Q, "Q2": sv.mul(Q, Q), "M2": M2, "M4": M4}

    # ---- engine objects
    def snapshot(self, n):
        cls = load_module(RU).get_class("SingleSnapshot")
        attrs = {"positions": A.getitem(self.X, n), "nparticle": self.N, "timestep": self.TS.get((n,)),
                 "particle_type": A.getitem(self.ptype, n)}
        attrs["hmatrix"] = A.getitem(self.HM, n) if self.pbc else _free_cell(n, self.d)
        return new_obj(cls, attrs, frozen=True)

    def snapshots(self, ctx):
        snaps = Ref(cur().alloc(Content("list", A.SeqVal(self.T, self.snapshot))), "list")
        return ctx.obj(RU, "Snapshots", {"nsnapshots": self.T, "snapshots": snaps})

    def nl_array(self, n):
        return self.nbfile.nl_array(n)

    def neighborlists(self):
        if not self.cage:
            return Ref(cur().alloc(Content("list", ())), "list")
        return self.nbfile.neighborlists()


def cage_row(D, nl, i, d):
    """cage-relative displacement of particle i: D_i minus the mean of D over the cn_i = nl(i,0) listed neighbours nl(i,1+t)"""
    cn = nl(i, 0)
    Di = D(i)
    return [sv.sub(Di[a], sv.div(Sum(0, cn, lambda t: D(nl(i, sv.add(1, t)))[a]), cn)) for a in range(d)]


def alpha2_prefactor(d):
    return {3: sv.to_frac(0.6), 2: sv.to_frac(0.5)}[d]


# ------------------------------------------------------------------------------------------------------
# callee contracts used at call sites


def summ_remove_pbc(W):
    def f(interp, args, kwargs):
        names = ["RIJ", "hmatrix", "ppp"]
        vals = dict(zip(names, args))
        vals.update(kwargs)
        RIJ, h, ppp = vals["RIJ"], vals["hmatrix"], vals["ppp"]
        d = W.d
        ok = isinstance(RIJ, A.Arr) and RIJ.ndim == 2 and isinstance(h, A.Arr) and h.ndim == 2 and isinstance(ppp, A.Arr) and ppp.ndim == 1
        cur().require(bool(ok), "call:remove_pbc:pre(shapes)")
        if not ok:
            raise PyRaise("ValueError", "remove_pbc called with wrong shapes")
        for x in (RIJ.shape[1], h.shape[0], h.shape[1], ppp.shape[0]):
            A.require_dim_eq(x, d, "call:remove_pbc:pre(shapes)")
        Hm = A.to_list(h)
        det, G = _inv_spec(Hm, d)
        # instance of the unit's precondition "every frame's cell is non-singular" at the frame whose cell is passed
        if h.sid == W.HM.sid and h.view is not None and h.view.base[0][0] == "fix":
            cur().assume(W.pre_cell(h.view.base[0][1]))
        cur().require(sv.cmp("!=", det, 0), "call:remove_pbc:pre(det != 0)")
        p = [ppp.get((k,)) for k in range(d)]
        cur().require(sv.and_(*[sv.or_(sv.cmp("==", pk, 0), sv.cmp("==", pk, 1)) for pk in p]), "call:remove_pbc:pre(ppp in {0,1})")
        r = RIJ.reader()
        row = _memo1(lambda i: W.pbc_row([r((i, c)) for c in range(d)], Hm, p))
        return A.new_arr(RIJ.shape, lambda idx: A._pick(row(idx[0]), idx[1]), "float")
    return f


def summ_cage_relative(W):
    def f(interp, args, kwargs):
        vals = dict(zip(["RII", "cnlist"], args))
        vals.update(kwargs)
        RII, cn = vals["RII"], vals["cnlist"]
        d = W.d
        ok = isinstance(RII, A.Arr) and RII.ndim == 2 and isinstance(cn, A.Arr) and cn.ndim == 2 and cn.dtype == "int"
        cur().require(bool(ok), "call:cage_relative:pre(shapes)")
        if not ok:
            raise PyRaise("ValueError", "cage_relative called with wrong arguments")
        A.require_dim_eq(RII.shape[1], d, "call:cage_relative:pre(shapes)")
        A.require_dim_eq(RII.shape[0], cn.shape[0], "call:cage_relative:pre(shapes)")
        n = RII.shape[0]
        cr = cn.reader()
        i, t = sv.fresh_int("ci"), sv.fresh_int("ct")
        frame = cur().heap[cn.sid].meta.get("frame")
        if frame is not None and cn.view is None:
            cur().assume(W.pre_nl(frame, i, t))
        cni = cr((i, 0))
        cur().require(sv.implies(_in(0, i, n), _and(sv.cmp(">=", cni, 1), sv.cmp("<=", cni, sv.sub(cn.shape[1], 1)),
                                                     sv.implies(_in(0, t, cni), _in(0, cr((i, sv.add(1, t))), n)))),
                      "call:cage_relative:pre(neighbour rows well formed)")
        r = RII.reader()
        D = _memo1(lambda j: [r((j, a)) for a in range(d)])
        row = _memo1(lambda j: cage_row(D, lambda jj, c: cr((jj, c)), j, d))
        return A.new_arr(RII.shape, lambda idx: A._pick(row(idx[0]), idx[1]), "float")
    return f


def summ_read_neighbors(F, nrecords):
    """callee contract of read_neighbors(f, nparticle, Nmax) on the neighbour-list file F (proved for the real body by C05's unit
    read_neighbors[neighborlist], which is re-verified with this check):
    requires  f is an open handle of the neighbour file, opened for reading, standing at a record boundary with a record left
              (the handle's abstract position counts the records consumed: C05 `handle-advanced-by-1+nparticle`),
              nparticle = rows per record of the file, Nmax = the cap the delivered arrays are specified for (max_neighbors);
    ensures   a fresh int array (nparticle, 1 + MAXC(p)) holding record p = position of the handle: F.delivered(p, i, c);
              the handle stands at record p + 1."""
    def rn(interp, args, kwargs):
        vals = dict(zip(["f", "nparticle", "Nmax"], args))
        vals.update(kwargs)
        f, npart, nmax = vals.get("f"), vals.get("nparticle"), vals.get("Nmax", 200)
        st = cur()
        cell = st.heap.get(f.sid) if isinstance(f, Ref) else None
        okh = cell is not None and cell.kind == "file" and cell.data.get("mode") == "r" and cell.data.get("line_fn") is None
        st.require(bool(okh), "call:read_neighbors:pre:f-is-a-file-handle-opened-for-reading")
        if not okh:
            raise sv.EngineError("read_neighbors called with something that is not a readable file handle")
        st.require(cell.data.get("path") == NBFILE, "call:read_neighbors:pre:handle-of-the-neighbour-file")
        st.require(not cell.data.get("closed"), "call:read_neighbors:pre:handle-open")
        if npart is None:
            st.require(False, "call:read_neighbors:pre:nparticle-given")
            raise sv.EngineError("read_neighbors without nparticle")
        st.require(sv.cmp("==", npart, F.N), "call:read_neighbors:pre:nparticle=rows-per-record")
        st.require(sv.cmp("==", nmax, F.Nmax), "call:read_neighbors:pre:Nmax=max_neighbors")
        pos = cell.data["pos"]
        st.require(_in(0, pos, nrecords), "call:read_neighbors:pre:a-record-is-left-in-the-file")
        st.heap[f.sid] = Content("file", dict(cell.data, pos=A.simp(sv.add(pos, 1))), cell.meta)
        st.events.append(("store", f.sid, st.where, list(st.pc)))
        return A.new_arr((F.N, A.simp(sv.add(1, F.maxc(pos)))), lambda idx: F.delivered(pos, idx[0], idx[1]), "int")
    return rn


# ------------------------------------------------------------------------------------------------------
# generic lemmas on sums over frame pairs (fresh symbols; proved by induction on the number of frames M in extra_checks)

NO_UNFOLD = {"unfold": False, "rounds": 5, "ext_limit": 400, "ext_local": True}    # the clauses of the units need extensionality of sums only


def _has_origin(k, n):
    return _and(sv.cmp("<=", 0, k), sv.cmp("<", k, n))


def lemma_count_lhs(k, M):
    return Sum(1, M, lambda n: sv.ite(_has_origin(k, n), sv.to_frac(1.0), sv.to_frac(0.0)))


def lemma_count_rhs(k, M):
    return sv.to_real(sv.maxv(0, sv.sub(sv.sub(M, 1), k)))


def lemma_reindex_lhs(k, M, q):
    """sum over the end frames n in [1, M) whose origin n-(k+1) exists, of q(origin, end)"""
    return Sum(1, M, lambda n: sv.ite(_has_origin(k, n), lambda: q(sv.sub(sv.sub(n, k), 1), n), 0))


def lemma_reindex_rhs(k, M, q):
    """sum over the origins n0 in [0, M-1-k) of q(n0, n0 + k + 1)"""
    return Sum(0, sv.sub(sv.sub(M, 1), k), lambda n0: q(n0, sv.add(n0, sv.add(k, 1))))


def lemmas():
    k, M = sv.integer("k"), sv.integer("M")
    fq = z3.Function("q", z3.IntSort(), z3.IntSort(), z3.RealSort())

    def q(n0, n1):
        return sv.SV(fq(sv.znum(n0), sv.znum(n1)))
    kpos = sv.cmp(">=", k, 0)
    M1 = sv.add(M, 1)
    out = []
    for name, lhs, rhs in (("count-of-origins", lambda m: lemma_count_lhs(k, m), lambda m: lemma_count_rhs(k, m)),
                           ("all-origins(end-frame-sum=origin-sum)", lambda m: lemma_reindex_lhs(k, m, q), lambda m: lemma_reindex_rhs(k, m, q))):
        out.append((f"lemma:{name}:base(M=1)", sv.implies(kpos, sv.cmp("==", lhs(1), rhs(1)))))
        out.append((f"lemma:{name}:step(M->M+1)", sv.implies(_and(kpos, sv.cmp(">=", M, 1), sv.cmp("==", lhs(M), rhs(M))), sv.cmp("==", lhs(M1), rhs(M1)))))
    return out


def wrapped_equals_unwrapped():
    """Statement: wrapped coordinates with periodic flags give the same numbers as unwrapped ones whenever no displacement
    exceeds half a box length.  On remove_pbc's contract (C02.pbc_spec_row): if x_w(t) = x_u(t) + sum_k z_k(t) p_k H[k,:] with
    integer z, then D_w = D_u + sum_k t_k p_k H[k,:] (t = z(n1) - z(n0)), and if every periodic fractional component of D_u
    is in (-1/2, 1/2) then remove_pbc(D_w) = D_u — so every pair quantity, being a function of the displacement only, coincides.
    One rounding lemma (SMT, fresh variables) + one rational identity per mask (ring normaliser, the lemma as rewrite)."""
    import itertools

    from pyvc import solve
    from pyvc.vc import ObResult
    from contracts.C02 import _mat, _sum as _s2, _vecmat
    half = sv.to_frac(0.5)
    a, sI = sv.real("a"), sv.integer("s")
    obs = []
    ob = ObResult("C06:lemma:rint(a+s)=s-for-integer-s-and-|a|<1/2")
    ob.add(solve.prove([], sv.zb(sv.implies(sv.and_(sv.cmp("<", a, half), sv.cmp(">", a, sv.neg(half))), sv.cmp("==", sv.rint(sv.add(a, sI)), sI))), 20))
    obs.append(ob.finish().as_dict())

    class _C:      # the two symbol constructors _mat needs
        real = staticmethod(sv.real)
    for d in (2, 3):
        Hm = _mat(_C, "H", d, "general")
        det, G = _inv_spec(Hm, d)
        Du = [sv.real(f"Du_{c}") for c in range(d)]
        t = [sv.integer(f"t_{k}") for k in range(d)]
        m = _vecmat(Du, G, d)
        for pm in itertools.product((0, 1), repeat=d):
            Dw = [sv.add(Du[c], _s2([sv.mul(sv.mul(t[k], pm[k]), Hm[k][c]) for k in range(d)])) for c in range(d)]
            got = pbc_spec_row(Dw, Hm, G, list(pm), d)
            rw = [(sv.rint(sv.add(m[k], t[k])), t[k]) for k in range(d) if pm[k] == 1]
            goal = sv.and_(*[sv.cmp("==", got[c], Du[c]) for c in range(d)])
            ob = ObResult(f"C06:wrapped=unwrapped[d={d}/ppp={''.join(map(str, pm))}]:remove_pbc(D_u+lattice-shift)=D_u-within-half-a-cell")
            ob.add(solve.prove([sv.zb(sv.cmp("!=", det, 0))], sv.zb(goal), 20, {"rewrites": rw, "ring_only": True}))
            obs.append(ob.finish().as_dict())
    return obs


def nbfile_lemmas():
    """delivered-rows-well-formed: for a well-formed neighbour file (every particle of every record lists >= 1 id, listed ids are ids
    of the N particles) and a cap max_neighbors >= 1, every row of every array that read_neighbors delivers — i.e. of every
    self.neighborlists[n] as __init__ establishes it — satisfies the precondition of cage_relative: 1 <= cn <= width - 1 and the
    first cn entries are particle indices.  This is the fact `pre_nl` that the relaxation / sq4 units use by instances."""
    class _C:
        int = staticmethod(sv.integer)
    T, N = sv.integer("T"), sv.integer("N")
    F = NbFile(_C, T, N)
    p, i, t = sv.integer("p"), sv.integer("i"), sv.integer("t")
    t1 = sv.add(1, t)
    hyp = _and(sv.cmp(">=", F.Nmax, 1), F.def_nl(p, i, 0), F.def_nl(p, i, t1), F.def_width(p), F.wellformed(p, i, t), F.max_fact(p, i))
    return [("lemma:delivered-rows-well-formed(file-well-formed=>precondition-of-cage_relative)", sv.implies(hyp, F.pre_nl(p, i, t)))]


def chi4_lemmas():
    """chi4 in the two textual forms.  The statement writes chi4 = N (<Q^2> - <Q>^2) with Q the overlap FRACTION; docs/dynamics.md eq. (3)
    writes chi4 = N^-1 (<Q^2> - <Q>^2) 'in which Q(t) should be the non-averaged value', i.e. the overlap COUNT W = N Q.  For a selection of
    constant size c (W(n0) = c q(n0) for every origin) the two coincide:
        c (<q^2> - <q>^2) = (1/c) (<W^2> - <W>^2),     <x> = (1/M) sum_{n0 < M} x(n0).
    Proved for an uninterpreted per-origin fraction q: linearity of the origin sum by induction on the number of origins M (base, step),
    then a rational identity.  (For a selection whose size changes from origin to origin neither text defines N; see NOT_DECIDED.)"""
    M, c = sv.integer("M"), sv.real("c")
    fq = z3.Function("qfrac", z3.IntSort(), z3.RealSort())

    def q(n):
        return sv.SV(fq(sv.znum(n)))

    def w(n):
        return sv.mul(c, q(n))
    S1 = lambda m: Sum(0, m, q)                                   # noqa: E731
    S2 = lambda m: Sum(0, m, lambda n: sv.mul(q(n), q(n)))        # noqa: E731
    W1 = lambda m: Sum(0, m, w)                                   # noqa: E731
    W2 = lambda m: Sum(0, m, lambda n: sv.mul(w(n), w(n)))        # noqa: E731
    lin = lambda m: _and(sv.cmp("==", W1(m), sv.mul(c, S1(m))), sv.cmp("==", W2(m), sv.mul(sv.mul(c, c), S2(m))))   # noqa: E731
    M1 = sv.add(M, 1)
    a, b, n_ = sv.real("sumq2"), sv.real("sumq"), sv.real("norig")
    stmt = sv.mul(c, sv.sub(sv.div(a, n_), sv.mul(sv.div(b, n_), sv.div(b, n_))))
    docs = sv.div(sv.sub(sv.div(sv.mul(sv.mul(c, c), a), n_), sv.mul(sv.div(sv.mul(c, b), n_), sv.div(sv.mul(c, b), n_))), c)
    return [("lemma:chi4:count-sums=c.fraction-sums:base(M=0)", lin(0)),
            ("lemma:chi4:count-sums=c.fraction-sums:step(M->M+1)", sv.implies(_and(sv.cmp(">=", M, 0), lin(M)), lin(M1))),
            ("lemma:chi4:N(<Q^2>-<Q>^2)-of-fractions=(1/N)(<W^2>-<W>^2)-of-counts(constant-selection-size)",
             sv.implies(_and(sv.cmp("!=", c, 0), sv.cmp("!=", n_, 0)), sv.cmp("==", stmt, docs)))]


def extra_checks(tier, seed, repo):
    from pyvc.vc import prove_lemmas
    return {"obligations": prove_lemmas("C06", lemmas() + nbfile_lemmas() + chi4_lemmas()) + wrapped_equals_unwrapped()}


# ------------------------------------------------------------------------------------------------------
# Dynamics.relaxation


def _parse(case):
    parts = case.split("/")
    d = int(parts[0][2])
    return d, parts[1] == "fast", parts[2] == "x-only", parts[3] == "cage", parts[4] == "condition"


QUANT = [("isf", "F"), ("Qt", "Q"), ("msd", "M2")]


def _relaxation_cases():
    """the full product the property quantifies over: d x {slow, fast} x {xu, x-only} x {nocage, cage} x {all, condition}"""
    return [f"d={d}/{mode}/{coords}/{cg}/{cd}" for d in (2, 3) for mode in ("slow", "fast") for coords in ("xu", "x-only")
            for cg in ("nocage", "cage") for cd in ("all", "condition")]


class DynRelaxation(Unit):
    module = MOD
    qualname = "Dynamics.relaxation"
    prop = "C06"
    timeout = 20
    loop_opts = {"cond_acc": "scatter-first"}    # a[nn - 1] += x in the inner loop: one writer iteration per element

    def cases(self):
        return _relaxation_cases()

    def setup(self, ctx, case):
        d, fast, pbc, cage, cond = _parse(case)
        W = World(ctx, d, pbc, cage, cond, fast)
        self.summaries = {"PyMatterSim.utils.pbc.remove_pbc": summ_remove_pbc(W), MOD + ".cage_relative": summ_cage_relative(W)}
        ctx.interp.summaries = dict(self.summaries)
        S = W.snapshots(ctx)
        self_ = ctx.obj(MOD, "Dynamics", {"ppp": W.ppp, "ndim": d, "cal_type": "fast" if fast else "slow", "snapshots": S,
                                          "x_snapshots": None, "PBC": pbc, "time": W.tm, "diameters": W.diam, "a2_cuts": W.a2,
                                          "neighborlists": W.neighborlists()})
        k = ctx.int("k")
        inp = dict(W=W, k=k, watch=[W.X.sid, W.tm.sid, W.diam.sid, W.a2.sid, W.ppp.sid] + ([W.HM.sid] if pbc else []) + ([W.C.sid] if cond else []))
        return [self_, W.qconst, (W.C if cond else None), ""], {}, inp

    def clause_names(self, case):
        names = ["result-is-a-frame-of-6-columns-and-T-1-rows", "t:time-axis", "counts-nonzero(div0)", "frame-inputs-not-written"]
        names += ["isf:mean-cos-averaged-over-all-origins", "Qt:overlap-fraction-averaged-over-all-origins", "msd:averaged-over-all-origins",
                  "X4_Qt:N(<Q^2>-<Q>^2)", "alpha2:c_d<M4>/<M2>^2-1"]
        return names

    def ensures(self, ctx, case, inp, out):
        W, k = inp["W"], inp["k"]
        T, N, d = W.T, W.N, W.d
        res = out.value
        ok = isinstance(res, Ref) and res.kind == "df"
        cols = None
        if ok:
            c = res.content
            ok = list(c["order"]) == "t isf Qt X4_Qt msd alpha2".split() and A.dim_eq_syntactic(c["n"], sv.sub(T, 1))
            cols = c["cols"]
        yield "result-is-a-frame-of-6-columns-and-T-1-rows", bool(ok)
        if not ok:
            return
        ink = _in(0, k, sv.sub(T, 1))
        col = {name: cols[name].get((k,)) for name in cols}
        yield "t:time-axis", sv.implies(ink, sv.cmp("==", col["t"], W.tm.get((k,))))
        lag = sv.add(k, 1)
        norig = sv.sub(sv.sub(T, 1), k)                  # number of origins n0 = 0 .. T-1-lag
        # ---- the two generic lemmas (proved once, by induction on the number of frames, in extra_checks) used at M = T:
        #  count:        #{ end frames n in [1, T) : 0 <= k < n } = T-1-k
        #  all-origins:  sum over end frames n in [1, T) with 0 <= k < n of q(n-k-1, n) = sum over origins n0 in [0, T-1-k) of q(n0, n0+k+1)
        #                (proved for an uninterpreted q, hence valid for each of the pair quantities q of this world)
        kpos = sv.cmp(">=", k, 0)
        count_T = sv.implies(kpos, sv.cmp("==", lemma_count_lhs(k, T), lemma_count_rhs(k, T)))
        yield "counts-nonzero(div0)", sv.implies(ink, sv.cmp(">=", norig, 1))

        def endform(qn):
            return lemma_reindex_lhs(k, T, lambda n0, n1: W.pair(n0, n1)[qn])

        def origform(qn):
            return lemma_reindex_rhs(k, T, lambda n0, n1: W.pair(n0, n1)[qn])
        reidx = {qn: sv.implies(kpos, sv.cmp("==", endform(qn), origform(qn))) for qn in ("F", "Q", "M2", "Q2", "M4")}

        def avg(qn):
            return sv.div(origform(qn), norig)
        # instances of the quantified preconditions at the Skolem frame / particle of the extensionality step are not needed:
        # the clauses below are equalities of terms in which the divisors appear on both sides
        names = {"F": "isf:mean-cos-averaged-over-all-origins", "Q": "Qt:overlap-fraction-averaged-over-all-origins", "M2": "msd:averaged-over-all-origins"}
        for cname, qn in QUANT:
            yield names[qn], sv.implies(ink, sv.cmp("==", col[cname], avg(qn))), {"assume": [count_T, reidx[qn]], "abstract_nl": True, "abstract_only": True, "solver_opts": NO_UNFOLD}
        nsel0 = W.nsel(0)
        # the two derived columns: the averages <Q> and <M2> inside them are the columns Qt and msd (clauses above, used as
        # assumptions here), so each needs only the all-origin average of one more pair quantity
        qt_is = sv.implies(ink, sv.cmp("==", col["Qt"], avg("Q")))
        msd_is = sv.implies(ink, sv.cmp("==", col["msd"], avg("M2")))
        yield ("X4_Qt:N(<Q^2>-<Q>^2)", sv.implies(ink, sv.cmp("==", col["X4_Qt"], sv.mul(sv.sub(avg("Q2"), sv.mul(avg("Q"), avg("Q"))), nsel0))),
               {"assume": [count_T, reidx["Q2"], qt_is], "abstract_nl": True, "abstract_only": True, "solver_opts": NO_UNFOLD})
        yield ("alpha2:c_d<M4>/<M2>^2-1", sv.implies(ink, sv.cmp("==", col["alpha2"], sv.sub(sv.div(sv.mul(alpha2_prefactor(d), avg("M4")), sv.mul(avg("M2"), avg("M2"))), 1))),
               {"assume": [count_T, reidx["M4"], msd_is], "abstract_nl": True, "abstract_only": True, "solver_opts": NO_UNFOLD})
        stores = [e for e in out.state.events if e[0] == "store" and e[1] in inp["watch"]]
        yield "frame-inputs-not-written", len(stores) == 0

    def raises(self, ctx, case, inp, out):
        return None

    def replay(self, case, clause, model, seed):
        return _replay_relaxation("linear", case, clause, model, seed)


# ------------------------------------------------------------------------------------------------------
# LogDynamics.relaxation: the same pair quantities with the first frame as the only origin


class LogRelaxation(Unit):
    module = MOD
    qualname = "LogDynamics.relaxation"
    prop = "C06"
    timeout = 20

    def cases(self):
        return _relaxation_cases()

    def setup(self, ctx, case):
        d, fast, pbc, cage, cond = _parse(case)
        W = World(ctx, d, pbc, cage, cond, fast, log_cond=True)
        ctx.interp.summaries = {"PyMatterSim.utils.pbc.remove_pbc": summ_remove_pbc(W), MOD + ".cage_relative": summ_cage_relative(W)}
        S = W.snapshots(ctx)
        if cage:
            nl = W.nl_array(0)
            ctx.assume(W.pre_nl(0, 0, 0))      # instance of "every neighbour row is well formed" at particle 0 (N >= 1)
        else:
            nl = A.zeros((3,), "float")        # what __init__ stores when no neighbour file is given
        self_ = ctx.obj(MOD, "LogDynamics", {"ppp": W.ppp, "ndim": d, "cal_type": "fast" if fast else "slow", "snapshots": S,
                                             "x_snapshots": None, "PBC": pbc, "time": W.tm, "diameters": W.diam, "a2_cuts": W.a2,
                                             "neighborlists": nl})
        k = ctx.int("k")
        inp = dict(W=W, k=k, watch=[W.X.sid, W.tm.sid, W.diam.sid, W.a2.sid, W.ppp.sid] + ([W.HM.sid] if pbc else []) + ([W.C.sid] if cond else []))
        return [self_, W.qconst, (W.C if cond else None), ""], {}, inp

    def clause_names(self, case):
        return ["result-is-a-frame-of-6-columns-and-T-1-rows", "t:time-axis", "isf:mean-cos-first-frame-origin", "Qt:overlap-fraction-first-frame-origin",
                "X4_Qt:zero", "msd:first-frame-origin", "alpha2:c_d-M4/M2^2-1", "frame-inputs-not-written"]

    def ensures(self, ctx, case, inp, out):
        W, k = inp["W"], inp["k"]
        T, d = W.T, W.d
        res = out.value
        ok = isinstance(res, Ref) and res.kind == "df"
        cols = None
        if ok:
            c = res.content
            ok = list(c["order"]) == "t isf Qt X4_Qt msd alpha2".split() and A.dim_eq_syntactic(c["n"], sv.sub(T, 1))
            cols = c["cols"]
        yield "result-is-a-frame-of-6-columns-and-T-1-rows", bool(ok)
        if not ok:
            return
        ink = _in(0, k, sv.sub(T, 1))
        col = {name: cols[name].get((k,)) for name in cols}
        P = W.pair(0, sv.add(k, 1))
        opts = {"abstract_nl": True, "abstract_only": True, "solver_opts": NO_UNFOLD}
        yield "t:time-axis", sv.implies(ink, sv.cmp("==", col["t"], W.tm.get((k,))))
        yield "isf:mean-cos-first-frame-origin", sv.implies(ink, sv.cmp("==", col["isf"], P["F"])), opts
        yield "Qt:overlap-fraction-first-frame-origin", sv.implies(ink, sv.cmp("==", col["Qt"], P["Q"])), opts
        yield "X4_Qt:zero", sv.implies(ink, sv.cmp("==", col["X4_Qt"], 0))
        yield "msd:first-frame-origin", sv.implies(ink, sv.cmp("==", col["msd"], P["M2"])), opts
        yield ("alpha2:c_d-M4/M2^2-1", sv.implies(ink, sv.cmp("==", col["alpha2"], sv.sub(sv.div(sv.mul(alpha2_prefactor(d), P["M4"]), sv.mul(P["M2"], P["M2"])), 1))), opts)
        stores = [e for e in out.state.events if e[0] == "store" and e[1] in inp["watch"]]
        yield "frame-inputs-not-written", len(stores) == 0

    def raises(self, ctx, case, inp, out):
        return None

    def replay(self, case, clause, model, seed):
        return _replay_relaxation("log", case, clause, model, seed)


# ------------------------------------------------------------------------------------------------------
# __init__ of both classes: which trajectory, PBC flag, time axis, per-particle wavenumber denominators and squared cutoffs


def _mk_snaps(ctx, tag, T, N, d):
    X = ctx.array(f"X{tag}", (T, N, d), "float", origin=f"positions of {tag}")
    TS = ctx.array(f"ts{tag}", (T,), "int", origin=f"timesteps of {tag}")
    PT = ctx.array(f"ptype{tag}", (T, N), "int", origin=f"particle types of {tag}")
    cls = load_module(RU).get_class("SingleSnapshot")

    def snap(n):
        return new_obj(cls, {"positions": A.getitem(X, n), "nparticle": N, "timestep": TS.get((n,)), "particle_type": A.getitem(PT, n)}, frozen=True)
    snaps = Ref(cur().alloc(Content("list", A.SeqVal(T, snap))), "list")
    return ctx.obj(RU, "Snapshots", {"nsnapshots": T, "snapshots": snaps}), TS, PT


class _Init(Unit):
    module = MOD
    prop = "C06"
    cls = None

    def cases(self):
        return [f"d={d}/{w}{nb}" for d in (2, 3) for w in ("xu+x", "xu-only", "x-only") for nb in ("", "/nbfile")]

    def setup(self, ctx, case):
        d = int(case[2])
        which = case.split("/")[1]
        nbfile = case.endswith("/nbfile")
        T, N = ctx.int("T"), ctx.int("N")
        ctx.assume(T >= 2)
        ctx.assume(N >= 1)
        xu = x = None
        T2 = T
        if which in ("xu+x", "xu-only"):
            xu, TS, PT = _mk_snaps(ctx, "u", T, N, d)
        if which == "xu+x":
            T2 = ctx.int("Tx")
            ctx.assume(T2 >= 1)
            x, _, _ = _mk_snaps(ctx, "w", T2, N, d)
        if which == "x-only":
            x, TS, PT = _mk_snaps(ctx, "w", T, N, d)
        p = [ctx.int(f"ppp_{k}") for k in range(d)]
        for pk in p:
            ctx.assume(sv.and_(sv.cmp(">=", pk, 0), sv.cmp("<=", pk, 1)))
        ppp = A.from_nested(p, "int")
        ctx.state.origin[ppp.sid] = "argument ppp"
        dia = {1: ctx.real("diameter_1"), 2: ctx.real("diameter_2")}
        a, dt = ctx.real("a"), ctx.real("dt")
        # precondition of the statement's "diameters map": every particle type of the first frame is a key of the map
        qi = z3.Int("qi")
        ctx.assume(z3.ForAll([qi], z3.Implies(z3.And(qi >= 0, qi < sv.znum(N)), z3.Or(sv.znum(PT.get((0, sv.SV(qi)))) == 1, sv.znum(PT.get((0, sv.SV(qi)))) == 2))))
        self_ = ctx.obj(MOD, self.cls, {}, frozen=False)
        k, i = ctx.int("k"), ctx.int("i")
        # k / i are "an arbitrary row / particle": their ranges are hypotheses of every clause; stated as preconditions so that
        # lazily evaluated elements (self.time is built from a comprehension over the snapshot list) are read inside the range
        ctx.assume(_in(0, k, sv.sub(T, 1)))
        ctx.assume(_in(0, i, N))
        inp = dict(d=d, which=which, T=T, T2=T2, N=N, xu=xu, x=x, TS=TS, PT=PT, p=p, ppp=ppp, dia=dia, a=a, dt=dt, self_=self_, k=k, i=i, nbfile=nbfile)
        maxnb = 30
        if nbfile:
            # the neighbour file of this trajectory: one record per frame (at least T records), N rows per record
            F = NbFile(ctx, T, N)
            F.register_facts(ctx)
            maxnb = F.Nmax
            TF = ctx.int("records_in_file")
            ctx.assume(sv.cmp(">=", TF, T))
            ctx.interp.summaries = {RN_KEY: summ_read_neighbors(F, TF)}
            inp.update(F=F, n=ctx.int("n"), c=ctx.int("c"))
        return [self_], dict(xu_snapshots=xu, x_snapshots=x, dt=dt, ppp=ppp, diameters=ctx.pydict(dia), a=a, cal_type="slow",
                             neighborfile=NBFILE if nbfile else "", max_neighbors=maxnb), inp

    def clause_names(self, case):
        names = ["ndim=len(ppp)", "dynamics-use-xu-when-given-else-x", "PBC-removal-iff-only-wrapped-coordinates", "x-kept-for-S4-only-when-both-given",
                 "time[k]=(ts[k+1]-ts[0])*dt", "diameters[i]=map[type_i]", "a2_cuts[i]=(a*diameter_i)^2"]
        if case.endswith("/nbfile"):
            return names + self.file_clauses
        return names + ["no-neighbour-lists-without-file"]

    def ensures(self, ctx, case, inp, out):
        d, which, T, N = inp["d"], inp["which"], inp["T"], inp["N"]
        o = inp["self_"].content
        k, i = inp["k"], inp["i"]

        def same(a, b):
            return (a is None and b is None) or (isinstance(a, Ref) and isinstance(b, Ref) and a.sid == b.sid)
        yield "ndim=len(ppp)", o.get("ndim") == d and o.get("cal_type") == "slow" and isinstance(o.get("ppp"), A.Arr) and o["ppp"].sid == inp["ppp"].sid
        yield "dynamics-use-xu-when-given-else-x", same(o.get("snapshots"), inp["xu"] if which != "x-only" else inp["x"])
        yield "PBC-removal-iff-only-wrapped-coordinates", o.get("PBC") is (which == "x-only")
        yield "x-kept-for-S4-only-when-both-given", same(o.get("x_snapshots"), inp["x"] if which == "xu+x" else None)
        tm = o.get("time")
        okt = isinstance(tm, A.Arr) and tm.ndim == 1 and A.dim_eq_syntactic(tm.shape[0], sv.sub(T, 1))
        TS = inp["TS"]
        yield "time[k]=(ts[k+1]-ts[0])*dt", (sv.implies(_in(0, k, sv.sub(T, 1)), sv.cmp("==", tm.get((k,)), sv.mul(sv.sub(TS.get((sv.add(k, 1),)), TS.get((0,))), inp["dt"])))
                                             if okt else False)
        dm = o.get("diameters")
        okd = isinstance(dm, A.Arr) and dm.ndim == 1 and A.dim_eq_syntactic(dm.shape[0], N)
        ty = inp["PT"].get((0, i))
        want = sv.ite(sv.cmp("==", ty, 1), inp["dia"][1], inp["dia"][2])
        yield "diameters[i]=map[type_i]", (sv.implies(_in(0, i, N), sv.cmp("==", dm.get((i,)), want)) if okd else False)
        a2 = o.get("a2_cuts")
        oka = isinstance(a2, A.Arr) and a2.ndim == 1 and A.dim_eq_syntactic(a2.shape[0], N)
        g_a2 = sv.implies(_in(0, i, N), sv.cmp("==", a2.get((i,)), sv.mul(sv.mul(inp["a"], want), sv.mul(inp["a"], want)))) if oka else False
        yield "a2_cuts[i]=(a*diameter_i)^2", g_a2
        if inp["nbfile"]:
            yield from self.file_ensures(inp, out, o.get("neighborlists"))
        else:
            yield "no-neighbour-lists-without-file", self.no_lists(o.get("neighborlists"))

    @staticmethod
    def _handles(out):
        """the read handles that exist in the final state (every open() allocates one)"""
        return [c.data for c in out.state.heap.values() if c.kind == "file" and isinstance(c.data, dict) and c.data.get("mode") == "r"]

    def handle_clause(self, out, nread):
        """exactly one handle exists, it belongs to the neighbour file, `nread` records were consumed from it, it is closed"""
        hs = self._handles(out)
        if len(hs) != 1 or hs[0].get("path") != NBFILE or not hs[0].get("closed"):
            return False
        return sv.cmp("==", hs[0]["pos"], nread)

    @staticmethod
    def same_as_spec(arr, F, n, inp):
        """arr is the delivered array of record n: shape (N, width(n)), int, element (i, c) = nl(n, i, c) at an arbitrary (i, c)"""
        if not (isinstance(arr, A.Arr) and arr.ndim == 2 and arr.dtype == "int"):
            return False
        i, c = inp["i"], inp["c"]
        return _and(sv.cmp("==", arr.shape[0], F.N), sv.cmp("==", arr.shape[1], F.width(n)),
                    sv.implies(_and(_in(0, i, F.N), _in(0, c, F.width(n))), sv.cmp("==", arr.get((i, c)), F.nl(n, i, c))))

    def raises(self, ctx, case, inp, out):
        if out.exc != "ValueError":
            return None
        if inp["which"] == "xu+x":
            return sv.cmp("!=", inp["T"], inp["T2"])                      # incompatible trajectories
        if inp["which"] == "x-only":
            return sv.and_(*[sv.cmp("==", pk, 0) for pk in inp["p"]])     # wrapped coordinates need a periodic axis
        return None

    def replay(self, case, clause, model, seed):
        return _replay_init(self.cls, case, seed)


class DynInit(_Init):
    qualname = "Dynamics.__init__"
    cls = "Dynamics"
    file_clauses = ["neighbour-lists:one-per-frame", "neighbour-lists[n]=record-n-of-the-file-as-read_neighbors-delivers-it(Nmax=max_neighbors)",
                    "neighbour-file:one-handle/T-records-read-in-file-order/closed"]

    def file_ensures(self, inp, out, v):
        F, T, n = inp["F"], inp["T"], inp["n"]
        ok = isinstance(v, Ref) and v.kind == "list" and isinstance(v.content, A.SeqVal)
        yield self.file_clauses[0], (sv.cmp("==", v.content.length, T) if ok else False)
        if ok:
            yield self.file_clauses[1], sv.implies(_in(0, n, T), self.same_as_spec(v.content.fn(n), F, n, inp))
        else:
            yield self.file_clauses[1], False
        yield self.file_clauses[2], self.handle_clause(out, T)

    def no_lists(self, v):
        return isinstance(v, Ref) and v.kind == "list" and not isinstance(v.content, A.SeqVal) and len(v.content) == 0


class LogInit(_Init):
    qualname = "LogDynamics.__init__"
    cls = "LogDynamics"
    file_clauses = ["neighbour-list=record-0-of-the-file-as-read_neighbors-delivers-it(Nmax=max_neighbors)", "neighbour-file:one-handle/one-record-read/closed"]

    def file_ensures(self, inp, out, v):
        yield self.file_clauses[0], self.same_as_spec(v, inp["F"], 0, inp)
        yield self.file_clauses[1], self.handle_clause(out, 1)

    def no_lists(self, v):
        # the log variant stores an all-zero array, which relaxation() tests with .any()
        return isinstance(v, A.Arr) and all(A.dim_conc(x) for x in v.shape) and all(sv.is_conc(x) and x == 0 for x in _flat(v))


def _flat(a):
    out = A.to_list(a)
    while out and isinstance(out[0], list):
        out = [y for x in out for y in x]
    return out


def _replay_init(clsname, case, seed):
    import importlib

    import numpy as np
    d = int(case[2])
    which = case.split("/")[1]
    if case.endswith("/nbfile"):
        return _replay_init_nbfile(clsname, case, seed)
    Dm = importlib.import_module(MOD)
    cls = getattr(Dm, clsname)
    rng = np.random.default_rng(seed + 99)
    tried = 0
    for rep in range(60):
        T, N = int(rng.integers(2, 7)), int(rng.integers(1, 6))
        w = _random_world(rng, d, False, False, False, T, N, "log" if clsname == "LogDynamics" else "linear")
        su = _mk_snapshots(w["pos"], w["ts"], w["ptype"], None)
        sx = _mk_snapshots(w["pos"] + 0.5, w["ts"], w["ptype"], None)
        ppp = rng.integers(0, 2, size=d)
        if which == "x-only" and not ppp.any():
            ppp[0] = 1
        kw = dict(xu_snapshots=su if which != "x-only" else None, x_snapshots=sx if which != "xu-only" else None, dt=w["dt"], ppp=ppp,
                  diameters=w["diameters"], a=w["a"], cal_type="slow", neighborfile="", max_neighbors=30)
        tried += 1
        inputs = {"T": T, "N": N, "timesteps": w["ts"].tolist(), "particle_type": w["ptype"].tolist(), "diameters": w["diameters"], "a": w["a"], "dt": w["dt"], "ppp": ppp.tolist()}
        try:
            o = cls(**kw)
        except Exception as e:  # noqa
            return {"ran": True, "failed": True, "searched": tried, "inputs": inputs, "detail": f"raises {type(e).__name__}: {e}"}
        bad = None
        diam = np.array([w["diameters"][int(t)] for t in w["ptype"]])
        if o.ndim != d:
            bad = f"ndim = {o.ndim}"
        elif o.snapshots is not (su if which != "x-only" else sx):
            bad = "dynamics are not computed from xu when given (else x)"
        elif o.PBC is not (which == "x-only"):
            bad = f"PBC = {o.PBC} for {which}"
        elif o.x_snapshots is not (sx if which == "xu+x" else None):
            bad = "x_snapshots wrong"
        elif not np.allclose(o.time, (w["ts"][1:] - w["ts"][0]) * w["dt"], rtol=1e-12, atol=0):
            bad = f"time = {np.asarray(o.time).tolist()}, definition {((w['ts'][1:] - w['ts'][0]) * w['dt']).tolist()}"
        elif not np.allclose(o.diameters, diam, rtol=1e-12, atol=0):
            bad = f"diameters = {np.asarray(o.diameters).tolist()}, map gives {diam.tolist()}"
        elif not np.allclose(o.a2_cuts, (w["a"] * diam) ** 2, rtol=1e-12, atol=0):
            bad = f"a2_cuts = {np.asarray(o.a2_cuts).tolist()}, definition {((w['a'] * diam) ** 2).tolist()}"
        elif clsname == "Dynamics" and o.neighborlists != []:
            bad = "neighborlists not empty without a file"
        elif clsname == "LogDynamics" and np.asarray(o.neighborlists).any():
            bad = "neighborlists not all-zero without a file"
        if bad:
            return {"ran": True, "failed": True, "searched": tried, "from_model": False, "inputs": inputs, "detail": bad}
    # the two documented refusals
    for which2, kw2 in (("x-only/no-periodic-axis", dict(xu_snapshots=None, x_snapshots=sx, ppp=np.zeros(d, dtype=int))),):
        try:
            cls(dt=0.002, diameters=w["diameters"], a=0.3, **kw2)
            return {"ran": True, "failed": True, "searched": tried, "inputs": {"case": which2}, "detail": "wrapped coordinates without a periodic axis are accepted"}
        except ValueError:
            pass
    return {"ran": True, "failed": False, "searched": tried, "detail": "real __init__ agrees with the contract on every seeded input"}


def _delivered_ref(rows, N, Nmax):
    """what read_neighbors is documented to deliver for one record: rows = {particle index: [listed zero-based ids]}"""
    import numpy as np
    width = 1 + max(min(len(rows[i]), Nmax) for i in range(N))
    out = np.zeros((N, width), dtype=np.int64)
    for i in range(N):
        c = min(len(rows[i]), Nmax)
        out[i, 0] = c
        for t in range(c):
            out[i, 1 + t] = rows[i][t]
    return out


def _replay_init_nbfile(clsname, case, seed):
    """the neighbour-file branch of __init__ on real files: records with rows in shuffled id order, unequal coordination
    numbers, caps below the longest row, more records in the file than frames; one tracked handle"""
    import builtins
    import importlib
    import os
    import shutil
    import tempfile

    import numpy as np
    d = int(case[2])
    which = case.split("/")[1]
    Dm = importlib.import_module(MOD)
    cls = getattr(Dm, clsname)
    rng = np.random.default_rng(seed + 4099)
    tmpdir = tempfile.mkdtemp(prefix="pyvc-c06-init-")
    tried = 0
    handles = []

    def tracking_open(*a, **k):
        h = builtins.open(*a, **k)
        handles.append(h)
        return h
    try:
        Dm.open = tracking_open
        for rep in range(60):
            T, N = int(rng.integers(2, 6)), int(rng.integers(2, 7))
            w = _random_world(rng, d, False, False, False, T, N, "log" if clsname == "LogDynamics" else "linear")
            su = _mk_snapshots(w["pos"], w["ts"], w["ptype"], None)
            sx = _mk_snapshots(w["pos"] + 0.5, w["ts"], w["ptype"], None)
            ppp = rng.integers(0, 2, size=d)
            if which == "x-only" and not ppp.any():
                ppp[0] = 1
            TF = T + int(rng.integers(0, 3))
            Nmax = int(rng.choice([1, 2, 3, 30]))
            recs = []
            path = os.path.join(tmpdir, f"nl{rep}.dat")
            with builtins.open(path, "w", encoding="utf-8") as f:
                for p_ in range(TF):
                    f.write("id     cn     neighborlist\n")
                    rows = {}
                    for i in rng.permutation(N):
                        i = int(i)
                        cn = int(rng.integers(1, min(N - 1, 5) + 1))
                        rows[i] = [int(x) for x in rng.choice([j for j in range(N) if j != i], size=cn, replace=False)]
                        f.write(" ".join([str(i + 1), str(cn)] + [str(j + 1) for j in rows[i]]) + "\n")
                    recs.append(rows)
            del handles[:]
            kw = dict(xu_snapshots=su if which != "x-only" else None, x_snapshots=sx if which != "xu-only" else None, dt=w["dt"], ppp=ppp,
                      diameters=w["diameters"], a=w["a"], cal_type="slow", neighborfile=path, max_neighbors=Nmax)
            tried += 1
            inputs = {"T": T, "N": N, "records_in_file": TF, "max_neighbors": Nmax, "file_records(zero-based ids)": [{str(k): v for k, v in r.items()} for r in recs]}
            try:
                o = cls(**kw)
            except Exception as e:  # noqa
                return {"ran": True, "failed": True, "searched": tried, "inputs": inputs, "detail": f"raises {type(e).__name__}: {e}"}
            bad = None
            want = [_delivered_ref(recs[n], N, Nmax) for n in range(T)]
            if clsname == "Dynamics":
                got = o.neighborlists
                if not isinstance(got, list) or len(got) != T:
                    bad = f"neighborlists has {len(got) if hasattr(got, '__len__') else '?'} entries for {T} frames"
                else:
                    for n in range(T):
                        g = np.asarray(got[n])
                        if g.shape != want[n].shape or not np.array_equal(g, want[n]) or not np.issubdtype(g.dtype, np.integer):
                            bad = f"neighborlists[{n}] = {g.tolist()} (dtype {g.dtype}); record {n} of the file delivers {want[n].tolist()}"
                            break
            else:
                g = np.asarray(o.neighborlists)
                if g.shape != want[0].shape or not np.array_equal(g, want[0]) or not np.issubdtype(g.dtype, np.integer):
                    bad = f"neighborlists = {g.tolist()} (dtype {g.dtype}); record 0 of the file delivers {want[0].tolist()}"
            if bad is None and (len(handles) != 1 or not handles[0].closed or os.path.abspath(handles[0].name) != os.path.abspath(path)):
                bad = f"{len(handles)} handle(s) opened, closed: {[h.closed for h in handles]}"
            if bad:
                return {"ran": True, "failed": True, "searched": tried, "from_model": False, "inputs": inputs, "detail": bad}
    finally:
        if "open" in vars(Dm):
            del Dm.open
        for h in handles:
            try:
                h.close()
            except Exception:  # noqa
                pass
        shutil.rmtree(tmpdir, ignore_errors=True)
    return {"ran": True, "failed": False, "searched": tried, "detail": "real __init__ stores what the file's records deliver, frame by frame, through one handle that is closed"}


# ------------------------------------------------------------------------------------------------------
# alpha2factor, cage_relative


class Alpha2Factor(Unit):
    module = FUNCS
    qualname = "alpha2factor"
    prop = "C06"

    def cases(self):
        return ["any-ndim"]

    def setup(self, ctx, case):
        nd = ctx.int("ndim")
        return [nd], {}, {"ndim": nd}

    def clause_names(self, case):
        return ["prefactor:3/5-in-3D,1/2-in-2D", "returns-only-for-2D-3D"]

    def ensures(self, ctx, case, inp, out):
        nd = inp["ndim"]
        yield "returns-only-for-2D-3D", sv.or_(sv.cmp("==", nd, 2), sv.cmp("==", nd, 3))
        yield "prefactor:3/5-in-3D,1/2-in-2D", sv.cmp("==", out.value, sv.ite(sv.cmp("==", nd, 3), alpha2_prefactor(3), alpha2_prefactor(2)))

    def raises(self, ctx, case, inp, out):
        nd = inp["ndim"]
        return sv.and_(sv.cmp("!=", nd, 2), sv.cmp("!=", nd, 3)) if out.exc == "ValueError" else None

    def replay(self, case, clause, model, seed):
        import importlib
        F = importlib.import_module(FUNCS)
        bad = None
        for nd, want in ((3, 3.0 / 5.0), (2, 1.0 / 2.0)):
            try:
                got = F.alpha2factor(nd)
            except Exception as e:  # noqa
                got = f"raises {type(e).__name__}"
            if got != want:
                bad = f"alpha2factor({nd}) = {got!r}, the definition of alpha2 needs {want!r}"
        for nd in (1, 4, 0):
            try:
                F.alpha2factor(nd)
                bad = bad or f"alpha2factor({nd}) returns for a dimension that has no definition"
            except ValueError:
                pass
        return {"ran": True, "failed": bad is not None, "searched": 5, "inputs": {"ndim": [3, 2, 1, 4, 0]}, "detail": bad or "ok"}


class CageRelative(Unit):
    """cage_relative(RII, cnlist)[i] = RII[i] - mean over the cn_i = cnlist[i,0] neighbours cnlist[i,1..cn_i] of RII[neighbour]"""
    module = MOD
    qualname = "cage_relative"
    prop = "C06"

    def cases(self):
        return ["d=2", "d=3"]

    def setup(self, ctx, case):
        d = int(case[-1])
        N, Wd = ctx.int("N"), ctx.int("W")
        ctx.assume(N >= 1)
        ctx.assume(Wd >= 2)
        R = ctx.array("RII", (N, d), "float", origin="argument RII")
        CN = ctx.array("cnlist", (N, Wd), "int", origin="argument cnlist")
        i = ctx.int("i")
        inp = dict(d=d, N=N, W=Wd, R=R, CN=CN, i=i)
        # precondition (quantified over the rows i and the neighbour slots t)
        qi, qt = z3.Int("qi"), z3.Int("qt")
        ctx.assume(z3.ForAll([qi, qt], sv.zb(self.pre(inp, sv.SV(qi), sv.SV(qt)))))
        return [R, CN], {}, inp

    @staticmethod
    def pre(inp, i, t):
        """instance of the precondition: every row is well formed (1 <= cn <= W-1, listed ids are row indices of RII)"""
        CN, N, Wd = inp["CN"], inp["N"], inp["W"]
        cn = CN.get((i, 0))
        return sv.implies(_in(0, i, N), _and(sv.cmp(">=", cn, 1), sv.cmp("<=", cn, sv.sub(Wd, 1)),
                                             sv.implies(_in(0, t, cn), _in(0, CN.get((i, sv.add(1, t))), N))))

    def clause_names(self, case):
        return ["shape", "row-i:displacement-minus-mean-over-listed-neighbours", "frame-inputs-not-written"]

    def ensures(self, ctx, case, inp, out):
        d, N, R, CN, i = inp["d"], inp["N"], inp["R"], inp["CN"], inp["i"]
        res = out.value
        ok = isinstance(res, A.Arr) and res.ndim == 2 and A.dim_eq_syntactic(res.shape[0], N) and A.dim_eq_syntactic(res.shape[1], d)
        yield "shape", bool(ok)
        if not ok:
            return
        want = cage_row(lambda j: [R.get((j, a)) for a in range(d)], lambda j, c: CN.get((j, c)), i, d)
        yield ("row-i:displacement-minus-mean-over-listed-neighbours",
               sv.implies(_in(0, i, N), _and(*[sv.cmp("==", res.get((i, a)), want[a]) for a in range(d)])), {"abstract_nl": True})
        stores = [e for e in out.state.events if e[0] == "store" and e[1] in (R.sid, CN.sid)]
        yield "frame-inputs-not-written", len(stores) == 0

    def raises(self, ctx, case, inp, out):
        return None

    def replay(self, case, clause, model, seed):
        import importlib

        import numpy as np
        d = int(case[-1])
        Dm = importlib.import_module(MOD)
        rng = np.random.default_rng(seed + 7)
        tried = 0
        for rep in range(200):
            N = int(rng.integers(2, 8))
            Wd = int(rng.integers(2, 7))
            R = rng.normal(size=(N, d))
            CN = np.zeros((N, Wd), dtype=np.int32)
            for i in range(N):
                cn = int(rng.integers(1, min(Wd - 1, N) + 1))
                CN[i, 0] = cn
                CN[i, 1:cn + 1] = rng.choice(N, size=cn, replace=False)
                CN[i, cn + 1:] = rng.integers(0, N, size=Wd - 1 - cn) if rep % 2 else 0     # padding must not matter
            keep = (R.copy(), CN.copy())
            tried += 1
            try:
                got = np.asarray(Dm.cage_relative(R, CN), dtype=float)
            except Exception as e:  # noqa
                return {"ran": True, "failed": True, "searched": tried, "inputs": {"RII": R.tolist(), "cnlist": CN.tolist()}, "detail": f"raises {type(e).__name__}: {e}"}
            want = _ref_cage(R, CN.tolist())
            bad = None
            if got.shape != want.shape or not np.allclose(got, want, rtol=1e-9, atol=1e-12):
                bad = f"cage_relative = {got.tolist()}, definition = {want.tolist()}"
            elif not (np.array_equal(keep[0], R) and np.array_equal(keep[1], CN)):
                bad = "an input array was modified"
            if bad:
                return {"ran": True, "failed": True, "searched": tried, "from_model": False, "inputs": {"RII": R.tolist(), "cnlist": CN.tolist()}, "detail": bad}
        return {"ran": True, "failed": False, "searched": tried, "detail": "real code agrees with the definition on every seeded input"}


# ------------------------------------------------------------------------------------------------------
# replay: the real classes under CPython against an independent numpy implementation of the definitions


def _ref_min_image(D, H, ppp):
    import numpy as np
    frac = D @ np.linalg.inv(H)
    frac = frac - np.rint(frac) * ppp
    return frac @ H


def _ref_cage(D, nl):
    import numpy as np
    out = np.zeros_like(D)
    for i in range(D.shape[0]):
        cn = int(nl[i][0])
        acc = np.zeros(D.shape[1])
        for t in range(cn):
            acc += D[int(nl[i][1 + t])]
        out[i] = D[i] - acc / cn
    return out


def _ref_pair(pos, n0, n1, H, ppp, nls, sel, diam, a, qconst, fast):
    """(F, Q, M2, M4, N_sel) of the frame pair (n0, n1) straight from the definitions"""
    import numpy as np
    D = pos[n1] - pos[n0]
    if H is not None:
        D = _ref_min_image(D, H[n0], ppp)
    if nls is not None:
        D = _ref_cage(D, nls[n0])
    idx = [i for i in range(D.shape[0]) if sel is None or sel[i]]
    F = 0.0
    Q = 0.0
    M2 = 0.0
    M4 = 0.0
    for i in idx:
        q = qconst / diam[i]
        r2 = 0.0
        for ax in range(D.shape[1]):
            F += np.cos(q * D[i, ax])
            r2 += D[i, ax] ** 2
        cut = (a * diam[i]) ** 2
        Q += 1.0 if ((r2 > cut) if fast else (r2 < cut)) else 0.0
        M2 += r2
        M4 += r2 * r2
    ns = len(idx)
    return F / (ns * D.shape[1]), Q / ns, M2 / ns, M4 / ns, ns


def _ref_table(kind, pos, ts, dt, H, ppp, nls, cond, diam, a, qconst, fast):
    import numpy as np
    T, N, d = pos.shape
    cd = {3: 3.0 / 5.0, 2: 1.0 / 2.0}[d]
    rows = []
    for k in range(T - 1):
        lag = k + 1
        origins = range(0, T - lag) if kind == "linear" else [0]
        vals = []
        for n0 in origins:
            sel = None if cond is None else (cond[n0] if kind == "linear" else cond)
            vals.append(_ref_pair(pos, n0, n0 + lag, H, ppp, nls if (nls is None or kind == "linear") else [nls], sel, diam, a, qconst, fast))
        F = sum(v[0] for v in vals) / len(vals)
        Q = sum(v[1] for v in vals) / len(vals)
        Q2 = sum(v[1] ** 2 for v in vals) / len(vals)
        M2 = sum(v[2] for v in vals) / len(vals)
        M4 = sum(v[3] for v in vals) / len(vals)
        nsel = _ref_pair(pos, 0, 1, None, None, None, None if cond is None else (cond[0] if kind == "linear" else cond), diam, a, qconst, fast)[4]
        x4 = nsel * (Q2 - Q * Q) if kind == "linear" else 0.0
        rows.append([(ts[lag] - ts[0]) * dt, F, Q, x4, M2, cd * M4 / (M2 * M2) - 1.0])
    return np.array(rows)


def _write_neighbors(path, nls):
    with open(path, "w", encoding="utf-8") as f:
        for nl in nls:
            f.write("id     cn     neighborlist\n")
            for i, row in enumerate(nl):
                f.write(" ".join([str(i + 1), str(len(row))] + [str(j + 1) for j in row]) + "\n")


def _mk_snapshots(pos, ts, ptype, H):
    import importlib
    import numpy as np
    R = importlib.import_module(RU)
    T, N, d = pos.shape
    snaps = []
    for n in range(T):
        h = H[n] if H is not None else np.eye(d) * 50.0
        snaps.append(R.SingleSnapshot(timestep=int(ts[n]), nparticle=N, particle_type=ptype.copy(), positions=pos[n].copy(),
                                      boxlength=np.abs(np.diag(h)).copy(), boxbounds=np.array([[0.0, abs(h[c, c])] for c in range(d)]),
                                      realbounds=None, hmatrix=h.copy()))
    return R.Snapshots(nsnapshots=T, snapshots=snaps)


def _random_world(rng, d, pbc, cage, cond, T, N, kind):
    import numpy as np
    ts = np.cumsum(rng.integers(1, 5, size=T)) * 10
    if kind == "linear":
        ts = np.arange(T) * int(rng.integers(1, 20)) + int(rng.integers(0, 50))
    ptype = rng.integers(1, 3, size=N)
    diameters = {1: float(rng.uniform(0.6, 1.4)), 2: float(rng.uniform(0.6, 1.4))}
    H = None
    ppp = np.zeros(d, dtype=int)
    base = rng.uniform(0.0, 4.0, size=(N, d))
    steps = rng.normal(0.0, rng.choice([0.05, 0.3, 1.0]), size=(T, N, d))
    pos = base[None] + np.cumsum(steps, axis=0)
    if pbc:
        H = np.zeros((T, d, d))
        for n in range(T):
            h = np.diag(rng.uniform(3.0, 5.0, size=d))
            for r_ in range(d):
                for c_ in range(r_):
                    h[r_, c_] = rng.uniform(-1.0, 1.0) * rng.integers(0, 2)
            H[n] = h if n == 0 or rng.integers(0, 2) else H[0]
        ppp = rng.integers(0, 2, size=d)
        if not ppp.any():
            ppp[int(rng.integers(0, d))] = 1
        # wrapped coordinates: shift by lattice vectors of periodic axes
        for n in range(T):
            zz = rng.integers(-2, 3, size=(N, d)) * ppp
            pos[n] = pos[n] + zz @ H[n]
    nls = None
    if cage:
        nls = []
        for n in range(T):
            nl = []
            for i in range(N):
                others = [j for j in range(N) if j != i]
                cn = int(rng.integers(1, min(N - 1, 4) + 1))
                nl.append([int(x) for x in rng.choice(others, size=cn, replace=False)])
            nls.append(nl)
    cnd = None
    if cond:
        shape = (T, N) if kind == "linear" else (N,)
        cnd = rng.integers(0, 2, size=shape).astype(bool)
        if kind == "linear":
            for n in range(T):
                if not cnd[n].any():
                    cnd[n, int(rng.integers(0, N))] = True
        elif not cnd.any():
            cnd[int(rng.integers(0, N))] = True
    return dict(pos=pos, ts=ts, ptype=ptype, diameters=diameters, H=H, ppp=ppp, nls=nls, cond=cnd,
                a=float(rng.uniform(0.1, 1.2)), qconst=float(rng.uniform(1.0, 8.0)), dt=float(rng.choice([0.002, 0.01, 1.0])))


def _nl_padded(nl):
    """neighbour rows as the reference uses them: [cn, ids...]"""
    return [[len(r)] + list(r) for r in nl]


def _replay_relaxation(kind, case, clause, model, seed):
    import importlib
    import os
    import tempfile

    import numpy as np
    d, fast, pbc, cage, cond = _parse(case)
    Dm = importlib.import_module(MOD)
    rng = np.random.default_rng(seed + 12345)
    sizes = [(2, 1), (2, 2), (3, 2), (3, 3), (4, 3), (5, 4), (6, 5), (7, 3), (4, 6), (9, 4)]
    mt, mn = model.get("T"), model.get("N")
    if isinstance(mt, int) and isinstance(mn, int) and 2 <= mt <= 8 and 1 <= mn <= 8:
        sizes = [(mt, mn)] + sizes
    tried = 0
    tmpdir = tempfile.mkdtemp(prefix="pyvc-c06-")
    try:
        for rep in range(4):
            for (T, N) in sizes:
                if cage and N < 2:
                    continue
                w = _random_world(rng, d, pbc, cage, cond, T, N, kind)
                tried += 1
                snaps = _mk_snapshots(w["pos"], w["ts"], w["ptype"], w["H"])
                nfile = ""
                nls_ref = None
                if cage:
                    nfile = os.path.join(tmpdir, f"nl_{tried}.dat")
                    _write_neighbors(nfile, w["nls"] if kind == "linear" else w["nls"][:1])
                    nls_ref = [_nl_padded(x) for x in w["nls"]] if kind == "linear" else _nl_padded(w["nls"][0])
                cls = Dm.Dynamics if kind == "linear" else Dm.LogDynamics
                inputs = {"T": T, "N": N, "d": d, "positions": w["pos"].tolist(), "timesteps": w["ts"].tolist(), "particle_type": w["ptype"].tolist(),
                          "diameters": w["diameters"], "a": w["a"], "qconst": w["qconst"], "dt": w["dt"], "cal_type": "fast" if fast else "slow",
                          "ppp": w["ppp"].tolist(), "hmatrix": None if w["H"] is None else w["H"].tolist(),
                          "neighbors": w["nls"] if kind == "linear" else (w["nls"][:1] if cage else None),
                          "condition": None if w["cond"] is None else w["cond"].tolist()}
                keep = w["pos"].copy()
                try:
                    obj = cls(xu_snapshots=None if pbc else snaps, x_snapshots=snaps if pbc else None, dt=w["dt"], ppp=w["ppp"],
                              diameters=w["diameters"], a=w["a"], cal_type="fast" if fast else "slow", neighborfile=nfile, max_neighbors=30)
                    got = obj.relaxation(qconst=w["qconst"], condition=w["cond"], outputfile="")
                except Exception as e:  # noqa
                    return {"ran": True, "failed": True, "searched": tried, "from_model": False, "inputs": inputs, "detail": f"raises {type(e).__name__}: {e}"}
                diam = np.array([w["diameters"][int(t)] for t in w["ptype"]])
                want = _ref_table(kind, w["pos"], w["ts"], w["dt"], w["H"], w["ppp"], nls_ref, w["cond"], diam, w["a"], w["qconst"], fast)
                names = "t isf Qt X4_Qt msd alpha2".split()
                bad = None
                if list(got.columns) != names or got.shape != (T - 1, 6):
                    bad = f"result has columns {list(got.columns)} and shape {got.shape}"
                else:
                    g = got.values
                    for j, nm in enumerate(names):
                        for k in range(T - 1):
                            x, y = float(g[k, j]), float(want[k, j])
                            if x != x and y != y:
                                continue     # 0/0 on both sides (a frame pair without any motion): outside the statement
                            if not (abs(x - y) <= 1e-9 * max(1.0, abs(x), abs(y))):
                                bad = f"row k={k} (lag {k + 1}) column {nm}: real code {x!r}, definition {y!r}"
                                break
                        if bad:
                            break
                if bad is None and not np.array_equal(keep, np.array([s_.positions for s_ in snaps.snapshots])):
                    bad = "the trajectory was modified"
                if bad:
                    return {"ran": True, "failed": True, "searched": tried, "from_model": False, "inputs": inputs, "detail": bad}
    finally:
        import shutil
        shutil.rmtree(tmpdir, ignore_errors=True)
    return {"ran": True, "failed": False, "searched": tried, "detail": "real code agrees with the definitions on every seeded trajectory"}


# ------------------------------------------------------------------------------------------------------
# Dynamics.sq4: four-point structure factor = structure factor of the slow (fast) subset, averaged over origins

CSQ_KEY = "PyMatterSim.static.sq.conditional_sq"
CWV_KEY = "PyMatterSim.utils.wavevector.choosewavevector"
SQCOLS = ["q", "Sq"]
VALUE_C13 = "value-in-the-terms-of-C13:Sq[g]=origin-average-of-the-|q|-group-mean-of-round8(|sum_i[mobile_i]exp(-iq.r_i)|^2/N_mobile)"


def _first_for(qualname, contains):
    import ast
    m = load_module(MOD)
    cls, meth = qualname.split(".")
    node = m.get_class(cls).methods[meth]
    for n in ast.walk(node):
        if isinstance(n, ast.For) and contains in ast.unparse(n):
            return n.lineno
    return None


class DynSq4(Unit):
    """Dynamics.sq4(t, qrange, condition, outputfile): with lag = round(t / time[0]) (documented conversion of the time to a frame
    interval) the returned table is  (1 / (T - lag)) sum_{n < T - lag} S_n,  S_n = second result of
    conditional_sq(frame n of x_snapshots if given else of the dynamics trajectory, the default wave vectors of the box of frame 0,
    condition = [particle i is slow (fast) between frames n and n + lag] * [selected in frame n]), and S_n is written out with the
    spec functions of C13's contract of conditional_sq (setup: csq_spec): row g = (K_n(g), mean over the wave vectors m with
    round8(|q_m|) = K_n(g) of round8(|sum_i [mobile_i(n)] exp(-i q_m . r_i(n))|^2 / #mobile(n))), q_m = 2 pi n_m / L(frame n),
    r_i(n) the positions of the frame handed to conditional_sq.  So the result is literally the structure factor of the slow
    (fast) subset averaged over the origins.
    The frame loop accumulates a DataFrame from the number 0: written invariant, init / step obligations as for every summary."""
    module = MOD
    qualname = "Dynamics.sq4"
    prop = "C06"
    timeout = 20
    loop_opts = {"const_sum_closed": True}

    def cases(self):
        out = []
        for d in (2, 3):
            for mode in ("slow", "fast"):
                for coords in ("xu", "xu+x", "x-only"):
                    for cd in ("all", "condition"):
                        out.append(f"d={d}/{mode}/{coords}/nocage/{cd}/nofile")
            out.append(f"d={d}/slow/xu/cage/all/nofile")
            out.append(f"d={d}/slow/xu/nocage/all/file")
        return out

    def setup(self, ctx, case):
        from pyvc.interp import Frame
        from pyvc.loops import _SideGoal
        from pyvc.pandas_model import df_content, new_df
        from pyvc.state import use_state
        parts = case.split("/")
        d, fast, coords, cage, cond, fil = int(parts[0][2]), parts[1] == "fast", parts[2], parts[3] == "cage", parts[4] == "condition", parts[5] == "file"
        pbc = coords == "x-only"
        W = World(ctx, d, pbc, cage, cond, fast)
        T, N = W.T, W.N
        I_, R_ = z3.IntSort(), z3.RealSort()
        BL = z3.Function("BL_sq", I_, I_, I_, R_)            # box lengths of (trajectory tag, frame, axis)
        ctx.array_fact("BL_sq", lambda tg, n, c: BL(tg, n, c) > 0)
        TAG = z3.Function("frame_tag", I_, I_, I_)           # timestep attribute used as identity of (trajectory tag, frame)

        def snapshot_of(tag):
            def f(n):
                cls = load_module(RU).get_class("SingleSnapshot")
                attrs = {"positions": A.getitem(W.X, n) if tag == 0 else A.new_arr((N, d), lambda idx: sv.SV(z3.Function("XS", I_, I_, I_, R_)(sv.znum(n), sv.znum(idx[0]), sv.znum(idx[1]))), "float"),   # = XSf below
                         "nparticle": N, "timestep": sv.SV(TAG(z3.IntVal(tag), sv.znum(n))), "particle_type": A.getitem(W.ptype, n),
                         "boxlength": A.new_arr((d,), lambda idx: sv.SV(BL(z3.IntVal(tag), sv.znum(n), sv.znum(idx[0]))), "float")}
                attrs["hmatrix"] = A.getitem(W.HM, n) if pbc else _free_cell(n, d)
                return new_obj(cls, attrs, frozen=True)
            return f

        def snaps(tag):
            lst = Ref(cur().alloc(Content("list", A.SeqVal(T, snapshot_of(tag)))), "list")
            return ctx.obj(RU, "Snapshots", {"nsnapshots": T, "snapshots": lst})
        S_dyn = snaps(0)
        S_x = snaps(1) if coords == "xu+x" else None
        sq_tag = 1 if coords == "xu+x" else 0          # whose frames are handed to conditional_sq
        self_ = ctx.obj(MOD, "Dynamics", {"ppp": W.ppp, "ndim": d, "cal_type": "fast" if fast else "slow", "snapshots": S_dyn,
                                          "x_snapshots": (S_x if coords == "xu+x" else (S_dyn if pbc else None)), "PBC": pbc, "time": W.tm,
                                          "diameters": W.diam, "a2_cuts": W.a2, "neighborlists": W.neighborlists()})
        if pbc:
            sq_tag = 0
        t, qrange = ctx.real("t"), ctx.real("qrange")
        ctx.assume(sv.cmp(">", W.tm.get((0,)), 0))
        ctx.assume(qrange > 0)
        lag = sv.rint_int(sv.div(t, W.tm.get((0,))))
        ctx.assume(sv.cmp(">=", lag, 0))
        ctx.assume(sv.cmp("<", lag, T))                     # at least one origin
        G = ctx.int("ngroups")                              # rows of the |q|-averaged table: a function of the wave vectors only
        ctx.assume(G >= 0)
        M = ctx.int("nvectors")
        ctx.assume(M >= 0)
        CS = z3.Function("CSQ", I_, I_, I_, R_)              # (origin frame, row, column) of conditional_sq's second table at this lag

        def cs(n, g, ci):
            return sv.SV(CS(sv.znum(n), sv.znum(g), z3.IntVal(ci)))
        norig = sv.sub(T, lag)
        ctx.assume(M >= 1)                                   # precondition of conditional_sq's contract (C13: nq >= 1)
        # ---- the table conditional_sq returns for origin frame n, in the terms of C13's contract (contracts/C13.py, unit
        # conditional_sq[d/bool]: clauses FFT:sum, FFT:normalisation, Sq=|sum|^2/N_A, rounded-to-8-decimals, q=|q-vector|,
        # average:mean-of-Sq-over-equal-rounded-|q|), built from C13's own spec functions sq_q and sq_mode_sum:
        #   rho_n(m)  = sum_i [mobile_i(n)] exp(-i q_m . r_i(n)),  q_m = 2 pi n_m / L(frame n),  N_A(n) = #mobile(n)
        #   Sq_n(m)   = round8(|rho_n(m)|^2 / N_A(n)),  |q|_n(m) = round8(|q_m|)
        #   row g     = (K_n(g), mean of Sq_n(m) over the m with |q|_n(m) = K_n(g)),  K_n(g) = g-th distinct |q|_n (groupby contract)
        from contracts import C13
        QVf = z3.Function("QV", I_, I_, I_)
        XSf = z3.Function("XS", I_, I_, I_, R_)
        GK = z3.Function("SQ_groupkey", I_, I_, R_)

        class _QV:
            @staticmethod
            def get(idx):
                return sv.SV(QVf(sv.znum(idx[0]), sv.znum(idx[1])))

        class _FrameAsTraj:
            """frame n of the trajectory handed to conditional_sq, seen as the one-frame trajectory of C13's contract"""
            def __init__(self, n):
                self.n = n

            def bl(self, s_, c):
                return sv.SV(BL(z3.IntVal(sq_tag), sv.znum(self.n), sv.znum(c)))

            def pos(self, s_, i, c):
                if sq_tag == 0:
                    return W.pos(self.n, i, c)
                return sv.SV(XSf(sv.znum(self.n), sv.znum(i), sv.znum(c)))

        def c13_inp(n):
            return dict(tr=_FrameAsTraj(n), N=N, d=d, kind="bool", el=lambda i: mobile_spec(n, i), qv=_QV)

        def n_mobile(n):
            return Sum(0, N, lambda j: sv.ite(mobile_spec(n, j), 1, 0))

        def sq_row(n, m):
            """(rounded |q_m|, rounded S(q_m)) of the subset of frame n: C13's per-wave-vector table"""
            inp_n = c13_inp(n)
            rho = C13.sq_mode_sum(inp_n, m)
            raw = sv.div(sv.add(sv.mul(rho.re, rho.re), sv.mul(rho.im, rho.im)), sv.to_real(n_mobile(n)))
            qq = _sum([sv.mul(C13.sq_q(inp_n, m, c), C13.sq_q(inp_n, m, c)) for c in range(d)])
            return sv.round_dec(sv.sqrt(qq), 8), sv.round_dec(raw, 8)

        def csq_spec(n, g, ci):
            """element (g, ci) of the |q|-averaged table (second result) of conditional_sq for origin frame n"""
            key = sv.SV(GK(sv.znum(n), sv.znum(g)))
            if ci == 0:
                return key
            num = Sum(0, M, lambda m: sv.ite(sv.cmp("==", sq_row(n, m)[0], key), lambda: sq_row(n, m)[1], 0))
            den = Sum(0, M, lambda m: sv.ite(sv.cmp("==", sq_row(n, m)[0], key), 1, 0))
            return sv.div(num, den)
        # ---- callee contracts
        numofq_spec = sv.trunc(sv.div(sv.mul(qrange, 2), _min([sv.div(sv.mul(2, sv.PI), sv.SV(BL(z3.IntVal(sq_tag), z3.IntVal(0), z3.IntVal(c)))) for c in range(d)])))
        QV = {}

        def cwv(interp, args, kwargs):
            a = dict(zip(["ndim", "numofq", "onlypositive"], args))
            a.update(kwargs)
            st = cur()
            st.require(sv.cmp("==", a.get("ndim"), d), "call:choosewavevector:pre:ndim")
            st.require(sv.cmp("==", a.get("numofq"), numofq_spec), "call:choosewavevector:numofq=int(2.qrange/min(2pi/L))-of-frame-0-of-the-S(q)-trajectory")
            op = a.get("onlypositive", False)
            st.require(op is False or (sv.is_conc(op) and not op), "call:choosewavevector:onlypositive=False")
            arr = A.new_arr((M, d), lambda idx: sv.SV(QVf(sv.znum(idx[0]), sv.znum(idx[1]))), "int")
            QV["sid"] = arr.sid
            return arr

        def frame_table(fn):
            return new_df({c: A.new_arr((G,), (lambda idx, ci=ci: fn(idx[0], ci)), "float") for ci, c in enumerate(SQCOLS)}, SQCOLS, G)

        def mobile_spec(n, i):
            D = W.disp(n, sv.add(n, lag))
            r2 = _sum([sv.mul(D(i)[a], D(i)[a]) for a in range(d)])
            m = sv.cmp(">" if fast else "<", r2, W.a2.get((i,)))
            return sv.and_(m, W.sel(n, i)) if cond else m

        def csq(interp, args, kwargs):
            a = dict(zip(["snapshot", "qvector", "condition"], args))
            a.update(kwargs)
            st = cur()
            snap = a.get("snapshot")
            ts = snap.content["timestep"] if getattr(snap, "kind", None) == "obj" else None
            okf = isinstance(ts, sv.SV) and z3.is_app(ts.t) and ts.t.decl().name() == "frame_tag" and z3.is_int_value(ts.t.arg(0)) and ts.t.arg(0).as_long() == sq_tag
            st.require(bool(okf), "call:conditional_sq:snapshot-is-a-frame-of-(x_snapshots-if-given-else-the-dynamics-trajectory)")
            if not okf:
                raise sv.EngineError("conditional_sq summary: snapshot argument is not a frame of the expected trajectory")
            n = sv.wrap(ts.t.arg(1))
            qv = a.get("qvector")
            st.require(isinstance(qv, A.Arr) and qv.sid == QV.get("sid") and qv.view is None, "call:conditional_sq:qvector=the-default-wave-vectors")
            cnd = a.get("condition")
            okc = isinstance(cnd, A.Arr) and cnd.ndim == 1 and cnd.dtype == "bool"
            st.require(bool(okc), "call:conditional_sq:condition-is-a-boolean-vector")
            if not okc:
                raise sv.EngineError("conditional_sq summary: condition is not a boolean vector")
            A.require_dim_eq(cnd.shape[0], N, "call:conditional_sq:condition-length")
            i = sv.fresh_int("ci")
            st.assume(W.pre_cell(n)) if pbc else None
            st.require(sv.implies(_in(0, i, N), sv.cmp("==", cnd.get((i,)), mobile_spec(n, i))),
                       "call:conditional_sq:condition=slow(fast)-between-frames-n-and-n+lag(-and-selected-in-frame-n)")
            # precondition of the unit (instance at this origin): the slow (fast, selected) subset of every origin frame is not
            # empty — conditional_sq (C13) requires at least one selected particle (it divides by sqrt of their number)
            cnt = n_mobile(n)
            st.assume(sv.implies(_in(0, n, norig), sv.cmp(">=", cnt, 1)))
            st.require(sv.cmp(">=", Sum(0, N, lambda j: sv.ite(cnd.get((j,)), 1, 0)), 1), "call:conditional_sq:pre:at-least-one-selected-particle")
            st.require(sv.cmp(">=", qv.shape[0], 1) if isinstance(qv, A.Arr) else False, "call:conditional_sq:pre:at-least-one-wave-vector")
            for c_ in range(d):
                st.require(sv.cmp(">", _FrameAsTraj(n).bl(0, c_), 0), "call:conditional_sq:pre:box-lengths-positive")
            # ensures (C13): the second table is CSQ(n, ., .) := csq_spec(n, ., .).  The loop invariant and the origin average are
            # proved for the symbol CSQ (any table per origin); the defining equation enters where the result is stated in C13's
            # terms (clause value-in-the-terms-of-C13, opts array_facts) — so a broken variant fails small queries quickly
            tab = frame_table(lambda g, ci: cs(n, g, ci))
            return (None, tab)
        self.summaries = {"PyMatterSim.utils.pbc.remove_pbc": summ_remove_pbc(W), MOD + ".cage_relative": summ_cage_relative(W), CSQ_KEY: csq, CWV_KEY: cwv}
        ctx.interp.summaries = dict(self.summaries)

        # ---- written invariant of the origin loop: ave_sqresults(k) = sum_{n<k} S_n (a frame); first iteration from the number 0
        def hint(interp, s, frame, st, lo, hi, item_fn):
            where = f"{frame.fname}:{s.lineno}"
            var = "ave_sqresults"

            def inv(k):
                return frame_table(lambda g, ci: Sum(lo, k, lambda n: cs(n, g, ci)))

            def run(kv, val, extra):
                fr = Frame(frame.module, dict(frame.env), frame.fname)
                fr.env[var] = val
                st2 = st.fork()
                st2.pc = list(st.pc) + [sv.zb(sv.cmp(">=", kv, lo)), sv.zb(sv.cmp("<", kv, hi))] + extra
                with use_state(st2):
                    interp.assign(s.target, item_fn(kv), fr)
                    outs = interp.exec_block_paths(s.body, fr, st2)
                normal = [(f2, s2) for f2, s2, out in outs if out[0] == "normal"]
                for f2, s2, out in outs:
                    if out[0] == "raise":
                        st.side.append(_SideGoal(f"loop-body-raises:{out[1]}:{out[2]}", z3.BoolVal(False), s2.all_assumptions(), where))
                if len(normal) != 1:
                    raise sv.EngineError("sq4 origin loop: body does not have a single normal path")
                return normal[0]

            def eq_goals(s2, got, want_df, kind):
                g = sv.fresh_int("g")
                with use_state(s2):
                    if not (getattr(got, "kind", None) == "df" and df_content(got)["order"] == SQCOLS and A.dim_eq_syntactic(df_content(got)["n"], G)):
                        st.side.append(_SideGoal(kind, z3.BoolVal(False), s2.all_assumptions(), where))
                        return
                    for c in SQCOLS:
                        e = sv.cmp("==", df_content(got)["cols"][c].get((g,)), df_content(want_df)["cols"][c].get((g,)))
                        st.side.append(_SideGoal(kind, sv.zb(sv.implies(_in(0, g, G), e)), s2.all_assumptions(), where))
            lo1 = A.simp(sv.add(lo, 1))
            want1 = inv(lo1)              # (tables are allocated before the runs fork the state)
            f2, s2 = run(lo, frame.env[var], [])
            eq_goals(s2, f2.env[var], want1, "loop-init")
            k = sv.fresh_int("k")
            cur_df, nxt_df = inv(k), inv(A.simp(sv.add(k, 1)))
            f3, s3 = run(k, cur_df, [sv.zb(sv.cmp(">=", k, lo1))])
            eq_goals(s3, f3.env[var], nxt_df, "loop-step")
            frame.env[var] = inv(hi)
            for nm in ("pos_init", "pos_end", "RII", "mobility_condition", "n"):
                frame.env.pop(nm, None)
        ln = _first_for(self.qualname, "conditional_sq")
        ctx.interp.loop_hints[(f"{MOD}.{self.qualname}", "for", ln)] = hint
        of = "s4.csv" if fil else ""
        def cs_def(n, g, ci):
            """callee postcondition of conditional_sq (C13) as a fact about the symbol CSQ, instantiated per application"""
            n, g = sv.SV(n), sv.SV(g)
            if z3.is_int_value(ci):
                return sv.zb(sv.cmp("==", sv.SV(CS(n.t, g.t, ci)), csq_spec(n, g, ci.as_long())))
            return z3.BoolVal(True)
        inp = dict(W=W, T=T, G=G, CS=cs, CSspec=csq_spec, CSdef=cs_def, lag=lag, norig=norig, of=of, g=ctx.int("g"),
                   watch=[W.X.sid, W.tm.sid, W.diam.sid, W.a2.sid, W.ppp.sid] + ([W.HM.sid] if pbc else []) + ([W.C.sid] if cond else []))
        return [self_, t, qrange, (W.C if cond else None), of], {}, inp

    def clause_names(self, case):
        return ["result:table-of-q-and-Sq", "value=average-over-the-T-lag-origins-of-the-structure-factor-of-the-slow(fast)-subset", VALUE_C13,
                "file=returned", "frame-inputs-not-written"]

    def ensures(self, ctx, case, inp, out):
        from pyvc.pandas_model import df_content
        res = out.value
        G, CS, norig, g = inp["G"], inp["CS"], inp["norig"], inp["g"]
        ok = getattr(res, "kind", None) == "df" and df_content(res)["order"] == SQCOLS and A.dim_eq_syntactic(df_content(res)["n"], G)
        yield "result:table-of-q-and-Sq", bool(ok)
        if not ok:
            return
        cols = df_content(res)["cols"]
        inr = _in(0, g, G)
        eqs = []
        for ci, c in enumerate(SQCOLS):
            want = sv.div(Sum(0, norig, lambda n: CS(n, g, ci)), norig)
            eqs.append(sv.cmp("==", cols[c].get((g,)), want))
        yield "value=average-over-the-T-lag-origins-of-the-structure-factor-of-the-slow(fast)-subset", sv.implies(inr, sv.and_(*eqs))
        # the same value with the per-origin table written out as C13's contract of conditional_sq specifies it
        # (the origin sums of the symbol CSQ and of its definition coincide: extensionality of the origin sum, with the callee's
        # postcondition CSQ(n, g, .) = csq_spec(n, g, .) at the witness origin; together with the clause above this is the value)
        eqs2 = []
        for ci, c in enumerate(SQCOLS):
            eqs2.append(sv.cmp("==", Sum(0, norig, lambda n: CS(n, g, ci)), Sum(0, norig, lambda n: inp["CSspec"](n, g, ci))))
        X = z3.Int("origin!witness")
        template = z3.And(*[inp["CSdef"](X, g.t, z3.IntVal(ci)) for ci in range(len(SQCOLS))])
        yield (VALUE_C13, sv.and_(*eqs2), {"timeout": 8, "solver_opts": {"unfold": False, "rounds": 2, "pointwise": [lambda x: z3.substitute(template, (X, x))]}})
        writes = [e for e in out.state.trace if e[0] == "to_csv"]
        if not inp["of"]:
            yield "file=returned", len(writes) == 0
        elif len(writes) == 1 and writes[0][1] == inp["of"] and list(writes[0][3]) == SQCOLS:
            yield "file=returned", sv.implies(inr, sv.and_(*[sv.cmp("==", writes[0][2][c].get((g,)), cols[c].get((g,))) for c in SQCOLS]))
        else:
            yield "file=returned", False
        stores = [e for e in out.state.events if e[0] == "store" and e[1] in inp["watch"]]
        yield "frame-inputs-not-written", len(stores) == 0

    def replay(self, case, clause, model, seed):
        return _replay_sq4(case, clause, model, seed)


def _min(xs):
    acc = xs[0]
    for x in xs[1:]:
        acc = sv.minv(acc, x)
    return acc


def _replay_sq4(case, clause, model, seed):
    """real Dynamics.sq4 against the definition: lag from the documented time column, S(q) of the slow (fast, selected) subset of each
    origin frame by direct summation over the default wave vectors, rounded and averaged over equal |q| as conditional_sq documents,
    then averaged over the origins"""
    import importlib

    import numpy as np
    parts = case.split("/")
    d, fast, coords, cage, cond = int(parts[0][2]), parts[1] == "fast", parts[2], parts[3] == "cage", parts[4] == "condition"
    pbc = coords == "x-only"
    Dm = importlib.import_module(MOD)
    WV = importlib.import_module("PyMatterSim.utils.wavevector")
    rng = np.random.default_rng(seed + 4242 + d)
    tried = 0
    for rep in range(24):
        if tried >= 8:
            break
        T, N = int(rng.integers(3, 7)), int(rng.integers(3, 8))
        w = _random_world(rng, d, pbc, False, cond, T, N, "linear")
        if rep % 2 == 0:
            # frame spacing 50 steps with dt = 0.002: the lag times 0.1, 0.2, 0.3, ... whose float quotients by 0.1 are not all integers
            w["ts"] = np.arange(T) * 50
            w["dt"] = 0.002
        if w["H"] is not None:
            # precondition of the sq4 contract (and of the statement's "structure factor ... averaged over origins"): one cell for all
            # frames, so that every origin frame has the same wave vectors; a cell that changes between frames is NOT_DECIDED
            w["H"][:] = w["H"][0]
        H = w["H"]
        if H is None:
            H = np.stack([np.diag(rng.uniform(4.0, 6.0, size=d))] * T)
        snaps = _mk_snapshots(w["pos"], w["ts"], w["ptype"], H)
        xs = None
        if coords == "xu+x":
            xs = _mk_snapshots(w["pos"] + rng.normal(0, 0.3, size=w["pos"].shape), w["ts"], w["ptype"], H)
        try:
            obj = Dm.Dynamics(xu_snapshots=None if pbc else snaps, x_snapshots=snaps if pbc else xs, dt=w["dt"], ppp=w["ppp"],
                              diameters=w["diameters"], a=w["a"], cal_type="fast" if fast else "slow", neighborfile="", max_neighbors=30)
        except Exception as e:  # noqa
            return {"ran": True, "failed": True, "searched": tried, "inputs": {"T": T, "N": N, "d": d}, "detail": f"constructor raises {type(e).__name__}: {e}"}
        k = int(rng.integers(0, T - 1))
        t = float(obj.time[k])
        lag = k + 1
        qrange = 3.0
        inputs = {"T": T, "N": N, "d": d, "timesteps": np.asarray(w["ts"]).tolist(), "dt": w["dt"], "t": t, "expected_lag": lag, "cal_type": "fast" if fast else "slow",
                  "coords": coords, "condition": None if w["cond"] is None else w["cond"].tolist()}
        sq_snaps = (xs if xs is not None else snaps).snapshots
        L = sq_snaps[0].boxlength
        twopidl = 2 * np.pi / L
        numofq = int(qrange * 2.0 / twopidl.min())
        qint = WV.choosewavevector(ndim=d, numofq=numofq, onlypositive=False)
        q = qint.astype(float) * twopidl[None, :]
        diam = np.array([w["diameters"][int(x)] for x in w["ptype"]])
        a2 = (w["a"] * diam) ** 2
        acc, keys = None, None
        empty = False
        for n in range(T - lag):
            dr = w["pos"][n + lag] - w["pos"][n]
            if pbc:
                h = w["H"][n]
                s_ = dr @ np.linalg.inv(h)
                dr = dr - (np.rint(s_) * w["ppp"]) @ h
            r2 = (dr ** 2).sum(axis=1)
            mob = (r2 > a2) if fast else (r2 < a2)
            if w["cond"] is not None:
                mob = mob & w["cond"][n].astype(bool)
            if not mob.any():
                empty = True          # outside the precondition (conditional_sq needs a non-empty subset)
                break
            P = sq_snaps[n].positions[mob]
            rho = np.exp(-1j * (q @ P.T)).sum(axis=1) / np.sqrt(int(mob.sum()))
            per = np.round((rho * np.conj(rho)).real, 8)
            qn = np.round(np.sqrt((q ** 2).sum(axis=1)), 8)
            keys = np.unique(qn)
            val = np.array([per[qn == kq].mean() for kq in keys])
            acc = val if acc is None else acc + val
        if empty:
            continue
        tried += 1
        try:
            got = obj.sq4(t=t, qrange=qrange, condition=w["cond"], outputfile="")
        except Exception as e:  # noqa
            return {"ran": True, "failed": True, "searched": tried, "inputs": inputs, "detail": f"raises {type(e).__name__}: {e}"}
        want = acc / (T - lag)
        g = np.asarray(got.values, dtype=float)
        bad = None
        if list(got.columns) != ["q", "Sq"] or g.shape != (len(keys), 2):
            bad = f"result has columns {list(got.columns)} and shape {g.shape}; expected q, Sq and {len(keys)} rows"
        elif not np.allclose(g[:, 0], keys, rtol=1e-7, atol=1e-7):
            bad = "q column differs from the distinct |q| of the default wave vectors"
        else:
            okv = np.isclose(g[:, 1], want, rtol=1e-6, atol=1e-7) | (np.isnan(g[:, 1]) & np.isnan(want))
            if not okv.all():
                r = int(np.argwhere(~okv)[0][0])
                bad = f"row {r} (|q| = {keys[r]}): real code {g[r, 1]!r}, definition at lag {lag} (t = {t!r} = time[{k}]) {want[r]!r}"
        if bad:
            return {"ran": True, "failed": True, "searched": tried, "inputs": inputs, "detail": bad}
    return {"ran": True, "failed": False, "searched": tried, "detail": "real sq4 agrees with the definition on every seeded trajectory"}


UNITS = [DynRelaxation(), LogRelaxation(), DynInit(), LogInit(), Alpha2Factor(), CageRelative(), DynSq4()]
# callee contracts of other properties used at call sites: their units are re-verified with this check
from contracts.common import callee_units as _callee_units   # noqa: E402
UNITS = UNITS + _callee_units([('C02', None), ('C05', {'read_neighbors'}), ('C13', {'conditional_sq'})], UNITS)

MANIFEST = {
    "text": 'Dynamics.relaxation and LogDynamics.relaxation (real ASTs, re-read every run), symbolic frame number T >= 2 and particle number N >= 1, d in {2,3}, for the full product {slow, fast} x coordinates {xu, x-only} (PBC removal through remove_pbc with the cell of the origin frame, any mask with a periodic axis) x {without, with} cage-relative neighbour lists (list of the origin frame) x {all particles, per-frame boolean selection} = 16 combinations per dimension and class: at an arbitrary row k, t = time[k]; isf, Qt, msd are the averages over ALL origins n0 = 0..T-2-k of the mean of cos(q_i D) over selected particles and axes (q_i = qconst/diameter_i), of the fraction with |D|^2 < a2_i (> for fast) and of the mean |D|^2; X4_Qt = N_sel(<Q^2>-<Q>^2); alpha2 = c_d <M4>/<M2>^2 - 1 with c_3 = 3/5, c_2 = 1/2; the log variant returns the same pair quantities with the first frame as only origin and X4_Qt = 0. The nested (end frame, lag) loops are summarised by inductively checked scatter-add summaries; two generic lemmas proved by induction on the frame number (number of origins = T-1-k; sum over end frames = sum over origins) turn the accumulated sums into the origin averages of the statement. Both __init__ (xu preferred, PBC flag iff only wrapped coordinates, ValueError for unequal frame numbers / no periodic axis, time[k] = (ts[k+1]-ts[0]) dt, diameters = map of the first frame types, a2_cuts = (a diameter)^2), without and WITH a neighbour file: one handle is opened for reading, read_neighbors (callee contract of C05) is called once per frame (Dynamics: T records, neighborlists[n] = record n of the file as delivered with Nmax = max_neighbors: cn = min(listed, Nmax), zero-based ids, zero padding, width 1 + max cn; LogDynamics: record 0 only, which is the list of its only origin frame), the handle is closed; the relaxation and sq4 units take self.neighborlists from the same spec functions, and the lemma delivered-rows-well-formed derives the precondition of cage_relative from a well-formed file, so the chain file -> __init__ -> relaxation -> cage_relative is closed by contracts. alpha2factor (3/5, 1/2, ValueError otherwise), cage_relative (row i = displacement minus the mean over its cn_i listed neighbours, symbolic N and list width), the lemma wrapped = unwrapped on the contract of remove_pbc (lattice-shifted displacement within half a cell is restored, every mask, d = 2, 3), and the lemma that N(<Q^2>-<Q>^2) on overlap fractions equals the documented N^-1(<W^2>-<W>^2) on overlap counts for a selection of constant size. Dynamics.sq4: lag = round(t/time[0]), the mobility mask of every origin frame (checked at the conditional_sq call), the frame and wave vectors handed over, and the result = average over the T-lag origins of the table that C13 specifies for conditional_sq, written with C13 spec functions: per distinct rounded |q| the mean of round8(|sum_i [mobile_i] exp(-i q.r_i)|^2 / N_mobile); saved file = returned. Inputs are never written.',
    "note": 'floats as reals (A1); remove_pbc enters through its C02 contract (uninterpreted row function + call-site preconditions), cage_relative through the contract its own unit proves, read_neighbors through the clauses C05 proves (handle position counted in records), conditional_sq through the table C13 proves (group keys relational, same number of distinct |q| for every origin frame, non-empty wave-vector set and non-empty subset required); np.cos uninterpreted; pandas DataFrame/Series.map contracts assumed; quantified preconditions used by instances; N of chi4 is the selection size of the first frame (the statement and the docs define one N only: constant selection size); the default wave-vector set is opaque here (C04)',
}
