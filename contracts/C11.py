"""C11 — the Hessian is the mass-weighted second derivative of the documented pair energy.

Functions under contract (real ASTs, re-read every run):
  HessianMatrix.pair_matrix, HessianMatrix.diagonalize_hessian (PyMatterSim/static/hessians.py),
  participation_ratio (PyMatterSim/static/vector.py);
callee contracts used at call sites: PairInteractions.caller (proved by C12), remove_pbc (proved by C02),
pair_matrix and participation_ratio (proved here).

Spec (from the property statement and docs/hessian.md, docs/vectors.md; nothing is read back from the code):
  pair energy         U = 1/2 sum_{i != j, r_ij <= rc} phi_{t_i t_j}(r_ij),   r_ij = |D(i,j)|,
                      D(i,j) = minimum image of r_i - r_j (contract of remove_pbc, C02),
                      phi(r) = s(r) - s(rc) - (r - rc) s'(rc)  (force shifted; shift off: phi = s), i.e.
                      phi' = s' - s'(rc) | s',  phi'' = s''      (s, s', s'' of the documented potentials: C12)
  pair block          B(x) = d2 phi(|a - b|) / da da  at a - b = x       (symbolic differentiation, pyvc.diff)
                      and  d2 phi(|a - b|) / da db = -B(x)
  saved matrix        H[(i,p),(j,q)] = -[r_ij <= rc] B(D(i,j))[p,q] / sqrt(m_i m_j)            (i != j)
                      H[(i,p),(i,q)] = sum_{j != i} [r_ij <= rc] B(D(i,j))[p,q] / m_i            (= M^-1/2 d2U M^-1/2)
  symmetric, annihilates sqrt(m) e_q, omega = sqrt(lambda) for lambda > 0, PR = (sum |e_i|^2)^2 / (N sum |e_i|^4) in (0,1].

The last line is derived, in the unit of diagonalize_hessian, from the entry-wise form of the saved matrix and nothing else about the code
(clause families symmetric:*, translations:*, PR-range:*; see Diagonalize._structure and Diagonalize._pr_range).
"""
import z3

from pyvc import arr as A
from pyvc import sv
from pyvc.diff import D, Fn, Sqrt, Var, ev
from pyvc.sigma import Sum
from pyvc.vc import Unit

MOD = "PyMatterSim.static.hessians"
VMOD = "PyMatterSim.static.vector"

NOT_DECIDED = [
    "numerical conditioning / accuracy of np.linalg.eigh (A1: floats are reals; eigh is an assumed relational contract)",
    "'confirmed by finite differences' is replaced by the symbolic second derivative (pyvc.diff); finite differences are used only in the replay harness",
    "symmetry of the saved matrix for parameter matrices that are NOT symmetric in the two types: the clause symmetric:H[...] has 'epsilons, sigmas, r_cuts "
    "symmetric' as its hypothesis (docs/hessian.md: parameters 'for all pairs of particle type'; for an asymmetric table the code's off-diagonal block "
    "-B_{t_i t_j} is not the second derivative of any pair energy)",
    "pairs exactly at the cutoff r_ij = rc (the documented energy is not twice differentiable there; the contract follows the inclusive test r <= rc) "
    "and, for harmonic/Hertz, pairs exactly at contact r = sigma (outside the precondition of the C12 contract)",
    "number of species K > 5 (the species case split is enumerated: K = 1, 2, 3 in the quick tier (3-D: K = 1, 3), d=3/K=2 and K = 4, 5 in the thorough tier "
    "(Diagonalize.thorough_cases); the code path is the same for all K)",
    "code that observes the insertion order of the masses dict (values(), iteration): the contract leaves the order unspecified, the engine stops (UNDECIDED) "
    "and only the replay (descending / shuffled insertion orders, unequal masses) decides",
    "the change '<=' -> '<' of the cutoff test differs from the contract only at exact ties r_ij = rc: the obligation is then not proved and no "
    "float input shows it (UNDECIDED, exit 2), not a VIOLATION",
]
TRUSTED = [
    "assumed relational contract of np.linalg.eigh (pyvc/libext/C11.py): fresh (w, V); only the column normalisation sum_b V(b,k)^2 = 1 is given to the solver "
    "(used by the clause PR-range:eigenvector-is-a-non-zero-field)",
    "differentiation rules of pyvc/diff.py including the chain rule through sqrt and through an abstract function phi (the definition of 'second derivative' here)",
    "callee contract of PairInteractions.caller is the C12 contract (triple = derivatives of the documented s(r)), used generalised to an arbitrary function "
    "of (r, epsilon, sigma, r_c, shift); callee contract of remove_pbc is the C02 row spec (pbc_spec_row)",
    "written loop summaries (pyvc.loops.written_summary) are checked by init/step obligations; the induction principle over the loop counter / particle number is trusted",
    "induction rule used by the clause families translations:row-sum, translations:constant-factor, translations:flat-column-index, PR-range:regrouping, "
    "PR-range:induction and induction (unit participation_ratio): claim(0) and claim(n) => claim(n+1) for a fresh n, both proved with the Sigma unfold axiom "
    "instances, give claim(N); the instance at N is handed to the final query as an assumption",
    "a fact proved at fresh symbolic indices (i, n) is used at other index terms by substitution: at the Skolem index of Sigma-extensionality "
    "(symmetric:diagonal-summand at (i, x)) and at the induction variable; sv.generalize (a term replaced by a fresh constant) is a sound proving step",
    "universally quantified preconditions are used by instantiation: 'every particle type is in 1..K' (per application of ptype), 'no two particles coincide "
    "modulo the periodic lattice' (at the pair of the loop step); definitions of the named spec functions within_rc/Bdiag/Boff are revealed at the pair of the step "
    "and at the pairs (i,j), (j,i), (i,n) of the structure clauses (conservative extension by definitions)",
    "generalisation pre-pass of pyvc.solve (products and reciprocals of non-numerals -> uninterpreted nl!mul / nl!inv with commutativity instances) is sound "
    "for proving only; it never produces a refutation",
    "instances sqrt(m_a m_a) = m_a of the lemma x > 0 => sqrt(x x) = x (proved as C11:lemma:x>0=>sqrt(x.x)=x); instances, for every pair of species masses, of "
    "C11:lemma:translation-summand:product-form; instances rint(-m_k) = -rint(m_k) of C11:lemma:rint(-a)=-rint(a) as rewrites of the ring normaliser",
    "pandas: DataFrame(dict).to_csv writes the columns in insertion order (pyvc/pandas_model.py)",
]


def _sum(xs):
    acc = 0
    for x in xs:
        acc = sv.add(acc, x)
    return acc


# ----------------------------------------------------------------------------------------------------------------
# the pair block as a second derivative (spec side)


def radial_pair_energy(d):
    """u(a, b) = phi(|a - b|) as a term of pyvc.diff (phi abstract)"""
    a = [Var(f"a{k}") for k in range(d)]
    b = [Var(f"b{k}") for k in range(d)]
    s = None
    for k in range(d):
        t = (a[k] - b[k]) * (a[k] - b[k])
        s = t if s is None else s + t
    return Fn("phi", Sqrt(s))


_BLOCKS = {}


def block_terms(d):
    """(d2u/da_p da_q, d2u/da_p db_q) as diff terms, p, q < d"""
    if d not in _BLOCKS:
        u = radial_pair_energy(d)
        ii = [[D(D(u, f"a{p}"), f"a{q}") for q in range(d)] for p in range(d)]
        ij = [[D(D(u, f"a{p}"), f"b{q}") for q in range(d)] for p in range(d)]
        _BLOCKS[d] = (ii, ij)
    return _BLOCKS[d]


def block_spec(x, phi1, phi2, d, M=sv, which="ii"):
    """second derivatives of phi(|a - b|) at a - b = x, given phi'(r) = phi1 and phi''(r) = phi2 (r = |x|)"""
    env = {}
    for k in range(d):
        env[f"a{k}"] = x[k]
        env[f"b{k}"] = 0
    env["phi"] = lambda k, r: {1: phi1, 2: phi2}[k]
    T = block_terms(d)[0 if which == "ii" else 1]
    return [[ev(T[p][q], env, M) for q in range(d)] for p in range(d)]


# ----------------------------------------------------------------------------------------------------------------
# pair_matrix


def _hm_self(ctx, d, **attrs):
    base = dict(ndim=d)
    base.update(attrs)
    return ctx.obj(MOD, "HessianMatrix", base)


class PairMatrix(Unit):
    module = MOD
    qualname = "HessianMatrix.pair_matrix"
    prop = "C11"
    timeout = 20

    def cases(self):
        return ["d=2", "d=3"]

    def setup(self, ctx, case):
        d = int(case[2])
        x = [ctx.real(n) for n in ("x", "y", "z")[:d]]
        s1, s1rc, s2 = ctx.real("s1"), ctx.real("s1rc"), ctx.real("s2")
        R = A.from_nested(x, "float")
        ctx.state.origin[R.sid] = "argument Rji"
        dud = ctx.pylist([s1, s1rc, s2])
        ctx.assume(sv.cmp(">", _sum([sv.mul(v, v) for v in x]), 0))       # distinct particles: r > 0
        o = _hm_self(ctx, d)
        return [o, R, dud], {}, dict(d=d, x=x, s=(s1, s1rc, s2), R=R, dud=dud)

    def clause_names(self, case):
        return ["shape", "dudr2i=d2phi(|a-b|)/da.da", "dudr2j=d2phi(|a-b|)/da.db", "block-symmetric", "dudr2j=-dudr2i",
                "frame-inputs-not-written", "results-do-not-alias"]

    def ensures(self, ctx, case, inp, out):
        d, x = inp["d"], inp["x"]
        s1, s1rc, s2 = inp["s"]
        v = out.value
        ok = isinstance(v, tuple) and len(v) == 2 and all(isinstance(a, A.Arr) and a.ndim == 2 and all(A.dim_eq_syntactic(n, d) for n in a.shape) for a in v)
        yield "shape", bool(ok)
        if not ok:
            return
        bi, bj = v
        phi1 = sv.sub(s1, s1rc)
        Sii = block_spec(x, phi1, s2, d, which="ii")
        Sij = block_spec(x, phi1, s2, d, which="ij")
        yield "dudr2i=d2phi(|a-b|)/da.da", sv.and_(*[sv.cmp("==", bi.get((p, q)), Sii[p][q]) for p in range(d) for q in range(d)])
        yield "dudr2j=d2phi(|a-b|)/da.db", sv.and_(*[sv.cmp("==", bj.get((p, q)), Sij[p][q]) for p in range(d) for q in range(d)])
        yield "block-symmetric", sv.and_(*[sv.cmp("==", bi.get((p, q)), bi.get((q, p))) for p in range(d) for q in range(p)])
        yield "dudr2j=-dudr2i", sv.and_(*[sv.cmp("==", bj.get((p, q)), sv.neg(bi.get((p, q)))) for p in range(d) for q in range(d)])
        stores = [e for e in out.state.events if e[0] == "store" and e[1] in (inp["R"].sid,)]
        yield "frame-inputs-not-written", len(stores) == 0 and tuple(inp["dud"].content) == tuple(inp["s"])
        yield "results-do-not-alias", bi.sid != bj.sid and bi.sid != inp["R"].sid and bj.sid != inp["R"].sid

    def replay(self, case, clause, model, seed):
        return _replay_pair_matrix(case, clause, model, seed)


def _fr(x, default=None):
    if isinstance(x, bool):
        return float(x)
    if isinstance(x, (int, float)):
        return float(x)
    if isinstance(x, str):
        try:
            if "/" in x:
                a, b = x.split("/")
                return int(a) / int(b)
            return float(x)
        except ValueError:
            return default
    return default


def _np_hm(H, d, **kw):
    """a real HessianMatrix object with minimal attributes (for pair_matrix replays)"""
    import numpy as np
    o = H.HessianMatrix.__new__(H.HessianMatrix)
    o.ndim = d
    o.ppp = np.ones(d, dtype=int)
    for k, v in kw.items():
        setattr(o, k, v)
    return o


def _replay_pair_matrix(case, clause, model, seed):
    """real pair_matrix vs (1) the analytic second derivative from pyvc.diff evaluated in floats and (2) central finite
    differences of an independently coded radial energy phi(|a - b|), phi a concrete smooth test function"""
    import importlib
    import math
    import random

    import numpy as np
    from pyvc import conc
    H = importlib.import_module(MOD)
    d = int(case[2])
    rng = random.Random(seed)
    names = ("x", "y", "z")[:d]
    for k in range(300):
        first = k == 0
        x = [(_fr(model.get(n)) if first else None) for n in names]
        if any(v is None for v in x):
            x = [rng.uniform(-2, 2) for _ in range(d)]
        if k in (1, 2) and d >= 2:
            x = [0.0] * d
            x[k % d] = rng.uniform(0.5, 2)       # along an axis
        r = math.sqrt(sum(v * v for v in x))
        if r < 1e-3:
            continue
        # a concrete test potential phi(r) = c2 r^2 + c3 r^3 + c1 / r  (any smooth function will do)
        c1, c2, c3 = rng.uniform(-2, 2), rng.uniform(-2, 2), rng.uniform(-2, 2)

        def phi(t):
            return c2 * t * t + c3 * t ** 3 + c1 / t
        p1 = 2 * c2 * r + 3 * c3 * r * r - c1 / r ** 2
        p2 = 2 * c2 + 6 * c3 * r + 2 * c1 / r ** 3
        if first and all(_fr(model.get(n)) is not None for n in ("s1", "s1rc", "s2")):
            s1, s1rc, s2 = (_fr(model.get(n)) for n in ("s1", "s1rc", "s2"))
            fd = False
        else:
            s1rc = rng.uniform(-1, 1) if k % 2 else 0.0
            s1, s2 = p1 + s1rc, p2
            fd = True
        obj = _np_hm(H, d)
        Rji = np.array(x, dtype=float)
        keep = Rji.copy()
        dud = [s1, s1rc, s2]
        try:
            bi, bj = obj.pair_matrix(Rji, dud)
        except Exception as e:
            return {"ran": True, "failed": True, "inputs": {"Rji": x, "dudrs": dud}, "detail": f"raises {type(e).__name__}: {e}"}
        bi, bj = np.asarray(bi, float), np.asarray(bj, float)
        bad = None
        if bi.shape != (d, d) or bj.shape != (d, d):
            bad = f"shapes {bi.shape} {bj.shape}"
        if bad is None and (not np.array_equal(keep, Rji) or dud != [s1, s1rc, s2]):
            bad = "an input was modified"
        if bad is None:
            Sii = np.array(block_spec(x, s1 - s1rc, s2, d, M=conc, which="ii"), float)
            Sij = np.array(block_spec(x, s1 - s1rc, s2, d, M=conc, which="ij"), float)
            tol = 1e-9 * (1 + np.abs(Sii).max())
            if np.abs(bi - Sii).max() > tol:
                bad = f"dudr2i = {bi.tolist()} but d2phi(|a-b|)/da.da = {Sii.tolist()}"
            elif np.abs(bj - Sij).max() > tol:
                bad = f"dudr2j = {bj.tolist()} but d2phi(|a-b|)/da.db = {Sij.tolist()}"
            elif np.abs(bi - bi.T).max() > tol:
                bad = "block not symmetric"
        if bad is None and fd:
            h = 1e-4
            a0 = np.array(x)
            b0 = np.zeros(d)

            def u(a, b):
                return phi(float(np.linalg.norm(a - b)))
            for p in range(d):
                for q in range(d):
                    ep, eq = np.eye(d)[p] * h, np.eye(d)[q] * h
                    faa = (u(a0 + ep + eq, b0) - u(a0 + ep - eq, b0) - u(a0 - ep + eq, b0) + u(a0 - ep - eq, b0)) / (4 * h * h)
                    fab = (u(a0 + ep, b0 + eq) - u(a0 + ep, b0 - eq) - u(a0 - ep, b0 + eq) + u(a0 - ep, b0 - eq)) / (4 * h * h)
                    scale = 1 + abs(faa)
                    if abs(bi[p, q] - faa) > 2e-5 * scale * (1 + 1 / r ** 4):
                        bad = f"dudr2i[{p},{q}] = {bi[p, q]} but finite-difference d2u/da_{p}da_{q} = {faa}"
                    elif abs(bj[p, q] - fab) > 2e-5 * scale * (1 + 1 / r ** 4):
                        bad = f"dudr2j[{p},{q}] = {bj[p, q]} but finite-difference d2u/da_{p}db_{q} = {fab}"
        if bad:
            return {"ran": True, "failed": True, "from_model": first, "searched": k + 1,
                    "inputs": {"Rji": x, "dudrs": [s1, s1rc, s2], "ndim": d}, "detail": bad}
    return {"ran": True, "failed": False, "searched": 300, "detail": "real pair_matrix agrees with the analytic and the finite-difference second derivative"}


# ----------------------------------------------------------------------------------------------------------------
# participation ratio


def pr_sums(vec, N, d, n=None):
    """S1(n) = sum_{t<n} |e_t|^2,  S2(n) = sum_{t<n} |e_t|^4 for the (N, d) field vec (a reader)"""
    n = N if n is None else n

    def a(t):
        return _sum([sv.mul(vec((t, k)), vec((t, k))) for k in range(d)])
    return Sum(0, n, a), Sum(0, n, lambda t: sv.mul(a(t), a(t))), a


def pr_spec(vec, N, d):
    S1, S2, _ = pr_sums(vec, N, d)
    return sv.div(sv.mul(S1, S1), sv.mul(sv.to_real(N), S2))


def cauchy_schwarz_clauses(vec, N, d, prefix="", tag="", opts=None):
    """(sum_t a_t)^2 <= N sum_t a_t^2 for a_t = |e_t|^2 >= 0 of the (N, d) field `vec`, by induction over the particle number:
      Q(n, c): sum_{t<n} a_t^2 - 2 c sum_{t<n} a_t + n c^2 >= 0     (base n = 0, step n -> n+1: adds (a_n - c)^2)
    and the instance c = S1(N)/N.  Yields (name, goal, opts) obligations and finally (None, S1^2 <= N S2, None): the fact that the
    induction principle (trusted rule) gives from base + step + instance.
    The step is split so that no query depends on the non-linear solver's luck (it used to flip between 0.3 s and a time-out):
      unfold:  S1(n+1) = S1(n) + a_n,  S2(n+1) = S2(n) + a_n^2         (Sigma unfold axiom instances, a_n written out)
      step:    from these two equations, (a_n - c)^2 >= 0 (lemma:square-nonnegative) and Q(n, c): Q(n+1, c) - with a_n and the four
               sums generalised to arbitrary reals (linear arithmetic over the monomials)."""
    opts = dict(opts or {})
    n, c = sv.integer("n_ind" + tag), sv.real("c_ind" + tag)

    def Qv(k, x1, x2, cc):
        return sv.cmp(">=", sv.add(sv.sub(x2, sv.mul(sv.mul(2, cc), x1)), sv.mul(sv.to_real(k), sv.mul(cc, cc))), 0)

    def Q(k, cc):
        S1, S2, _ = pr_sums(vec, N, d, n=k)
        return Qv(k, S1, S2, cc)
    yield prefix + "induction:Q(0,c)", Q(0, c), dict(opts)
    n1 = sv.add(n, 1)
    S1n, S2n, a = pr_sums(vec, N, d, n=n)
    S1m, S2m, _ = pr_sums(vec, N, d, n=n1)
    a_n = a(n)
    unfold = sv.and_(sv.cmp("==", S1m, sv.add(S1n, a_n)), sv.cmp("==", S2m, sv.add(S2n, sv.mul(a_n, a_n))))
    yield prefix + "induction:unfold:S1(n+1)=S1(n)+a_n,S2(n+1)=S2(n)+a_n^2", sv.implies(n >= 0, unfold), dict(opts)
    sq = sv.cmp(">=", sv.mul(sv.sub(a_n, c), sv.sub(a_n, c)), 0)
    step = sv.implies(sv.and_(n >= 0, unfold, sq, Qv(n, S1n, S2n, c)), Qv(n1, S1m, S2m, c))
    yield prefix + "induction:Q(n,c)=>Q(n+1,c)", sv.generalize(step, [a_n, S1n, S2n, S1m, S2m])[0], dict(opts)
    xg = sv.real("x_gen" + tag)
    yield prefix + "lemma:square-nonnegative", sv.cmp(">=", sv.mul(xg, xg), 0), dict(opts)
    S1, S2, _ = pr_sums(vec, N, d)
    Nr = sv.to_real(N)
    cs = sv.cmp("<=", sv.mul(S1, S1), sv.mul(Nr, S2))
    inst = Q(N, sv.div(S1, Nr))               # the instance c = S1/N of the induction's conclusion
    yield prefix + "cauchy-schwarz-from-Q(N,S1/N)", sv.generalize(sv.implies(sv.and_(inst, N >= 1), cs), [S1, S2])[0], dict(opts)
    yield None, cs, None


class ParticipationRatio(Unit):
    """PR = (sum_i |e_i|^2)^2 / (N sum_i |e_i|^4) (docs/vectors.md); in (0, 1] for a non-zero field.
    The bound is Cauchy-Schwarz (sum a)^2 <= N sum a^2, proved by induction over the particle number:
      Q(n, c): sum_{t<n} a_t^2 - 2 c sum_{t<n} a_t + n c^2 >= 0     (base n = 0, step n -> n+1: adds (a_n - c)^2)
    and the instance c = S1(N)/N."""
    module = VMOD
    qualname = "participation_ratio"
    prop = "C11"
    timeout = 60

    def cases(self):
        return ["d=2", "d=3"]

    def setup(self, ctx, case):
        d = int(case[2])
        N = ctx.int("N")
        ctx.assume(N >= 1)
        V = ctx.array("vector", (N, d), "float", origin="argument vector")
        S1, S2, _ = pr_sums(V.reader(), N, d)
        ctx.assume(sv.cmp(">", S1, 0))          # a non-zero field (eigenvectors are normalised)
        return [V], {}, dict(d=d, N=N, V=V, vec=V.reader())

    def clause_names(self, case):
        return ["PR=(sum|e|^2)^2/(N.sum|e|^4)", "induction:Q(0,c)", "induction:unfold:S1(n+1)=S1(n)+a_n,S2(n+1)=S2(n)+a_n^2", "induction:Q(n,c)=>Q(n+1,c)",
                "lemma:square-nonnegative", "cauchy-schwarz-from-Q(N,S1/N)",
                "0<PR<=1", "div0:N.sum|e|^4!=0", "frame-input-not-written"]

    def ensures(self, ctx, case, inp, out):
        d, N, vec = inp["d"], inp["N"], inp["vec"]
        v = out.value
        yield "PR=(sum|e|^2)^2/(N.sum|e|^4)", sv.cmp("==", v, pr_spec(vec, N, d))
        # Cauchy-Schwarz (S1^2 <= N S2) by induction over n for Q(n, c)
        cs = None
        for name, goal, opts in cauchy_schwarz_clauses(vec, N, d):
            if name is None:
                cs = goal
            else:
                yield name, goal, opts
        S1, S2, _ = pr_sums(vec, N, d)
        Nr = sv.to_real(N)
        # the induction principle over n (base + step above) gives Q(N, c) for every c; its instance is assumed here
        yield "0<PR<=1", sv.and_(sv.cmp(">", v, 0), sv.cmp("<=", v, 1)), {"assume": [cs]}
        yield "div0:N.sum|e|^4!=0", sv.cmp("!=", sv.mul(S2, Nr), 0), {"assume": [cs]}
        stores = [e for e in out.state.events if e[0] == "store" and e[1] == inp["V"].sid]
        yield "frame-input-not-written", len(stores) == 0

    def replay(self, case, clause, model, seed):
        import importlib
        import random

        import numpy as np
        Vm = importlib.import_module(VMOD)
        d = int(case[2])
        rng = random.Random(seed)
        for k in range(300):
            N = [1, 2, 3, 5, 17][k % 5] if k < 50 else rng.randint(1, 40)
            v = np.array([[rng.uniform(-2, 2) for _ in range(d)] for _ in range(N)])
            if k % 7 == 3:
                v[rng.randrange(N):] = 0.0      # localised field
                if not v.any():
                    v[0, 0] = 1.0
            if k % 7 == 4:
                v = np.ones((N, d)) * rng.uniform(0.1, 3)     # uniform translation: PR = 1
            keep = v.copy()
            try:
                got = float(Vm.participation_ratio(v))
            except Exception as e:
                return {"ran": True, "failed": True, "inputs": {"vector": v.tolist()}, "detail": f"raises {type(e).__name__}: {e}"}
            a = [sum(v[i, c] ** 2 for c in range(d)) for i in range(N)]
            want = sum(a) ** 2 / (N * sum(t * t for t in a))
            bad = None
            if abs(got - want) > 1e-9 * (1 + abs(want)):
                bad = f"participation_ratio = {got}, definition gives {want}"
            elif not (0 < got <= 1 + 1e-12):
                bad = f"participation ratio {got} outside (0, 1]"
            elif not np.array_equal(keep, v):
                bad = "input modified"
            if bad:
                return {"ran": True, "failed": True, "searched": k + 1, "inputs": {"vector": v.tolist()}, "detail": bad}
        return {"ran": True, "failed": False, "searched": 300}



# ----------------------------------------------------------------------------------------------------------------
# diagonalize_hessian

RU = "PyMatterSim.reader.reader_utils"
F_T = [z3.Function(n, z3.RealSort(), z3.RealSort(), z3.RealSort(), z3.RealSort(), z3.BoolSort(), z3.RealSort())
       for n in ("dsdr", "dsdr_rc", "d2sdr2")]


def triple_of(r, eps, sig, rc, shift):
    """[s'(r), s'(rc)|0, s''(r)] of the potential selected by interaction_params for the pair parameters (eps, sig, rc):
    the contract of PairInteractions.caller (C12: equal to the derivatives of the documented s(r)), *generalised* to an
    arbitrary function of the same arguments (universal generalisation: what is proved for every such function holds for
    the three documented potentials)."""
    args = [sv.zr(r), sv.zr(eps), sv.zr(sig), sv.zr(rc), sv.zb(shift) if not isinstance(shift, bool) else z3.BoolVal(shift)]
    return [sv.SV(f(*args)) for f in F_T]


def _pick2(tab, i, j):
    return A._pick([A._pick(row, j) for row in tab], i)


class Sys:
    """symbolic system + the spec functions over it"""

    def __init__(self, ctx, d, K):
        from contracts import C02
        self.d, self.K = d, K
        N = self.N = ctx.int("N")
        ctx.assume(N >= 1)
        self.pos = ctx.array("pos", (N, d), "float", origin="snapshot.positions")
        self.ptype = ctx.array("ptype", (N,), "int", origin="snapshot.particle_type")
        from pyvc import axioms
        axioms.QFACTS["ptype"] = lambda app, K=K: [z3.And(app >= 1, app <= K)]       # every particle type is one of 1..K
        self.Hm = C02._mat(ctx, "H", d, "general")
        self.H = A.from_nested(self.Hm, "float")
        ctx.state.origin[self.H.sid] = "snapshot.hmatrix"
        self.det, self.G = C02._inv_spec(self.Hm, d)
        ctx.assume(sv.cmp("!=", self.det, 0))
        self.p = [ctx.int(f"ppp_{k}") for k in range(d)]
        for pk in self.p:
            ctx.assume(sv.or_(sv.cmp("==", pk, 0), sv.cmp("==", pk, 1)))
        self.ppp = A.from_nested(self.p, "int")
        ctx.state.origin[self.ppp.sid] = "ppp"
        self.m = [ctx.real(f"m_{a + 1}") for a in range(K)]
        for x in self.m:
            ctx.assume(x > 0)
        self.eps_t = [[ctx.real(f"eps_{a + 1}{b + 1}") for b in range(K)] for a in range(K)]
        self.sig_t = [[ctx.real(f"sig_{a + 1}{b + 1}") for b in range(K)] for a in range(K)]
        self.rc_t = [[ctx.real(f"rc_{a + 1}{b + 1}") for b in range(K)] for a in range(K)]
        for a in range(K):
            for b in range(K):
                ctx.assume(self.sig_t[a][b] > 0)
                ctx.assume(self.rc_t[a][b] > 0)
        self.eps, self.sig, self.rc = (A.from_nested(t, "float") for t in (self.eps_t, self.sig_t, self.rc_t))
        for arr_, nme in ((self.eps, "epsilons"), (self.sig, "sigmas"), (self.rc, "r_cuts")):
            ctx.state.origin[arr_.sid] = nme
        self.shift = ctx.bool("shiftpotential")
        # masses: a mapping type id -> mass.  Its insertion order is an input the contract does not fix ({2: .., 1: ..} is a valid argument):
        # a lookup by key is order-independent; code that uses the dict positionally (values(), iteration) stops the engine (replay decides)
        self.masses = ctx.pydict({a + 1: self.m[a] for a in range(K)}, unordered=True)
        z = A.zeros((d,), "float")
        self.snapshot = ctx.obj(RU, "SingleSnapshot", dict(timestep=0, nparticle=N, particle_type=self.ptype, positions=self.pos,
                                                           boxlength=z, boxbounds=z, realbounds=z, hmatrix=self.H))
        self.obj = ctx.obj(MOD, "HessianMatrix", dict(snapshot=self.snapshot, masses=self.masses, epsilons=self.eps, sigmas=self.sig,
                                                      r_cuts=self.rc, ppp=self.ppp, ndim=d, shiftpotential=self.shift))
        self.inputs = [self.pos.sid, self.ptype.sid, self.H.sid, self.ppp.sid, self.eps.sid, self.sig.sid, self.rc.sid]

    # ---- spec functions (all at symbolic particle indices)
    def ty(self, i):
        return sv.sub(self.ptype.get((i,)), 1)

    def Dvec(self, i, j):
        """minimum image of r_i - r_j (contract of remove_pbc, C02)"""
        from contracts import C02
        row = [sv.sub(self.pos.get((i, c)), self.pos.get((j, c))) for c in range(self.d)]
        return C02.pbc_spec_row(row, self.Hm, self.G, self.p, self.d)

    def r2(self, i, j):
        return _sum([sv.mul(x, x) for x in self.Dvec(i, j)])

    def dist(self, i, j):
        return sv.sqrt(self.r2(i, j))

    def par(self, tab, i, j):
        return _pick2(tab, self.ty(i), self.ty(j))

    def within(self, i, j):
        """the pair (i, j), i != j, interacts: r_ij <= rc"""
        return sv.and_(sv.cmp("!=", j, i), sv.cmp("<=", self.dist(i, j), self.par(self.rc_t, i, j)))

    def block(self, i, j, which="ii"):
        """second derivative block of phi_{t_i t_j}(|a - b|) at a - b = D(i,j)"""
        r = self.dist(i, j)
        T = triple_of(r, self.par(self.eps_t, i, j), self.par(self.sig_t, i, j), self.par(self.rc_t, i, j), self.shift)
        return block_spec(self.Dvec(i, j), sv.sub(T[0], T[1]), T[2], self.d, which=which)

    def w_off(self, i, j):
        K = self.K
        return _pick2([[sv.div(sv.to_frac(1.0), sv.sqrt(sv.mul(self.m[a], self.m[b]))) for b in range(K)] for a in range(K)], self.ty(i), self.ty(j))

    def w_diag(self, i):
        return A._pick([sv.div(sv.to_frac(1.0), self.m[a]) for a in range(self.K)], self.ty(i))

    # ---- the same spec functions as *named* functions of the particle indices (opaque in the loop proofs; `defs` reveals
    #      their definition at an instance: a conservative extension by definitions)
    F_WITHIN = z3.Function("within_rc", z3.IntSort(), z3.IntSort(), z3.BoolSort())
    F_BD = z3.Function("Bdiag", z3.IntSort(), z3.IntSort(), z3.IntSort(), z3.IntSort(), z3.RealSort())    # B(D(i,j))[p][q] / m_i
    F_BO = z3.Function("Boff", z3.IntSort(), z3.IntSort(), z3.IntSort(), z3.IntSort(), z3.RealSort())     # -B(D(i,j))[p][q] / sqrt(m_i m_j)

    def WITHIN(self, i, j):
        return sv.SV(self.F_WITHIN(sv.znum(i), sv.znum(j)))

    def BD(self, i, j, p, q):
        return sv.SV(self.F_BD(sv.znum(i), sv.znum(j), sv.znum(p), sv.znum(q)))

    def BO(self, i, j, p, q):
        return sv.SV(self.F_BO(sv.znum(i), sv.znum(j), sv.znum(p), sv.znum(q)))

    def defs(self, i, j):
        """definitions of within_rc, Bdiag, Boff at the pair (i, j) (z3 facts)"""
        d = self.d
        Bii, Bij = self.block(i, j, "ii"), self.block(i, j, "ij")
        out = [self.F_WITHIN(sv.znum(i), sv.znum(j)) == sv.zb(self.within(i, j))]
        for p in range(d):
            for q in range(d):
                out.append(sv.zb(sv.cmp("==", self.BD(i, j, p, q), sv.mul(Bii[p][q], self.w_diag(i)))))
                out.append(sv.zb(sv.cmp("==", self.BO(i, j, p, q), sv.mul(Bij[p][q], self.w_off(i, j)))))
        return out

    # ---- the same definitions one by one (the structure clauses reveal only the ones they need)
    def def_within(self, i, j):
        return self.F_WITHIN(sv.znum(i), sv.znum(j)) == sv.zb(self.within(i, j))

    def bd_def(self, i, j, p, q):
        """definiens of Bdiag(i, j, p, q)"""
        return sv.mul(self.block(i, j, "ii")[p][q], self.w_diag(i))

    def bo_def(self, i, j, p, q):
        """definiens of Boff(i, j, p, q)"""
        return sv.mul(self.block(i, j, "ij")[p][q], self.w_off(i, j))

    def frac(self, i, j):
        """fractional coordinates (r_i - r_j) H^-1 (the argument of rint in the contract of remove_pbc)"""
        from contracts import C02
        row = [sv.sub(self.pos.get((i, c)), self.pos.get((j, c))) for c in range(self.d)]
        return C02._vecmat(row, self.G, self.d)

    def sqrt_mass(self, i):
        """sqrt(m_i): component of the mass-weighted uniform translation M^1/2 e_q at particle i"""
        return A._pick([sv.sqrt(x) for x in self.m], self.ty(i))

    def symmetric_params(self):
        """the pair parameters are parameters of unordered type pairs (docs/hessian.md: 'for all pairs of particle type')"""
        K = self.K
        return sv.and_(*[sv.cmp("==", tab[a][b], tab[b][a]) for tab in (self.eps_t, self.sig_t, self.rc_t) for a in range(K) for b in range(a)]) \
            if K > 1 else True

    def sqrt_mm(self):
        """instances sqrt(m_a m_a) = m_a of the lemma `x > 0 => sqrt(x x) = x` (proved once, extra_checks)"""
        return [sv.zb(sv.cmp("==", sv.sqrt(sv.mul(x, x)), x)) for x in self.m]

    def diag_sum(self, i, p, q, upto=None):
        """sum_{t < upto, t != i, r_it <= rc} B(D(i,t))[p][q] / m_i   (p, q may be symbolic)"""
        upto = self.N if upto is None else upto
        return Sum(0, upto, lambda t: sv.ite(self.WITHIN(i, t), lambda: self.BD(i, t, p, q), sv.to_frac(0.0)))

    def off_entry(self, i, j, p, q):
        return self.BO(i, j, p, q)

    def entry(self, i, p, j, q):
        """component (p, q) of block (i, j) of M^-1/2 d2U M^-1/2"""
        return sv.ite(sv.cmp("==", i, j), lambda: self.diag_sum(i, p, q),
                      lambda: sv.ite(self.WITHIN(i, j), lambda: self.off_entry(i, j, p, q), sv.to_frac(0.0)))

    def hessian_spec(self, a, b):
        """entry (a, b) of M^-1/2 d2U M^-1/2, a = i d + p, b = j d + q"""
        d = self.d
        return self.entry(sv.floordiv(a, d), sv.mod(a, d), sv.floordiv(b, d), sv.mod(b, d))


def translation_summand(X, Y, g, h, mi, mj):
    """X = g (1/m_i), Y = h (1/sqrt(m_i m_j)), h = -g  =>  X sqrt(m_i) + Y sqrt(m_j) = 0: the contribution of the pair (i, j) to row i of
    H applied to M^1/2 e_q vanishes (X = Bdiag, Y = Boff in the product form of their definitions, g = B[p][q], h = d2u/da_p db_q)"""
    one = sv.to_frac(1.0)
    hyp = sv.and_(sv.cmp("==", X, sv.mul(g, sv.div(one, mi))), sv.cmp("==", Y, sv.mul(h, sv.div(one, sv.sqrt(sv.mul(mi, mj))))), sv.cmp("==", h, sv.neg(g)))
    return sv.implies(hyp, sv.cmp("==", sv.add(sv.mul(X, sv.sqrt(mi)), sv.mul(Y, sv.sqrt(mj))), 0))


def _find_loops(qualname="HessianMatrix.diagonalize_hessian"):
    """line numbers of the particle loops `for i in range(nparticle)` / nested `for j in range(nparticle)` of the real AST"""
    import ast

    from pyvc.interp import load_module
    m = load_module(MOD)
    node = m.get_class("HessianMatrix").methods["diagonalize_hessian"]
    for n in ast.walk(node):
        if isinstance(n, ast.For):
            inner = [x for b in n.body for x in ast.walk(b) if isinstance(x, ast.For)]
            if inner and "remove_pbc" in ast.unparse(n) and "hessian_matrix" in ast.unparse(inner[0]):
                return n.lineno, inner[0].lineno
    return None, None


class Diagonalize(Unit):
    module = MOD
    qualname = "HessianMatrix.diagonalize_hessian"
    prop = "C11"
    timeout = 5
    solver_opts = {"abstract_nl": True}

    def cases(self):
        # K = number of species (masses / parameter matrices K x K).  Measured (one core, idle): d=2: K=2 25 s, K=3 30 s; d=3: K=1 45 s, K=3 60 s
        return ["d=2/K=2", "d=2/K=3", "d=3/K=1", "d=3/K=3", "d=2/K=1/default-outputfile"]

    def thorough_cases(self):
        # the remaining species counts the library enumerates elsewhere (up to five), same contract: only run with --tier thorough
        return ["d=3/K=2", "d=2/K=4", "d=3/K=4", "d=2/K=5", "d=3/K=5"]

    # ------------------------------------------------------------------------------------------ callee contracts
    def _summaries(self, S):
        from pyvc.interp import PyRaise, new_list
        from pyvc.state import cur
        from contracts import C02
        d = S.d

        def s_remove_pbc(interp, args, kwargs):
            names = ["RIJ", "hmatrix", "ppp"]
            a = dict(zip(names, args))
            a.update(kwargs)
            R, Hh = a["RIJ"], a["hmatrix"]
            if "ppp" not in a:
                raise PyRaise("contract", "remove_pbc called without ppp: the default mask [1,1,1] is not the system's mask")
            P = a["ppp"]
            if not (isinstance(R, A.Arr) and R.ndim == 2 and A.dim_eq_syntactic(R.shape[1], d)):
                raise PyRaise("contract", "remove_pbc: RIJ must have shape (n, d)")
            Hm = A.to_list(Hh)
            p = A.to_list(P)
            det, G = C02._inv_spec(Hm, d)
            cur().require(sv.cmp("!=", det, 0), "call:remove_pbc:pre:det!=0")
            cur().require(sv.and_(*[sv.or_(sv.cmp("==", x, 0), sv.cmp("==", x, 1)) for x in p]), "call:remove_pbc:pre:mask-in-{0,1}")
            rd = R.reader()
            n = R.shape[0]
            return A.new_arr((n, d), lambda idx: A._pick(C02.pbc_spec_row([rd((idx[0], c)) for c in range(d)], Hm, G, p, d), idx[1]), "float")

        def s_caller(interp, args, kwargs):
            o = args[0]
            ip = args[1] if len(args) > 1 else kwargs.get("interaction_params")
            c = o.content
            cur().require(ip is S.ip or (hasattr(ip, "sid") and ip.sid == S.ip.sid), "call:caller:pre:interaction_params-passed-through")
            cur().require(sv.and_(sv.cmp(">", c["r"], 0), sv.cmp(">", c["sigma"], 0), sv.cmp(">", c["r_c"], 0)), "call:caller:pre:r,sigma,rc>0")
            return new_list(triple_of(c["r"], c["epsilon"], c["sigma"], c["r_c"], c["shift"]))

        def s_pair_matrix(interp, args, kwargs):
            o, R, dud = args[0], args[1], args[2]
            if not (isinstance(R, A.Arr) and R.ndim == 1 and A.dim_eq_syntactic(R.shape[0], d)):
                raise PyRaise("contract", "pair_matrix: Rji must have shape (d,)")
            cur().require(o.content["ndim"] == d, "call:pair_matrix:pre:ndim")
            x = [R.get((c,)) for c in range(d)]
            cur().require(sv.cmp(">", _sum([sv.mul(v, v) for v in x]), 0), "call:pair_matrix:pre:r>0")
            t = interp.iter_concrete(dud)
            if len(t) != 3:
                raise PyRaise("contract", "pair_matrix: dudrs must have 3 entries")
            phi1 = sv.sub(t[0], t[1])
            return (A.from_nested(block_spec(x, phi1, t[2], d, which="ii"), "float"), A.from_nested(block_spec(x, phi1, t[2], d, which="ij"), "float"))

        return {"PyMatterSim.utils.pbc.remove_pbc": s_remove_pbc,
                f"{MOD}.PairInteractions.caller": s_caller,
                f"{MOD}.HessianMatrix.pair_matrix": s_pair_matrix}

    # ------------------------------------------------------------------------------------------ loop summaries
    def _hints(self, S):
        """written summaries of the two particle loops, phrased over the spec (hessian_spec); init/step are obligations"""
        from pyvc.loops import written_summary
        from pyvc.state import cur
        d = S.d
        lo_, li_ = _find_loops()
        fname = f"{MOD}.HessianMatrix.diagonalize_hessian"

        def hsid(frame):
            h = frame.env.get("hessian_matrix")
            if not isinstance(h, A.Arr):
                from pyvc.sv import EngineError
                raise EngineError("the particle loop no longer works on a local array `hessian_matrix`")
            return h.sid

        def distinct(i, j):
            """instance of the precondition `no two particles coincide (mod periodic lattice)`"""
            return sv.zb(sv.implies(sv.cmp("!=", i, j), sv.cmp(">", S.r2(i, j), 0)))

        def outer(interp, s, frame, st, lo, hi, item_fn):
            sid = hsid(frame)

            def at(k):
                def fn(idx):
                    a, b = idx
                    return sv.ite(sv.cmp("<", sv.floordiv(a, d), k), lambda: S.hessian_spec(a, b), sv.to_frac(0.0))
                return fn
            return written_summary(interp, s, frame, st, lo, hi, item_fn, {sid: at}, label="particle-loop-i")

        def inner(interp, s, frame, st, lo, hi, item_fn):
            sid = hsid(frame)
            i = frame.env["i"]
            pre = st.heap[sid].data
            # instance of the distinctness precondition for the pair (i, j) of the step
            id0 = sv.mul(i, d)

            def rows(a):
                return sv.and_(sv.cmp(">=", a, id0), sv.cmp("<", a, sv.add(id0, d)))

            def at(k):
                def fn(idx):
                    a, b = idx
                    p, q = sv.sub(a, id0), sv.mod(b, d)
                    jb = sv.floordiv(b, d)
                    return sv.ite(rows(a),
                                  lambda: sv.ite(rows(b), lambda: sv.add(pre(idx), S.diag_sum(i, p, sv.sub(b, id0), upto=k)),
                                                 lambda: sv.ite(sv.and_(sv.cmp("<", jb, k), S.WITHIN(i, jb)), lambda: S.off_entry(i, jb, p, q), lambda: pre(idx))),
                                  lambda: pre(idx))
                return fn
            parts = {sid: [("assembly:diagonal-block=sum_j-B(i,j)/m_i", lambda idx: sv.and_(rows(idx[0]), rows(idx[1]))),
                           ("assembly:off-diagonal-block=-B(i,j)/sqrt(m_i.m_j)", lambda idx: sv.and_(rows(idx[0]), sv.not_(rows(idx[1])))),
                           ("assembly:other-rows-untouched", lambda idx: sv.not_(rows(idx[0])))]}
            return written_summary(interp, s, frame, st, lo, hi, item_fn, {sid: at}, parts=parts, label="particle-loop-j",
                                   assume_at=lambda j: [distinct(i, j)] + S.defs(i, j) + S.sqrt_mm())
        return {(fname, "for", lo_): outer, (fname, "for", li_): inner}

    def setup(self, ctx, case):
        d = int(case[2])
        K = int(case.split("K=")[1].split("/")[0])
        S = Sys(ctx, d, K)
        S.ip = ctx.obj(MOD, "InteractionParams", dict(model_name=ctx.enum(MOD, "ModelName", "inverse_power_law"), ipl_n=ctx.real("n"),
                                                      ipl_A=ctx.real("A"), harmonic_hertz_alpha=ctx.real("alpha")))
        ctx.interp.summaries.update(self._summaries(S))
        ctx.interp.loop_hints.update(self._hints(S))
        given = "default" not in case
        sh, se = ctx.bool("savehessian"), ctx.bool("saveevecs")
        return [S.obj, S.ip], dict(saveevecs=se, savehessian=sh, outputfile="out" if given else ""), \
            dict(S=S, d=d, K=K, base="out" if given else "inverse_power_law", savehessian=sh, saveevecs=se)

    def clause_names(self, case):
        return ["assembly:diagonal-block=sum_j-B(i,j)/m_i", "assembly:off-diagonal-block=-B(i,j)/sqrt(m_i.m_j)", "assembly:other-rows-untouched",
                "saved-matrix=M^-1/2.d2U.M^-1/2", "files:hessian-iff-savehessian,evecs-iff-saveevecs,csv-always", "eigh-is-applied-to-the-saved-matrix",
                "saved-evecs=eigenvectors", "omega=sqrt(eigenvalue)-if-positive", "PR=participation-ratio-of-eigenvector-as-(N,d)-field",
                "frame-inputs-not-written"] + self.STRUCTURE + self.PR_RANGE

    def ensures(self, ctx, case, inp, out):
        S, d = inp["S"], inp["d"]
        base = inp["base"]
        tr = out.state.trace
        saves = [e for e in tr if e[0] == "np.save"]
        hs = [e for e in saves if e[1] == base + ".hessianmatrix.npy"]
        es = [e for e in saves if e[1] == base + ".evecs.npy"]
        cs = [e for e in tr if e[0] == "to_csv"]
        eg = [e for e in tr if e[0] == "np.linalg.eigh"]
        sh, se = inp["savehessian"], inp["saveevecs"]
        # which files are written is decided on this path: the flags are symbolic, so compare with the path's decisions
        def flag(v):
            from pyvc.state import cur
            return ctx.interp.decide(v) if not isinstance(v, bool) else v
        files_ok = len(hs) == (1 if flag(sh) else 0) and len(es) == (1 if flag(se) else 0) and len(cs) == 1 and len(saves) == len(hs) + len(es) \
            and cs[0][1] == base + ".omega_PR.csv" and len(eg) == 1
        yield "files:hessian-iff-savehessian,evecs-iff-saveevecs,csv-always", bool(files_ok)
        stores = [e for e in out.state.events if e[0] == "store" and e[1] in S.inputs]
        yield "frame-inputs-not-written", len(stores) == 0
        if not files_ok:
            return
        a, b = ctx.int("a"), ctx.int("b")
        n = sv.mul(d, S.N)
        inr = sv.and_(a >= 0, b >= 0, sv.cmp("<", a, n), sv.cmp("<", b, n))

        def is_spec(M):
            ok = isinstance(M, A.Arr) and M.ndim == 2 and A.dim_eq_syntactic(M.shape[0], n) and A.dim_eq_syntactic(M.shape[1], n)
            return sv.and_(ok, sv.implies(inr, sv.cmp("==", M.get((a, b)), S.hessian_spec(a, b)))) if ok else False
        if hs:
            yield "saved-matrix=M^-1/2.d2U.M^-1/2", is_spec(hs[0][2])
        else:
            yield "saved-matrix=M^-1/2.d2U.M^-1/2", True
        _, arg, evals, evecs, w, V, _ = eg[0]
        yield "eigh-is-applied-to-the-saved-matrix", is_spec(arg)
        # symmetry / zero modes: consequences of the entry-wise form only.  The four returning paths (savehessian x saveevecs) hand the
        # same matrix term to np.save / eigh: the clauses are generated on the first path, the other paths check that their matrix is
        # literally the same term (the path-specific decisions share no symbol with these goals)
        Mx = hs[0][2] if hs else arg
        sig = [sv.znum(Mx.get((a, b)))]
        first = inp.setdefault("_structure_sig", sig)
        if first is sig or not all(x.eq(y) for x, y in zip(first, sig)):
            yield from self._structure(ctx, S, d, Mx)
        else:
            for nm in self.STRUCTURE:
                yield nm, True
        if es:
            E = es[0][2]
            ok = isinstance(E, A.Arr) and E.ndim == 2 and A.dim_eq_syntactic(E.shape[0], n) and A.dim_eq_syntactic(E.shape[1], n)
            yield "saved-evecs=eigenvectors", sv.and_(ok, sv.implies(inr, sv.cmp("==", E.get((a, b)), evecs.get((a, b))))) if ok else False
        else:
            yield "saved-evecs=eigenvectors", True
        # csv: columns omega, PR in this order, one row per mode
        _, _, snap, order, ffmt, nrows, _ = cs[0]
        ok = list(order) == ["omega", "PR"] and A.dim_eq_syntactic(nrows, n)
        if not ok:
            yield "omega=sqrt(eigenvalue)-if-positive", False
            yield "PR=participation-ratio-of-eigenvector-as-(N,d)-field", False
            for nm in self.PR_RANGE:
                yield nm, False
            return
        k = ctx.int("k")
        kin = sv.and_(k >= 0, sv.cmp("<", k, n))
        lam = evals.get((k,))
        yield "omega=sqrt(eigenvalue)-if-positive", sv.implies(kin, sv.cmp("==", snap["omega"].get((k,)), sv.ite(sv.cmp(">", lam, 0), lambda: sv.sqrt(lam), lam)))
        vec = lambda idx: evecs.get((sv.add(sv.mul(idx[0], d), idx[1]), k))
        yield "PR=participation-ratio-of-eigenvector-as-(N,d)-field", sv.implies(kin, sv.cmp("==", snap["PR"].get((k,)), pr_spec(vec, S.N, d)))
        sig = [sv.znum(snap["PR"].get((k,))), sv.znum(evecs.get((a, k)))]          # as above: once for the paths that write the same column
        first = inp.setdefault("_pr_sig", sig)
        if first is sig or not all(x.eq(y) for x, y in zip(first, sig)):
            yield from self._pr_range(ctx, S, d, n, k, kin, evecs, vec, snap["PR"].get((k,)))
        else:
            for nm in self.PR_RANGE:
                yield nm, True

    PR_RANGE = ["PR-range:regrouping:induction-base(n=0)", "PR-range:regrouping:induction-step(n->n+1)",
                "PR-range:eigenvector-is-a-non-zero-field:sum_n|e_n|^2=1", "PR-range:induction:Q(0,c)",
                "PR-range:induction:unfold:S1(n+1)=S1(n)+a_n,S2(n+1)=S2(n)+a_n^2", "PR-range:induction:Q(n,c)=>Q(n+1,c)",
                "PR-range:lemma:square-nonnegative", "PR-range:cauchy-schwarz-from-Q(N,S1/N)", "PR-range:0<PR<=1-for-every-saved-mode"]

    def _pr_range(self, ctx, S, d, dN, k, kin, evecs, vec, pr_k):
        """the participation ratio written for mode k lies in (0, 1]: the eigenvector (column k of eigh's V, normalised: assumed
        contract of eigh) reshaped row-major to (N, d) is a non-zero field, by the regrouping
            G(n):  sum_{b < d n} V(b,k)^2  =  sum_{t < n} sum_{c < d} V(t d + c, k)^2        (induction over n: base, step)
        at n = N, and Cauchy-Schwarz for this field (the same induction as in the unit participation_ratio, on the eigenvector)."""
        N = S.N
        m = ctx.int("m_s")

        def flat(hi):
            return Sum(0, hi, lambda b: sv.mul(evecs.get((b, k)), evecs.get((b, k))))

        def G(h):
            return sv.cmp("==", flat(sv.mul(d, h)), pr_sums(vec, N, d, n=h)[0])
        deep = {"solver_opts": dict(self.solver_opts or {}, rounds=d + 1, unfold_deep=True)}
        yield "PR-range:regrouping:induction-base(n=0)", G(0)
        yield "PR-range:regrouping:induction-step(n->n+1)", sv.implies(sv.and_(m >= 0, G(m)), G(sv.add(m, 1))), deep
        S1 = pr_sums(vec, N, d)[0]
        unit_norm = sv.implies(kin, sv.cmp("==", S1, 1))
        # the induction principle (base + step above) gives G(N); eigh's normalisation sum_{b < dN} V(b,k)^2 = 1 is instantiated for column k
        yield "PR-range:eigenvector-is-a-non-zero-field:sum_n|e_n|^2=1", unit_norm, {"assume": [G(N)]}
        # Cauchy-Schwarz for this field (a_t = |e_t|^2 = sum_c V(t d + c, k)^2): the same induction as in the unit participation_ratio, on the eigenvector
        cs = None
        for name, goal, opts in cauchy_schwarz_clauses(vec, N, d, prefix="PR-range:", tag="_ev", opts={"solver_opts": {}, "timeout": 20}):
            if name is None:
                cs = goal
            else:
                yield name, goal, opts
        yield "PR-range:0<PR<=1-for-every-saved-mode", sv.implies(kin, sv.and_(sv.cmp(">", pr_k, 0), sv.cmp("<=", pr_k, 1))), {"assume": [cs, unit_norm]}

    # ------------------------------------------------------------------------------------------ symmetry, translations
    STRUCTURE = ["symmetric:minimum-image-odd:D(j,i)=-D(i,j)",
                 "symmetric:distance:|D(j,i)|=|D(i,j)|",
                 "symmetric:neighbour-relation:within(i,j)=within(j,i)",
                 "symmetric:pair-parameters-and-weight:(t_j,t_i)=(t_i,t_j)",
                 "symmetric:pair-block:B(D(j,i))^T/sqrt(m_j.m_i)=B(D(i,j))/sqrt(m_i.m_j)",
                 "symmetric:off-diagonal-entry:Boff(j,i,q,p)=Boff(i,j,p,q)",
                 "symmetric:diagonal-summand:B(D(i,t))[p][q]=B(D(i,t))[q][p]",
                 "symmetric:diagonal-summand:Bdiag(i,t,p,q)=Bdiag(i,t,q,p)",
                 "symmetric:H[i.d+p,j.d+q]=H[j.d+q,i.d+p]",
                 "translations:cross-derivative:d2u/da.db=-d2u/da.da-at-D(i,n)",
                 "translations:summand:(B/m_i).sqrt(m_i)-(B/sqrt(m_i.m_n)).sqrt(m_n)=0",
                 "translations:no-self-term:within(i,n)=>n!=i",
                 "translations:row-sum:induction-base(n=0)",
                 "translations:row-sum:induction-step(n->n+1)",
                 "translations:constant-factor:induction-base(n=0)",
                 "translations:constant-factor:induction-step(n->n+1)",
                 "translations:sum_j-H[i.d+p,j.d+q].sqrt(m_j)=0",
                 "translations:flat-column-index:induction-base(n=0)",
                 "translations:flat-column-index:induction-step(n->n+1)",
                 "translations:(H.M^1/2.e_q)[i.d+p]=0"]

    def _structure(self, ctx, S, d, Mx):
        """Symmetry and zero modes of the matrix `Mx` that is saved / handed to eigh, derived from its entry-wise form (the value the
        assembly obligations establish) and nothing else about the code:
          (a) Mx[i d + p, j d + q] = Mx[j d + q, i d + p]                      (pair parameters of unordered type pairs)
          (b) sum_{j<N} Mx[i d + p, j d + q] sqrt(m_j) = 0                     (any mask; the statement asks for full periodicity)
        at symbolic particles i, j and components p, q.  Every fact about the named spec functions within_rc / Bdiag / Boff used in
        the two final queries is its own obligation, proved from their definitions (revealed at the instance), the contract of
        remove_pbc (minimum image odd: rint(-a) = -rint(a), lemma) and the differentiation lemmas; sums over the neighbours are
        handled by Sigma-extensionality ((a), diagonal block) and by two inductions over the upper limit ((b))."""
        N, K = S.N, S.K
        i, j, n = ctx.int("i_s"), ctx.int("j_s"), ctx.int("n_s")
        p, q = ctx.int("p_s"), ctx.int("q_s")
        comps = [(a, b) for a in range(d) for b in range(d)]
        zero = sv.to_frac(0.0)

        def blk(i_, p_, j_, q_):
            return Mx.get((sv.add(sv.mul(i_, d), p_), sv.add(sv.mul(j_, d), q_)))

        def rng(x, hi):
            return sv.and_(sv.cmp(">=", x, 0), sv.cmp("<", x, hi))

        def Z(x):
            return sv.zb(x) if isinstance(x, sv.SV) else (z3.BoolVal(x) if isinstance(x, bool) else x)

        def conj(xs):
            xs = [Z(x) for x in xs]
            return z3.And(*xs) if len(xs) != 1 else xs[0]
        SYM = Z(S.symmetric_params())
        # ---------------------------------------------------------------- (a) symmetry
        Dij, Dji = S.Dvec(i, j), S.Dvec(j, i)
        nDij = [sv.neg(x) for x in Dij]
        mij = S.frac(i, j)
        rw = [(sv.rint(sv.neg(mij[k])), sv.neg(sv.rint(mij[k]))) for k in range(d)]      # instances of lemma:rint(-a)=-rint(a)
        odd = conj([sv.znum(Dji[c]) == sv.znum(nDij[c]) for c in range(d)])
        yield "symmetric:minimum-image-odd:D(j,i)=-D(i,j)", odd, {"ring_only": True, "rewrites": rw}
        same_r = sv.znum(S.dist(j, i)) == sv.znum(S.dist(i, j))
        yield "symmetric:distance:|D(j,i)|=|D(i,j)|", same_r, {"ring_only": True, "rewrites": rw}
        w_sym = z3.Implies(SYM, S.F_WITHIN(i.t, j.t) == S.F_WITHIN(j.t, i.t))
        yield ("symmetric:neighbour-relation:within(i,j)=within(j,i)",
               sv.generalize(z3.Implies(z3.And(S.def_within(i, j), S.def_within(j, i), same_r), w_sym), [S.dist(i, j), S.dist(j, i)])[0])
        tabs = (S.eps_t, S.sig_t, S.rc_t)
        pairs = [(sv.znum(S.par(tab, j, i)), sv.znum(S.par(tab, i, j))) for tab in tabs] + [(sv.znum(S.w_off(j, i)), sv.znum(S.w_off(i, j)))]
        pairs = [(a_, b_) for a_, b_ in pairs if not a_.eq(b_)]
        par_sym = z3.Implies(SYM, conj([a_ == b_ for a_, b_ in pairs] or [True]))
        yield "symmetric:pair-parameters-and-weight:(t_j,t_i)=(t_i,t_j)", par_sym
        # the definiens of Boff(j,i,q,p), with the parameters of the type pair (t_i,t_j) (previous clause) and D(j,i) replaced by -D(i,j)
        # (first clause), equals the definiens of Boff(i,j,p,q): B(-x)^T = B(x), as a ring identity for an arbitrary vector x in place of D(i,j)
        e_ij = {c: S.bo_def(i, j, c[0], c[1]) for c in comps}
        e_ji = {c: S.bo_def(j, i, c[1], c[0]) for c in comps}
        to_neg = [(sv.znum(Dji[k]), sv.znum(nDij[k])) for k in range(d)]
        r_ij, r_ji = S.dist(i, j), S.dist(j, i)
        to_r = [(sv.znum(r_ji), sv.znum(r_ij))]                  # |D(j,i)| = |D(i,j)| (second clause)
        e_ji_n = {c: sv.SV(z3.substitute(sv.znum(e_ji[c]), *(pairs + to_r + to_neg))) for c in comps}
        blk_sym = conj([sv.cmp("==", e_ji_n[c], e_ij[c]) for c in comps])
        yield "symmetric:pair-block:B(D(j,i))^T/sqrt(m_j.m_i)=B(D(i,j))/sqrt(m_i.m_j)", sv.generalize(blk_sym, [r_ij] + list(Dij))[0], {"ring_only": True}
        bo_sym = z3.Implies(SYM, conj([sv.cmp("==", S.BO(j, i, c[1], c[0]), S.BO(i, j, c[0], c[1])) for c in comps]))
        # Boff(j,i,q,p) = its definiens = (substitution of equals: parameters, D(j,i) = -D(i,j)) = definiens of Boff(i,j,p,q) = Boff(i,j,p,q);
        # every substituted term is generalised to a constant, so that the query is congruence only
        opaque = [sv.SV(x) for pr in pairs for x in pr] + [r_ji, r_ij] + list(Dji) + nDij + list(Dij)
        for c in comps:
            lhs, rhs = S.BO(j, i, c[1], c[0]), S.BO(i, j, c[0], c[1])
            hyp = conj([sv.cmp("==", rhs, e_ij[c]), sv.cmp("==", lhs, e_ji[c]), par_sym, odd, same_r, sv.cmp("==", e_ji_n[c], e_ij[c])])
            yield ("symmetric:off-diagonal-entry:Boff(j,i,q,p)=Boff(i,j,p,q)",
                   sv.generalize(z3.Implies(hyp, z3.Implies(SYM, Z(sv.cmp("==", lhs, rhs)))), opaque)[0], {"solver_opts": {"uf_abstraction": True}})
        up = [c for c in comps if c[0] < c[1]]
        Din = list(S.Dvec(i, n))
        dd = {c: S.bd_def(i, n, c[0], c[1]) for c in comps}
        dd_sym = conj([sv.cmp("==", dd[c], dd[(c[1], c[0])]) for c in up])
        # mixed partial derivatives commute (ring identity for an arbitrary vector in place of D(i,t))
        yield "symmetric:diagonal-summand:B(D(i,t))[p][q]=B(D(i,t))[q][p]", sv.generalize(dd_sym, Din)[0], {"ring_only": True}

        def bd_sym_at(t):
            return conj([sv.cmp("==", S.BD(i, t, c[0], c[1]), S.BD(i, t, c[1], c[0])) for c in up])
        defs_bd = conj([sv.cmp("==", S.BD(i, n, c[0], c[1]), dd[c]) for c in comps])
        yield ("symmetric:diagonal-summand:Bdiag(i,t,p,q)=Bdiag(i,t,q,p)",
               sv.generalize(z3.Implies(z3.And(defs_bd, dd_sym), bd_sym_at(n)), Din)[0])
        inr = conj([rng(i, N), rng(j, N), rng(p, d), rng(q, d)])
        # the three facts are used at the pair (i, j) they were proved at, and (third) at the Skolem index of Sigma-extensionality
        yield ("symmetric:H[i.d+p,j.d+q]=H[j.d+q,i.d+p]", z3.Implies(z3.And(inr, SYM), Z(sv.cmp("==", blk(i, p, j, q), blk(j, q, i, p)))),
               {"assume": [w_sym, bo_sym], "solver_opts": dict(self.solver_opts, pointwise=[lambda x: bd_sym_at(sv.SV(x))])})
        # ---------------------------------------------------------------- (b) uniform translations
        s_i = S.sqrt_mass(i)
        Bii, Bij = S.block(i, n, "ii"), S.block(i, n, "ij")
        cross = conj([sv.cmp("==", Bij[a][b], sv.neg(Bii[a][b])) for a, b in comps])
        yield "translations:cross-derivative:d2u/da.db=-d2u/da.da-at-D(i,n)", sv.generalize(cross, Din)[0], {"ring_only": True}
        # mass weights: instances (g, h) = (B, -B)[p][q], (m_i, m_j) = the masses of every type pair, of the lemma
        #   m_i, m_j > 0, X = g (1/m_i), Y = h (1/sqrt(m_i m_j)), h = -g  =>  X sqrt(m_i) + Y sqrt(m_j) = 0     (C11:lemma:translation-summand:product-form)
        def lemma_inst(X, Y, g, h):
            return [sv.implies(sv.and_(S.m[a] > 0, S.m[b] > 0), translation_summand(X, Y, g, h, S.m[a], S.m[b])) for a in range(K) for b in range(K)]

        def summand_zero(t, c):
            return sv.cmp("==", sv.add(sv.mul(S.BD(i, t, c[0], c[1]), s_i), sv.mul(S.BO(i, t, c[0], c[1]), S.sqrt_mass(t))), 0)
        goals = []
        for c in comps:
            g, h = Bii[c[0]][c[1]], Bij[c[0]][c[1]]
            hyp = [sv.cmp("==", S.BD(i, n, c[0], c[1]), S.bd_def(i, n, c[0], c[1])), sv.cmp("==", S.BO(i, n, c[0], c[1]), S.bo_def(i, n, c[0], c[1])),
                   sv.cmp("==", h, sv.neg(g))] + lemma_inst(S.BD(i, n, c[0], c[1]), S.BO(i, n, c[0], c[1]), g, h)
            goals.append(sv.generalize(z3.Implies(conj(hyp), Z(summand_zero(n, c))), [g, h])[0])
        yield "translations:summand:(B/m_i).sqrt(m_i)-(B/sqrt(m_i.m_n)).sqrt(m_n)=0", conj(goals)
        no_self = z3.Implies(S.F_WITHIN(i.t, n.t), Z(sv.cmp("!=", n, i)))
        yield "translations:no-self-term:within(i,n)=>n!=i", sv.generalize(z3.Implies(S.def_within(i, n), no_self), Din)[0]
        # row sum up to n:  R(n):  sum_{t<n} Mx[i d+p, t d+q] sqrt(m_t) = [i<n] DS sqrt(m_i) - sum_{t<n} [within(i,t)] Bdiag(i,t,p,q) sqrt(m_i)
        #   with DS = sum_{t<N} [within(i,t)] Bdiag(i,t,p,q) the diagonal entry; then  L(n): (sum_{t<n} [..] Bdiag) sqrt(m_i) = sum_{t<n} [..] Bdiag sqrt(m_i)
        DS = S.diag_sum(i, p, q)
        DSs = sv.mul(DS, s_i)

        def rowsum(k):
            return Sum(0, k, lambda t: sv.mul(blk(i, p, t, q), S.sqrt_mass(t)))

        def dss(k):
            return Sum(0, k, lambda t: sv.ite(S.WITHIN(i, t), lambda: sv.mul(S.BD(i, t, p, q), s_i), zero))

        def R(k):
            return sv.cmp("==", rowsum(k), sv.sub(sv.ite(sv.cmp("<", i, k), DSs, zero), dss(k)))

        def L(k):
            return sv.cmp("==", sv.mul(S.diag_sum(i, p, q, upto=k), s_i), dss(k))
        n1 = sv.add(n, 1)
        fix = conj([rng(i, N), rng(p, d), rng(q, d)])
        # summand_zero is stated for the concrete components; p, q of the row sum are symbolic in 0..d-1 (congruence)
        yield "translations:row-sum:induction-base(n=0)", z3.Implies(fix, Z(R(0)))
        yield ("translations:row-sum:induction-step(n->n+1)", z3.Implies(z3.And(fix, Z(rng(n, N)), Z(R(n))), Z(R(n1))),
               {"assume": [conj([summand_zero(n, c) for c in comps]), no_self]})
        yield "translations:constant-factor:induction-base(n=0)", z3.Implies(fix, Z(L(0)))
        yield "translations:constant-factor:induction-step(n->n+1)", z3.Implies(z3.And(fix, Z(sv.cmp(">=", n, 0)), Z(L(n))), Z(L(n1)))
        # the induction principle (base + step above) gives R(N) and L(N); their instances are assumed here
        yield ("translations:sum_j-H[i.d+p,j.d+q].sqrt(m_j)=0", z3.Implies(fix, Z(sv.cmp("==", rowsum(N), 0))),
               {"assume": [z3.Implies(fix, Z(R(N))), z3.Implies(fix, Z(L(N)))]})

        # the same as a matrix-vector product over the flat column index b = j d + c:  (H v_q)[i d + p] = 0 with
        # v_q[b] = sqrt(m_{b div d}) if b mod d = q else 0  (= M^1/2 e_q): regrouping  F(n): sum_{b < d n} H[a,b] v_q[b] = rowsum(n), induction over n
        def v_q(b):
            return sv.ite(sv.cmp("==", sv.mod(b, d), q), lambda: S.sqrt_mass(sv.floordiv(b, d)), zero)

        def flat(hi):
            return Sum(0, hi, lambda b: sv.mul(Mx.get((sv.add(sv.mul(i, d), p), b)), v_q(b)))

        def F(k):
            return sv.cmp("==", flat(sv.mul(d, k)), rowsum(k))
        deep = {"solver_opts": dict(self.solver_opts or {}, rounds=d + 1, unfold_deep=True)}
        yield "translations:flat-column-index:induction-base(n=0)", z3.Implies(fix, Z(F(0)))
        yield "translations:flat-column-index:induction-step(n->n+1)", z3.Implies(z3.And(fix, Z(sv.cmp(">=", n, 0)), Z(F(n))), Z(F(n1))), deep
        yield ("translations:(H.M^1/2.e_q)[i.d+p]=0", z3.Implies(fix, Z(sv.cmp("==", flat(sv.mul(d, N)), 0))),
               {"assume": [z3.Implies(fix, Z(F(N))), z3.Implies(fix, Z(sv.cmp("==", rowsum(N), 0)))]})

    def replay(self, case, clause, model, seed):
        return _replay_diag(case, clause, model, seed)


def _replay_diag(case, clause, model, seed, trials=36):
    """the real diagonalize_hessian against an independently coded pair energy: analytic second derivatives (pyvc.diff on
    the documented potentials, floats) and central finite differences of U; symmetry; translations; omega; PR"""
    import importlib
    import itertools
    import math
    import os
    import random
    import tempfile

    import numpy as np
    from contracts import C12
    from pyvc import conc
    H = importlib.import_module(MOD)
    RUm = importlib.import_module(RU)
    d = int(case[2])
    K = int(case.split("K=")[1].split("/")[0])
    rng = random.Random(seed)
    models = ["inverse_power_law", "lennard_jones", "harmonic_hertz"]

    def minimg(v, cell, ppp):
        f = v @ np.linalg.inv(cell)
        f = f - np.rint(f) * ppp
        return f @ cell

    def potential(name, shift, eps, sig, rc, par):
        """phi(r): documented s(r), force-shifted at rc when shifting is on"""
        def s(r):
            if name == "lennard_jones":
                return 4 * eps * ((sig / r) ** 12 - (sig / r) ** 6)
            if name == "inverse_power_law":
                return par["A"] * eps * (sig / r) ** par["n"]
            return eps / par["alpha"] * (1 - r / sig) ** par["alpha"]

        def s1(r):
            if name == "lennard_jones":
                return -24 * eps / r * (2 * (sig / r) ** 12 - (sig / r) ** 6)
            if name == "inverse_power_law":
                return -par["A"] * eps * par["n"] / r * (sig / r) ** par["n"]
            return -eps / sig * (1 - r / sig) ** (par["alpha"] - 1)
        if shift and name != "harmonic_hertz":
            return lambda r: s(r) - s(rc) - (r - rc) * s1(rc)
        return s

    for k in range(trials):
        name = models[k % 3]
        shift = (k // 3) % 2 == 0
        g = 3
        pts = list(itertools.product(range(g), repeat=d))
        rng.shuffle(pts)
        N = [2, 3, 4, 5, 6][k % 5] if d == 3 else [2, 3, 5, 7, 9][k % 5]
        pts = pts[:N]
        pos = np.array([[c + rng.uniform(-0.15, 0.15) for c in pnt] for pnt in pts], dtype=float)
        cell = np.diag([float(g)] * d)
        if k % 4 == 1:      # triclinic (lower-triangular h-matrix, as read from LAMMPS)
            for a_ in range(d):
                for b_ in range(a_):
                    cell[a_, b_] = rng.uniform(-0.3, 0.3)
        ppp = np.array([1] * d) if k % 6 != 5 else np.array([rng.randint(0, 1) for _ in range(d)])
        types = np.array([rng.randint(1, K) for _ in range(N)])
        if k < 12 and N >= 2 and K >= 2:
            types[0], types[1] = 1, 2
        masses = {a_ + 1: rng.uniform(0.5, 3.0) for a_ in range(K)}
        if k == 0:
            for a_ in range(K):
                v = _fr((model or {}).get(f"m_{a_ + 1}"))
                if v is not None and v > 0:
                    masses[a_ + 1] = v
        if k % 5 == 4:
            masses = {a_ + 1: 1.0 for a_ in range(K)}      # equal masses (the case the repository's test has)
        if K >= 2 and k % 2 == 1:
            # the dict is a map keyed by type id: any insertion order is a valid input (descending for odd k % 4 == 1, shuffled otherwise)
            keys = sorted(masses, reverse=True)
            if k % 4 == 3:
                rng.shuffle(keys)
            masses = {key: masses[key] for key in keys}
        eps = np.zeros((K, K))
        sig = np.zeros((K, K))
        rc = np.zeros((K, K))
        for a_ in range(K):
            for b_ in range(a_, K):
                eps[a_, b_] = eps[b_, a_] = rng.uniform(0.5, 2.0)
                sig[a_, b_] = sig[b_, a_] = rng.uniform(0.9, 1.2)
                rc[a_, b_] = rc[b_, a_] = rng.uniform(1.25, 1.6) if name != "harmonic_hertz" else sig[a_, b_] * 1.0
        if name == "harmonic_hertz":
            sig = sig * 1.35
            rc = sig.copy()
        par = {"n": float(rng.choice([6, 10, 12])), "A": rng.uniform(0.5, 2.0), "alpha": rng.choice([2.0, 2.5, 3.0])}
        # skip configurations with a pair at a minimum-image tie or within 2e-3 of the cutoff (U not twice differentiable there)
        ok = True
        for i in range(N):
            for j in range(N):
                if i == j:
                    continue
                f = (pos[i] - pos[j]) @ np.linalg.inv(cell)
                if np.any(np.abs(np.abs(f - np.rint(f)) - 0.5) < 0.03):
                    ok = False
                r = np.linalg.norm(minimg(pos[i] - pos[j], cell, ppp))
                if abs(r - rc[types[i] - 1, types[j] - 1]) < 2e-3 or r < 0.3:
                    ok = False
        if not ok:
            continue
        snap = RUm.SingleSnapshot(timestep=0, nparticle=N, particle_type=types.copy(), positions=pos.copy(), boxlength=np.diag(cell).copy(),
                                  boxbounds=np.array([[0.0, cell[c, c]] for c in range(d)]), realbounds=np.array([[0.0, cell[c, c]] for c in range(d)]),
                                  hmatrix=cell.copy())
        ip = H.InteractionParams(model_name=getattr(H.ModelName, name), ipl_n=par["n"], ipl_A=par["A"], harmonic_hertz_alpha=par["alpha"])
        inputs = {"model": name, "shift": shift, "ndim": d, "positions": pos.tolist(), "particle_type": types.tolist(), "hmatrix": cell.tolist(),
                  "ppp": ppp.tolist(), "masses": masses, "epsilons": eps.tolist(), "sigmas": sig.tolist(), "r_cuts": rc.tolist(), "params": par}
        with tempfile.TemporaryDirectory() as tmp:
            hm = H.HessianMatrix(snapshot=snap, masses=dict(masses), epsilons=eps.copy(), sigmas=sig.copy(), r_cuts=rc.copy(), ppp=ppp.copy(), shiftpotential=shift)
            out = os.path.join(tmp, "out")
            try:
                hm.diagonalize_hessian(interaction_params=ip, saveevecs=True, savehessian=True, outputfile=out)
                Hs = np.load(out + ".hessianmatrix.npy")
                evecs = np.load(out + ".evecs.npy")
                import csv
                with open(out + ".omega_PR.csv") as fcsv:
                    rows = list(csv.DictReader(fcsv))
            except Exception as e:
                return {"ran": True, "failed": True, "inputs": inputs, "detail": f"raises {type(e).__name__}: {e}", "searched": k + 1}
        omega = np.array([float(r_["omega"]) for r_ in rows])
        PR = np.array([float(r_["PR"]) for r_ in rows])
        mvec = np.array([masses[int(t)] for t in types])
        # ---- independent energy and its derivatives
        def U(x):
            e = 0.0
            for i in range(N):
                for j in range(N):
                    if i == j:
                        continue
                    ti, tj = types[i] - 1, types[j] - 1
                    r = float(np.linalg.norm(minimg(x[i] - x[j], cell, ppp)))
                    if r <= rc[ti, tj]:
                        e += 0.5 * potential(name, shift, eps[ti, tj], sig[ti, tj], rc[ti, tj], par)(r)
            return e
        Ha = np.zeros((d * N, d * N))        # analytic: blocks from pyvc.diff + the documented potentials (C12 spec), floats
        for i in range(N):
            for j in range(N):
                if i == j:
                    continue
                ti, tj = types[i] - 1, types[j] - 1
                x = minimg(pos[i] - pos[j], cell, ppp)
                r = float(np.linalg.norm(x))
                if r <= rc[ti, tj]:
                    env = dict(r=r, epsilon=eps[ti, tj], sigma=sig[ti, tj], r_c=rc[ti, tj], n=par["n"], A=par["A"], alpha=par["alpha"])
                    t1, t1rc, t2 = C12.spec_triple(name, env, shift, M=conc)
                    B = np.array(block_spec(list(x), t1 - t1rc, t2, d, M=conc, which="ii"), float)
                    Ha[i * d:(i + 1) * d, i * d:(i + 1) * d] += B / mvec[i]
                    Ha[i * d:(i + 1) * d, j * d:(j + 1) * d] = -B / math.sqrt(mvec[i] * mvec[j])
        scale = 1 + np.abs(Ha).max()
        bad = None
        if Hs.shape != Ha.shape:
            bad = f"saved matrix has shape {Hs.shape}"
        if bad is None and np.abs(Hs - Ha).max() > 1e-8 * scale:
            a_, b_ = np.unravel_index(np.argmax(np.abs(Hs - Ha)), Hs.shape)
            bad = (f"saved hessian[{a_},{b_}] = {Hs[a_, b_]} but M^-1/2 d2U M^-1/2 = {Ha[a_, b_]} (particles {a_ // d},{b_ // d}; "
                   f"masses {mvec[a_ // d]}, {mvec[b_ // d]})")
        if bad is None and np.abs(Hs - Hs.T).max() > 1e-8 * scale:
            bad = "saved matrix not symmetric"
        if bad is None:        # clause translations:* (proved for every mask: the pair energy depends on differences r_i - r_j only)
            for q in range(d):
                v = np.zeros(d * N)
                v[q::d] = np.sqrt(mvec)
                res = Hs @ v
                if np.abs(res).max() > 1e-7 * scale:
                    bad = f"mass-weighted uniform translation along axis {q} is not annihilated: |H v|_max = {np.abs(res).max()}"
                    break
        if bad is None and N * d <= 14:
            # finite differences of the independently coded energy
            h = 1e-4
            Hf = np.zeros_like(Ha)
            flat = pos.reshape(-1)
            for a_ in range(d * N):
                for b_ in range(a_, d * N):
                    def Ush(sa, sb):
                        y = flat.copy()
                        y[a_] += sa * h
                        y[b_] += sb * h
                        return U(y.reshape(N, d))
                    v = (Ush(1, 1) - Ush(1, -1) - Ush(-1, 1) + Ush(-1, -1)) / (4 * h * h)
                    Hf[a_, b_] = Hf[b_, a_] = v / math.sqrt(mvec[a_ // d] * mvec[b_ // d])
            if np.abs(Hf - Hs).max() > 5e-4 * scale:
                a_, b_ = np.unravel_index(np.argmax(np.abs(Hs - Hf)), Hs.shape)
                bad = f"saved hessian[{a_},{b_}] = {Hs[a_, b_]} but finite differences of the pair energy give {Hf[a_, b_]}"
        if bad is None:
            lam = np.linalg.eigvalsh(Hs)
            want = np.where(lam > 0, np.sqrt(np.abs(lam)), lam)
            if omega.shape != want.shape or np.abs(np.sort(omega) - np.sort(want)).max() > 1e-6 * (1 + np.abs(want).max()):
                bad = "reported frequencies are not the square roots of the eigenvalues of the saved matrix"
            elif not np.all((PR > 0) & (PR <= 1 + 1e-9)):
                bad = f"participation ratios outside (0,1]: {PR.tolist()}"
            else:
                for n_ in range(evecs.shape[1]):
                    e_ = evecs[:, n_].reshape(N, d)
                    a2 = (e_ * e_).sum(axis=1)
                    w_ = a2.sum() ** 2 / (N * (a2 * a2).sum())
                    if abs(w_ - PR[n_]) > 1e-9:
                        bad = f"PR of mode {n_} is {PR[n_]}, definition gives {w_}"
                        break
        if bad:
            return {"ran": True, "failed": True, "from_model": False, "searched": k + 1, "inputs": inputs, "detail": bad}
    return {"ran": True, "failed": False, "searched": trials,
            "detail": "saved matrix = analytic and finite-difference mass-weighted Hessian of the independently coded pair energy; symmetric; translations annihilated; omega, PR as specified"}


UNITS = [PairMatrix(), ParticipationRatio(), Diagonalize()]
# callee contracts of other properties used at call sites: their units are re-verified with this check
from contracts.common import callee_units as _callee_units   # noqa: E402
UNITS = UNITS + _callee_units([('C02', None), ('C12', None)], UNITS)


def lemmas():
    """spec-level lemmas on fresh variables; the symmetry and translation clauses of the unit of diagonalize_hessian use instances of
    rint(-a) = -rint(a) (ring rewrites) and of the product form of the translation summand (one per pair of species masses); the other
    identities are re-proved there on the terms of the saved matrix and are kept here in their generic form"""
    from contracts import C02
    x_ = sv.real("x")
    out = [("lemma:x>0=>sqrt(x.x)=x", sv.implies(x_ > 0, sv.cmp("==", sv.sqrt(sv.mul(x_, x_)), x_)), {})]
    p1, p2 = sv.real("phi1"), sv.real("phi2")
    for d in (2, 3):
        x = [sv.real(f"x_{c}") for c in range(d)]
        mx = [sv.neg(v) for v in x]
        Bii, Bij = block_spec(x, p1, p2, d, which="ii"), block_spec(x, p1, p2, d, which="ij")
        Bii_m, Bij_m = block_spec(mx, p1, p2, d, which="ii"), block_spec(mx, p1, p2, d, which="ij")
        rng = [(p, q) for p in range(d) for q in range(d)]
        # B(D(j,i))^T = B(D(i,j)) because D(j,i) = -D(i,j): the (j,i) block of the matrix is the transpose of the (i,j) block
        out.append((f"lemma:d={d}:B(-x)^T=B(x)", sv.and_(*[sv.cmp("==", Bij_m[q][p], Bij[p][q]) for p, q in rng], *[sv.cmp("==", Bii_m[q][p], Bii[p][q]) for p, q in rng]), {"ring_only": True}))
        out.append((f"lemma:d={d}:d2u/da.db=-d2u/da.da", sv.and_(*[sv.cmp("==", Bij[p][q], sv.neg(Bii[p][q])) for p, q in rng]), {"ring_only": True}))
        # minimum image is odd: D(j,i) = -D(i,j)   (instances of rint(-a) = -rint(a), round-half-even, proved below)
        Hm = [[sv.real(f"H_{a}{b}") for b in range(d)] for a in range(d)]
        det, G = C02._inv_spec(Hm, d)
        pp = [sv.integer(f"ppp_{k}") for k in range(d)]
        row = [sv.real(f"r_{c}") for c in range(d)]
        m = C02._vecmat(row, G, d)
        rw = [(sv.rint(sv.neg(m[k])), sv.neg(sv.rint(m[k]))) for k in range(d)]
        Dp, Dm = C02.pbc_spec_row(row, Hm, G, pp, d), C02.pbc_spec_row([sv.neg(v) for v in row], Hm, G, pp, d)
        out.append((f"lemma:d={d}:minimum-image-is-odd:D(j,i)=-D(i,j)", sv.and_(*[sv.cmp("==", Dm[c], sv.neg(Dp[c])) for c in range(d)]), {"ring_only": True, "rewrites": rw}))
    a_ = sv.real("a")
    out.append(("lemma:rint(-a)=-rint(a)", sv.cmp("==", sv.rint(sv.neg(a_)), sv.neg(sv.rint(a_))), {}))
    # translations: row (i,p) of H applied to sqrt(m) e_q is sum_j [r_ij<=rc] ( B/m_i sqrt(m_i) - B/sqrt(m_i m_j) sqrt(m_j) ): every summand vanishes
    mi, mj, b_ = sv.real("m_i"), sv.real("m_j"), sv.real("b")
    out.append(("lemma:translation-summand:(b/m_i).sqrt(m_i)-(b/sqrt(m_i.m_j)).sqrt(m_j)=0",
                sv.implies(sv.and_(mi > 0, mj > 0),
                           sv.cmp("==", sv.add(sv.mul(sv.div(b_, mi), sv.sqrt(mi)), sv.mul(sv.div(sv.neg(b_), sv.sqrt(sv.mul(mi, mj))), sv.sqrt(mj))), 0)), {}))
    g_, h_, X_, Y_ = sv.real("g"), sv.real("h"), sv.real("X"), sv.real("Y")
    out.append(("lemma:translation-summand:product-form:X=g.(1/m_i),Y=h.(1/sqrt(m_i.m_j)),h=-g=>X.sqrt(m_i)+Y.sqrt(m_j)=0",
                sv.implies(sv.and_(mi > 0, mj > 0), translation_summand(X_, Y_, g_, h_, mi, mj)), {}))
    return out


def extra_checks(tier, seed, repo):
    from pyvc.vc import prove_lemmas
    obs = []
    for name, goal, opts in lemmas():
        obs.extend(prove_lemmas("C11", [(name, goal)], timeout=20, opts=opts or None))
    return {"obligations": obs}


MANIFEST = {
    "text": "For d in {2,3}, symbolic particle number N, symbolic positions, any non-singular cell, any periodicity mask in {0,1}^d, K in {1,2,3} species (quick tier: K = 1,2,3 in 2-D, K = 1,3 in 3-D; thorough tier adds d=3/K=2 and K = 4, 5 in both dimensions) with arbitrary positive masses given as a map type id -> mass in any insertion order and arbitrary K x K parameter matrices, both shift settings and every potential selectable through PairInteractions.caller: (1) HessianMatrix.pair_matrix returns d2 phi(|a-b|)/da.da and d2 phi(|a-b|)/da.db (= minus the former) with phi' = s1 - s1rc, phi'' = s2, the derivatives being produced by symbolic differentiation of phi(sqrt(sum (a_k-b_k)^2)); the block is symmetric; (2) in HessianMatrix.diagonalize_hessian every entry of the matrix that is saved, and that is passed to eigh, equals the entry of M^-1/2 d2U M^-1/2: off-diagonal block -[r_ij <= rc] B(D(i,j))/sqrt(m_i m_j), diagonal block sum_j [r_ij <= rc] B(D(i,j))/m_i, with D the minimum image of C02 and the pair triple of C12 evaluated at (r_ij, eps, sigma, rc of the two types, shift) (both particle loops by written summaries with init/step obligations); which files are written, saved eigenvectors = eigh output, omega = sqrt(lambda) for lambda > 0 else lambda, PR column = participation ratio of the eigenvector reshaped to (N, d); inputs not written; (3) from that entry-wise form alone, at symbolic particles i, j and components p, q: the saved matrix is symmetric, H[i d+p, j d+q] = H[j d+q, i d+p], when the parameter matrices are symmetric in the two types (minimum image odd, |D(j,i)| = |D(i,j)|, symmetric neighbour relation, B(-x)^T = B(x), mixed partials commute, Sigma-extensionality for the diagonal block), and every row annihilates the mass-weighted uniform translations, sum_j H[i d+p, j d+q] sqrt(m_j) = 0, also in the form (H M^1/2 e_q)[i d+p] = 0 over the flat column index, for every mask (pair summand (B/m_i) sqrt(m_i) - (B/sqrt(m_i m_j)) sqrt(m_j) = 0, split of the row sum at j = i and the constant factor sqrt(m_i) by two inductions over the upper limit, regrouping of the flat index by a third); (4) participation_ratio = (sum|e|^2)^2/(N sum|e|^4) and lies in (0,1] for every non-zero field (Cauchy-Schwarz by induction over N); the PR written for every mode lies in (0,1]: the reshaped eigenvector is a non-zero field by eigh's normalisation and the regrouping sum_{b<dN} f(b) = sum_{n<N} sum_{c<d} f(n d+c) (induction, base + step), Cauchy-Schwarz for that field by induction.",
    "note": "floats as reals (A1); np.linalg.eigh assumed (relational; its column normalisation is used for the PR range); callee contracts of caller (C12, generalised) and remove_pbc (C02); no-coincident-particles and types-in-1..K as preconditions; symmetric parameter matrices are the hypothesis of the symmetry clause only; the induction principle and the instantiation of facts proved at fresh indices are the trusted rules (TRUSTED); K > 5 is not enumerated (K = 4, 5 and d=3/K=2 only in the thorough tier); code that uses the masses dict positionally is an engine limit decided by the replay; on the repository before the fix d593b58 the obligation assembly:diagonal-block fails (diagonal block weighted 1/sqrt(m_i m_j) instead of 1/m_i) - see design_notes/C11.md, fix design_notes/C11.fix-1.diff",
}
