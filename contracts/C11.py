"""C11 — the Hessian is the mass-weighted second derivative of the documented pair energy.

Functions under contract (real ASTs, re-read every run):
  HessianMatrix.pair_matrix, HessianMatrix.diagonalize_hessian (PyMatterSim/static/hessians.py),
  participation_ratio (PyMatterSim/static/vector.py);
callee contracts used at call sites: PairInteractions.caller (proved by C12), remove_pbc (proved by C02),
pair_matrix and participation_ratio (proved here).

Spec (from the property statement and docs/hessian.md, docs/vectors.md; nothing is read back from the code):
  pair energy         U = 1/2 sum_{i != j, r_ij <= rc} phi_{t_i t_j}(r_ij),   r_ij = |D(i,j)|,
                      D(i,j) = minimum image of r_i - r_j (contract of remove_pbc, C02),
                      phi(r) = s(r) - s(rc) - (r - rc) s'(rc)  (force shifted; shift off: phi = s), i.e.
                      phi' = s' - s'(rc) | s',  phi'' = s''      (s, s', s'' of the documented potentials: C12)
  pair block          B(x) = d2 phi(|a - b|) / da da  at a - b = x       (symbolic differentiation, pyvc.diff)
                      and  d2 phi(|a - b|) / da db = -B(x)
  saved matrix        H[(i,p),(j,q)] = -[r_ij <= rc] B(D(i,j))[p,q] / sqrt(m_i m_j)            (i != j)
                      H[(i,p),(i,q)] = sum_{j != i} [r_ij <= rc] B(D(i,j))[p,q] / m_i            (= M^-1/2 d2U M^-1/2)
  symmetric, annihilates sqrt(m) e_q, omega = sqrt(lambda) for lambda > 0, PR = (sum |e_i|^2)^2 / (N sum |e_i|^4) in (0,1].
"""
import z3

from pyvc import arr as A
from pyvc import sv
from pyvc.diff import D, Fn, Sqrt, Var, ev
from pyvc.sigma import Sum
from pyvc.vc import Unit

MOD = "PyMatterSim.static.hessians"
VMOD = "PyMatterSim.static.vector"

NOT_DECIDED = []
TRUSTED = []


def _sum(xs):
    acc = 0
    for x in xs:
        acc = sv.add(acc, x)
    return acc


# ----------------------------------------------------------------------------------------------------------------
# the pair block as a second derivative (spec side)


def radial_pair_energy(d):
    """u(a, b) = phi(|a - b|) as a term of pyvc.diff (phi abstract)"""
    a = [Var(f"a{k}") for k in range(d)]
    b = [Var(f"b{k}") for k in range(d)]
    s = None
    for k in range(d):
        t = (a[k] - b[k]) * (a[k] - b[k])
        s = t if s is None else s + t
    return Fn("phi", Sqrt(s))


_BLOCKS = {}


def block_terms(d):
    """(d2u/da_p da_q, d2u/da_p db_q) as diff terms, p, q < d"""
    if d not in _BLOCKS:
        u = radial_pair_energy(d)
        ii = [[D(D(u, f"a{p}"), f"a{q}") for q in range(d)] for p in range(d)]
        ij = [[D(D(u, f"a{p}"), f"b{q}") for q in range(d)] for p in range(d)]
        _BLOCKS[d] = (ii, ij)
    return _BLOCKS[d]


def block_spec(x, phi1, phi2, d, M=sv, which="ii"):
    """second derivatives of phi(|a - b|) at a - b = x, given phi'(r) = phi1 and phi''(r) = phi2 (r = |x|)"""
    env = {}
    for k in range(d):
        env[f"a{k}"] = x[k]
        env[f"b{k}"] = 0
    env["phi"] = lambda k, r: {1: phi1, 2: phi2}[k]
    T = block_terms(d)[0 if which == "ii" else 1]
    return [[ev(T[p][q], env, M) for q in range(d)] for p in range(d)]


# ----------------------------------------------------------------------------------------------------------------
# pair_matrix


def _hm_self(ctx, d, **attrs):
    base = dict(ndim=d)
    base.update(attrs)
    return ctx.obj(MOD, "HessianMatrix", base)


class PairMatrix(Unit):
    module = MOD
    qualname = "HessianMatrix.pair_matrix"
    prop = "C11"
    timeout = 20

    def cases(self):
        return ["d=2", "d=3"]

    def setup(self, ctx, case):
        d = int(case[2])
        x = [ctx.real(n) for n in ("x", "y", "z")[:d]]
        s1, s1rc, s2 = ctx.real("s1"), ctx.real("s1rc"), ctx.real("s2")
        R = A.from_nested(x, "float")
        ctx.state.origin[R.sid] = "argument Rji"
        dud = ctx.pylist([s1, s1rc, s2])
        ctx.assume(sv.cmp(">", _sum([sv.mul(v, v) for v in x]), 0))       # distinct particles: r > 0
        o = _hm_self(ctx, d)
        return [o, R, dud], {}, dict(d=d, x=x, s=(s1, s1rc, s2), R=R, dud=dud)

    def clause_names(self, case):
        return ["shape", "dudr2i=d2phi(|a-b|)/da.da", "dudr2j=d2phi(|a-b|)/da.db", "block-symmetric", "dudr2j=-dudr2i",
                "frame-inputs-not-written", "results-do-not-alias"]

    def ensures(self, ctx, case, inp, out):
        d, x = inp["d"], inp["x"]
        s1, s1rc, s2 = inp["s"]
        v = out.value
        ok = isinstance(v, tuple) and len(v) == 2 and all(isinstance(a, A.Arr) and a.ndim == 2 and all(A.dim_eq_syntactic(n, d) for n in a.shape) for a in v)
        yield "shape", bool(ok)
        if not ok:
            return
        bi, bj = v
        phi1 = sv.sub(s1, s1rc)
        Sii = block_spec(x, phi1, s2, d, which="ii")
        Sij = block_spec(x, phi1, s2, d, which="ij")
        yield "dudr2i=d2phi(|a-b|)/da.da", sv.and_(*[sv.cmp("==", bi.get((p, q)), Sii[p][q]) for p in range(d) for q in range(d)])
        yield "dudr2j=d2phi(|a-b|)/da.db", sv.and_(*[sv.cmp("==", bj.get((p, q)), Sij[p][q]) for p in range(d) for q in range(d)])
        yield "block-symmetric", sv.and_(*[sv.cmp("==", bi.get((p, q)), bi.get((q, p))) for p in range(d) for q in range(p)])
        yield "dudr2j=-dudr2i", sv.and_(*[sv.cmp("==", bj.get((p, q)), sv.neg(bi.get((p, q)))) for p in range(d) for q in range(d)])
        stores = [e for e in out.state.events if e[0] == "store" and e[1] in (inp["R"].sid,)]
        yield "frame-inputs-not-written", len(stores) == 0 and tuple(inp["dud"].content) == tuple(inp["s"])
        yield "results-do-not-alias", bi.sid != bj.sid and bi.sid != inp["R"].sid and bj.sid != inp["R"].sid

    def replay(self, case, clause, model, seed):
        return _replay_pair_matrix(case, clause, model, seed)


def _fr(x, default=None):
    if isinstance(x, bool):
        return float(x)
    if isinstance(x, (int, float)):
        return float(x)
    if isinstance(x, str):
        try:
            if "/" in x:
                a, b = x.split("/")
                return int(a) / int(b)
            return float(x)
        except ValueError:
            return default
    return default


def _np_hm(H, d, **kw):
    """a real HessianMatrix object with minimal attributes (for pair_matrix replays)"""
    import numpy as np
    o = H.HessianMatrix.__new__(H.HessianMatrix)
    o.ndim = d
    o.ppp = np.ones(d, dtype=int)
    for k, v in kw.items():
        setattr(o, k, v)
    return o


def _replay_pair_matrix(case, clause, model, seed):
    """real pair_matrix vs (1) the analytic second derivative from pyvc.diff evaluated in floats and (2) central finite
    differences of an independently coded radial energy phi(|a - b|), phi a concrete smooth test function"""
    import importlib
    import math
    import random

    import numpy as np
    from pyvc import conc
    H = importlib.import_module(MOD)
    d = int(case[2])
    rng = random.Random(seed)
    names = ("x", "y", "z")[:d]
    for k in range(300):
        first = k == 0
        x = [(_fr(model.get(n)) if first else None) for n in names]
        if any(v is None for v in x):
            x = [rng.uniform(-2, 2) for _ in range(d)]
        if k in (1, 2) and d >= 2:
            x = [0.0] * d
            x[k % d] = rng.uniform(0.5, 2)       # along an axis
        r = math.sqrt(sum(v * v for v in x))
        if r < 1e-3:
            continue
        # a concrete test potential phi(r) = c2 r^2 + c3 r^3 + c1 / r  (any smooth function will do)
        c1, c2, c3 = rng.uniform(-2, 2), rng.uniform(-2, 2), rng.uniform(-2, 2)

        def phi(t):
            return c2 * t * t + c3 * t ** 3 + c1 / t
        p1 = 2 * c2 * r + 3 * c3 * r * r - c1 / r ** 2
        p2 = 2 * c2 + 6 * c3 * r + 2 * c1 / r ** 3
        if first and all(_fr(model.get(n)) is not None for n in ("s1", "s1rc", "s2")):
            s1, s1rc, s2 = (_fr(model.get(n)) for n in ("s1", "s1rc", "s2"))
            fd = False
        else:
            s1rc = rng.uniform(-1, 1) if k % 2 else 0.0
            s1, s2 = p1 + s1rc, p2
            fd = True
        obj = _np_hm(H, d)
        Rji = np.array(x, dtype=float)
        keep = Rji.copy()
        dud = [s1, s1rc, s2]
        try:
            bi, bj = obj.pair_matrix(Rji, dud)
        except Exception as e:
            return {"ran": True, "failed": True, "inputs": {"Rji": x, "dudrs": dud}, "detail": f"raises {type(e).__name__}: {e}"}
        bi, bj = np.asarray(bi, float), np.asarray(bj, float)
        bad = None
        if bi.shape != (d, d) or bj.shape != (d, d):
            bad = f"shapes {bi.shape} {bj.shape}"
        if bad is None and (not np.array_equal(keep, Rji) or dud != [s1, s1rc, s2]):
            bad = "an input was modified"
        if bad is None:
            Sii = np.array(block_spec(x, s1 - s1rc, s2, d, M=conc, which="ii"), float)
            Sij = np.array(block_spec(x, s1 - s1rc, s2, d, M=conc, which="ij"), float)
            tol = 1e-9 * (1 + np.abs(Sii).max())
            if np.abs(bi - Sii).max() > tol:
                bad = f"dudr2i = {bi.tolist()} but d2phi(|a-b|)/da.da = {Sii.tolist()}"
            elif np.abs(bj - Sij).max() > tol:
                bad = f"dudr2j = {bj.tolist()} but d2phi(|a-b|)/da.db = {Sij.tolist()}"
            elif np.abs(bi - bi.T).max() > tol:
                bad = "block not symmetric"
        if bad is None and fd:
            h = 1e-4
            a0 = np.array(x)
            b0 = np.zeros(d)

            def u(a, b):
                return phi(float(np.linalg.norm(a - b)))
            for p in range(d):
                for q in range(d):
                    ep, eq = np.eye(d)[p] * h, np.eye(d)[q] * h
                    faa = (u(a0 + ep + eq, b0) - u(a0 + ep - eq, b0) - u(a0 - ep + eq, b0) + u(a0 - ep - eq, b0)) / (4 * h * h)
                    fab = (u(a0 + ep, b0 + eq) - u(a0 + ep, b0 - eq) - u(a0 - ep, b0 + eq) + u(a0 - ep, b0 - eq)) / (4 * h * h)
                    scale = 1 + abs(faa)
                    if abs(bi[p, q] - faa) > 2e-5 * scale * (1 + 1 / r ** 4):
                        bad = f"dudr2i[{p},{q}] = {bi[p, q]} but finite-difference d2u/da_{p}da_{q} = {faa}"
                    elif abs(bj[p, q] - fab) > 2e-5 * scale * (1 + 1 / r ** 4):
                        bad = f"dudr2j[{p},{q}] = {bj[p, q]} but finite-difference d2u/da_{p}db_{q} = {fab}"
        if bad:
            return {"ran": True, "failed": True, "from_model": first, "searched": k + 1,
                    "inputs": {"Rji": x, "dudrs": [s1, s1rc, s2], "ndim": d}, "detail": bad}
    return {"ran": True, "failed": False, "searched": 300, "detail": "real pair_matrix agrees with the analytic and the finite-difference second derivative"}


# ----------------------------------------------------------------------------------------------------------------
# participation ratio


def pr_sums(vec, N, d, n=None):
    """S1(n) = sum_{t<n} |e_t|^2,  S2(n) = sum_{t<n} |e_t|^4 for the (N, d) field vec (a reader)"""
    n = N if n is None else n

    def a(t):
        return _sum([sv.mul(vec((t, k)), vec((t, k))) for k in range(d)])
    return Sum(0, n, a), Sum(0, n, lambda t: sv.mul(a(t), a(t))), a


def pr_spec(vec, N, d):
    S1, S2, _ = pr_sums(vec, N, d)
    return sv.div(sv.mul(S1, S1), sv.mul(sv.to_real(N), S2))


class ParticipationRatio(Unit):
    """PR = (sum_i |e_i|^2)^2 / (N sum_i |e_i|^4) (docs/vectors.md); in (0, 1] for a non-zero field.
    The bound is Cauchy-Schwarz (sum a)^2 <= N sum a^2, proved by induction over the particle number:
      Q(n, c): sum_{t<n} a_t^2 - 2 c sum_{t<n} a_t + n c^2 >= 0     (base n = 0, step n -> n+1: adds (a_n - c)^2)
    and the instance c = S1(N)/N."""
    module = VMOD
    qualname = "participation_ratio"
    prop = "C11"
    timeout = 20

    def cases(self):
        return ["d=2", "d=3"]

    def setup(self, ctx, case):
        d = int(case[2])
        N = ctx.int("N")
        ctx.assume(N >= 1)
        V = ctx.array("vector", (N, d), "float", origin="argument vector")
        S1, S2, _ = pr_sums(V.reader(), N, d)
        ctx.assume(sv.cmp(">", S1, 0))          # a non-zero field (eigenvectors are normalised)
        return [V], {}, dict(d=d, N=N, V=V, vec=V.reader())

    def clause_names(self, case):
        return ["PR=(sum|e|^2)^2/(N.sum|e|^4)", "induction:Q(0,c)", "induction:Q(n,c)=>Q(n+1,c)", "cauchy-schwarz-from-Q(N,S1/N)",
                "0<PR<=1", "div0:N.sum|e|^4!=0", "frame-input-not-written"]

    def ensures(self, ctx, case, inp, out):
        d, N, vec = inp["d"], inp["N"], inp["vec"]
        v = out.value
        yield "PR=(sum|e|^2)^2/(N.sum|e|^4)", sv.cmp("==", v, pr_spec(vec, N, d))
        # induction over n for Q(n, c)
        n, c = sv.integer("n_ind"), sv.real("c_ind")

        def Q(k, cc):
            S1, S2, _ = pr_sums(vec, N, d, n=k)
            return sv.cmp(">=", sv.add(sv.sub(S2, sv.mul(sv.mul(2, cc), S1)), sv.mul(sv.to_real(k), sv.mul(cc, cc))), 0)
        yield "induction:Q(0,c)", Q(0, c)
        yield "induction:Q(n,c)=>Q(n+1,c)", sv.implies(sv.and_(n >= 0, Q(n, c)), Q(sv.add(n, 1), c))
        S1, S2, _ = pr_sums(vec, N, d)
        g1, g2 = sv.real("S1_gen"), sv.real("S2_gen")
        Nr = sv.to_real(N)
        cs = sv.cmp("<=", sv.mul(S1, S1), sv.mul(Nr, S2))
        inst = Q(N, sv.div(S1, Nr))               # the instance c = S1/N of the induction's conclusion
        yield "cauchy-schwarz-from-Q(N,S1/N)", sv.generalize(sv.implies(sv.and_(inst, N >= 1), cs), [S1, S2])[0]
        # the induction principle over n (base + step above) gives Q(N, c) for every c; its instance is assumed here
        yield "0<PR<=1", sv.and_(sv.cmp(">", v, 0), sv.cmp("<=", v, 1)), {"assume": [cs]}
        yield "div0:N.sum|e|^4!=0", sv.cmp("!=", sv.mul(S2, Nr), 0), {"assume": [cs]}
        stores = [e for e in out.state.events if e[0] == "store" and e[1] == inp["V"].sid]
        yield "frame-input-not-written", len(stores) == 0

    def replay(self, case, clause, model, seed):
        import importlib
        import random

        import numpy as np
        Vm = importlib.import_module(VMOD)
        d = int(case[2])
        rng = random.Random(seed)
        for k in range(300):
            N = [1, 2, 3, 5, 17][k % 5] if k < 50 else rng.randint(1, 40)
            v = np.array([[rng.uniform(-2, 2) for _ in range(d)] for _ in range(N)])
            if k % 7 == 3:
                v[rng.randrange(N):] = 0.0      # localised field
                if not v.any():
                    v[0, 0] = 1.0
            if k % 7 == 4:
                v = np.ones((N, d)) * rng.uniform(0.1, 3)     # uniform translation: PR = 1
            keep = v.copy()
            try:
                got = float(Vm.participation_ratio(v))
            except Exception as e:
                return {"ran": True, "failed": True, "inputs": {"vector": v.tolist()}, "detail": f"raises {type(e).__name__}: {e}"}
            a = [sum(v[i, c] ** 2 for c in range(d)) for i in range(N)]
            want = sum(a) ** 2 / (N * sum(t * t for t in a))
            bad = None
            if abs(got - want) > 1e-9 * (1 + abs(want)):
                bad = f"participation_ratio = {got}, definition gives {want}"
            elif not (0 < got <= 1 + 1e-12):
                bad = f"participation ratio {got} outside (0, 1]"
            elif not np.array_equal(keep, v):
                bad = "input modified"
            if bad:
                return {"ran": True, "failed": True, "searched": k + 1, "inputs": {"vector": v.tolist()}, "detail": bad}
        return {"ran": True, "failed": False, "searched": 300}


UNITS = [PairMatrix(), ParticipationRatio()]

MANIFEST = {
    "text": "in progress",
    "note": "in progress",
}
