"""C01 — LAMMPS dump reading preserves every frame's particles, coordinates and cell.

Functions under contract: reader.lammps_reader_helper.read_lammps (one frame from a symbolic file), read_lammps_wrapper
(frame loop), reader.dump_reader.DumpReader.read_onefile (dispatch).

Input model (DESIGN I.9): at the handle's position b the file holds a frame in the LAMMPS `ITEM:` grammar
   ITEM: TIMESTEP / <ts> / ITEM: NUMBER OF ATOMS / <N> / ITEM: BOX BOUNDS [xy xz yz] pp pp pp /
   3 bounds lines (`lo hi` or `lo_bound hi_bound tilt`; the z line is present in 2-D dumps too) /
   ITEM: ATOMS id type <x y [z] | xs ys [zs] | xu yu [zu]> <extra column names> / N atom lines `id type c_0 .. c_{d-1} extra…`
with ids a bijection onto 1..N (atom lines in any order), any number of trailing tokens per atom line, arbitrary numeric
content; or end of file.
Spec = the LAMMPS conventions (doc/Howto_triclinic, dump command):
   orthogonal: L = hi - lo, H = diag L;
   triclinic:  xlo = xlo_b - min(0,xy,xz,xy+xz), xhi = xhi_b - max(0,xy,xz,xy+xz), ylo = ylo_b - min(0,yz), yhi = yhi_b - max(0,yz),
               zlo = zlo_b, zhi = zhi_b; rows of H: (lx,0,0), (xy,ly,0), (xz,yz,lz), cut to d;
   positions by id:  xu -> raw;  x orthogonal -> raw + L if raw < lo, raw - L if raw > hi, raw otherwise (so inside [lo,hi] when
               the excursion is at most one box length);  x triclinic -> raw;
               xs orthogonal -> lo + s L;   xs triclinic -> (xlo,ylo,zlo) + s H.
"""
import z3

from pyvc import arr as A
from pyvc import sv
from pyvc.text import LineVal, Tok, TokList, new_rfile
from pyvc.vc import Unit

MOD = "PyMatterSim.reader.lammps_reader_helper"

NOT_DECIDED = [
    "character-level details of the grammar (column widths, exponent formats), behaviour on malformed files",
    "decimal -> binary conversion of the numbers in the file (A1: a token denotes a real number)",
]
TRUSTED = [
    "token/file model of pyvc/text.py (readline, split, int/float of tokens, numpy string->float on assignment, `in` on literal words)",
    "assumed contracts of np.where, np.diag, np.vstack, np.zeros, reshape; dataclass construction",
]

STYLE_WORDS = {"x": ["x", "y", "z"], "xs": ["xs", "ys", "zs"], "xu": ["xu", "yu", "zu"]}


def _frame_file(ctx, d, cell, style, eof=False):
    """symbolic file positioned at a frame start; returns (file, symbols)"""
    I, R = z3.IntSort(), z3.RealSort()
    b = ctx.int("b")
    ctx.assume(b >= 0)
    N = ctx.int("N")
    ctx.assume(N >= 0)          # a frame may hold no atoms (dump of a temporarily empty group)
    TS = ctx.int("timestep")
    ID, IDINV, TYP = z3.Function("ID", I, I), z3.Function("IDINV", I, I), z3.Function("ATYPE", I, I)
    C = z3.Function("COORD", I, I, R)
    NX = z3.Function("NEXTRA", I, I)
    XT = z3.Function("XTRA", I, I, R)
    Nz = N.t
    ctx.array_fact("ID", lambda a: z3.Implies(z3.And(a >= 0, a < Nz), z3.And(ID(a) >= 1, ID(a) <= Nz, IDINV(ID(a)) == a)))
    ctx.array_fact("IDINV", lambda r: z3.Implies(z3.And(r >= 1, r <= Nz), z3.And(IDINV(r) >= 0, IDINV(r) < Nz, ID(IDINV(r)) == r)))
    ctx.array_fact("NEXTRA", lambda a: NX(a) >= 0)
    ctx.state.inverses["ID"] = lambda v: IDINV(v)
    lo = [ctx.real(f"lo_{k}") for k in range(3)]
    hi = [ctx.real(f"hi_{k}") for k in range(3)]
    tilt = [ctx.real(nm) for nm in ("xy", "xz", "yz")]
    words8 = ["ITEM:", "ATOMS", "id", "type"] + STYLE_WORDS[style][:d] + ["vx", "c_extra"]

    def line_fn(pos):
        off = A.simp(sv.sub(pos, b))
        if eof:
            return LineVal(None, eof=True)
        if sv.is_conc(off):
            off = int(off)
            if off == 0:
                return LineVal(TokList.of(["ITEM:", "TIMESTEP"]))
            if off == 1:
                return LineVal(TokList.of([Tok("int", TS)]))
            if off == 2:
                return LineVal(TokList.of(["ITEM:", "NUMBER", "OF", "ATOMS"]))
            if off == 3:
                return LineVal(TokList.of([Tok("int", N)]))
            if off == 4:
                return LineVal(TokList.of(["ITEM:", "BOX", "BOUNDS"] + (["xy", "xz", "yz"] if cell == "tri" else []) + ["pp", "pp", "pp"]))
            if 5 <= off <= 7:
                k = off - 5
                toks = [Tok("float", lo[k]), Tok("float", hi[k])] + ([Tok("float", tilt[k])] if cell == "tri" else [])
                return LineVal(TokList.of(toks))
            if off == 8:
                return LineVal(TokList.of(words8))
        a = A.simp(sv.sub(off, 9))
        az = sv.znum(a)

        def tok(c):
            if sv.is_conc(c):
                c = int(c)
                if c == 0:
                    return Tok("int", sv.SV(ID(az)))
                if c == 1:
                    return Tok("int", sv.SV(TYP(az)))
                if c < 2 + d:
                    return Tok("float", sv.SV(C(az, z3.IntVal(c - 2))))
                return Tok("float", sv.SV(XT(az, z3.IntVal(c - 2 - d))))
            return Tok("float", sv.SV(XT(az, sv.znum(A.simp(sv.sub(c, 2 + d))))))
        return LineVal(TokList(A.simp(sv.add(2 + d, sv.SV(NX(az)))), tok))
    f = new_rfile(b, line_fn)
    return f, dict(b=b, N=N, TS=TS, ID=ID, IDINV=IDINV, TYP=TYP, C=C, lo=lo, hi=hi, tilt=tilt, f=f)


def frame_spec(sym, d, cell, style):
    """the LAMMPS conventions as terms: dict with boxbounds, boxlength, realbounds (triclinic), hmatrix, pos(a,k)"""
    lo, hi = sym["lo"], sym["hi"]
    xy, xz, yz = sym["tilt"]
    C = sym["C"]
    raw = lambda a, k: sv.SV(C(sv.znum(a), z3.IntVal(k)))
    out = {}
    if cell == "orth":
        L = [sv.sub(hi[k], lo[k]) for k in range(d)]
        out["boxlength"] = L
        out["boxbounds"] = [[lo[k], hi[k]] for k in range(d)]
        out["realbounds"] = None
        out["hmatrix"] = [[L[a] if a == b else 0 for b in range(d)] for a in range(d)]
        if style == "xu":
            pos = raw
        elif style == "x":
            def pos(a, k):
                r = raw(a, k)
                return sv.ite(sv.cmp("<", r, lo[k]), sv.add(r, L[k]), sv.ite(sv.cmp(">", r, hi[k]), sv.sub(r, L[k]), r))
        else:
            pos = lambda a, k: sv.add(lo[k], sv.mul(raw(a, k), L[k]))
    else:
        mn = lambda *xs: _fold(sv.minv, xs)
        mx = lambda *xs: _fold(sv.maxv, xs)
        zero = sv.to_frac(0.0)
        xlo = sv.sub(lo[0], mn(zero, xy, xz, sv.add(xy, xz)))
        xhi = sv.sub(hi[0], mx(zero, xy, xz, sv.add(xy, xz)))
        ylo = sv.sub(lo[1], mn(zero, yz))
        yhi = sv.sub(hi[1], mx(zero, yz))
        zlo, zhi = lo[2], hi[2]
        rl = [xlo, ylo, zlo]
        rh = [xhi, yhi, zhi]
        Ls = [sv.sub(rh[k], rl[k]) for k in range(3)]
        H3 = [[Ls[0], 0, 0], [xy, Ls[1], 0], [xz, yz, Ls[2]]]
        out["boxlength"] = Ls[:d]
        out["boxbounds"] = [[lo[k], hi[k]] for k in range(d)]
        out["realbounds"] = [[rl[k], rh[k]] for k in range(d)]
        out["hmatrix"] = [[H3[a][b] for b in range(d)] for a in range(d)]
        if style in ("x", "xu"):
            pos = raw
        else:
            def pos(a, k):
                acc = rl[k]
                for c in range(d):          # (xlo,ylo,zlo) + sum_c s_c * (row c of H)
                    acc = sv.add(acc, sv.mul(raw(a, c), H3[c][k]))
                return acc
    out["pos"] = pos
    return out


def _fold(f, xs):
    acc = xs[0]
    for x in xs[1:]:
        acc = f(acc, x)
    return acc


class ReadLammps(Unit):
    module = MOD
    qualname = "read_lammps"
    prop = "C01"
    timeout = 20

    def cases(self):
        return [f"d={d}/{cell}/{style}" for d in (2, 3) for cell in ("orth", "tri") for style in ("x", "xs", "xu")] + ["d=3/eof", "d=2/eof"]

    def setup(self, ctx, case):
        parts = case.split("/")
        d = int(parts[0][2])
        if parts[1] == "eof":
            f, sym = _frame_file(ctx, d, "orth", "x", eof=True)
            return [f, d], {}, dict(sym, d=d, eof=True)
        cell, style = parts[1], parts[2]
        f, sym = _frame_file(ctx, d, cell, style)
        sym.update(d=d, cell=cell, style=style, eof=False, r=ctx.int("r"))
        return [f, d], {}, sym

    def clause_names(self, case):
        if case.endswith("eof"):
            return ["returns-None-at-end-of-file"]
        names = ["is-a-snapshot", "timestep", "nparticle", "particle_type-by-id", "positions-by-id", "boxlength", "boxbounds", "hmatrix",
                 "handle-advanced-to-next-frame", "shapes"]
        if "/tri/" in case:
            names.append("realbounds")
        if "/orth/x" in case and not case.endswith("xs") and not case.endswith("xu"):
            names.append("wrapped:inside-box-when-excursion-at-most-one-box-length")
        return names

    def ensures(self, ctx, case, inp, out):
        from pyvc.interp import Ref
        if inp["eof"]:
            yield "returns-None-at-end-of-file", out.value is None
            return
        d, cell, style, r, N = inp["d"], inp["cell"], inp["style"], inp["r"], inp["N"]
        snap = out.value
        ok = isinstance(snap, Ref) and snap.kind == "obj" and snap.cls is not None and snap.cls.name == "SingleSnapshot"
        yield "is-a-snapshot", bool(ok)
        if not ok:
            return
        c = snap.content
        spec = frame_spec(inp, d, cell, style)
        yield "timestep", sv.cmp("==", c["timestep"], inp["TS"])
        yield "nparticle", sv.cmp("==", c["nparticle"], N)
        pos, typ = c["positions"], c["particle_type"]
        shapes_ok = isinstance(pos, A.Arr) and pos.ndim == 2 and A.dim_eq_syntactic(pos.shape[1], d) and isinstance(typ, A.Arr) and typ.ndim == 1
        yield "shapes", sv.and_(bool(shapes_ok), sv.cmp("==", pos.shape[0], N) if shapes_ok else False, sv.cmp("==", typ.shape[0], N) if shapes_ok else False)
        if not shapes_ok:
            return
        inr = sv.and_(sv.cmp(">=", r, 0), sv.cmp("<", r, N))
        line = sv.SV(inp["IDINV"](sv.znum(sv.add(r, 1))))                   # the atom line carrying id r+1
        yield "particle_type-by-id", sv.implies(inr, sv.cmp("==", typ.get((r,)), sv.SV(inp["TYP"](line.t))))
        yield "positions-by-id", sv.implies(inr, sv.and_(*[sv.cmp("==", pos.get((r, k)), spec["pos"](line, k)) for k in range(d)]))

        def arr_eq(a, want):
            if not isinstance(a, A.Arr):
                return False
            if len(want) and isinstance(want[0], list):
                if a.shape != (len(want), len(want[0])):
                    return False
                return sv.and_(*[sv.cmp("==", a.get((i, j)), want[i][j]) for i in range(len(want)) for j in range(len(want[0]))])
            if a.shape != (len(want),):
                return False
            return sv.and_(*[sv.cmp("==", a.get((i,)), want[i]) for i in range(len(want))])
        yield "boxlength", arr_eq(c["boxlength"], spec["boxlength"])
        yield "boxbounds", arr_eq(c["boxbounds"], spec["boxbounds"])
        yield "hmatrix", arr_eq(c["hmatrix"], spec["hmatrix"])
        if cell == "tri":
            yield "realbounds", arr_eq(c["realbounds"], spec["realbounds"])
        fcell = out.state.heap[inp["f"].sid].data
        yield "handle-advanced-to-next-frame", sv.cmp("==", fcell["pos"], sv.add(sv.add(inp["b"], 9), N))
        if cell == "orth" and style == "x":
            lo, hi = inp["lo"], inp["hi"]
            conds = []
            for k in range(d):
                L = sv.sub(hi[k], lo[k])
                raw = sv.SV(inp["C"](line.t, z3.IntVal(k)))
                pre = sv.and_(sv.cmp(">", L, 0), sv.cmp(">=", raw, sv.sub(lo[k], L)), sv.cmp("<=", raw, sv.add(hi[k], L)))
                v = pos.get((r, k))
                post = sv.and_(sv.cmp(">=", v, lo[k]), sv.cmp("<=", v, hi[k]),
                               sv.or_(sv.cmp("==", v, raw), sv.cmp("==", v, sv.add(raw, L)), sv.cmp("==", v, sv.sub(raw, L))))
                conds.append(sv.implies(pre, post))
            yield "wrapped:inside-box-when-excursion-at-most-one-box-length", sv.implies(inr, sv.and_(*conds))

    def replay(self, case, clause, model, seed):
        return _replay_dump(case, seed)


def _replay_dump(case, seed, via="read_lammps"):
    """writes LAMMPS dumps for the case (d, cell, style; shuffled atom lines, extra columns, several frames, arbitrary origins, tilts
    of either sign) and compares what the real reader returns with the LAMMPS conventions"""
    import importlib
    import os
    import random
    import shutil
    import tempfile

    import numpy as np
    M = importlib.import_module(MOD)
    parts = case.split("/")
    d = int(parts[0][2])
    rng = random.Random(seed)
    tmp = tempfile.mkdtemp(prefix="pyvc-replay-")
    try:
        if parts[1] == "eof":
            path = os.path.join(tmp, "empty.dump")
            open(path, "w").close()
            with open(path) as f:
                got = M.read_lammps(f, d)
            return {"ran": True, "failed": got is not None, "detail": f"read_lammps at EOF returned {got!r}"}
        cell, style = parts[1], parts[2]
        for trial in range(25):
            F = rng.randint(1, 3)
            frames = []
            text = ""
            for s in range(F):
                N = rng.randint(1, 7) if not (F >= 2 and s == 0 and trial % 4 == 1) else 0      # sometimes an empty first frame
                lo = [rng.uniform(-5, 5) for _ in range(3)]
                L = [rng.uniform(2, 6) for _ in range(3)]
                if cell == "tri":
                    xy, xz, yz = (rng.uniform(-1.5, 1.5) for _ in range(3))
                    if d == 2:
                        xz = yz = 0.0
                else:
                    xy = xz = yz = 0.0
                xlo, ylo, zlo = lo
                xhi, yhi, zhi = xlo + L[0], ylo + L[1], zlo + L[2]
                xlo_b = xlo + min(0.0, xy, xz, xy + xz)
                xhi_b = xhi + max(0.0, xy, xz, xy + xz)
                ylo_b = ylo + min(0.0, yz)
                yhi_b = yhi + max(0.0, yz)
                H = np.array([[L[0], 0, 0], [xy, L[1], 0], [xz, yz, L[2]]])
                ts = rng.randint(0, 10 ** 6)
                ids = list(range(1, N + 1))
                rng.shuffle(ids)
                types = {i: rng.randint(1, 4) for i in ids}
                frac = {i: [rng.uniform(0, 1) for _ in range(3)] for i in ids}
                cart = {i: (np.array([xlo, ylo, zlo]) + np.array(frac[i]) @ H) for i in ids}
                shift = {i: [rng.choice([-1, 0, 0, 1]) for _ in range(3)] for i in ids}
                text += f"ITEM: TIMESTEP\n{ts}\nITEM: NUMBER OF ATOMS\n{N}\n"
                if cell == "tri":
                    text += "ITEM: BOX BOUNDS xy xz yz pp pp pp\n"
                    text += f"{xlo_b!r} {xhi_b!r} {xy!r}\n{ylo_b!r} {yhi_b!r} {xz!r}\n{zlo!r} {zhi!r} {yz!r}\n"
                else:
                    text += "ITEM: BOX BOUNDS pp pp pp\n"
                    text += f"{xlo!r} {xhi!r}\n{ylo!r} {yhi!r}\n{zlo!r} {zhi!r}\n"
                text += "ITEM: ATOMS id type " + " ".join(STYLE_WORDS[style][:d]) + " vx\n"
                want_pos = {}
                for i in ids:
                    if style == "xs":
                        vals = frac[i][:d]
                        want_pos[i] = cart[i][:d] if cell == "tri" else np.array([lo[k] + frac[i][k] * L[k] for k in range(d)])
                        if cell == "tri" and d == 2:
                            want_pos[i] = np.array([xlo + frac[i][0] * L[0] + frac[i][1] * xy, ylo + frac[i][1] * L[1]])
                    elif style == "xu" or cell == "tri":
                        vals = [cart[i][k] + shift[i][k] * 7.5 for k in range(d)]
                        if cell == "tri" and d == 2:
                            vals = [xlo + frac[i][0] * L[0] + frac[i][1] * xy, ylo + frac[i][1] * L[1]]
                        want_pos[i] = np.array(vals)
                    else:   # wrapped style, orthogonal: excursions of at most one box length
                        base = [lo[k] + frac[i][k] * L[k] for k in range(d)]
                        vals = [base[k] + shift[i][k] * L[k] * rng.uniform(0.0, 0.999) if shift[i][k] else base[k] for k in range(d)]
                        w = []
                        for k in range(d):
                            v = vals[k]
                            if v < lo[k]:
                                v += L[k]
                            elif v > lo[k] + L[k]:
                                v -= L[k]
                            w.append(v)
                        want_pos[i] = np.array(w)
                    text += f"{i} {types[i]} " + " ".join(repr(float(v)) for v in vals) + f" {rng.uniform(-1, 1)!r}\n"
                if cell == "tri":
                    bl = np.array(L[:d])
                    bb = np.array([[xlo_b, xhi_b], [ylo_b, yhi_b], [zlo, zhi]])[:d]
                    rb = np.array([[xlo, xhi], [ylo, yhi], [zlo, zhi]])[:d]
                    hm = H[:d, :d]
                else:
                    bl = np.array(L[:d])
                    bb = np.array([[xlo, xhi], [ylo, yhi], [zlo, zhi]])[:d]
                    rb = None
                    hm = np.diag(L[:d])
                frames.append(dict(ts=ts, N=N, types=types, pos=want_pos, bl=bl, bb=bb, rb=rb, hm=hm))
            path = os.path.join(tmp, f"t{trial}.dump")
            with open(path, "w") as fh:
                fh.write(text)
            try:
                if via == "wrapper":
                    snaps = M.read_lammps_wrapper(path, d)
                    got_frames = list(snaps.snapshots)
                    if snaps.nsnapshots != F or len(got_frames) != F:
                        return {"ran": True, "failed": True, "detail": f"{F} frames in the file, reader reports {snaps.nsnapshots} / returns {len(got_frames)}", "inputs": {"text": text}}
                else:
                    got_frames = []
                    with open(path) as fh:
                        for s in range(F):
                            got_frames.append(M.read_lammps(fh, d))
                        tail = M.read_lammps(fh, d)
                    if tail is not None:
                        return {"ran": True, "failed": True, "detail": "a frame is returned after the last frame", "inputs": {"text": text}}
            except Exception as e:
                return {"ran": True, "failed": True, "detail": f"raises {type(e).__name__}: {e}", "inputs": {"text": text, "case": case}, "searched": trial + 1}
            for s, (g, w) in enumerate(zip(got_frames, frames)):
                bad = None
                if g is None:
                    bad = "frame missing (None)"
                elif g.timestep != w["ts"] or g.nparticle != w["N"]:
                    bad = f"timestep/nparticle {g.timestep}/{g.nparticle}, expected {w['ts']}/{w['N']}"
                else:
                    for i in range(1, w["N"] + 1):
                        if int(g.particle_type[i - 1]) != w["types"][i]:
                            bad = f"particle_type of id {i}: {g.particle_type[i-1]}, expected {w['types'][i]}"
                            break
                        if not np.allclose(g.positions[i - 1], w["pos"][i], rtol=1e-12, atol=1e-12):
                            bad = f"position of id {i}: {g.positions[i-1].tolist()}, expected {w['pos'][i].tolist()}"
                            break
                    if bad is None and not np.allclose(g.boxlength, w["bl"]):
                        bad = f"boxlength {np.asarray(g.boxlength).tolist()}, expected {w['bl'].tolist()}"
                    if bad is None and not np.allclose(g.boxbounds, w["bb"]):
                        bad = f"boxbounds {np.asarray(g.boxbounds).tolist()}, expected {w['bb'].tolist()}"
                    if bad is None and not np.allclose(g.hmatrix, w["hm"]):
                        bad = f"hmatrix {np.asarray(g.hmatrix).tolist()}, expected {w['hm'].tolist()}"
                    if bad is None and w["rb"] is not None and not np.allclose(g.realbounds, w["rb"]):
                        bad = f"realbounds {np.asarray(g.realbounds).tolist()}, expected {w['rb'].tolist()}"
                if bad:
                    return {"ran": True, "failed": True, "searched": trial + 1, "detail": f"frame {s}: {bad}", "inputs": {"case": case, "text": text}}
        return {"ran": True, "failed": False, "searched": 25}
    finally:
        shutil.rmtree(tmp, ignore_errors=True)


# =====================================================================================================
# the frame loop


class Wrapper(Unit):
    """read_lammps_wrapper(file, ndim): one snapshot per frame of the file, in file order, nsnapshots = number of frames.
    Callee contract of read_lammps (proved by the unit above): at the start of frame s < F it returns the snapshot of frame s and
    leaves the handle at the start of frame s+1; at end of file it returns None.  The `while True` loop is verified with the written
    invariant  snapshots == [frame 0 .. frame k-1]  and  nsnapshots == k  and  handle at start of frame k  (init / step / exit)."""
    module = MOD
    qualname = "read_lammps_wrapper"
    prop = "C01"

    def cases(self):
        return ["d=2", "d=3"]

    def setup(self, ctx, case):
        from pyvc.interp import load_module, new_obj
        d = int(case[2])
        I = z3.IntSort()
        F = ctx.int("F")
        ctx.assume(F >= 1)
        B = z3.Function("FRAMESTART", I, I)
        NF = z3.Function("NATOMS", I, I)
        ctx.array_fact("FRAMESTART", lambda s: z3.And(z3.Implies(s == 0, B(s) == 0), B(s + 1) == B(s) + 9 + NF(s)))
        ctx.array_fact("NATOMS", lambda s: NF(s) >= 0)
        cls = load_module("PyMatterSim.reader.reader_utils").get_class("SingleSnapshot")
        made = {}

        def frame_obj(s):
            return new_obj(cls, dict(timestep=sv.SV(z3.Function("TSF", I, I)(sv.znum(s))), nparticle=sv.SV(NF(sv.znum(s))), _frame=s), frozen=True)

        def line_fn(pos):
            raise sv.EngineError("the wrapper is verified against read_lammps's contract, not its body")
        ctx.state.files["dump.lammpstrj"] = (0, line_fn)
        st = {"F": F, "B": B, "d": d, "frame_obj": frame_obj}
        self._st = st
        return ["dump.lammpstrj", d], {}, st

    @property
    def summaries(self):
        unit = self

        def read_lammps_contract(interp, args, kwargs):
            from pyvc.state import Content, cur
            f, nd = args[0], args[1]
            st = unit._st
            c = cur().heap[f.sid]
            pos = c.data["pos"]
            cur().require(sv.cmp("==", nd, st["d"]), "call:read_lammps:pre:ndim")
            # which frame starts here?  pos must be FRAMESTART(s) for some s <= F (precondition of the callee contract)
            s = None
            if isinstance(pos, sv.SV) and z3.is_app(pos.t) and pos.t.decl().name() == "FRAMESTART":
                s = sv.wrap(z3.simplify(pos.t.arg(0)))
            elif sv.is_conc(pos) and pos == 0:
                s = 0
            if s is None:
                raise sv.EngineError("read_lammps contract: the handle is not known to be at a frame start")
            cur().require(sv.and_(sv.cmp(">=", s, 0), sv.cmp("<=", s, st["F"])), "call:read_lammps:pre:at-a-frame-start-or-eof")
            if interp.decide(sv.cmp("==", s, st["F"])):
                return None
            d = dict(c.data)
            d["pos"] = sv.SV(st["B"](sv.znum(sv.add(s, 1))))
            cur().heap[f.sid] = Content("file", d, c.meta)
            return st["frame_obj"](s)
        return {f"{MOD}.read_lammps": read_lammps_contract}

    @property
    def loop_hints(self):
        unit = self

        def while_rule(interp, s, frame, state):
            """written summary of `while True: snapshot = read_lammps(f, ndim); if not snapshot: break; append; count`"""
            from pyvc.interp import Ref
            from pyvc.loops import _SideGoal
            from pyvc.state import Content, use_state
            st = unit._st
            F, B = st["F"], st["B"]
            where = f"{frame.fname}:{s.lineno}"
            import ast as _ast
            # the invariant speaks about the abstraction (the open handle, the list the body appends to, and every counter the body
            # increments by one), found from the loop's own text: local names are incidental
            files = [v for v in frame.env.values() if isinstance(v, Ref) and v.kind == "file"]
            appended = sorted({n.func.value.id for b in s.body for n in _ast.walk(b)
                               if isinstance(n, _ast.Call) and isinstance(n.func, _ast.Attribute) and n.func.attr == "append" and isinstance(n.func.value, _ast.Name)})
            counters = sorted({n.target.id for b in s.body for n in _ast.walk(b)
                               if isinstance(n, _ast.AugAssign) and isinstance(n.op, _ast.Add) and isinstance(n.target, _ast.Name)
                               and isinstance(n.value, _ast.Constant) and n.value.value == 1})
            f = files[0] if len(files) == 1 else None
            lst = frame.env.get(appended[0]) if len(appended) == 1 else None
            ok_entry = isinstance(f, Ref) and f.kind == "file" and isinstance(lst, Ref) and lst.kind == "list"
            if not ok_entry:
                raise sv.EngineError("wrapper loop: unexpected entry state")

            def set_state(stt, fr, k):
                c = stt.heap[f.sid]
                stt.heap[f.sid] = Content("file", dict(c.data, pos=(sv.SV(B(sv.znum(k))) if not (sv.is_conc(k) and k == 0) else 0)), c.meta)
                stt.heap[lst.sid] = Content("list", A.SeqVal(k, lambda i: st["frame_obj"](i)))
                for cn in counters:
                    fr.env[cn] = k
            # init: entry state is state(0)
            with use_state(state):
                init_ok = sv.and_(len(lst.content) == 0 if not isinstance(lst.content, A.SeqVal) else False,
                                  *([sv.cmp("==", frame.env.get(cn), 0) if frame.env.get(cn) is not None else False for cn in counters] +
                                    [sv.cmp("==", state.heap[f.sid].data["pos"], 0)]))
            state.side.append(_SideGoal("loop-init(frame loop)", sv.zb(init_ok) if isinstance(init_ok, sv.SV) else z3.BoolVal(bool(init_ok)), state.all_assumptions(), where))
            # step: from state(k), 0 <= k < F, one body execution gives state(k+1) and does not leave the loop
            k = sv.fresh_int("k")
            st1, fr1 = state.fork(), frame.clone()
            st1.pc = list(state.pc) + [sv.zb(sv.cmp(">=", k, 0)), sv.zb(sv.cmp("<", k, F))]
            with use_state(st1):
                set_state(st1, fr1, k)
                outs = interp.exec_block_paths(s.body, fr1, st1)
            goods = [(fr, stt) for fr, stt, out in outs if out[0] in ("normal", "continue")]
            bad = [out for fr, stt, out in outs if out[0] not in ("normal", "continue")]
            goal = z3.BoolVal(False)
            if len(goods) == 1 and not bad:
                fr2, st2 = goods[0]
                with use_state(st2):
                    c2 = st2.heap[lst.sid].data
                    if isinstance(c2, A.SeqVal):
                        last = c2.fn(k)
                        tag = last.content.get("_frame") if isinstance(last, Ref) and last.kind == "obj" else None
                        goal = sv.zb(sv.and_(sv.cmp("==", c2.length, sv.add(k, 1)), sv.cmp("==", tag, k) if tag is not None else False,
                                             *([sv.cmp("==", fr2.env.get(cn), sv.add(k, 1)) for cn in counters] +
                                               [sv.cmp("==", st2.heap[f.sid].data["pos"], sv.SV(B(sv.znum(sv.add(k, 1)))))])))
                        prev = sv.fresh_int("q")
                        older = (c2.base_fn if hasattr(c2, "base_fn") else c2.fn)(prev)      # an item before the appended one (prev < k below)
                        otag = older.content.get("_frame") if isinstance(older, Ref) and older.kind == "obj" else None
                        goal = z3.And(goal, sv.zb(sv.implies(sv.and_(sv.cmp(">=", prev, 0), sv.cmp("<", prev, k)), sv.cmp("==", otag, prev) if otag is not None else False)))
                assum = st2.all_assumptions()
            else:
                assum = st1.all_assumptions()
            state.side.append(_SideGoal("loop-step(frame loop)", goal, assum, where))
            # exit: from state(F) the body breaks
            st3, fr3 = state.fork(), frame.clone()
            with use_state(st3):
                set_state(st3, fr3, F)
                outs3 = interp.exec_block_paths(s.body, fr3, st3)
            exits = [(fr, stt) for fr, stt, out in outs3 if out[0] == "break"]
            others = [out for fr, stt, out in outs3 if out[0] != "break"]
            state.side.append(_SideGoal("loop-exit(frame loop ends exactly at end of file)", z3.BoolVal(len(exits) == 1 and not others), st3.all_assumptions(), where))
            if len(exits) != 1:
                raise sv.EngineError("wrapper loop: the loop does not end at end of file")
            fr4, st4 = exits[0]
            return [(fr4, st4, ("normal",))]
        return {(f"{MOD}.read_lammps_wrapper", "while"): while_rule}

    def clause_names(self, case):
        return ["one-snapshot-per-frame-in-file-order", "nsnapshots=number-of-frames"]

    def ensures(self, ctx, case, inp, out):
        from pyvc.interp import Ref
        res = out.value
        F = inp["F"]
        ok = isinstance(res, Ref) and res.kind == "obj" and res.cls is not None and res.cls.name == "Snapshots"
        if not ok:
            yield "one-snapshot-per-frame-in-file-order", False
            yield "nsnapshots=number-of-frames", False
            return
        c = res.content
        yield "nsnapshots=number-of-frames", sv.cmp("==", c["nsnapshots"], F)
        lst = c["snapshots"]
        content = lst.content if isinstance(lst, Ref) else None
        if not isinstance(content, A.SeqVal):
            yield "one-snapshot-per-frame-in-file-order", False
            return
        q = ctx.int("q")
        el = content.fn(q)
        tag = el.content.get("_frame") if isinstance(el, Ref) and el.kind == "obj" else None
        yield "one-snapshot-per-frame-in-file-order", sv.and_(sv.cmp("==", content.length, F),
                                                              sv.implies(sv.and_(sv.cmp(">=", q, 0), sv.cmp("<", q, F)), sv.cmp("==", tag, q) if tag is not None else False))

    def replay(self, case, clause, model, seed):
        d = int(case[2])
        for cs in (f"d={d}/orth/x", f"d={d}/tri/x", f"d={d}/orth/xu"):
            r = _replay_dump(cs, seed, via="wrapper")
            if r.get("failed"):
                return r
        return r


class Dispatch(Unit):
    """DumpReader.read_onefile: the LAMMPS file type is read by read_lammps_wrapper(filename, ndim) and the result stored in .snapshots"""
    module = "PyMatterSim.reader.dump_reader"
    qualname = "DumpReader.read_onefile"
    prop = "C01"

    def setup(self, ctx, case):
        DR = "PyMatterSim.reader.dump_reader"
        nd = ctx.int("ndim")            # symbolic dimensionality: the dispatcher must hand it on unchanged, whatever it is
        ctx.assume(sv.or_(sv.cmp("==", nd, 2), sv.cmp("==", nd, 3)))
        o = ctx.obj(DR, "DumpReader", dict(filename="f.dump", ndim=nd, filetype=ctx.enum("PyMatterSim.reader.reader_utils", "DumpFileType", "LAMMPS"),
                                            moltypes=None, columnsids=None, snapshots=None))
        return [o], {}, {"o": o, "nd": nd}

    summaries = {f"{MOD}.read_lammps_wrapper": (lambda interp, args, kwargs: ("WRAPPER-CALLED", tuple(args), tuple(sorted(kwargs.items()))))}

    def clause_names(self, case):
        return ["lammps-type-is-read-by-read_lammps_wrapper(filename,ndim)"]

    def ensures(self, ctx, case, inp, out):
        snaps = inp["o"].content.get("snapshots")
        good = isinstance(snaps, tuple) and snaps and snaps[0] == "WRAPPER-CALLED"
        if good:
            # the summary receives the call normalised against read_lammps_wrapper's real signature (file_name, ndim):
            # both parameters in positional order; what the call site passed by keyword is repeated by name in kw
            args, kw = list(snaps[1]), dict(snaps[2])
            good = len(args) == 2 and args[0] == "f.dump" and set(kw) <= {"file_name", "ndim"} and kw.get("file_name", "f.dump") == "f.dump"
            if good:
                good = sv.and_(sv.cmp("==", args[1], inp["nd"]), sv.cmp("==", kw.get("ndim", inp["nd"]), inp["nd"]))
        yield "lammps-type-is-read-by-read_lammps_wrapper(filename,ndim)", (good if good is not True and good is not False and not isinstance(good, (tuple, list, str)) else bool(good))

    def replay(self, case, clause, model, seed):
        import importlib
        import os
        import shutil
        import tempfile
        D = importlib.import_module("PyMatterSim.reader.dump_reader")
        RUm = importlib.import_module("PyMatterSim.reader.reader_utils")
        tmp = tempfile.mkdtemp(prefix="pyvc-replay-")
        try:
            path = os.path.join(tmp, "a.dump")
            with open(path, "w") as f:
                f.write("ITEM: TIMESTEP\n7\nITEM: NUMBER OF ATOMS\n2\nITEM: BOX BOUNDS pp pp pp\n0 4\n0 4\n0 4\nITEM: ATOMS id type x y z\n2 1 1 1 1\n1 2 3 3 3\n")
            r = D.DumpReader(path, ndim=3, filetype=RUm.DumpFileType.LAMMPS)
            r.read_onefile()
            s = r.snapshots
            bad = s.nsnapshots != 1 or s.snapshots[0].timestep != 7 or list(s.snapshots[0].particle_type) != [2, 1] or s.snapshots[0].positions.shape != (2, 3)
            path2 = os.path.join(tmp, "b.dump")
            with open(path2, "w") as f:
                f.write("ITEM: TIMESTEP\n9\nITEM: NUMBER OF ATOMS\n2\nITEM: BOX BOUNDS pp pp pp\n0 4\n0 4\n-0.5 0.5\nITEM: ATOMS id type x y z\n2 1 1 1 0\n1 2 3 3 0\n")
            r2 = D.DumpReader(path2, ndim=2, filetype=RUm.DumpFileType.LAMMPS)
            r2.read_onefile()
            s2 = r2.snapshots
            bad = bad or s2.nsnapshots != 1 or s2.snapshots[0].timestep != 9 or s2.snapshots[0].positions.shape != (2, 2) or s2.snapshots[0].hmatrix.shape != (2, 2)
            return {"ran": True, "failed": bool(bad), "detail": "DumpReader(LAMMPS).read_onefile() on one-frame files, ndim = 3 and ndim = 2"}
        except Exception as e:
            return {"ran": True, "failed": True, "detail": f"raises {type(e).__name__}: {e}"}
        finally:
            shutil.rmtree(tmp, ignore_errors=True)


UNITS = [ReadLammps(), Wrapper(), Dispatch()]


MANIFEST = {
    "text": "read_lammps (real AST, re-read every run) on a symbolic dump frame in the LAMMPS ITEM: grammar (symbolic atom number, atom lines in "
            "any id order with arbitrary trailing columns, arbitrary bounds / tilts / coordinates; d in {2,3} x {orthogonal, triclinic} x "
            "{x, xs, xu}): timestep, nparticle, particle_type[id-1], positions[id-1, :], boxlength, boxbounds, realbounds and hmatrix equal "
            "the LAMMPS conventions (orthogonal L = hi-lo, H = diag L; triclinic bound->real conversion with min/max of the tilts, lower-"
            "triangular H; xu verbatim; wrapped x of orthogonal cells moved by -L/0/+L and inside [lo,hi] when the excursion is at most one "
            "box length; scaled coordinates mapped through the cell including its origin); the handle ends at the start of the next frame; "
            "None at end of file.  read_lammps_wrapper: with read_lammps's contract as callee contract and a written invariant for the "
            "`while True` loop (init/step/exit obligations), one snapshot per frame in file order and nsnapshots = number of frames for a "
            "symbolic number of frames.  DumpReader.read_onefile dispatches the LAMMPS type to read_lammps_wrapper(filename, ndim).",
    "note": "token/file model of pyvc/text.py assumed (a numeric token denotes a real number; readline/split/int/float/`in` on literal words); "
            "assumed contracts of np.where, np.diag, np.vstack, reshape; ids are a bijection onto 1..N (well-formed dump); floats as reals (A1)",
}
