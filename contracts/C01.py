"""C01 — LAMMPS dump reading preserves every frame's particles, coordinates and cell.

Functions under contract: reader.lammps_reader_helper.read_lammps (one frame from a symbolic file), read_lammps_wrapper
(frame loop), reader.dump_reader.DumpReader.read_onefile (dispatch).

Input model (DESIGN I.9): at the handle's position b the file holds a frame in the LAMMPS `ITEM:` grammar
   ITEM: TIMESTEP / <ts> / ITEM: NUMBER OF ATOMS / <N> / ITEM: BOX BOUNDS [xy xz yz] pp pp pp /
   3 bounds lines (`lo hi` or `lo_bound hi_bound tilt`; the z line is present in 2-D dumps too) /
   ITEM: ATOMS id type <x y [z] | xs ys [zs] | xu yu [zu]> <extra column names> / N atom lines `id type c_0 .. c_{d-1} extra…`
with ids a bijection onto 1..N (atom lines in any order), any number of trailing tokens per atom line, arbitrary numeric
content; or end of file.
Spec = the LAMMPS conventions (doc/Howto_triclinic, dump command):
   orthogonal: L = hi - lo, H = diag L;
   triclinic:  xlo = xlo_b - min(0,xy,xz,xy+xz), xhi = xhi_b - max(0,xy,xz,xy+xz), ylo = ylo_b - min(0,yz), yhi = yhi_b - max(0,yz),
               zlo = zlo_b, zhi = zhi_b; rows of H: (lx,0,0), (xy,ly,0), (xz,yz,lz), cut to d;
   positions by id:  xu -> raw;  x orthogonal -> raw + L if raw < lo, raw - L if raw > hi, raw otherwise (so inside [lo,hi] when
               the excursion is at most one box length);  x triclinic -> raw;
               xs orthogonal -> lo + s L;   xs triclinic -> (xlo,ylo,zlo) + s H.
"""
import z3

from pyvc import arr as A
from pyvc import sv
from pyvc.text import LineVal, Tok, TokList, new_rfile
from pyvc.vc import Unit

MOD = "PyMatterSim.reader.lammps_reader_helper"

NOT_DECIDED = [
    "character-level details of the grammar (column widths, exponent formats), behaviour on malformed files",
    "decimal -> binary conversion of the numbers in the file (A1: a token denotes a real number)",
]
TRUSTED = [
    "token/file model of pyvc/text.py (readline, split, int/float of tokens, numpy string->float on assignment, `in` on literal words)",
    "assumed contracts of np.where, np.diag, np.vstack, np.zeros, reshape; dataclass construction",
]

STYLE_WORDS = {"x": ["x", "y", "z"], "xs": ["xs", "ys", "zs"], "xu": ["xu", "yu", "zu"]}


def _frame_file(ctx, d, cell, style, eof=False):
    """symbolic file positioned at a frame start; returns (file, symbols)"""
    I, R = z3.IntSort(), z3.RealSort()
    b = ctx.int("b")
    ctx.assume(b >= 0)
    N = ctx.int("N")
    ctx.assume(N >= 1)
    TS = ctx.int("timestep")
    ID, IDINV, TYP = z3.Function("ID", I, I), z3.Function("IDINV", I, I), z3.Function("ATYPE", I, I)
    C = z3.Function("COORD", I, I, R)
    NX = z3.Function("NEXTRA", I, I)
    XT = z3.Function("XTRA", I, I, R)
    Nz = N.t
    ctx.array_fact("ID", lambda a: z3.Implies(z3.And(a >= 0, a < Nz), z3.And(ID(a) >= 1, ID(a) <= Nz, IDINV(ID(a)) == a)))
    ctx.array_fact("IDINV", lambda r: z3.Implies(z3.And(r >= 1, r <= Nz), z3.And(IDINV(r) >= 0, IDINV(r) < Nz, ID(IDINV(r)) == r)))
    ctx.array_fact("NEXTRA", lambda a: NX(a) >= 0)
    ctx.state.inverses["ID"] = lambda v: IDINV(v)
    lo = [ctx.real(f"lo_{k}") for k in range(3)]
    hi = [ctx.real(f"hi_{k}") for k in range(3)]
    tilt = [ctx.real(nm) for nm in ("xy", "xz", "yz")]
    words8 = ["ITEM:", "ATOMS", "id", "type"] + STYLE_WORDS[style][:d] + ["vx", "c_extra"]

    def line_fn(pos):
        off = A.simp(sv.sub(pos, b))
        if eof:
            return LineVal(None, eof=True)
        if sv.is_conc(off):
            off = int(off)
            if off == 0:
                return LineVal(TokList.of(["ITEM:", "TIMESTEP"]))
            if off == 1:
                return LineVal(TokList.of([Tok("int", TS)]))
            if off == 2:
                return LineVal(TokList.of(["ITEM:", "NUMBER", "OF", "ATOMS"]))
            if off == 3:
                return LineVal(TokList.of([Tok("int", N)]))
            if off == 4:
                return LineVal(TokList.of(["ITEM:", "BOX", "BOUNDS"] + (["xy", "xz", "yz"] if cell == "tri" else []) + ["pp", "pp", "pp"]))
            if 5 <= off <= 7:
                k = off - 5
                toks = [Tok("float", lo[k]), Tok("float", hi[k])] + ([Tok("float", tilt[k])] if cell == "tri" else [])
                return LineVal(TokList.of(toks))
            if off == 8:
                return LineVal(TokList.of(words8))
        a = A.simp(sv.sub(off, 9))
        az = sv.znum(a)

        def tok(c):
            if sv.is_conc(c):
                c = int(c)
                if c == 0:
                    return Tok("int", sv.SV(ID(az)))
                if c == 1:
                    return Tok("int", sv.SV(TYP(az)))
                if c < 2 + d:
                    return Tok("float", sv.SV(C(az, z3.IntVal(c - 2))))
                return Tok("float", sv.SV(XT(az, z3.IntVal(c - 2 - d))))
            return Tok("float", sv.SV(XT(az, sv.znum(A.simp(sv.sub(c, 2 + d))))))
        return LineVal(TokList(A.simp(sv.add(2 + d, sv.SV(NX(az)))), tok))
    f = new_rfile(b, line_fn)
    return f, dict(b=b, N=N, TS=TS, ID=ID, IDINV=IDINV, TYP=TYP, C=C, lo=lo, hi=hi, tilt=tilt, f=f)


def frame_spec(sym, d, cell, style):
    """the LAMMPS conventions as terms: dict with boxbounds, boxlength, realbounds (triclinic), hmatrix, pos(a,k)"""
    lo, hi = sym["lo"], sym["hi"]
    xy, xz, yz = sym["tilt"]
    C = sym["C"]
    raw = lambda a, k: sv.SV(C(sv.znum(a), z3.IntVal(k)))
    out = {}
    if cell == "orth":
        L = [sv.sub(hi[k], lo[k]) for k in range(d)]
        out["boxlength"] = L
        out["boxbounds"] = [[lo[k], hi[k]] for k in range(d)]
        out["realbounds"] = None
        out["hmatrix"] = [[L[a] if a == b else 0 for b in range(d)] for a in range(d)]
        if style == "xu":
            pos = raw
        elif style == "x":
            def pos(a, k):
                r = raw(a, k)
                return sv.ite(sv.cmp("<", r, lo[k]), sv.add(r, L[k]), sv.ite(sv.cmp(">", r, hi[k]), sv.sub(r, L[k]), r))
        else:
            pos = lambda a, k: sv.add(lo[k], sv.mul(raw(a, k), L[k]))
    else:
        mn = lambda *xs: _fold(sv.minv, xs)
        mx = lambda *xs: _fold(sv.maxv, xs)
        zero = sv.to_frac(0.0)
        xlo = sv.sub(lo[0], mn(zero, xy, xz, sv.add(xy, xz)))
        xhi = sv.sub(hi[0], mx(zero, xy, xz, sv.add(xy, xz)))
        ylo = sv.sub(lo[1], mn(zero, yz))
        yhi = sv.sub(hi[1], mx(zero, yz))
        zlo, zhi = lo[2], hi[2]
        rl = [xlo, ylo, zlo]
        rh = [xhi, yhi, zhi]
        Ls = [sv.sub(rh[k], rl[k]) for k in range(3)]
        H3 = [[Ls[0], 0, 0], [xy, Ls[1], 0], [xz, yz, Ls[2]]]
        out["boxlength"] = Ls[:d]
        out["boxbounds"] = [[lo[k], hi[k]] for k in range(d)]
        out["realbounds"] = [[rl[k], rh[k]] for k in range(d)]
        out["hmatrix"] = [[H3[a][b] for b in range(d)] for a in range(d)]
        if style in ("x", "xu"):
            pos = raw
        else:
            def pos(a, k):
                acc = rl[k]
                for c in range(d):          # (xlo,ylo,zlo) + sum_c s_c * (row c of H)
                    acc = sv.add(acc, sv.mul(raw(a, c), H3[c][k]))
                return acc
    out["pos"] = pos
    return out


def _fold(f, xs):
    acc = xs[0]
    for x in xs[1:]:
        acc = f(acc, x)
    return acc


class ReadLammps(Unit):
    module = MOD
    qualname = "read_lammps"
    prop = "C01"
    timeout = 20

    def cases(self):
        return [f"d={d}/{cell}/{style}" for d in (2, 3) for cell in ("orth", "tri") for style in ("x", "xs", "xu")] + ["d=3/eof", "d=2/eof"]

    def setup(self, ctx, case):
        parts = case.split("/")
        d = int(parts[0][2])
        if parts[1] == "eof":
            f, sym = _frame_file(ctx, d, "orth", "x", eof=True)
            return [f, d], {}, dict(sym, d=d, eof=True)
        cell, style = parts[1], parts[2]
        f, sym = _frame_file(ctx, d, cell, style)
        sym.update(d=d, cell=cell, style=style, eof=False, r=ctx.int("r"))
        return [f, d], {}, sym

    def clause_names(self, case):
        if case.endswith("eof"):
            return ["returns-None-at-end-of-file"]
        names = ["is-a-snapshot", "timestep", "nparticle", "particle_type-by-id", "positions-by-id", "boxlength", "boxbounds", "hmatrix",
                 "handle-advanced-to-next-frame", "shapes"]
        if "/tri/" in case:
            names.append("realbounds")
        if "/orth/x" in case and not case.endswith("xs") and not case.endswith("xu"):
            names.append("wrapped:inside-box-when-excursion-at-most-one-box-length")
        return names

    def ensures(self, ctx, case, inp, out):
        from pyvc.interp import Ref
        if inp["eof"]:
            yield "returns-None-at-end-of-file", out.value is None
            return
        d, cell, style, r, N = inp["d"], inp["cell"], inp["style"], inp["r"], inp["N"]
        snap = out.value
        ok = isinstance(snap, Ref) and snap.kind == "obj" and snap.cls is not None and snap.cls.name == "SingleSnapshot"
        yield "is-a-snapshot", bool(ok)
        if not ok:
            return
        c = snap.content
        spec = frame_spec(inp, d, cell, style)
        yield "timestep", sv.cmp("==", c["timestep"], inp["TS"])
        yield "nparticle", sv.cmp("==", c["nparticle"], N)
        pos, typ = c["positions"], c["particle_type"]
        shapes_ok = isinstance(pos, A.Arr) and pos.ndim == 2 and A.dim_eq_syntactic(pos.shape[1], d) and isinstance(typ, A.Arr) and typ.ndim == 1
        yield "shapes", sv.and_(bool(shapes_ok), sv.cmp("==", pos.shape[0], N) if shapes_ok else False, sv.cmp("==", typ.shape[0], N) if shapes_ok else False)
        if not shapes_ok:
            return
        inr = sv.and_(sv.cmp(">=", r, 0), sv.cmp("<", r, N))
        line = sv.SV(inp["IDINV"](sv.znum(sv.add(r, 1))))                   # the atom line carrying id r+1
        yield "particle_type-by-id", sv.implies(inr, sv.cmp("==", typ.get((r,)), sv.SV(inp["TYP"](line.t))))
        yield "positions-by-id", sv.implies(inr, sv.and_(*[sv.cmp("==", pos.get((r, k)), spec["pos"](line, k)) for k in range(d)]))

        def arr_eq(a, want):
            if not isinstance(a, A.Arr):
                return False
            if len(want) and isinstance(want[0], list):
                if a.shape != (len(want), len(want[0])):
                    return False
                return sv.and_(*[sv.cmp("==", a.get((i, j)), want[i][j]) for i in range(len(want)) for j in range(len(want[0]))])
            if a.shape != (len(want),):
                return False
            return sv.and_(*[sv.cmp("==", a.get((i,)), want[i]) for i in range(len(want))])
        yield "boxlength", arr_eq(c["boxlength"], spec["boxlength"])
        yield "boxbounds", arr_eq(c["boxbounds"], spec["boxbounds"])
        yield "hmatrix", arr_eq(c["hmatrix"], spec["hmatrix"])
        if cell == "tri":
            yield "realbounds", arr_eq(c["realbounds"], spec["realbounds"])
        fcell = out.state.heap[inp["f"].sid].data
        yield "handle-advanced-to-next-frame", sv.cmp("==", fcell["pos"], sv.add(sv.add(inp["b"], 9), N))
        if cell == "orth" and style == "x":
            lo, hi = inp["lo"], inp["hi"]
            conds = []
            for k in range(d):
                L = sv.sub(hi[k], lo[k])
                raw = sv.SV(inp["C"](line.t, z3.IntVal(k)))
                pre = sv.and_(sv.cmp(">", L, 0), sv.cmp(">=", raw, sv.sub(lo[k], L)), sv.cmp("<=", raw, sv.add(hi[k], L)))
                v = pos.get((r, k))
                post = sv.and_(sv.cmp(">=", v, lo[k]), sv.cmp("<=", v, hi[k]),
                               sv.or_(sv.cmp("==", v, raw), sv.cmp("==", v, sv.add(raw, L)), sv.cmp("==", v, sv.sub(raw, L))))
                conds.append(sv.implies(pre, post))
            yield "wrapped:inside-box-when-excursion-at-most-one-box-length", sv.implies(inr, sv.and_(*conds))

    def replay(self, case, clause, model, seed):
        return _replay_dump(case, seed)


def _replay_dump(case, seed, via="read_lammps"):
    """writes LAMMPS dumps for the case (d, cell, style; shuffled atom lines, extra columns, several frames, arbitrary origins, tilts
    of either sign) and compares what the real reader returns with the LAMMPS conventions"""
    import importlib
    import os
    import random
    import shutil
    import tempfile

    import numpy as np
    M = importlib.import_module(MOD)
    parts = case.split("/")
    d = int(parts[0][2])
    rng = random.Random(seed)
    tmp = tempfile.mkdtemp(prefix="pyvc-replay-")
    try:
        if parts[1] == "eof":
            path = os.path.join(tmp, "empty.dump")
            open(path, "w").close()
            with open(path) as f:
                got = M.read_lammps(f, d)
            return {"ran": True, "failed": got is not None, "detail": f"read_lammps at EOF returned {got!r}"}
        cell, style = parts[1], parts[2]
        for trial in range(25):
            F = rng.randint(1, 3)
            frames = []
            text = ""
            for s in range(F):
                N = rng.randint(1, 7)
                lo = [rng.uniform(-5, 5) for _ in range(3)]
                L = [rng.uniform(2, 6) for _ in range(3)]
                if cell == "tri":
                    xy, xz, yz = (rng.uniform(-1.5, 1.5) for _ in range(3))
                    if d == 2:
                        xz = yz = 0.0
                else:
                    xy = xz = yz = 0.0
                xlo, ylo, zlo = lo
                xhi, yhi, zhi = xlo + L[0], ylo + L[1], zlo + L[2]
                xlo_b = xlo + min(0.0, xy, xz, xy + xz)
                xhi_b = xhi + max(0.0, xy, xz, xy + xz)
                ylo_b = ylo + min(0.0, yz)
                yhi_b = yhi + max(0.0, yz)
                H = np.array([[L[0], 0, 0], [xy, L[1], 0], [xz, yz, L[2]]])
                ts = rng.randint(0, 10 ** 6)
                ids = list(range(1, N + 1))
                rng.shuffle(ids)
                types = {i: rng.randint(1, 4) for i in ids}
                frac = {i: [rng.uniform(0, 1) for _ in range(3)] for i in ids}
                cart = {i: (np.array([xlo, ylo, zlo]) + np.array(frac[i]) @ H) for i in ids}
                shift = {i: [rng.choice([-1, 0, 0, 1]) for _ in range(3)] for i in ids}
                text += f"ITEM: TIMESTEP\n{ts}\nITEM: NUMBER OF ATOMS\n{N}\n"
                if cell == "tri":
                    text += "ITEM: BOX BOUNDS xy xz yz pp pp pp\n"
                    text += f"{xlo_b!r} {xhi_b!r} {xy!r}\n{ylo_b!r} {yhi_b!r} {xz!r}\n{zlo!r} {zhi!r} {yz!r}\n"
                else:
                    text += "ITEM: BOX BOUNDS pp pp pp\n"
                    text += f"{xlo!r} {xhi!r}\n{ylo!r} {yhi!r}\n{zlo!r} {zhi!r}\n"
                text += "ITEM: ATOMS id type " + " ".join(STYLE_WORDS[style][:d]) + " vx\n"
                want_pos = {}
                for i in ids:
                    if style == "xs":
                        vals = frac[i][:d]
                        want_pos[i] = cart[i][:d] if cell == "tri" else np.array([lo[k] + frac[i][k] * L[k] for k in range(d)])
                        if cell == "tri" and d == 2:
                            want_pos[i] = np.array([xlo + frac[i][0] * L[0] + frac[i][1] * xy, ylo + frac[i][1] * L[1]])
                    elif style == "xu" or cell == "tri":
                        vals = [cart[i][k] + shift[i][k] * 7.5 for k in range(d)]
                        if cell == "tri" and d == 2:
                            vals = [xlo + frac[i][0] * L[0] + frac[i][1] * xy, ylo + frac[i][1] * L[1]]
                        want_pos[i] = np.array(vals)
                    else:   # wrapped style, orthogonal: excursions of at most one box length
                        base = [lo[k] + frac[i][k] * L[k] for k in range(d)]
                        vals = [base[k] + shift[i][k] * L[k] * rng.uniform(0.0, 0.999) if shift[i][k] else base[k] for k in range(d)]
                        w = []
                        for k in range(d):
                            v = vals[k]
                            if v < lo[k]:
                                v += L[k]
                            elif v > lo[k] + L[k]:
                                v -= L[k]
                            w.append(v)
                        want_pos[i] = np.array(w)
                    text += f"{i} {types[i]} " + " ".join(repr(float(v)) for v in vals) + f" {rng.uniform(-1, 1)!r}\n"
                if cell == "tri":
                    bl = np.array(L[:d])
                    bb = np.array([[xlo_b, xhi_b], [ylo_b, yhi_b], [zlo, zhi]])[:d]
                    rb = np.array([[xlo, xhi], [ylo, yhi], [zlo, zhi]])[:d]
                    hm = H[:d, :d]
                else:
                    bl = np.array(L[:d])
                    bb = np.array([[xlo, xhi], [ylo, yhi], [zlo, zhi]])[:d]
                    rb = None
                    hm = np.diag(L[:d])
                frames.append(dict(ts=ts, N=N, types=types, pos=want_pos, bl=bl, bb=bb, rb=rb, hm=hm))
            path = os.path.join(tmp, f"t{trial}.dump")
            with open(path, "w") as fh:
                fh.write(text)
            try:
                if via == "wrapper":
                    snaps = M.read_lammps_wrapper(path, d)
                    got_frames = list(snaps.snapshots)
                    if snaps.nsnapshots != F or len(got_frames) != F:
                        return {"ran": True, "failed": True, "detail": f"{F} frames in the file, reader reports {snaps.nsnapshots} / returns {len(got_frames)}", "inputs": {"text": text}}
                else:
                    got_frames = []
                    with open(path) as fh:
                        for s in range(F):
                            got_frames.append(M.read_lammps(fh, d))
                        tail = M.read_lammps(fh, d)
                    if tail is not None:
                        return {"ran": True, "failed": True, "detail": "a frame is returned after the last frame", "inputs": {"text": text}}
            except Exception as e:
                return {"ran": True, "failed": True, "detail": f"raises {type(e).__name__}: {e}", "inputs": {"text": text, "case": case}, "searched": trial + 1}
            for s, (g, w) in enumerate(zip(got_frames, frames)):
                bad = None
                if g is None:
                    bad = "frame missing (None)"
                elif g.timestep != w["ts"] or g.nparticle != w["N"]:
                    bad = f"timestep/nparticle {g.timestep}/{g.nparticle}, expected {w['ts']}/{w['N']}"
                else:
                    for i in range(1, w["N"] + 1):
                        if int(g.particle_type[i - 1]) != w["types"][i]:
                            bad = f"particle_type of id {i}: {g.particle_type[i-1]}, expected {w['types'][i]}"
                            break
                        if not np.allclose(g.positions[i - 1], w["pos"][i], rtol=1e-12, atol=1e-12):
                            bad = f"position of id {i}: {g.positions[i-1].tolist()}, expected {w['pos'][i].tolist()}"
                            break
                    if bad is None and not np.allclose(g.boxlength, w["bl"]):
                        bad = f"boxlength {np.asarray(g.boxlength).tolist()}, expected {w['bl'].tolist()}"
                    if bad is None and not np.allclose(g.boxbounds, w["bb"]):
                        bad = f"boxbounds {np.asarray(g.boxbounds).tolist()}, expected {w['bb'].tolist()}"
                    if bad is None and not np.allclose(g.hmatrix, w["hm"]):
                        bad = f"hmatrix {np.asarray(g.hmatrix).tolist()}, expected {w['hm'].tolist()}"
                    if bad is None and w["rb"] is not None and not np.allclose(g.realbounds, w["rb"]):
                        bad = f"realbounds {np.asarray(g.realbounds).tolist()}, expected {w['rb'].tolist()}"
                if bad:
                    return {"ran": True, "failed": True, "searched": trial + 1, "detail": f"frame {s}: {bad}", "inputs": {"case": case, "text": text}}
        return {"ran": True, "failed": False, "searched": 25}
    finally:
        shutil.rmtree(tmp, ignore_errors=True)


UNITS = [ReadLammps()]
