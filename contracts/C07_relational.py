"""C07 — BOUNDED relational stand-in (runs under /venv/bin/python on the REAL package).

For the observables whose invariance is not (yet) proved by relational symbolic execution (contracts/C07.py proves g(r) and the
neighbour writers; the rest follows on paper from the functional contracts of C04/C06/C08/C09/C11/C15/C17), this harness evaluates
the statement itself on seeded configurations in general position: observable(g . x) == g . observable(x) for the symmetry group
of the statement.  It is validation with a stated bound (sizes below), reported under `bounded`, never counted as proved; a failing
input is a genuine violation of C07 and is written to the replay file.

usage: C07_relational.py <repo> <seed> <outfile.json> [only-substring]
"""
import itertools
import json
import os
import shutil
import sys
import tempfile
import traceback

RTOL, ATOL = 1e-6, 1e-8
GAP = 1e-7          # general position: no compared quantity closer than this to a threshold (bin edge, cutoff, tie)


def main():
    repo, seed, outfile = sys.argv[1], int(sys.argv[2]), sys.argv[3]
    only = sys.argv[4] if len(sys.argv) > 4 else None
    sys.path.insert(0, repo)
    import logging
    logging.disable(logging.CRITICAL)
    import numpy as np
    import pandas as pd

    from PyMatterSim.reader.reader_utils import SingleSnapshot, Snapshots
    tmp = tempfile.mkdtemp(prefix="pyvc-c07rel.")
    rng = np.random.default_rng(1000 + seed)
    results = []

    # ------------------------------------------------------------------ configurations
    class Cfg:
        def __init__(self, pos, types, L, lo, ppp):
            self.pos, self.types, self.L, self.lo, self.ppp = pos, types, L, lo, ppp     # pos: (T, N, d)

        @property
        def d(self):
            return self.pos.shape[2]

        def snaps(self, step=10):
            T, N, d = self.pos.shape
            out = []
            for t in range(T):
                bb = np.column_stack([self.lo, self.lo + self.L])
                out.append(SingleSnapshot(timestep=t * step, nparticle=N, particle_type=self.types.copy(), positions=self.pos[t].copy(),
                                          boxlength=self.L.copy(), boxbounds=bb, realbounds=bb.copy(), hmatrix=np.diag(self.L)))
            return Snapshots(nsnapshots=T, snapshots=out)

    def make_cfg(d, N, T, periodic=True, ntypes=2):
        L = rng.uniform(5.0, 7.0, size=d)
        lo = rng.uniform(-3.0, 3.0, size=d)
        base = lo + rng.uniform(0.0, 1.0, size=(N, d)) * L
        pos = np.stack([base + 0.15 * t * rng.normal(size=(N, d)) for t in range(T)])
        if not periodic:
            pos = pos - pos.mean(axis=1, keepdims=True)       # open cluster around the origin
        types = (np.arange(N) % ntypes + 1).astype(np.int32)
        rng.shuffle(types)
        return Cfg(pos, types, L, lo, np.ones(d, dtype=int) if periodic else np.zeros(d, dtype=int))

    # ------------------------------------------------------------------ group elements: g(cfg) -> (cfg', perm or None, scale)
    def g_translate(c):
        t = rng.uniform(-2.0, 2.0, size=c.d)
        return Cfg(c.pos + t, c.types, c.L, c.lo, c.ppp), None, 1.0

    def g_lattice(c):
        T, N, d = c.pos.shape
        n = rng.integers(-2, 3, size=(N, d))
        return Cfg(c.pos + (n * c.L)[None, :, :], c.types, c.L, c.lo, c.ppp), None, 1.0

    def g_relabel(c):
        perm = rng.permutation(c.pos.shape[1])            # new particle a is old particle perm[a]
        return Cfg(c.pos[:, perm, :], c.types[perm], c.L, c.lo, c.ppp), perm, 1.0

    def g_axes(c):
        ax = np.roll(np.arange(c.d), 1) if c.d == 3 else np.array([1, 0])
        return Cfg(c.pos[:, :, ax], c.types, c.L[ax], c.lo[ax], c.ppp[ax]), None, 1.0

    def g_rotate(c):
        d = c.d
        q, r = np.linalg.qr(rng.normal(size=(d, d)))
        q = q * np.sign(np.diag(r))
        if np.linalg.det(q) < 0:
            q[:, 0] = -q[:, 0]
        return Cfg(c.pos @ q.T, c.types, c.L, c.lo, c.ppp), None, 1.0

    def g_dilate(c):
        s = float(rng.uniform(0.6, 1.7))
        return Cfg(c.pos * s, c.types, c.L * s, c.lo * s, c.ppp), None, s

    # ------------------------------------------------------------------ helpers
    def minimg(c, t):
        r = c.pos[t][None, :, :] - c.pos[t][:, None, :]
        if c.ppp.any():
            r = r - c.L * np.rint(r / c.L) * c.ppp
        return np.sqrt((r ** 2).sum(-1))

    def far_from(values, thresholds):
        values = np.asarray(values, dtype=float).ravel()
        for th in np.atleast_1d(thresholds):
            if values.size and np.abs(values - th).min() < GAP:
                return False
        return True

    def close(a, b, spectrum=False):
        a, b = np.asarray(a, dtype=float), np.asarray(b, dtype=float)
        if a.shape != b.shape:
            return False, f"shapes {a.shape} vs {b.shape}"
        # a spectrum is compared on the scale of its largest eigenvalue (the zero modes and small eigenvalues of an
        # ill-conditioned matrix carry absolute errors of that scale times machine precision)
        atol = ATOL if not spectrum else 1e-9 * max(1.0, float(np.nanmax(np.abs(a))))
        ok = np.isclose(a, b, rtol=RTOL, atol=atol, equal_nan=True)
        if ok.all():
            return True, ""
        k = np.argwhere(~ok)[0]
        return False, f"entry {k.tolist()}: {a[tuple(k)]!r} vs {b[tuple(k)]!r} (max |diff| {np.nanmax(np.abs(a - b)):.3g})"

    def record(name, group, ok, detail, inputs):
        results.append({"observable": name, "group": group, "failed": not ok, "detail": detail, "inputs": inputs})

    def describe(c):
        return {"d": int(c.d), "N": int(c.pos.shape[1]), "T": int(c.pos.shape[0]), "L": c.L.tolist(), "lo": c.lo.tolist(), "ppp": c.ppp.tolist(),
                "types": c.types.tolist(), "positions[0][:3]": c.pos[0][:3].tolist()}

    def neighbour_file(c, kind, tag):
        from PyMatterSim.neighbors.calculate_neighbors import Nnearests, cutoffneighbors
        fn = os.path.join(tmp, tag + ".dat")
        if kind == "N":
            Nnearests(c.snaps(), N=6 if c.d == 2 else 8, ppp=c.ppp, fnfile=fn)
        else:
            cutoffneighbors(c.snaps(), r_cut=kind, ppp=c.ppp, fnfile=fn)
        return fn

    def read_sets(fn, T, N):
        out = []
        with open(fn) as f:
            lines = f.read().split("\n")
        k = 0
        for t in range(T):
            k += 1
            rows = {}
            for _ in range(N):
                w = lines[k].split()
                k += 1
                rows[int(w[0]) - 1] = sorted(int(x) - 1 for x in w[2:2 + int(w[1])])
            out.append(rows)
        return out

    def nn_general_position(c, k):
        for t in range(c.pos.shape[0]):
            dm = np.sort(minimg(c, t), axis=1)
            if (dm[:, k + 1] - dm[:, k]).min() < 1e-6:
                return False
        return True

    # ------------------------------------------------------------------ observables: f(cfg) -> (kind, value) ; kind in {"global","particle"}
    def obs_gr(c, rdelta=0.25):
        from PyMatterSim.static.gr import gr
        return "global", gr(c.snaps(), ppp=c.ppp, rdelta=rdelta).getresults().values

    def pre_gr(c, rdelta=0.25):
        edges = np.arange(0, int(c.L.min() / 2 / rdelta) + 1) * rdelta
        return all(far_from(minimg(c, t)[np.triu_indices(c.pos.shape[1], 1)], edges) for t in range(c.pos.shape[0]))

    def obs_sq(c):
        from PyMatterSim.static.sq import sq
        return "global", sq(c.snaps(), qrange=4.0, onlypositive=False).getresults().values

    def obs_nn(c):
        fn = neighbour_file(c, "N", f"nn{len(results)}_{rng.integers(1 << 30)}")
        return "sets", read_sets(fn, c.pos.shape[0], c.pos.shape[1])

    def obs_boo3(c, l=6):
        from PyMatterSim.static.boo import boo_3d
        fn = neighbour_file(c, "N", f"b3{len(results)}_{rng.integers(1 << 30)}")
        b = boo_3d(c.snaps(), l=l, neighborfile=fn, ppp=c.ppp, Nmax=30)
        ql = b.ql_Ql(coarse_graining=False)
        Ql = b.ql_Ql(coarse_graining=True)
        w = b.w_W_cap(coarse_graining=False)
        return "particle", np.stack([np.asarray(ql), np.asarray(Ql), np.asarray(w[0]), np.asarray(w[1])], axis=-1)

    def obs_boo2(c, l=6):
        from PyMatterSim.static.boo import boo_2d
        fn = neighbour_file(c, "N", f"b2{len(results)}_{rng.integers(1 << 30)}")
        b = boo_2d(c.snaps(), l=l, neighborfile=fn, ppp=c.ppp, Nmax=30)
        return "particle", np.abs(b.lthorder())

    def obs_q8(c):
        from PyMatterSim.static.geometric import q8_tetrahedral
        return "particle", q8_tetrahedral(c.snaps(), ppp=c.ppp)

    def obs_s2(c):
        from PyMatterSim.static.pairentropy import S2
        K = int(c.types.max())
        s = S2(c.snaps(), sigmas=np.full((K, K), 0.3), ppp=c.ppp, rdelta=0.05, ndelta=40)
        return "particle", s.particle_s2()

    def obs_hessian(c):
        from PyMatterSim.static.hessians import HessianMatrix, InteractionParams, ModelName
        K = int(c.types.max())
        masses = {k + 1: 1.0 + 1.3 * k for k in range(K)}
        eps = np.array([[1.0 + 0.2 * (a + b) for b in range(K)] for a in range(K)])
        sig = np.array([[1.0 + 0.1 * (a + b) for b in range(K)] for a in range(K)])
        rc = 1.5 * sig
        snap = c.snaps().snapshots[0]
        h = HessianMatrix(snapshot=snap, masses=masses, epsilons=eps, sigmas=sig, r_cuts=rc, ppp=c.ppp, shiftpotential=True)
        pref = os.path.join(tmp, f"h{len(results)}_{rng.integers(1 << 30)}")
        h.diagonalize_hessian(interaction_params=InteractionParams(model_name=ModelName.inverse_power_law, ipl_n=10, ipl_A=1.0),
                              saveevecs=False, savehessian=False, outputfile=pref)
        om = pd.read_csv(pref + ".omega_PR.csv")["omega"].values
        return "global", np.sort(np.where(om > 0, om ** 2, om))

    def pre_hessian(c):
        K = int(c.types.max())
        sig = np.array([[1.0 + 0.1 * (a + b) for b in range(K)] for a in range(K)])
        dm = minimg(c, 0)
        iu = np.triu_indices(c.pos.shape[1], 1)
        rc = (1.5 * sig)[c.types[iu[0]] - 1, c.types[iu[1]] - 1]
        return np.abs(dm[iu] - rc).min() > 1e-6 and dm[iu].min() > 0.3

    def obs_relax(c):
        from PyMatterSim.dynamic.dynamics import Dynamics
        K = int(c.types.max())
        dyn = Dynamics(xu_snapshots=c.snaps(), x_snapshots=None, dt=0.002, ppp=c.ppp, diameters={k + 1: 1.0 for k in range(K)}, a=0.3, cal_type="slow")
        return "global", dyn.relaxation(qconst=2 * np.pi, condition=None).values

    def pre_relax(c):
        T = c.pos.shape[0]
        for a, b in itertools.combinations(range(T), 2):
            dr = np.sqrt(((c.pos[b] - c.pos[a]) ** 2).sum(-1))
            if not far_from(dr, [0.3]):
                return False
        return True

    def obs_gyration(c):
        from PyMatterSim.static.shape import gyration_tensor
        return "global", np.array([float(x) for x in gyration_tensor(c.pos[0].copy())])

    def obs_pr(c):
        from PyMatterSim.static.vector import participation_ratio
        v = c.pos[0] - c.pos[0].mean(0)
        return "global", np.array([participation_ratio(v.copy())])

    # ------------------------------------------------------------------ the relation: observable(g x) vs g observable(x)
    def compare(name, obs, c, gname, g, pre=None):
        for attempt in range(6):
            c2, perm, scale = g(c)
            if pre is None or (pre(c) and pre(c2)):
                break
            c = make_like(c)
        else:
            return
        try:
            k1, v1 = obs(c)
            k2, v2 = obs(c2)
        except Exception as e:
            record(name, gname, False, f"raises {type(e).__name__}: {e}", describe(c))
            return
        if k1 == "sets":
            ok, det = True, ""
            for t in range(len(v1)):
                for a in range(len(v1[t])):
                    old = a if perm is None else int(perm[a])
                    want = sorted(v1[t][old]) if perm is None else sorted(int(np.where(perm == j)[0][0]) for j in v1[t][old])
                    if v2[t][a] != want:
                        ok, det = False, f"frame {t}, particle {a}: neighbours {v2[t][a]} vs {want}"
                        break
                if not ok:
                    break
        else:
            a1 = np.asarray(v1, dtype=float)
            if k1 == "particle" and perm is not None:
                a1 = a1[:, perm] if a1.ndim >= 2 else a1[perm]
            ok, det = close(np.asarray(v2, dtype=float), a1, spectrum=name.startswith("Hessian"))
        record(name, gname, ok, det, describe(c) if not ok else None)

    def make_like(c):
        return make_cfg(c.d, c.pos.shape[1], c.pos.shape[0], periodic=bool(c.ppp.any()), ntypes=int(c.types.max()))

    PERIODIC = [("translation", g_translate), ("lattice-shift", g_lattice), ("relabelling", g_relabel), ("axis-permutation", g_axes)]
    plan = []
    for d in (2, 3):
        c = make_cfg(d, 22 if d == 3 else 18, 2, periodic=True)
        for gname, g in PERIODIC:
            plan.append((f"g(r)[d={d}]", lambda cc: obs_gr(cc), c, gname, g, pre_gr))
            plan.append((f"S(q)[d={d}]", obs_sq, c, gname, g, None))
            plan.append((f"N-nearest-neighbour-sets[d={d}]", obs_nn, c, gname, g, lambda cc, d=d: nn_general_position(cc, 6 if d == 2 else 8)))
            plan.append((f"Hessian-spectrum[d={d}]", obs_hessian, c, gname, g, pre_hessian))
            plan.append((f"relaxation-functions[d={d}]", obs_relax, c, gname, g, pre_relax))
        plan.append((f"g(r)-dilation[d={d}]", None, c, "dilation", g_dilate, None))
    c3 = make_cfg(3, 22, 2, periodic=True)
    for gname, g in PERIODIC:
        plan.append(("q_l,Q_l,w_l,w-hat_l[l=6]", obs_boo3, c3, gname, g, lambda cc: nn_general_position(cc, 8)))
        plan.append(("tetrahedral-order", obs_q8, c3, gname, g, lambda cc: nn_general_position(cc, 4)))
        plan.append(("pair-entropy-S2", obs_s2, c3, gname, g, None))
    c2 = make_cfg(2, 18, 2, periodic=True)
    for gname, g in PERIODIC:
        plan.append(("|psi_6|", obs_boo2, c2, gname, g, lambda cc: nn_general_position(cc, 6)))
    o3, o2 = make_cfg(3, 20, 1, periodic=False), make_cfg(2, 16, 1, periodic=False)
    for gname, g in (("rotation", g_rotate), ("translation", g_translate), ("relabelling", g_relabel)):
        plan.append(("open-cluster:q_l,Q_l,w_l,w-hat_l[l=6]", obs_boo3, o3, gname, g, lambda cc: nn_general_position(cc, 8)))
        plan.append(("open-cluster:q_l,..[l=8]", lambda cc: obs_boo3(cc, 8), o3, gname, g, lambda cc: nn_general_position(cc, 8)))
        plan.append(("open-cluster:tetrahedral-order", obs_q8, o3, gname, g, lambda cc: nn_general_position(cc, 4)))
        plan.append(("open-cluster:|psi_6|", obs_boo2, o2, gname, g, lambda cc: nn_general_position(cc, 6)))
        plan.append(("open-cluster:shape-descriptors[d=3]", obs_gyration, o3, gname, g, None))
        plan.append(("open-cluster:shape-descriptors[d=2]", obs_gyration, o2, gname, g, None))
    plan.append(("open-cluster:participation-ratio", obs_pr, o3, "rotation", g_rotate, None))
    try:
        for name, obs, c, gname, g, pre in plan:
            if only and only not in name and only not in gname:
                continue
            if gname == "dilation":
                # g(r) values unchanged when coordinates, box and bin width are dilated together
                for attempt in range(6):
                    c2, _, s = g(c)
                    if pre_gr(c) and pre_gr(c2, 0.25 * s):
                        break
                    c = make_like(c)
                else:
                    continue
                try:
                    v1 = obs_gr(c)[1]
                    v2 = obs_gr(c2, 0.25 * s)[1]
                    ok, det = close(v2[:, 1:], v1[:, 1:])
                except Exception as e:
                    ok, det = False, f"raises {type(e).__name__}: {e}"
                record(name, gname, ok, det, describe(c) if not ok else None)
                continue
            compare(name, obs, c, gname, g, pre)
    except Exception:
        results.append({"observable": "harness", "group": "-", "failed": False, "error": traceback.format_exc()[-1500:]})
    finally:
        shutil.rmtree(tmp, ignore_errors=True)
    with open(outfile, "w") as f:
        json.dump({"relations_checked": len(results), "failed": [r for r in results if r.get("failed")],
                   "errors": [r for r in results if r.get("error")],
                   "checked": sorted({f"{r['observable']} / {r['group']}" for r in results}),
                   "bound": "seeded configurations: N = 16..22 particles, T = 1..2 frames, d = 2,3, two species, orthogonal box with random origin; "
                            "general position enforced (no distance within 1e-7 of a bin edge / cutoff, neighbour gaps > 1e-6); rtol 1e-6"}, f, indent=1)


if __name__ == "__main__":
    main()
