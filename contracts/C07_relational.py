"""C07 — BOUNDED relational stand-in (runs under /venv/bin/python on the REAL package).

For the observables whose invariance is not (yet) proved by relational symbolic execution (contracts/C07.py proves g(r) and the
neighbour writers; the rest follows on paper from the functional contracts of C04/C06/C08/C09/C11/C15/C17), this harness evaluates
the statement itself on seeded configurations in general position: observable(g . x) == g . observable(x) for the symmetry group
of the statement.  It is validation with a stated bound (sizes below), reported under `bounded`, never counted as proved; a failing
input is a genuine violation of C07 and is written to the replay file.

usage: C07_relational.py <repo> <seed> <outfile.json> [only-substring]
"""
import itertools
import json
import os
import shutil
import sys
import tempfile
import traceback

RTOL, ATOL = 1e-6, 1e-8
GAP = 1e-7          # general position: no compared quantity closer than this to a threshold (bin edge, cutoff, tie)


def main():
    repo, seed, outfile = sys.argv[1], int(sys.argv[2]), sys.argv[3]
    only = sys.argv[4] if len(sys.argv) > 4 else None
    if only and only.startswith("unit:"):
        return unit_mode(repo, seed, outfile, only[5:], sys.argv[5] if len(sys.argv) > 5 else "")
    sys.path.insert(0, repo)
    import logging
    logging.disable(logging.CRITICAL)
    import numpy as np
    import pandas as pd

    from PyMatterSim.reader.reader_utils import SingleSnapshot, Snapshots
    tmp = tempfile.mkdtemp(prefix="pyvc-c07rel.")
    rng = np.random.default_rng(1000 + seed)
    results = []

    # ------------------------------------------------------------------ configurations
    class Cfg:
        def __init__(self, pos, types, L, lo, ppp):
            self.pos, self.types, self.L, self.lo, self.ppp = pos, types, L, lo, ppp     # pos: (T, N, d)

        @property
        def d(self):
            return self.pos.shape[2]

        def snaps(self, step=10):
            T, N, d = self.pos.shape
            out = []
            for t in range(T):
                bb = np.column_stack([self.lo, self.lo + self.L])
                out.append(SingleSnapshot(timestep=t * step, nparticle=N, particle_type=self.types.copy(), positions=self.pos[t].copy(),
                                          boxlength=self.L.copy(), boxbounds=bb, realbounds=bb.copy(), hmatrix=np.diag(self.L)))
            return Snapshots(nsnapshots=T, snapshots=out)

    def make_cfg(d, N, T, periodic=True, ntypes=2):
        L = rng.uniform(5.0, 7.0, size=d)
        lo = rng.uniform(-3.0, 3.0, size=d)
        base = lo + rng.uniform(0.0, 1.0, size=(N, d)) * L
        pos = np.stack([base + 0.15 * t * rng.normal(size=(N, d)) for t in range(T)])
        if not periodic:
            pos = pos - pos.mean(axis=1, keepdims=True)       # open cluster around the origin
        types = (np.arange(N) % ntypes + 1).astype(np.int32)
        rng.shuffle(types)
        return Cfg(pos, types, L, lo, np.ones(d, dtype=int) if periodic else np.zeros(d, dtype=int))

    # ------------------------------------------------------------------ group elements: g(cfg) -> (cfg', perm or None, scale)
    def g_translate(c):
        t = rng.uniform(-2.0, 2.0, size=c.d)
        return Cfg(c.pos + t, c.types, c.L, c.lo, c.ppp), None, 1.0

    def g_lattice(c):
        T, N, d = c.pos.shape
        n = rng.integers(-2, 3, size=(N, d))
        return Cfg(c.pos + (n * c.L)[None, :, :], c.types, c.L, c.lo, c.ppp), None, 1.0

    def g_relabel(c):
        perm = rng.permutation(c.pos.shape[1])            # new particle a is old particle perm[a]
        return Cfg(c.pos[:, perm, :], c.types[perm], c.L, c.lo, c.ppp), perm, 1.0

    def g_axes(c):
        ax = np.roll(np.arange(c.d), 1) if c.d == 3 else np.array([1, 0])
        return Cfg(c.pos[:, :, ax], c.types, c.L[ax], c.lo[ax], c.ppp[ax]), None, 1.0

    def g_rotate(c):
        d = c.d
        q, r = np.linalg.qr(rng.normal(size=(d, d)))
        q = q * np.sign(np.diag(r))
        if np.linalg.det(q) < 0:
            q[:, 0] = -q[:, 0]
        return Cfg(c.pos @ q.T, c.types, c.L, c.lo, c.ppp), None, 1.0

    def g_dilate(c):
        s = float(rng.uniform(0.6, 1.7))
        return Cfg(c.pos * s, c.types, c.L * s, c.lo * s, c.ppp), None, s

    # ------------------------------------------------------------------ helpers
    def minimg(c, t):
        r = c.pos[t][None, :, :] - c.pos[t][:, None, :]
        if c.ppp.any():
            r = r - c.L * np.rint(r / c.L) * c.ppp
        return np.sqrt((r ** 2).sum(-1))

    def far_from(values, thresholds):
        values = np.asarray(values, dtype=float).ravel()
        for th in np.atleast_1d(thresholds):
            if values.size and np.abs(values - th).min() < GAP:
                return False
        return True

    def close(a, b, spectrum=False):
        a, b = np.asarray(a, dtype=float), np.asarray(b, dtype=float)
        if a.shape != b.shape:
            return False, f"shapes {a.shape} vs {b.shape}"
        # a spectrum is compared on the scale of its largest eigenvalue (the zero modes and small eigenvalues of an
        # ill-conditioned matrix carry absolute errors of that scale times machine precision)
        atol = ATOL if not spectrum else 1e-9 * max(1.0, float(np.nanmax(np.abs(a))))
        ok = np.isclose(a, b, rtol=RTOL, atol=atol, equal_nan=True)
        if ok.all():
            return True, ""
        k = np.argwhere(~ok)[0]
        return False, f"entry {k.tolist()}: {a[tuple(k)]!r} vs {b[tuple(k)]!r} (max |diff| {np.nanmax(np.abs(a - b)):.3g})"

    def record(name, group, ok, detail, inputs):
        results.append({"observable": name, "group": group, "failed": not ok, "detail": detail, "inputs": inputs})

    def describe(c):
        return {"d": int(c.d), "N": int(c.pos.shape[1]), "T": int(c.pos.shape[0]), "L": c.L.tolist(), "lo": c.lo.tolist(), "ppp": c.ppp.tolist(),
                "types": c.types.tolist(), "positions[0][:3]": c.pos[0][:3].tolist()}

    def neighbour_file(c, kind, tag):
        from PyMatterSim.neighbors.calculate_neighbors import Nnearests, cutoffneighbors
        fn = os.path.join(tmp, tag + ".dat")
        if kind == "N":
            Nnearests(c.snaps(), N=6 if c.d == 2 else 8, ppp=c.ppp, fnfile=fn)
        else:
            cutoffneighbors(c.snaps(), r_cut=kind, ppp=c.ppp, fnfile=fn)
        return fn

    def read_sets(fn, T, N):
        out = []
        with open(fn) as f:
            lines = f.read().split("\n")
        k = 0
        for t in range(T):
            k += 1
            rows = {}
            for _ in range(N):
                w = lines[k].split()
                k += 1
                rows[int(w[0]) - 1] = sorted(int(x) - 1 for x in w[2:2 + int(w[1])])
            out.append(rows)
        return out

    def nn_general_position(c, k):
        for t in range(c.pos.shape[0]):
            dm = np.sort(minimg(c, t), axis=1)
            if (dm[:, k + 1] - dm[:, k]).min() < 1e-6:
                return False
        return True

    # ------------------------------------------------------------------ observables: f(cfg) -> (kind, value) ; kind in {"global","particle"}
    def obs_gr(c, rdelta=0.25):
        from PyMatterSim.static.gr import gr
        return "global", gr(c.snaps(), ppp=c.ppp, rdelta=rdelta).getresults().values

    def pre_gr(c, rdelta=0.25):
        edges = np.arange(0, int(c.L.min() / 2 / rdelta) + 1) * rdelta
        return all(far_from(minimg(c, t)[np.triu_indices(c.pos.shape[1], 1)], edges) for t in range(c.pos.shape[0]))

    def obs_sq(c):
        from PyMatterSim.static.sq import sq
        return "global", sq(c.snaps(), qrange=4.0, onlypositive=False).getresults().values

    def obs_nn(c):
        fn = neighbour_file(c, "N", f"nn{len(results)}_{rng.integers(1 << 30)}")
        return "sets", read_sets(fn, c.pos.shape[0], c.pos.shape[1])

    def obs_boo3(c, l=6):
        from PyMatterSim.static.boo import boo_3d
        fn = neighbour_file(c, "N", f"b3{len(results)}_{rng.integers(1 << 30)}")
        b = boo_3d(c.snaps(), l=l, neighborfile=fn, ppp=c.ppp, Nmax=30)
        ql = b.ql_Ql(coarse_graining=False)
        Ql = b.ql_Ql(coarse_graining=True)
        w = b.w_W_cap(coarse_graining=False)
        return "particle", np.stack([np.asarray(ql), np.asarray(Ql), np.asarray(w[0]), np.asarray(w[1])], axis=-1)

    def obs_boo2(c, l=6):
        from PyMatterSim.static.boo import boo_2d
        fn = neighbour_file(c, "N", f"b2{len(results)}_{rng.integers(1 << 30)}")
        b = boo_2d(c.snaps(), l=l, neighborfile=fn, ppp=c.ppp, Nmax=30)
        return "particle", np.abs(b.lthorder())

    def obs_q8(c):
        from PyMatterSim.static.geometric import q8_tetrahedral
        return "particle", q8_tetrahedral(c.snaps(), ppp=c.ppp)

    def obs_s2(c):
        from PyMatterSim.static.pairentropy import S2
        K = int(c.types.max())
        s = S2(c.snaps(), sigmas=np.full((K, K), 0.3), ppp=c.ppp, rdelta=0.05, ndelta=40)
        return "particle", s.particle_s2()

    def obs_hessian(c):
        from PyMatterSim.static.hessians import HessianMatrix, InteractionParams, ModelName
        K = int(c.types.max())
        masses = {k + 1: 1.0 + 1.3 * k for k in range(K)}
        eps = np.array([[1.0 + 0.2 * (a + b) for b in range(K)] for a in range(K)])
        sig = np.array([[1.0 + 0.1 * (a + b) for b in range(K)] for a in range(K)])
        rc = 1.5 * sig
        snap = c.snaps().snapshots[0]
        h = HessianMatrix(snapshot=snap, masses=masses, epsilons=eps, sigmas=sig, r_cuts=rc, ppp=c.ppp, shiftpotential=True)
        pref = os.path.join(tmp, f"h{len(results)}_{rng.integers(1 << 30)}")
        h.diagonalize_hessian(interaction_params=InteractionParams(model_name=ModelName.inverse_power_law, ipl_n=10, ipl_A=1.0),
                              saveevecs=False, savehessian=False, outputfile=pref)
        om = pd.read_csv(pref + ".omega_PR.csv")["omega"].values
        return "global", np.sort(np.where(om > 0, om ** 2, om))

    def pre_hessian(c):
        K = int(c.types.max())
        sig = np.array([[1.0 + 0.1 * (a + b) for b in range(K)] for a in range(K)])
        dm = minimg(c, 0)
        iu = np.triu_indices(c.pos.shape[1], 1)
        rc = (1.5 * sig)[c.types[iu[0]] - 1, c.types[iu[1]] - 1]
        return np.abs(dm[iu] - rc).min() > 1e-6 and dm[iu].min() > 0.3

    def obs_relax(c):
        from PyMatterSim.dynamic.dynamics import Dynamics
        K = int(c.types.max())
        dyn = Dynamics(xu_snapshots=c.snaps(), x_snapshots=None, dt=0.002, ppp=c.ppp, diameters={k + 1: 1.0 for k in range(K)}, a=0.3, cal_type="slow")
        return "global", dyn.relaxation(qconst=2 * np.pi, condition=None).values

    def pre_relax(c):
        T = c.pos.shape[0]
        for a, b in itertools.combinations(range(T), 2):
            dr = np.sqrt(((c.pos[b] - c.pos[a]) ** 2).sum(-1))
            if not far_from(dr, [0.3]):
                return False
        return True

    def obs_gyration(c):
        from PyMatterSim.static.shape import gyration_tensor
        return "global", np.array([float(x) for x in gyration_tensor(c.pos[0].copy())])

    def obs_pr(c):
        from PyMatterSim.static.vector import participation_ratio
        v = c.pos[0] - c.pos[0].mean(0)
        return "global", np.array([participation_ratio(v.copy())])

    # ------------------------------------------------------------------ the relation: observable(g x) vs g observable(x)
    def compare(name, obs, c, gname, g, pre=None):
        for attempt in range(6):
            c2, perm, scale = g(c)
            if pre is None or (pre(c) and pre(c2)):
                break
            c = make_like(c)
        else:
            return
        try:
            k1, v1 = obs(c)
            k2, v2 = obs(c2)
        except Exception as e:
            record(name, gname, False, f"raises {type(e).__name__}: {e}", describe(c))
            return
        if k1 == "sets":
            ok, det = True, ""
            for t in range(len(v1)):
                for a in range(len(v1[t])):
                    old = a if perm is None else int(perm[a])
                    want = sorted(v1[t][old]) if perm is None else sorted(int(np.where(perm == j)[0][0]) for j in v1[t][old])
                    if v2[t][a] != want:
                        ok, det = False, f"frame {t}, particle {a}: neighbours {v2[t][a]} vs {want}"
                        break
                if not ok:
                    break
        else:
            a1 = np.asarray(v1, dtype=float)
            if k1 == "particle" and perm is not None:
                a1 = a1[:, perm] if a1.ndim >= 2 else a1[perm]
            ok, det = close(np.asarray(v2, dtype=float), a1, spectrum=name.startswith("Hessian"))
        record(name, gname, ok, det, describe(c) if not ok else None)

    def make_like(c):
        return make_cfg(c.d, c.pos.shape[1], c.pos.shape[0], periodic=bool(c.ppp.any()), ntypes=int(c.types.max()))

    PERIODIC = [("translation", g_translate), ("lattice-shift", g_lattice), ("relabelling", g_relabel), ("axis-permutation", g_axes)]
    plan = []
    for d in (2, 3):
        c = make_cfg(d, 22 if d == 3 else 18, 2, periodic=True)
        for gname, g in PERIODIC:
            plan.append((f"g(r)[d={d}]", lambda cc: obs_gr(cc), c, gname, g, pre_gr))
            plan.append((f"S(q)[d={d}]", obs_sq, c, gname, g, None))
            plan.append((f"N-nearest-neighbour-sets[d={d}]", obs_nn, c, gname, g, lambda cc, d=d: nn_general_position(cc, 6 if d == 2 else 8)))
            plan.append((f"Hessian-spectrum[d={d}]", obs_hessian, c, gname, g, pre_hessian))
            plan.append((f"relaxation-functions[d={d}]", obs_relax, c, gname, g, pre_relax))
        plan.append((f"g(r)-dilation[d={d}]", None, c, "dilation", g_dilate, None))
    c3 = make_cfg(3, 22, 2, periodic=True)
    for gname, g in PERIODIC:
        plan.append(("q_l,Q_l,w_l,w-hat_l[l=6]", obs_boo3, c3, gname, g, lambda cc: nn_general_position(cc, 8)))
        plan.append(("tetrahedral-order", obs_q8, c3, gname, g, lambda cc: nn_general_position(cc, 4)))
        plan.append(("pair-entropy-S2", obs_s2, c3, gname, g, None))
    c2 = make_cfg(2, 18, 2, periodic=True)
    for gname, g in PERIODIC:
        plan.append(("|psi_6|", obs_boo2, c2, gname, g, lambda cc: nn_general_position(cc, 6)))
    o3, o2 = make_cfg(3, 20, 1, periodic=False), make_cfg(2, 16, 1, periodic=False)
    for gname, g in (("rotation", g_rotate), ("translation", g_translate), ("relabelling", g_relabel)):
        plan.append(("open-cluster:q_l,Q_l,w_l,w-hat_l[l=6]", obs_boo3, o3, gname, g, lambda cc: nn_general_position(cc, 8)))
        plan.append(("open-cluster:q_l,..[l=8]", lambda cc: obs_boo3(cc, 8), o3, gname, g, lambda cc: nn_general_position(cc, 8)))
        plan.append(("open-cluster:tetrahedral-order", obs_q8, o3, gname, g, lambda cc: nn_general_position(cc, 4)))
        plan.append(("open-cluster:|psi_6|", obs_boo2, o2, gname, g, lambda cc: nn_general_position(cc, 6)))
        plan.append(("open-cluster:shape-descriptors[d=3]", obs_gyration, o3, gname, g, None))
        plan.append(("open-cluster:shape-descriptors[d=2]", obs_gyration, o2, gname, g, None))
    plan.append(("open-cluster:participation-ratio", obs_pr, o3, "rotation", g_rotate, None))
    # (observable, group) pairs that contracts/C07.py now proves by relational execution of the real AST (units of C07_units.py and the
    # g(r) / neighbour-writer units): not part of the bounded stand-in any more (set C07_BOUNDED_ALL=1 to run them all the same)
    PROVED = {
        "g(r)": {"translation", "lattice-shift", "axis-permutation"},
        "S(q)": {"translation", "lattice-shift", "relabelling"},
        "N-nearest-neighbour-sets": {"translation", "lattice-shift", "axis-permutation"},
        "Hessian-spectrum": {"translation", "lattice-shift"},
        "relaxation-functions": {"translation", "lattice-shift", "axis-permutation"},
        "tetrahedral-order": {"translation", "lattice-shift"},
        "pair-entropy-S2": {"translation", "lattice-shift", "axis-permutation"},
        "|psi_6|": {"translation", "lattice-shift", "relabelling"},
        "open-cluster:tetrahedral-order": {"translation"},
        "open-cluster:|psi_6|": {"translation", "relabelling"},
        "open-cluster:shape-descriptors": {"translation"},
    }

    def proved(name, gname):
        if os.environ.get("C07_BOUNDED_ALL"):
            return False
        return gname in PROVED.get(name.split("[")[0], ())
    try:
        for name, obs, c, gname, g, pre in plan:
            if only and only not in name and only not in gname:
                continue
            if not only and proved(name, gname):
                continue
            if gname == "dilation":
                # g(r) values unchanged when coordinates, box and bin width are dilated together
                for attempt in range(6):
                    c2, _, s = g(c)
                    if pre_gr(c) and pre_gr(c2, 0.25 * s):
                        break
                    c = make_like(c)
                else:
                    continue
                try:
                    v1 = obs_gr(c)[1]
                    v2 = obs_gr(c2, 0.25 * s)[1]
                    ok, det = close(v2[:, 1:], v1[:, 1:])
                except Exception as e:
                    ok, det = False, f"raises {type(e).__name__}: {e}"
                record(name, gname, ok, det, describe(c) if not ok else None)
                continue
            compare(name, obs, c, gname, g, pre)
    except Exception:
        results.append({"observable": "harness", "group": "-", "failed": False, "error": traceback.format_exc()[-1500:]})
    finally:
        shutil.rmtree(tmp, ignore_errors=True)
    with open(outfile, "w") as f:
        json.dump({"relations_checked": len(results), "failed": [r for r in results if r.get("failed")],
                   "errors": [r for r in results if r.get("error")],
                   "checked": sorted({f"{r['observable']} / {r['group']}" for r in results}),
                   "bound": "seeded configurations: N = 16..22 particles, T = 1..2 frames, d = 2,3, two species, orthogonal box with random origin; "
                            "general position enforced (no distance within 1e-7 of a bin edge / cutoff, neighbour gaps > 1e-6); rtol 1e-6"}, f, indent=1)


# =====================================================================================================================
# `unit:<function>/<group>` mode: the replay of the relational units of contracts/C07_units.py.  The relation
# f(g.x) == g.f(x) on the REAL code with the FULL outputs of the function under contract (complex psi, q_lm and Q_lm, S2 and the
# particle g(r), divergence and curl, the saved Hessian, every column of the frames), neighbour / weight files held fixed
# (they are inputs of the function), general cells (tilted where the function allows), seeded trials.


def unit_mode(repo, seed, outfile, spec, case):
    sys.path.insert(0, repo)
    import logging
    logging.disable(logging.CRITICAL)
    import numpy as np
    import pandas as pd

    from PyMatterSim.reader.reader_utils import SingleSnapshot, Snapshots
    fname, group = spec.rsplit("/", 1)
    tmp = tempfile.mkdtemp(prefix="pyvc-c07unit.")
    rng = np.random.default_rng(7000 + seed)
    results = []
    counter = [0]

    def snaps(X):
        out = []
        for t in range(X["pos"].shape[0]):
            L = np.diag(X["H"][t]).copy()
            bb = np.column_stack([X["lo"], X["lo"] + L])
            out.append(SingleSnapshot(timestep=t * 10, nparticle=X["pos"].shape[1], particle_type=X["types"].copy(), positions=X["pos"][t].copy(),
                                      boxlength=L, boxbounds=bb, realbounds=bb.copy(), hmatrix=X["H"][t].copy()))
        return Snapshots(nsnapshots=len(out), snapshots=out)

    def make(d, N, T, tilt=True, ntypes=2, periodic=None, spread=0.15):
        L = rng.uniform(5.0, 7.0, size=d)
        H = np.stack([np.diag(L) for _ in range(T)])          # the same edge lengths in every frame (the classes assert it), a tilt per frame
        if tilt:
            for t in range(T):
                for a in range(d):
                    for b in range(a):
                        H[t, a, b] = rng.uniform(-0.3, 0.3) * L[b]
        lo = rng.uniform(-3.0, 3.0, size=d)
        frac = rng.uniform(0.0, 1.0, size=(N, d))
        base = lo + frac @ H[0]
        pos = np.stack([base + spread * t * rng.normal(size=(N, d)) for t in range(T)])
        types = (np.arange(N) % ntypes + 1).astype(np.int32)
        rng.shuffle(types)
        ppp = np.ones(d, dtype=int) if periodic is None else np.asarray(periodic, dtype=int)
        nbs = [[sorted(rng.choice([j for j in range(N) if j != i], size=int(rng.integers(2, min(7, N))), replace=False).tolist()) for i in range(N)] for t in range(T)]
        wts = [[rng.uniform(0.2, 2.0, size=len(r)).tolist() for r in fr] for fr in nbs]
        return dict(pos=pos, types=types, H=H, lo=lo, ppp=ppp, nbs=nbs, wts=wts, field=rng.normal(size=(N, d)), scal=rng.normal(size=N),
                    sel=rng.random(N) < 0.6, tfield=rng.normal(size=(N, d, d)), cfield=rng.normal(size=N) + 1j * rng.normal(size=N))

    def minimg(X, t):
        r = X["pos"][t][None, :, :] - X["pos"][t][:, None, :]
        m = r @ np.linalg.inv(X["H"][t])
        r = r - (np.rint(m) * X["ppp"]) @ X["H"][t]
        return np.sqrt((r ** 2).sum(-1)), m

    def no_ties(X, pairs=None):
        """away from half-cell ties: no fractional minimum-image coordinate of a pair within 1e-6 of +-1/2 (mod 1)"""
        for t in range(X["pos"].shape[0]):
            _, m = minimg(X, t)
            f = np.abs(np.abs(m - np.rint(m)) - 0.5)
            if f[:, :, X["ppp"] == 1].size and f[:, :, X["ppp"] == 1].min() < 1e-6:
                return False
        return True

    # ---- group elements: X -> X' (and how per-particle outputs map)
    def g_translation(X, per_frame):
        T, N, d = X["pos"].shape
        t = rng.uniform(-4.0, 4.0, size=(T, 1, d)) if per_frame else rng.uniform(-4.0, 4.0, size=(1, 1, d))
        return dict(X, pos=X["pos"] + t), None

    def g_lattice(X, per_frame):
        T, N, d = X["pos"].shape
        n = rng.integers(-2, 3, size=(T if per_frame else 1, N, d)) * X["ppp"]
        if per_frame:
            return dict(X, pos=X["pos"] + np.stack([n[t] @ X["H"][t] for t in range(T)])), None
        return dict(X, pos=X["pos"] + (n[0] @ X["H"][0])[None, :, :]), None

    def g_axes(X, per_frame):
        d = X["pos"].shape[2]
        ax = np.roll(np.arange(d), 1) if d == 3 else np.array([1, 0])
        H = X["H"][:, ax][:, :, ax]
        return dict(X, pos=X["pos"][:, :, ax], H=H, lo=X["lo"][ax], ppp=X["ppp"][ax], field=X["field"][:, ax],
                    tfield=X["tfield"][:, ax][:, :, ax]), ("axes", ax)

    def g_relabel(X, per_frame):
        T, N, d = X["pos"].shape
        perm = rng.permutation(N)             # new particle a is old particle perm[a]
        inv = np.argsort(perm)
        nbs = [[sorted(int(inv[j]) for j in X["nbs"][t][perm[a]]) for a in range(N)] for t in range(T)]
        wts = [[[w for _, w in sorted(zip([int(inv[j]) for j in X["nbs"][t][perm[a]]], X["wts"][t][perm[a]]))] for a in range(N)] for t in range(T)]
        return dict(X, pos=X["pos"][:, perm, :], types=X["types"][perm], nbs=nbs, wts=wts, field=X["field"][perm], scal=X["scal"][perm],
                    sel=X["sel"][perm], tfield=X["tfield"][perm], cfield=X["cfield"][perm]), ("perm", perm)

    GROUPS = {"translation": g_translation, "lattice-shift": g_lattice, "axis-permutation": g_axes, "relabelling": g_relabel}

    def write_nb(X, tag, weights=False):
        fn = os.path.join(tmp, f"{tag}{counter[0]}.dat")
        counter[0] += 1
        with open(fn, "w") as f:
            for t in range(len(X["nbs"])):
                f.write("id     cn     neighborlist\n" if not weights else "id     cn     weights\n")
                for i, row in enumerate(X["nbs"][t]):
                    vals = [str(j + 1) for j in row] if not weights else ["%.10f" % w for w in X["wts"][t][i]]
                    f.write("%d %d %s\n" % (i + 1, len(row), " ".join(vals)))
        return fn

    # ---- the functions under contract: f(X) -> dict name -> (kind, array); kind: "global" | "particle:<axis>" (axis of the particle index)
    def f_boo2d(X):
        from PyMatterSim.static.boo import boo_2d
        weighted = case.startswith("weighted")
        b = boo_2d(snaps(X), l=X.get("l", 6), neighborfile=write_nb(X, "nb"), weightsfile=write_nb(X, "w", True) if weighted else "", ppp=X["ppp"], Nmax=10)
        return {"psi": ("particle:1", np.asarray(b.ParticlePhi))}

    def f_boo3d(X):
        from PyMatterSim.static.boo import boo_3d
        weighted = case == "weighted"
        b = boo_3d(snaps(X), l=X.get("l", 6), neighborfile=write_nb(X, "nb"), weightsfile=write_nb(X, "w", True) if weighted else None, ppp=X["ppp"], Nmax=10)
        q, Q = b.qlm_Qlm()
        return {"q_lm": ("particle:1", np.asarray(q)), "Q_lm": ("particle:1", np.asarray(Q))}

    def f_tetra(X):
        from PyMatterSim.static.geometric import q8_tetrahedral
        return {"q_tetra": ("particle:1", np.asarray(q8_tetrahedral(snaps(X), ppp=X["ppp"])))}

    def f_s2(X):
        from PyMatterSim.static.pairentropy import S2
        K = int(X["types"].max())
        sig = np.array([[0.25 + 0.05 * (a + b) for b in range(K)] for a in range(K)])
        s = S2(snaps(X), sigmas=sig, ppp=X["ppp"], rdelta=0.05, ndelta=40)
        cwd = os.getcwd()
        os.chdir(tmp)
        try:
            if case.endswith("savegr"):
                a, g = s.particle_s2(savegr=True, outputfile=f"s2_{counter[0]}.npy")
                counter[0] += 1
                return {"S2": ("particle:1", np.asarray(a)), "particle_gr": ("particle:1", np.asarray(g))}
            return {"S2": ("particle:1", np.asarray(s.particle_s2()))}
        finally:
            os.chdir(cwd)

    def f_gyration(X):
        from PyMatterSim.static.shape import gyration_tensor
        return {"descriptors": ("global", np.array([float(np.real(v)) for v in gyration_tensor(X["pos"][0].copy())]))}

    def f_divcurl(X):
        from PyMatterSim.static.vector import divergence_curl
        one = dict(X, nbs=X["nbs"][:1], wts=X["wts"][:1])
        r = divergence_curl(snaps(X).snapshots[0], X["field"].copy(), X["ppp"], write_nb(one, "nb"))
        if X["pos"].shape[2] == 3:
            return {"divergence": ("particle:0", np.asarray(r[0])), "curl": ("pvector:0", np.asarray(r[1]))}
        return {"divergence": ("particle:0", np.asarray(r))}

    def f_condgr(X):
        from PyMatterSim.static.gr import conditional_gr
        kind = case.split("/")[1] if "/" in case else "float"
        ct = None
        if kind == "bool":
            A_ = X["sel"].copy()
        elif kind.startswith("species"):
            A_ = X["types"] == int(kind[-1])
        elif kind == "alltrue":
            A_ = np.ones(len(X["types"]), dtype=bool)
        elif kind == "ones":
            A_ = np.ones(len(X["types"]))
        elif kind in ("complex", "complex64"):
            A_ = X["cfield"].astype(np.complex64 if kind == "complex64" else np.complex128)
        elif kind in ("vector", "cvector"):
            A_, ct = (X["field"].copy() if kind == "vector" else X["field"] + 1j * X["field"][:, ::-1]), "vector"
        elif kind == "tensor":
            A_, ct = X["tfield"].copy(), "tensor"
        else:
            A_ = X["scal"].copy()
        df = conditional_gr(snaps(X).snapshots[0], A_, conditiontype=ct, ppp=X["ppp"], rdelta=0.25)
        return {c: ("global", np.asarray(df[c].values)) for c in df.columns}

    def f_relax(X):
        from PyMatterSim.dynamic.dynamics import Dynamics
        K = int(X["types"].max())
        parts = case.split("/") if case else ["d=2", "slow", "xu", "nocage", "all"]
        fast, xonly, cage, cond = parts[1] == "fast", parts[2] == "x-only", parts[3] == "cage", parts[4] == "condition"
        kw = dict(dt=0.002, ppp=X["ppp"] if xonly else np.zeros_like(X["ppp"]), diameters={k + 1: 1.0 + 0.1 * k for k in range(K)}, a=0.3,
                  cal_type="fast" if fast else "slow")
        if cage:
            kw["neighborfile"] = write_nb(X, "nb")
        dyn = Dynamics(xu_snapshots=None if xonly else snaps(X), x_snapshots=snaps(X) if xonly else None, **kw)
        T, N, _ = X["pos"].shape
        c = np.tile(X["sel"], (T, 1)) if cond else None
        df = dyn.relaxation(qconst=2 * np.pi, condition=c)
        return {col: ("global", np.asarray(df[col].values)) for col in df.columns}

    def f_hessian(X):
        from PyMatterSim.static.hessians import HessianMatrix, InteractionParams, ModelName
        K = int(X["types"].max())
        masses = {k + 1: 1.0 + 1.3 * k for k in range(K)}
        eps = np.array([[1.0 + 0.2 * (a + b) for b in range(K)] for a in range(K)])
        sig = np.array([[1.0 + 0.1 * (a + b) for b in range(K)] for a in range(K)])
        h = HessianMatrix(snapshot=snaps(X).snapshots[0], masses=masses, epsilons=eps, sigmas=sig, r_cuts=1.5 * sig, ppp=X["ppp"], shiftpotential=True)
        pref = os.path.join(tmp, f"h{counter[0]}")
        counter[0] += 1
        h.diagonalize_hessian(interaction_params=InteractionParams(model_name=ModelName.inverse_power_law, ipl_n=10, ipl_A=1.0),
                              saveevecs=False, savehessian=True, outputfile=pref)
        M = np.load(pref + ".hessianmatrix.npy")
        om = pd.read_csv(pref + ".omega_PR.csv")["omega"].values
        return {"matrix-handed-to-eigh": ("hessian", M), "spectrum": ("spectrum", np.sort(np.where(om > 0, om ** 2, om)))}

    RCUT, NNEAR = 1.9, 4

    def read_rows(fn, T, N):
        with open(fn) as f:
            lines = f.read().split("\n")
        k, out = 0, []
        for t in range(T):
            k += 1
            rows = {}
            for _ in range(N):
                w = lines[k].split()
                k += 1
                rows[int(w[0]) - 1] = sorted(int(x) - 1 for x in w[2:2 + int(w[1])])
            out.append([rows[i] for i in range(N)])
        return out

    def f_writer(X, which):
        from PyMatterSim.neighbors.calculate_neighbors import Nnearests, cutoffneighbors
        fn = os.path.join(tmp, f"wr{counter[0]}.dat")
        counter[0] += 1
        if which == "Nnearests":
            Nnearests(snaps(X), N=NNEAR, ppp=X["ppp"], fnfile=fn)
        else:
            cutoffneighbors(snaps(X), r_cut=RCUT, ppp=X["ppp"], fnfile=fn)
        T, N, _ = X["pos"].shape
        return {"neighbour-sets": ("sets", read_rows(fn, T, N))}

    def f_sq(X, meth):
        from PyMatterSim.static.sq import sq
        pref = os.path.join(tmp, f"sq{counter[0]}.csv")
        counter[0] += 1
        o = sq(snaps(X), qrange=3.0, onlypositive=False, saveqvectors=True, outputfile=pref)
        res = getattr(o, meth)()
        tab = pd.read_csv(pref[:-4] + "_qvectors.csv")
        out = {"per-vector:" + c: ("global", tab[c].values) for c in tab.columns}
        out.update({"returned:" + c: ("global", res[c].values) for c in res.columns})
        return out

    FUNCS = {"sq.unary": (lambda X: f_sq(X, "unary"), None, True), "sq.binary": (lambda X: f_sq(X, "binary"), None, True),
             "sq.ternary": (lambda X: f_sq(X, "ternary"), None, True),
             "cutoffneighbors": (lambda X: f_writer(X, "cutoffneighbors"), None, True), "Nnearests": (lambda X: f_writer(X, "Nnearests"), None, True),
             "boo_2d.lthorder": (f_boo2d, 2, True), "boo_3d.qlm_Qlm": (f_boo3d, 3, True), "q8_tetrahedral": (f_tetra, 3, True),
             "S2.particle_s2": (f_s2, None, True), "gyration_tensor": (f_gyration, None, False), "divergence_curl": (f_divcurl, None, False),
             "conditional_gr": (f_condgr, None, False), "Dynamics.relaxation": (f_relax, None, False),
             "HessianMatrix.diagonalize_hessian": (f_hessian, None, False)}

    def pre(fname, X):
        """general position for the thresholds the function uses (bin edges, cutoffs, nearest-neighbour ties)"""
        T, N, d = X["pos"].shape
        if fname == "q8_tetrahedral":
            for t in range(T):
                dm = np.sort(minimg(X, t)[0], axis=1)
                if (dm[:, 5] - dm[:, 4]).min() < 1e-6:
                    return False
        if fname == "cutoffneighbors":
            for t in range(T):
                if np.abs(minimg(X, t)[0] - RCUT).min() < 1e-6:
                    return False
        if fname == "Nnearests":
            for t in range(T):
                dm = np.sort(minimg(X, t)[0], axis=1)
                if (dm[:, NNEAR + 1] - dm[:, NNEAR]).min() < 1e-6:
                    return False
        if fname == "conditional_gr":
            edges = np.arange(0, int(np.diag(X["H"][0]).min() / 2 / 0.25) + 1) * 0.25
            dm = minimg(X, 0)[0][np.triu_indices(N, 1)]
            if np.abs(dm[:, None] - edges[None, :]).min() < 1e-7:
                return False
        if fname == "S2.particle_s2":
            dm = minimg(X, 0)[0][np.triu_indices(N, 1)]
            if np.abs(dm - (40 - 0.5) * 0.05).min() < 1e-7:
                return False
        if fname == "HessianMatrix.diagonalize_hessian":
            K = int(X["types"].max())
            sig = np.array([[1.0 + 0.1 * (a + b) for b in range(K)] for a in range(K)])
            iu = np.triu_indices(N, 1)
            dm = minimg(X, 0)[0][iu]
            rc = (1.5 * sig)[X["types"][iu[0]] - 1, X["types"][iu[1]] - 1]
            if np.abs(dm - rc).min() < 1e-6 or dm.min() < 0.5:
                return False
        if fname == "Dynamics.relaxation":
            for a, b in itertools.combinations(range(T), 2):
                dr = np.sqrt(((X["pos"][b] - X["pos"][a]) ** 2).sum(-1))
                if np.abs(dr - 0.3).min() < 1e-7 or np.abs(dr - 0.33).min() < 1e-7:
                    return False
        return True

    def cmp_out(o1, o2, how):
        for name in o1:
            kind, a = o1[name]
            b = o2[name][1]
            if kind == "sets":
                for t in range(len(a)):
                    for q in range(len(a[t])):
                        want = a[t][q]
                        if how is not None and how[0] == "perm":
                            inv = np.argsort(how[1])
                            want = sorted(int(inv[j]) for j in a[t][int(how[1][q])])
                        if b[t][q] != want:
                            return f"{name}: frame {t}, particle {q}: {b[t][q]} after the transformation, expected {want}"
                continue
            a, b = np.asarray(a), np.asarray(b)
            if how is not None and how[0] == "perm" and kind.startswith(("particle", "pvector")):
                a = np.take(a, how[1], axis=int(kind.split(":")[1]))
            if how is not None and how[0] == "perm" and kind == "hessian":
                d = a.shape[0] // len(how[1])
                idx = (how[1][:, None] * d + np.arange(d)[None, :]).ravel()
                a = a[np.ix_(idx, idx)]
            if how is not None and how[0] == "axes" and kind.startswith("pvector"):
                a = a[:, how[1]]
            if how is not None and how[0] == "axes" and kind == "hessian":
                d = len(how[1])
                idx = (np.arange(a.shape[0] // d)[:, None] * d + how[1][None, :]).ravel()
                a = a[np.ix_(idx, idx)]
            if a.shape != b.shape:
                return f"{name}: shapes {a.shape} vs {b.shape}"
            scale = max(1.0, float(np.nanmax(np.abs(a)))) if kind in ("hessian", "spectrum") else 1.0
            ok = np.isclose(b, a, rtol=1e-7, atol=(2.1e-6 if name.startswith(("per-vector:", "returned:")) else 1e-9 * scale), equal_nan=True)
            if not ok.all():
                k = tuple(int(x) for x in np.argwhere(~ok)[0])
                return f"{name}{list(k)}: {b[k]!r} after the transformation, {a[k]!r} before (max |diff| {np.nanmax(np.abs(b - a)):.3g})"
        return None

    try:
        f, dfix, per_frame = FUNCS[fname]
        g = GROUPS[group]
        dims = [dfix] if dfix else ([int(case[2])] if case[:2] == "d=" else [2, 3])
        if fname == "conditional_gr" and group == "axis-permutation" and "vector" in case:
            dims = dims      # the field components are permuted with the axes
        for trial in range(6):
            for d in dims:
                N = int(rng.integers(9, 15)) if fname != "HessianMatrix.diagonalize_hessian" else int(rng.integers(6, 10))
                T = 1 if fname in ("gyration_tensor", "divergence_curl", "conditional_gr", "HessianMatrix.diagonalize_hessian") else int(rng.integers(2, 4))
                tilt = group in ("translation", "lattice-shift", "relabelling") and trial % 2 == 1 and not fname.startswith("sq.")
                ntypes = {"sq.unary": 1, "sq.ternary": 3}.get(fname, 2)
                for attempt in range(8):
                    X = make(d, N, T, tilt=tilt, ntypes=ntypes, periodic=(None if (trial % 3 or fname.startswith("sq.")) else ([1] + [0] * (d - 1))), spread=0.12)
                    if fname == "gyration_tensor" and group == "lattice-shift":
                        break
                    X2, how = g(X, per_frame)
                    if pre(fname, X) and pre(fname, X2) and (group != "lattice-shift" or no_ties(X)):
                        break
                else:
                    continue
                if fname == "gyration_tensor" and group == "lattice-shift":
                    continue
                try:
                    o1, o2 = f(X), f(X2)
                    bad = cmp_out(o1, o2, how)
                except Exception as e:
                    bad = f"raises {type(e).__name__}: {e}"
                results.append({"observable": fname, "group": group, "failed": bad is not None, "detail": bad,
                                "inputs": None if bad is None else {"case": case, "d": d, "N": N, "T": T, "hmatrix": X["H"][0].tolist(), "ppp": X["ppp"].tolist(),
                                                                   "positions[0][:4]": X["pos"][0][:4].tolist(), "neighbours[0][:3]": X["nbs"][0][:3]}})
    except Exception:
        results.append({"observable": fname, "group": group, "failed": False, "error": traceback.format_exc()[-1500:]})
    finally:
        shutil.rmtree(tmp, ignore_errors=True)
    with open(outfile, "w") as fo:
        json.dump({"relations_checked": len([r for r in results if "error" not in r]), "failed": [r for r in results if r.get("failed")],
                   "errors": [r for r in results if r.get("error")], "checked": sorted({f"{r['observable']} / {r['group']}" for r in results}),
                   "bound": "unit mode: 6 seeded trials per dimension, N = 6..14, T = 1..3, general (tilted) cells, mixed masks"}, fo, indent=1)


if __name__ == "__main__":
    main()
