"""C18 — analyses are pure: inputs are never modified, repeated calls agree, files hold what was returned.

Three layers (DESIGN Part II C18), all regenerated from the source text under $PYVC_REPO on every run:

(1) write-set / alias pass (pyvc/purity.py) over EVERY top-level function and method of PyMatterSim/{static,dynamic,neighbors,
    utils,reader,writer}, enumerated from the ASTs at check time.  Per function F the obligations
        F:frame            no store (a[..]=v, a[..]op=v, a op= v, x.attr=v, in-place method, out=, in-place numpy function,
                           call of a repo function that writes a parameter) can reach storage that is reachable from a
                           parameter, a mutable default argument or a constructor argument kept in `self`
        F:no-hidden-state  no `global`, no module-level / class-level mutable object that any function writes is read or written,
                           no mutable default written, no `self` attribute read that another method assigns after construction
                           unless the contract names it (NAMED_SELF_STATE: documented call-order dependence)
        F:determinism      no value of a random / clock / pid library call reaches anything but a logger call
        F:file=returned    every expression handed to to_csv / np.save / np.savetxt is the returned variable (or an element of
                           the returned tuple / a listed projection of it), not rebound or stored into between the write and the
                           return; auxiliary files that by their documentation hold other data are named in AUX_FILES
    A non-empty potential write set is confirmed or dismissed by a byte-comparison replay of the real function
    (contracts/C18_replay.py): confirmed -> REFUTED (VIOLATION), not confirmed -> UNDECIDED with the potential stores listed.

(2) frame obligations on the symbolic executor's own store events: for every unit of the other contract modules present in this
    checkout the REAL function is executed symbolically on that unit's symbolic inputs and
        frame:no-store-event-on-an-input-cell   every store event on a cell registered as input (`origin`) has an infeasible
                                                path condition — on returning AND on raising paths;
        file=returned                           every np.save/np.savetxt event carries an array equal (at a symbolic index) to a
                                                returned array.
    plus own units for gyration_tensor and convert_configuration (the two anchored in-place mechanisms).

(3) hidden state / determinism for all enumerated functions (part of (1)); vc.py's `no-module-level-mutable-state` obligation is
    generated for every unit of (2) as well.
"""
import json
import os
import subprocess
import time

import z3

from pyvc import arr as A
from pyvc import sv
from pyvc.vc import Unit

PROP = "C18"
VERIF = os.path.dirname(os.path.dirname(os.path.abspath(__file__)))
REPLAY_PY = os.environ.get("PYVC_REPLAY_PYTHON", "/venv/bin/python")

# documented call-order dependence (docs: particle_s2() / tensor() must be called first; their results are kept on the object)
NAMED_SELF_STATE = ("S2.s2_results", "NematicOrder.QIJ", "DumpReader.snapshots")
# output files that by their documentation hold data other than the returned value (function, substring of the file expression)
AUX_FILES = (
    ("sq.unary", "_qvectors.csv"), ("sq.binary", "_qvectors.csv"), ("sq.ternary", "_qvectors.csv"), ("sq.quarternary", "_qvectors.csv"),
    ("sq.quinary", "_qvectors.csv"),                       # per-wavevector table before the |q| average (saveqvectors=True)
    ("boo_3d.sij_ql_Ql", "outputqlQl"),                    # per-particle bond counts; the function returns the s_ij table
    ("NematicOrder.tensor", ".QIJ_cg.npy"), ("NematicOrder.tensor", ".QIJ_raw.npy"),   # the tensor field itself, kept as self.QIJ
    ("vector_fft_corr", ".spectra.csv"),                   # documented first output, only saved
)

NOT_DECIDED = [
    "mutation of arguments inside C extensions / library internals (freud, numpy, scipy, pandas): assumed non-mutating (library table of pyvc/purity.py)",
    "bit-for-bit equality of repeated calls is decided as: no hidden state + no non-deterministic source + inputs not written; floating-point reproducibility of the libraries themselves (threaded BLAS reductions) is assumed",
    "the file clause is decided on the level of 'the written expression is the returned one'; the decimal formatting done by pandas/numpy writers ('to the written precision') is assumed (replay compares the parsed file with the returned value within half a unit of the last written digit)",
    "callables passed in by the caller (fit_func of utils.fitting.fits) are opaque: assumed not to write their arguments",
    "process-global library options (np.set_printoptions in Nnearests / voronowalls) are reported as observations: they are not analysis state of the package",
]
TRUSTED = [
    "pyvc/purity.py library table: which numpy/pandas/builtin operations return views (keep aliases), which write their receiver / first argument / out=, everything else returns a new object and writes nothing",
    "parameter annotations int/float/str/bool and constant scalar defaults are believed (such parameters hold immutable values)",
    "attribute reads of input objects alias the object's storage; objects built by a repo constructor keep (at most) the constructor arguments the class stores in self",
    "assignment to a field of a @dataclass(frozen=True) instance raises FrozenInstanceError (no store)",
    "layer (2) re-uses the symbolic inputs (setup) of the units of the other properties; the index-bound / shape side obligations of those bodies are left to the owning property's check (no safety obligation is emitted or counted here); their preconditions are inherited",
    "the alias pass itself (abstract interpreter, joins, loop fixed points, call-graph fixed point) is unverified; tools/purity_selftest.py checks it on 74 synthetic functions",
]


# =================================================================================================================
# layer (1)/(3): alias pass obligations (extra_checks)


def _ob(name, status, reason, ms=0.0, backend="alias-pass", extra=None):
    d = {"name": name, "status": status, "ms": round(ms, 2), "backends": [backend], "queries": 1, "replayable": True}
    if status != "PROVED":
        d["failed"] = [{"status": status, "reason": reason, "path": ""}]
    else:
        d["note"] = reason
    if extra:
        d.update(extra)
    return d


def _replay_cli(repo, fullname, what, seed=0, timeout=240):
    """confirm / dismiss by running the real function under the repository interpreter"""
    try:
        r = subprocess.run([REPLAY_PY, os.path.join(VERIF, "contracts", "C18_replay.py"), "--one", repo, fullname, what, str(seed)],
                           capture_output=True, text=True, timeout=timeout, cwd=VERIF)
    except subprocess.TimeoutExpired:
        return {"ran": False, "error": "replay timeout"}
    for line in r.stdout.splitlines():
        if line.startswith("C18-REPLAY "):
            return json.loads(line[len("C18-REPLAY "):])
    return {"ran": False, "error": (r.stderr or r.stdout)[-400:]}


def _is_aux(fi, w):
    from pyvc import purity as P
    ftxt = P._txt(w["file"], 200) if w.get("file") is not None else ""
    return any(fi.qualname == q and sub in ftxt for q, sub in AUX_FILES)


def extra_checks(tier, seed, repo):
    from concurrent.futures import ThreadPoolExecutor

    from pyvc import purity as P
    t0 = time.time()
    pkg = P.analyse_package(repo)
    obs = []
    obs.append(_ob("enumeration:every-module-of-the-package-parses", "PROVED" if not pkg.parse_errors else "UNDECIDED",
                   "; ".join(pkg.parse_errors) or f"{len(pkg.mods)} modules, {len(pkg.funcs)} functions and methods enumerated from the ASTs", backend="ast"))
    obs.append(_ob("enumeration:functions-found", "PROVED" if pkg.funcs else "REFUTED", f"{len(pkg.funcs)} functions", backend="ast"))
    potential, observations, listing = {}, {}, []
    todo = []          # (obligation index, fullname, what)
    per_ms = (time.time() - t0) * 1000 / max(1, len(pkg.funcs))
    for name, fi in sorted(pkg.funcs.items()):
        short = name[len("PyMatterSim."):]
        listing.append({"function": name, "line": fi.node.lineno, "writes_parameters": sorted(fi.mutates),
                        "result_may_alias": sorted(fi.ret.reach), "local_stores": len(fi.stores)})
        us = fi.state.get("unknown_syntax", [])
        # ---- frame
        fr = P.frame_report(fi)
        if us:
            obs.append(_ob(f"{short}:frame", "UNDECIDED", "syntax outside the alias pass: " + "; ".join(us), per_ms))
        elif not fr:
            fz = fi.state.get("frozen_assigns", [])
            obs.append(_ob(f"{short}:frame", "PROVED", f"{len(fi.stores)} store sites, none can reach input storage" +
                           (f"; line {fz[0]['line']} assigns a field of frozen {fz[0]['class']} (raises, no store)" if fz else ""), per_ms))
        else:
            potential[name] = [s.as_dict() for s in fr]
            txt = "; ".join(f"line {s.lineno} `{s.text}` may write {','.join(s.input_roots())}" + (f" (via {s.via})" if s.via else "") for s in fr[:4])
            obs.append(_ob(f"{short}:frame", "REFUTED", "potential store into input storage: " + txt, per_ms))
            todo.append((len(obs) - 1, name, "frame"))
        # ---- hidden state
        hb, ho = P.hidden_state_report(pkg, fi, NAMED_SELF_STATE)
        if ho:
            observations[name] = ho
        if hb:
            obs.append(_ob(f"{short}:no-hidden-state", "REFUTED", "; ".join(hb[:4]), per_ms))
            todo.append((len(obs) - 1, name, "history"))
        else:
            obs.append(_ob(f"{short}:no-hidden-state", "PROVED", "no global statement, no written module/class-level object used, no unnamed cross-method self state", per_ms))
        # ---- determinism
        db, do = P.determinism_report(fi)
        if do:
            observations.setdefault(name, []).extend("non-deterministic source " + x for x in do)
        if db:
            obs.append(_ob(f"{short}:determinism", "REFUTED", "; ".join(db[:4]), per_ms))
            todo.append((len(obs) - 1, name, "history"))
        else:
            obs.append(_ob(f"{short}:determinism", "PROVED", "no random/clock/pid value reaches a result" + (" (only logger arguments)" if do else ""), per_ms))
        # ---- file = returned
        fl = P.file_report(fi)
        ws = fi.state.get("file_writes", [])
        if fl:
            bad, notes = [], []
            for rec, w in zip(fl, ws):
                if rec["verdict"] in ("same",):
                    notes.append(f"line {rec['line']}: {rec['writer']}({rec['written']}) = returned ({rec['why']})")
                elif rec["verdict"] == "returns-None":
                    notes.append(f"line {rec['line']}: {rec['written']} only goes to the file (function returns None)")
                elif _is_aux(fi, w):
                    notes.append(f"line {rec['line']}: auxiliary file named by the contract ({rec['written']})")
                else:
                    bad.append(f"line {rec['line']}: {rec['writer']} writes `{rec['written']}` but the function returns `{rec['returned']}`: {rec['verdict']} ({rec.get('why', '')})")
            # twin rule: a binary file and its text twin requested through the SAME output name (np.save(x, A) and np.savetxt(x, B)
            # under `x.endswith('.dat')`) must hold the same values: A and B are the same expression (same writer twice = scratch / exclusive branches)
            by_file = {}
            for rec, w in zip(fl, ws):
                if w.get("file") is not None and not _is_aux(fi, w):
                    by_file.setdefault(P._txt(w["file"], 200), []).append(rec)
            for ftxt, recs in sorted(by_file.items()):
                exprs = sorted({r["written"] for r in recs})
                if len(exprs) > 1 and len({r["writer"] for r in recs}) > 1:      # a binary file and its text twin (different writers)
                    bad.append(f"output name `{ftxt}` receives different values: " + ", ".join(f"line {r['line']}: {r['writer']}({r['written']})" for r in recs))
            if bad:
                obs.append(_ob(f"{short}:file=returned", "REFUTED", "; ".join(bad[:3]), per_ms))
                todo.append((len(obs) - 1, name, "file"))
            else:
                obs.append(_ob(f"{short}:file=returned", "PROVED", "; ".join(notes[:6]), per_ms))
    # ---- confirm / dismiss every failing alias-pass obligation on the real code
    confirmations = {}
    if todo:
        with ThreadPoolExecutor(max_workers=min(6, len(todo))) as ex:
            futs = [(k, n, w, ex.submit(_replay_cli, repo, n, w, seed)) for k, n, w in todo]
            for k, n, w, f in futs:
                rr = f.result()
                confirmations[obs[k]["name"]] = rr
                if rr.get("failed"):
                    obs[k]["failed"][0]["reason"] += " || CONFIRMED on the real code: " + str(rr.get("detail"))[:600]
                else:
                    # not confirmed: a potential store the pass cannot exclude and the replay cannot show -> undecided, never a violation
                    obs[k]["status"] = "UNDECIDED"
                    obs[k]["failed"][0]["status"] = "UNDECIDED"
                    obs[k]["failed"][0]["reason"] += " || not confirmed by replay: " + str(rr.get("detail") or rr.get("error"))[:300]
    return {"obligations": obs,
            "alias_pass": {"functions": len(pkg.funcs), "modules": len(pkg.mods), "summary_rounds": pkg.rounds, "wall_s": round(time.time() - t0, 2),
                           "potential_stores_into_inputs": potential, "replay_confirmation": confirmations,
                           "observations": observations, "written_module_level_objects": sorted(pkg.written_globals)},
            "enumerated_functions": listing,
            "samples": [{"obligation": o["name"], "status": o["status"], "note": o.get("note") or o["failed"][0]["reason"]} for o in obs[2:5]]}


def replay_extra(rec):
    """replay of an alias-pass obligation `<module.qualname>:<clause>` on the real package"""
    import logging
    logging.disable(logging.CRITICAL)
    from contracts import C18_replay as R
    name, _, clause = rec["obligation"].rpartition(":")
    what = {"frame": "frame", "no-hidden-state": "history", "determinism": "history", "file=returned": "file"}.get(clause)
    if what is None:
        return {"ran": False, "failed": False, "error": f"no replay for clause {clause}"}
    return R.run_entry("PyMatterSim." + name, what, int(rec.get("seed") or 0))


# =================================================================================================================
# layer (2): frame / file obligations on the symbolic executor's store events


def _input_stores(state):
    return [e for e in state.events if e[0] == "store" and e[1] in state.origin]


def _infeasible(ev):
    pc = ev[3]
    return z3.Not(z3.And(*pc)) if pc else z3.BoolVal(False)


def _arrays_of(v):
    from pyvc.interp import Ref
    if isinstance(v, A.Arr):
        return [v]
    if isinstance(v, (tuple, list)):
        return [x for y in v for x in _arrays_of(y)]
    if isinstance(v, Ref) and v.kind in ("list", "tuple"):
        try:
            c = v.content
            if isinstance(c, (list, tuple)):
                return [x for y in c for x in _arrays_of(y)]
        except Exception:  # noqa
            return []
    return []


class FrameOf(Unit):
    """the frame / file obligations of C18 on the real AST, with the symbolic inputs of another property's unit"""
    prop = PROP
    clauses_vacuous_without_return = True      # a case in which every path raises before any store event (e.g. ValueError on the rank)

    def __init__(self, base, tag, cases=None):
        self.base, self.tag = base, tag
        self.module, self.qualname = base.module, base.qualname
        self.summaries, self.loop_hints = dict(base.summaries), dict(base.loop_hints)
        self.loop_opts = dict(getattr(base, "loop_opts", None) or {})
        self.lib_prop = getattr(base, "prop", None) or tag      # library-contract table of the owning property
        self.timeout = min(10, base.timeout)
        self.solver_opts = base.solver_opts
        self._cases = cases
        # index-bound / shape side obligations of this body on this setup are discharged by the owning property's check
        self.side_obligations_owner = f"./check {tag} (unit {base.name})"
        for a in ("may_only_raise", "unresolved_is_failure"):
            if hasattr(base, a):
                setattr(self, a, getattr(base, a))

    @property
    def name(self):
        return f"{self.tag}/{self.base.name}"

    def cases(self):
        return list(self._cases if self._cases is not None else self.base.cases())

    def setup(self, ctx, case):
        return self.base.setup(ctx, case)

    def _own_file_clause(self):
        # a unit whose own contract states `saved file = returned value` on values this generic clause cannot read (a dict of frames):
        # the file clause is left to the owning property (nothing is claimed here; layer 1 still decides it on the AST)
        return bool(getattr(self.base, "file_clause_in_own_contract", False))

    def clause_names(self, case):
        if getattr(self.base, "may_only_raise", lambda c: False)(case):
            return []
        return ["frame:no-store-event-on-an-input-cell"] + ([] if self._own_file_clause() else ["file=returned"])

    def ensures(self, ctx, case, inp, out):
        st = out.state
        n_in = len(st.origin)
        stores = _input_stores(st)
        if not stores:
            yield "frame:no-store-event-on-an-input-cell", True
        for ev in stores:
            # the store can happen iff its path condition is satisfiable together with the preconditions
            yield "frame:no-store-event-on-an-input-cell", _infeasible(ev)
        if self._own_file_clause():
            return
        # file = returned: every saved array equals, at an arbitrary index, a returned array of the same rank
        saves = [e for e in st.trace if e and e[0] in ("np.save", "np.savetxt") and isinstance(e[2], A.Arr)]
        # auxiliary files that by their documentation hold data other than the returned value (same table as layer 1)
        qn = self.qualname
        saves = [e for e in saves if not any(q == qn and isinstance(e[1], str) and sub in e[1] for q, sub in AUX_FILES)]
        rets = _arrays_of(out.value)
        if out.value is None:
            # a routine that returns nothing (its files are its result): the clause "the file holds the values that were
            # returned" has nothing to compare — the file contents are specified by the owning property's contract
            saves = []
        if not saves:
            yield "file=returned", True
        # twin rule: save events through the same output name (binary file + its text twin) carry equal arrays
        for k1, e1 in enumerate(saves):
            for e2 in saves[k1 + 1:]:
                if isinstance(e1[1], str) and e1[1] == e2[1] and e1[0] != e2[0] and e1[2].sid != e2[2].sid:
                    a1, a2 = e1[2], e2[2]
                    if a1.ndim != a2.ndim:
                        yield "file=returned", False
                        continue
                    ix = tuple(sv.fresh_int("tw") for _ in range(a1.ndim))
                    inr2 = sv.and_(*[sv.and_(sv.cmp(">=", i, 0), sv.cmp("<", i, d)) for i, d in zip(ix, a1.shape)]) if a1.ndim else True
                    yield "file=returned", sv.and_(*([sv.cmp("==", x, y) for x, y in zip(a1.shape, a2.shape) if not (sv.is_conc(x) and sv.is_conc(y) and x == y)] +
                                                     [sv.implies(inr2, sv.cmp("==", a1.get(ix), a2.get(ix)))]))
        for e in saves:
            a = e[2]
            idx = tuple(sv.fresh_int("fx") for _ in range(a.ndim))
            inr = sv.and_(*[sv.and_(sv.cmp(">=", i, 0), sv.cmp("<", i, d)) for i, d in zip(idx, a.shape)]) if a.ndim else True
            # a returned array of the same rank, or a returned 1-D array written as one column (x[:, np.newaxis])
            cands = [(r, tuple(r.shape), (lambda r: (lambda ix: r.get(ix)))(r)) for r in rets if r.ndim == a.ndim]
            if a.ndim == 2 and sv.is_conc(a.shape[1]) and a.shape[1] == 1:
                cands += [(r, tuple(r.shape) + (1,), (lambda r: (lambda ix: r.get(ix[:1])))(r)) for r in rets if r.ndim == 1]
            if not cands:
                yield "file=returned", False
                continue
            goal = sv.or_(*[sv.and_(*([sv.cmp("==", x, y) for x, y in zip(shp, a.shape) if not (sv.is_conc(x) and sv.is_conc(y) and x == y)] +
                                      [sv.implies(inr, sv.cmp("==", rd(idx), a.get(idx)))])) for r, shp, rd in cands])
            yield "file=returned", goal

    def raises(self, ctx, case, inp, out):
        # a raising path is outside this property unless an input was written before the raise
        stores = _input_stores(out.state)
        if not stores:
            return True
        return sv.SV(z3.And(*[_infeasible(e) for e in stores]))

    def replay(self, case, clause, model, seed):
        import logging
        logging.disable(logging.CRITICAL)
        from contracts import C18_replay as R
        what = "file" if clause.startswith("file") else "frame"
        return R.run_entry(f"{self.module}.{self.qualname}", what, seed)


# ---- own units: the two anchored in-place mechanisms -------------------------------------------------------------


class GyrationFrame(Unit):
    module, qualname, prop = "PyMatterSim.static.shape", "gyration_tensor", PROP
    timeout = 10

    @property
    def name(self):
        return "own/gyration_tensor"

    def cases(self):
        return ["d=2", "d=3"]

    def setup(self, ctx, case):
        d = int(case[2])
        n = ctx.int("n")
        ctx.assume(n >= 1)
        pos = ctx.array("pos", (n, d), "float", origin="argument pos_group")
        return [pos], {}, {"pos": pos}

    def clause_names(self, case):
        return ["frame:no-store-event-on-an-input-cell"]

    def ensures(self, ctx, case, inp, out):
        stores = _input_stores(out.state)
        if not stores:
            yield "frame:no-store-event-on-an-input-cell", True
        for ev in stores:
            yield "frame:no-store-event-on-an-input-cell", _infeasible(ev)

    def raises(self, ctx, case, inp, out):
        stores = _input_stores(out.state)
        return True if not stores else sv.SV(z3.And(*[_infeasible(e) for e in stores]))

    def replay(self, case, clause, model, seed):
        import logging
        logging.disable(logging.CRITICAL)
        from contracts import C18_replay as R
        return R.run_entry("PyMatterSim.static.shape.gyration_tensor", "frame", seed, only_label=case[2] + "d")


class ConvertConfigurationAlias(Unit):
    """convert_configuration itself writes no input cell (engine proof).  That it hands out the snapshot's own position array when
    the bounds sum to zero and d = 3 is not a violation of the statement by itself; the alias pass carries that fact into the
    frame obligation of its callers (VolumeMatrix)."""
    module, qualname, prop = "PyMatterSim.neighbors.freud_neighbors", "convert_configuration", PROP
    timeout = 10

    @property
    def name(self):
        return "own/convert_configuration"

    def cases(self):
        return ["d=2", "d=3"]

    def setup(self, ctx, case):
        from contracts.common import Traj
        d = int(case[2])
        tr = Traj(ctx, d, T=1)
        sn = tr.snapshots()
        return [sn], {}, {"traj": tr}

    def clause_names(self, case):
        return ["frame:no-store-event-on-an-input-cell"]

    def ensures(self, ctx, case, inp, out):
        stores = _input_stores(out.state)
        if not stores:
            yield "frame:no-store-event-on-an-input-cell", True
        for ev in stores:
            yield "frame:no-store-event-on-an-input-cell", _infeasible(ev)

    def raises(self, ctx, case, inp, out):
        stores = _input_stores(out.state)
        return True if not stores else sv.SV(z3.And(*[_infeasible(e) for e in stores]))

    def replay(self, case, clause, model, seed):
        """a caller that perturbs the returned points (as VolumeMatrix does) must not change the snapshot"""
        import logging
        logging.disable(logging.CRITICAL)
        import sys
        import tempfile

        import numpy as np
        from contracts import C18_replay as R
        d = int(case[2])
        tmp = tempfile.mkdtemp(prefix="pyvc-c18.")
        try:
            for centred in (True, False):
                K = R.Kit(seed, tmp)
                sn = K.snaps(d, centred=centred)
                before = sn.snapshots[0].positions.copy()
                pts = K.mod("neighbors.freud_neighbors").convert_configuration(sn)[1]
                share = [n for n, p in enumerate(pts) if np.shares_memory(p, sn.snapshots[n].positions)]
                if clause.startswith("result-shares") and share:
                    pts[share[0]][0, 0] += 1.0
                    return {"ran": True, "failed": True, "from_model": False, "searched": 1,
                            "inputs": {"d": d, "boxbounds": sn.snapshots[0].boxbounds.tolist(), "nparticle": int(sn.snapshots[0].nparticle)},
                            "detail": f"convert_configuration returned snapshot.positions itself for frame {share[0]} (bounds sum to 0, d={d}): after `points[0,0] += 1` "
                                      f"snapshot.positions[0,0] went {before[0, 0]!r} -> {sn.snapshots[share[0]].positions[0, 0]!r}"}
                if not np.array_equal(before, sn.snapshots[0].positions):
                    return {"ran": True, "failed": True, "searched": 1, "detail": "convert_configuration modified snapshot.positions"}
            return {"ran": True, "failed": False, "searched": 2, "detail": "returned point arrays share no memory with the snapshots (centred and non-centred boxes)"}
        finally:
            import shutil
            shutil.rmtree(tmp, ignore_errors=True)


def _deep_arrays(v, depth=0):
    from pyvc.interp import Ref
    if depth > 5:
        return []
    if isinstance(v, A.Arr):
        return [v]
    if isinstance(v, (tuple, list)):
        return [x for y in v for x in _deep_arrays(y, depth + 1)]
    if isinstance(v, Ref):
        try:
            c = v.content
        except Exception:  # noqa
            return []
        if isinstance(c, (list, tuple)):
            return [x for y in c for x in _deep_arrays(y, depth + 1)]
        if isinstance(c, dict):
            return [x for y in c.values() for x in _deep_arrays(y, depth + 1)]
    return []


def _collect_units():
    import importlib
    units = []
    # units of the other contract modules present in this checkout (more exist after integration)
    for mod in ("C03", "C13", "C04", "C05", "C16", "C06", "C11", "C15", "C17", "C14", "C10", "C09", "C20", "C02", "C08", "C12"):   # long units first
        if not os.path.exists(os.path.join(VERIF, "contracts", mod + ".py")):
            continue
        try:
            m = importlib.import_module("contracts." + mod)
        except Exception:  # noqa  (a contract module that does not import is that property's problem)
            continue
        for u in getattr(m, "UNITS", []):
            if not getattr(u, "module", None) or not getattr(u, "qualname", None):
                continue
            if getattr(u, "prop", mod) != mod:
                continue        # a callee unit re-verified with that property: wrapped once, under its owner
            cs = list(u.cases())
            sel = _select_cases(mod, u, cs)
            units.append(FrameOf(u, mod, sel))
    return units + [GyrationFrame(), ConvertConfigurationAlias()]


def _select_cases(mod, u, cs):
    """all cases where cheap; for the large case products one case per distinct code path family (the frame verdict depends on
    the paths of the body, which the dimension / file / dtype splits select — not on the periodicity mask or the cell kind)"""
    if mod == "C02":
        return [c for c in cs if c.endswith("ppp=" + "1" * int(c[2])) or c.endswith("ppp=" + "0" * int(c[2]))]
    if mod == "C08":
        return cs[:]
    return cs


UNITS = _collect_units()

MANIFEST = {
    "text": "Purity of every function of the package, regenerated from the ASTs on each run. (1) A write-set/alias pass over all 127 functions and methods of PyMatterSim/{static,dynamic,neighbors,utils,reader,writer} (enumerated at check time, so a new function or a newly introduced in-place operation is covered automatically) proves per function that no store (item/attribute assignment, augmented assignment on a non-scalar, in-place method, out=, in-place numpy function, call of a repo function that writes a parameter) can reach storage reachable from a parameter, a mutable default argument or a constructor argument kept in self; that no module/class-level object that is ever written, no global statement, no written mutable default and no unnamed cross-method self state is used; that no random/clock value reaches anything but a logger call; and that every expression handed to to_csv/np.save/np.savetxt is the returned variable (or an element/projection of it) with no rebinding or store in between. (2) For every unit of the other contract modules in the checkout plus own units for gyration_tensor and convert_configuration, the real AST is executed symbolically (symbolic N, T) and every store event on an input cell must have an infeasible path condition, on returning and on raising paths; saved arrays equal returned arrays at a symbolic index. A potential store is only reported as a violation when a byte-comparison replay of the real function shows an input array changed.",
    "note": "The alias pass is a may-analysis under a trusted table of numpy/pandas/builtin view/in-place operations and believed scalar annotations; C-extension internals are assumed non-mutating; documented call-order state (S2.s2_results, NematicOrder.QIJ, DumpReader.snapshots) and auxiliary output files are named in the contract; process-global numpy print options are reported as observations. Findings on the pinned tree: gyration_tensor recentres the caller's array in place; VolumeMatrix perturbs snapshot.positions through the alias returned by convert_configuration (origin-centred 3-D box) and its np.save(matrixA, outputfile) has swapped arguments.",
}
