"""C17 — local order parameters (S2, tetrahedral, nematic, gyration) equal their definitions.

Functions under contract (real ASTs, re-read every run):
  PyMatterSim.static.shape.gyration_tensor
  PyMatterSim.static.pairentropy.s2_integral
  PyMatterSim.static.nematic.NematicOrder.tensor
  PyMatterSim.static.geometric.q8_tetrahedral
  PyMatterSim.static.pairentropy.S2.particle_s2
Specs are written from the property statement and docs/orderings.md (and the Wikipedia page the gyration
docstring cites), with a backend parameter M (pyvc.sv symbolic / pyvc.conc floats for the replays).
"""
import ast
import json
import os
import subprocess

from pyvc import arr as A
from pyvc import sv
from pyvc.sigma import Sum
from pyvc.vc import Unit

SHAPE = "PyMatterSim.static.shape"
PAIR = "PyMatterSim.static.pairentropy"
NEM = "PyMatterSim.static.nematic"
GEO = "PyMatterSim.static.geometric"


def _sum(xs):
    acc = 0
    for x in xs:
        acc = sv.add(acc, x)
    return acc


def _fr(x, default=None):
    if isinstance(x, bool):
        return float(x)
    if isinstance(x, (int, float)):
        return float(x)
    if isinstance(x, str):
        try:
            if "/" in x:
                a, b = x.split("/")
                return int(a) / int(b)
            return float(x)
        except ValueError:
            return default
    return default


def _model_array(model, name, shape, rng, lo=-3.0, hi=3.0):
    """numpy array from the function interpretation `name` of a solver model (missing entries: seeded random)"""
    import numpy as np
    out = np.array([rng.uniform(lo, hi) for _ in range(int(np.prod(shape)))], dtype=float).reshape(shape)
    ent = model.get(name) if isinstance(model, dict) else None
    used = False
    if isinstance(ent, dict):
        other = _fr(ent.get("else"))
        if other is not None and abs(other) < 1e6:
            out[...] = other
            used = True
        for e in ent.get("__func__") or []:
            idx, val = e[:-1], _fr(e[-1])
            if val is None or len(idx) != len(shape) or abs(val) > 1e6:
                continue
            try:
                if all(isinstance(i, int) and 0 <= i < s for i, s in zip(idx, shape)):
                    out[tuple(idx)] = val
                    used = True
            except TypeError:
                pass
    return out, used


# =====================================================================================================
# gyration tensor


def second_moment_spec(p, N, d):
    """S_mn = (1/N) sum_i (r_i,m - rbar_m)(r_i,n - rbar_n),  rbar = (1/N) sum_i r_i   (p(i, c): coordinate c of point i)"""
    mean = [sv.div(Sum(0, N, lambda t, c=c: p(t, c)), N) for c in range(d)]
    return [[sv.div(Sum(0, N, lambda t, m=m, n=n: sv.mul(sv.sub(p(t, m), mean[m]), sv.sub(p(t, n), mean[n]))), N)
             for n in range(d)] for m in range(d)]


def gyration_descriptors(lam, N, d, M=sv, log10=None, rg=None):
    """documented shape descriptors as functions of the ascending eigenvalues lam[0] <= lam[1] (<= lam[2]) of the
    gyration tensor (https://en.wikipedia.org/wiki/Gyration_tensor, cited by the docstring):
       Rg^2 = sum lam;  asphericity b = lam_3 - (lam_1 + lam_2)/2;  acylindricity c = lam_2 - lam_1;
       relative shape anisotropy kappa^2 = (b^2 + (3/4) c^2) / Rg^4;  fractal dimension = log10(N) / log10(Rg)"""
    tot = lam[0]
    for x in lam[1:]:
        tot = M.add(tot, x)
    rg_def = M.sqrt(tot)
    rg = rg_def if rg is None else rg      # symbolic clauses: (Rg^2)^2 on the returned Rg; Rg^2 = sum lam is its own clause
    c = M.sub(lam[1], lam[0])
    fd = M.div(log10(N), log10(rg_def))
    if d == 2:
        return [rg_def, c, fd]
    b = M.sub(lam[2], M.div(M.add(lam[0], lam[1]), 2))
    rg2 = M.mul(rg, rg)
    k2 = M.div(M.add(M.mul(b, b), M.mul(M.div(3, 4), M.mul(c, c))), M.mul(rg2, rg2))
    return [rg_def, b, c, k2, fd]


def _centred_square(p, N, c):
    mean_c = sv.div(Sum(0, N, lambda t: p(t, c)), N)
    return lambda t: sv.mul(sv.sub(p(t, c), mean_c), sv.sub(p(t, c), mean_c))


def gyration_lemmas():
    """sum_{t<k} (p(t,c) - mean_c)^2 >= 0 for every k >= 0, by induction on k (base: empty sum; step below), on the
    same terms the gyration unit uses (input array P as an uninterpreted function, symbolic N)"""
    import z3
    N, k = sv.integer("N"), sv.integer("k_ind")
    Pf = z3.Function("P", z3.IntSort(), z3.IntSort(), z3.RealSort())
    p = lambda t, c: sv.SV(Pf(sv.znum(t), sv.znum(c)))
    out = []
    for c in range(3):
        sq = _centred_square(p, N, c)
        out.append((f"lemma:sum-of-squares>=0:base:c={c}", sv.cmp(">=", Sum(0, 0, sq), 0)))
        out.append((f"lemma:sum-of-squares>=0:step:c={c}",
                    sv.implies(sv.and_(sv.cmp(">=", k, 0), sv.cmp(">=", Sum(0, k, sq), 0)), sv.cmp(">=", Sum(0, A.simp(sv.add(k, 1)), sq), 0))))
    return out


class Gyration(Unit):
    module = SHAPE
    qualname = "gyration_tensor"
    prop = "C17"
    timeout = 6

    def cases(self):
        return ["d=2", "d=3"]

    def setup(self, ctx, case):
        d = int(case[2])
        N = ctx.int("N")
        ctx.assume(N >= 2)
        P = ctx.array("P", (N, d), "float", origin="argument pos_group")
        rd = P.reader()          # bound to the content at call time (the function may store into its argument)
        inp = dict(d=d, N=N, P=P, p=lambda t, c: rd((t, c)))
        return [P], {}, inp

    def clause_names(self, case):
        d = int(case[2])
        names = ["returns-list-of-documented-length", "tensor-handed-to-eig=centred-second-moment-tensor", "tensor-symmetric",
                 "radius_of_gyration=sqrt(mean-squared-distance-to-centroid)", "radius_of_gyration=sqrt(sum-of-eigenvalues)",
                 "radius_of_gyration^2=sum-of-eigenvalues", "lemma:sum-of-eigenvalues>=0",
                 "acylindricity=lam2-lam1", "fractal_dimension=log10(N)/log10(Rg)"]
        if d == 3:
            names += ["asphericity=lam3-(lam1+lam2)/2", "shape_anisotropy=(b^2+3c^2/4)/(Rg^2)^2"]
        return names

    def ensures(self, ctx, case, inp, out):
        from pyvc.libext.C17 import eig_values, log10, sort_small, vieta_facts
        d, N, p = inp["d"], inp["N"], inp["p"]
        try:
            res = ctx.interp.iter_concrete(out.value)
        except Exception:
            res = None
        ok = res is not None and len(res) == (5 if d == 3 else 3) and all(sv.is_scalar(sv.norm(x)) for x in res)
        yield "returns-list-of-documented-length", bool(ok)
        eigs = [e for e in out.state.trace if e[0] == "eig"]
        if not ok or len(eigs) != 1:
            yield "tensor-handed-to-eig=centred-second-moment-tensor", False
            return
        RO = {"ring_only": True}
        T = eigs[0][1]
        S = second_moment_spec(p, N, d)
        yield ("tensor-handed-to-eig=centred-second-moment-tensor",
               sv.and_(*[sv.cmp("==", T.get((m, n)), S[m][n]) for m in range(d) for n in range(d)]), RO)
        yield "tensor-symmetric", sv.and_(*[sv.cmp("==", T.get((m, n)), T.get((n, m))) for m in range(d) for n in range(m + 1, d)]), RO
        # eigenvalues of the SPEC tensor (assumed eig contract instantiated on the spec tensor); the code's are EIG(code
        # tensor) = EIG(spec tensor) by the first clause (congruence)
        lamS = eig_values(S, d)
        lam = sort_small(lamS)
        vieta = sv.and_(*vieta_facts(S, d, lamS))
        atoms = list(lamS) + [S[m][n] for m in range(d) for n in range(m, d)]

        def G(goal, extra=()):
            return sv.generalize(goal, atoms + list(extra))[0]
        trS = _sum([S[c][c] for c in range(d)])
        tot = _sum(lam)
        # Rg = sqrt((1/N) sum_i |r_i - rbar|^2): sum of the sorted eigenvalues = trace (Vieta) = sum_c S_cc
        yield "radius_of_gyration=sqrt(mean-squared-distance-to-centroid)", G(sv.implies(vieta, sv.cmp("==", res[0], sv.sqrt(trS))))
        want = gyration_descriptors(lam, N, d, M=sv, log10=log10, rg=res[0])
        if d == 3:
            names = ["radius_of_gyration=sqrt(sum-of-eigenvalues)", "asphericity=lam3-(lam1+lam2)/2", "acylindricity=lam2-lam1",
                     "shape_anisotropy=(b^2+3c^2/4)/(Rg^2)^2", "fractal_dimension=log10(N)/log10(Rg)"]
        else:
            names = ["radius_of_gyration=sqrt(sum-of-eigenvalues)", "acylindricity=lam2-lam1", "fractal_dimension=log10(N)/log10(Rg)"]
        for k, nm in enumerate(names):
            yield nm, sv.cmp("==", res[k], want[k]), RO
        # Rg^2 = sum lam (so that (Rg^2)^2 in the anisotropy is (sum lam)^2): sqrt(x)^2 = x for x >= 0, and x = trace >= 0
        yield "radius_of_gyration^2=sum-of-eigenvalues", G(sv.implies(sv.cmp(">=", tot, 0), sv.cmp("==", sv.mul(res[0], res[0]), tot)))
        # sum_t (p(t,c) - mean_c)^2 >= 0: induction on the upper bound, proved once on the same terms in extra_checks
        # (lemma C17:lemma:sum-of-squares>=0:base/step); used here at the upper bound N
        facts = [sv.cmp(">=", Sum(0, N, _centred_square(p, N, c)), 0) for c in range(d)]
        sums = [Sum(0, N, _centred_square(p, N, c)) for c in range(d)]
        yield ("lemma:sum-of-eigenvalues>=0",
               sv.generalize(sv.implies(sv.and_(vieta.__and__(sv.cmp(">=", N, 2)), *facts), sv.cmp(">=", tot, 0)), list(lamS) + sums)[0])

    def replay(self, case, clause, model, seed):
        return _replay_gyration(case, clause, model, seed)


def _gyration_reference(P):
    import math
    import numpy as np
    N, d = P.shape
    c = np.zeros(d)
    for i in range(N):
        c += P[i]
    c /= N
    S = np.zeros((d, d))
    for i in range(N):
        q = P[i] - c
        for m in range(d):
            for n in range(d):
                S[m, n] += q[m] * q[n]
    S /= N
    lam = sorted(float(x) for x in np.linalg.eigvalsh(S))
    rg2 = sum(lam)
    rg = math.sqrt(max(rg2, 0.0))
    cyl = lam[1] - lam[0]
    with np.errstate(all="ignore"):
        fd = float(np.log10(N) / np.log10(rg)) if rg > 0 else float("nan")
    if d == 2:
        return [rg, cyl, fd], S
    b = lam[2] - 0.5 * (lam[0] + lam[1])
    k2 = (b * b + 0.75 * cyl * cyl) / (rg2 * rg2) if rg2 > 0 else float("nan")
    return [rg, b, cyl, k2, fd], S


def _replay_gyration(case, clause, model, seed):
    import importlib
    import math
    import random
    import numpy as np
    mod = importlib.import_module(SHAPE)
    d = int(case[2])
    rng = random.Random(seed)
    tried = 0
    for k in range(300):
        if k == 0:
            N = model.get("N") if isinstance(model.get("N"), int) else 3
            N = max(2, min(int(N), 40))
            P, _ = _model_array(model, "P", (N, d), rng)
        else:
            N = rng.choice([2, 2, 3, 4, 5, 7, 12, 30])
            P = np.array([[rng.uniform(-4, 4) * (1 + 3 * (c == 0)) for c in range(d)] for _ in range(N)]) + rng.uniform(-50, 50)
            if k % 17 == 3:
                P[:, 1] = P[:, 0] * 0.5 + 1.0       # collinear cloud
        want, S = _gyration_reference(P.copy())
        if not (want[0] > 1e-6 and abs(want[0] - 1.0) > 1e-3):
            continue    # log10(Rg) = 0 or Rg = 0: the fractal dimension is a division by zero (A1)
        tried += 1
        try:
            with np.errstate(all="ignore"):
                got = mod.gyration_tensor(P.copy())
        except Exception as e:
            return {"ran": True, "failed": True, "inputs": {"pos_group": P.tolist()}, "detail": f"raises {type(e).__name__}: {e}"}
        if not isinstance(got, (list, tuple)) or len(got) != len(want):
            return {"ran": True, "failed": True, "inputs": {"pos_group": P.tolist()}, "detail": f"returned {type(got).__name__} of length {len(got) if hasattr(got, '__len__') else None}, documented length {len(want)}"}
        for j, (g, w) in enumerate(zip(got, want)):
            g = complex(g)
            scale = 1.0 + abs(w)
            if abs(g.imag) > 1e-9 or not (abs(g.real - w) <= 1e-7 * scale + 1e-7 * float(np.abs(S).max())):
                return {"ran": True, "failed": True, "from_model": k == 0, "searched": tried, "inputs": {"pos_group": P.tolist()},
                        "detail": f"descriptor #{j}: got {g}, definition gives {w}", "got": [str(x) for x in got], "expected": want}
    return {"ran": True, "failed": False, "searched": tried, "detail": "real gyration_tensor agrees with the definitions on model and seeded inputs"}


# =====================================================================================================
# s2_integral: trapezoid rule of (g ln g - g + 1) r^(d-1)


def s2_integrand(g, r, d, M=sv):
    y = M.add(M.sub(M.mul(g, M.log(g)), g), 1)
    return M.mul(y, M.power(r, d - 1))


def trapezoid(y, x, n, M=sv):
    """sum_{k=0}^{n-2} (x_{k+1} - x_k) (y_{k+1} + y_k) / 2"""
    def body(k):
        k1 = M.add(k, 1)
        return M.div(M.mul(M.sub(x(k1), x(k)), M.add(y(k1), y(k))), 2)
    return M.Sum(0, M.sub(n, 1), body)


class _SvM:
    """pyvc.sv with Sum (symbolic backend for spec functions that need big operators)"""
    def __getattr__(self, name):
        if name == "Sum":
            return lambda lo, hi, f: Sum(lo, A.simp(hi) if isinstance(hi, sv.SV) else hi, lambda t: f(A.simp(t) if isinstance(t, sv.SV) else t))
        return getattr(sv, name)


SVM = _SvM()


class S2Integral(Unit):
    module = PAIR
    qualname = "s2_integral"
    prop = "C17"
    timeout = 6

    def cases(self):
        return ["d=2", "d=3"]

    def setup(self, ctx, case):
        d = int(case[2])
        n = ctx.int("nbins")
        ctx.assume(n >= 2)
        g = ctx.array("g", (n,), "float", origin="argument gr")
        r = ctx.array("r", (n,), "float", origin="argument gr_bins")
        k = ctx.int("k")
        return [g, r, d], {}, dict(d=d, n=n, g=g.reader(), r=r.reader(), garr=g, rarr=r)

    def clause_names(self, case):
        return ["result=trapezoid-integral-of-(g ln g - g + 1) r^(d-1)", "frame:inputs-not-written"]

    def ensures(self, ctx, case, inp, out):
        d, n, g, r = inp["d"], inp["n"], inp["g"], inp["r"]
        want = trapezoid(lambda k: s2_integrand(g((A.simp(k),)), r((A.simp(k),)), d), lambda k: r((A.simp(k),)), n, M=SVM)
        res = out.value
        yield "result=trapezoid-integral-of-(g ln g - g + 1) r^(d-1)", (sv.cmp("==", res, want) if sv.is_scalar(sv.norm(res)) else False)
        stores = [e for e in out.state.events if e[0] == "store" and e[1] in (inp["garr"].sid, inp["rarr"].sid)]
        yield "frame:inputs-not-written", len(stores) == 0

    def replay(self, case, clause, model, seed):
        return _replay_s2_integral(case, clause, model, seed)


def _replay_s2_integral(case, clause, model, seed):
    import importlib
    import math
    import random
    import numpy as np
    from pyvc import conc
    mod = importlib.import_module(PAIR)
    d = int(case[2])
    rng = random.Random(seed)
    for k in range(200):
        n = rng.choice([2, 3, 5, 8, 40])
        if k == 0 and isinstance(model.get("nbins"), int):
            n = max(2, min(model["nbins"], 60))
        g = np.array([rng.uniform(0.05, 3.0) for _ in range(n)])
        r = np.cumsum(np.array([rng.uniform(0.01, 0.5) for _ in range(n)]))
        if k == 0:
            gm, _ = _model_array(model, "g", (n,), rng, 0.05, 3.0)
            rm, _ = _model_array(model, "r", (n,), rng, 0.05, 3.0)
            if np.all(gm > 0):
                g, r = gm, rm
        keep = (g.copy(), r.copy())
        try:
            got = float(mod.s2_integral(g, r, d))
        except Exception as e:
            return {"ran": True, "failed": True, "inputs": {"gr": keep[0].tolist(), "gr_bins": keep[1].tolist(), "ndim": d},
                    "detail": f"raises {type(e).__name__}: {e}"}
        y = [(keep[0][j] * math.log(keep[0][j]) - keep[0][j] + 1) * keep[1][j] ** (d - 1) for j in range(n)]
        want = sum((keep[1][j + 1] - keep[1][j]) * (y[j + 1] + y[j]) / 2 for j in range(n - 1))
        if not conc.close(got, want, rel=1e-9, abs_=1e-11):
            return {"ran": True, "failed": True, "from_model": k == 0, "searched": k + 1, "inputs": {"gr": keep[0].tolist(), "gr_bins": keep[1].tolist(), "ndim": d},
                    "detail": f"got {got}, trapezoid integral of (g ln g - g + 1) r^(d-1) is {want}"}
        if not (np.array_equal(keep[0], g) and np.array_equal(keep[1], r)):
            return {"ran": True, "failed": True, "inputs": {"gr": keep[0].tolist()}, "detail": "an input array was modified"}
    return {"ran": True, "failed": False, "searched": 200}


# =====================================================================================================
# trajectories: Snapshots with a symbolic number T of frames, every frame with the same symbolic particle number N


RU = "PyMatterSim.reader.reader_utils"


def make_snapshots(ctx, name, T, N, d, typ=None):
    """Snapshots object whose frame list has symbolic length T; frame n is a SingleSnapshot with
    positions[i, c] = <name>_pos(n, i, c), particle_type[i] = <name>_type(n, i), hmatrix[a, b] = <name>_H(n, a, b);
    nparticle and boxlength are the same in every frame (the functions assert it)"""
    import z3
    from pyvc.interp import Ref, load_module, new_obj
    from pyvc.state import Content, cur
    I, Rr = z3.IntSort(), z3.RealSort()
    posf = z3.Function(name + "_pos", I, I, I, Rr)
    typf = z3.Function(name + "_type", I, I, I)
    hf = z3.Function(name + "_H", I, I, I, Rr)
    lf = z3.Function(name + "_L", I, Rr)
    cls = load_module(RU).get_class("SingleSnapshot")
    origin = ctx.state.origin
    inputs = set()

    def pos(n, i, c):
        return sv.SV(posf(sv.znum(n), sv.znum(i), sv.znum(c)))

    raw_typ = lambda n, i: sv.SV(typf(sv.znum(n), sv.znum(i)))
    typ = typ or raw_typ

    def H(n, a, b):
        return sv.SV(hf(sv.znum(n), sv.znum(a), sv.znum(b)))

    def L(c):
        return sv.SV(lf(sv.znum(c)))

    def frame(n):
        n = A.simp(n) if isinstance(n, sv.SV) else n
        P = A.new_arr((N, d), lambda idx: pos(n, idx[0], idx[1]), "float", input=name + "_pos")
        attrs = dict(timestep=sv.SV(z3.Function(name + "_ts", I, I)(sv.znum(n))), nparticle=N, positions=P,
                     particle_type=A.new_arr((N,), lambda idx: typ(n, idx[0]), "int", input=name + "_type"),
                     boxlength=A.new_arr((d,), lambda idx: L(idx[0]), "float", input=name + "_L"),
                     boxbounds=None, realbounds=None,
                     hmatrix=A.new_arr((d, d), lambda idx: H(n, idx[0], idx[1]), "float", input=name + "_H"))
        for v in attrs.values():
            if isinstance(v, A.Arr):
                origin[v.sid] = f"field of input trajectory {name}"
                inputs.add(v.sid)
        return new_obj(cls, attrs, frozen=True)
    lst = Ref(cur().alloc(Content("list", A.SeqVal(T, frame))), "list")
    snaps = ctx.obj(RU, "Snapshots", dict(nsnapshots=T, snapshots=lst))
    return snaps, dict(pos=pos, typ=typ, H=H, L=L, input_sids=inputs)


def input_stores(out, inputs):
    return [e for e in out.state.events if e[0] == "store" and e[1] in inputs]


# =====================================================================================================
# nematic order (2-D)


def q_tensor(u, d, M=sv):
    """Q = (d u u^T - I) / 2 for a director u (list of d components)"""
    return [[M.div(M.sub(M.mul(d, M.mul(u[x], u[y])), 1 if x == y else 0), 2) for y in range(d)] for x in range(d)]


def trace_sq(Q, d, M=sv):
    acc = 0
    for x in range(d):
        for y in range(d):
            acc = M.add(acc, M.mul(Q[x][y], Q[y][x]))
    return acc


def scalar_order(Q, d, M=sv):
    """sqrt( d/(d-1) tr(Q Q) )"""
    return M.sqrt(M.mul(M.div(d, d - 1), trace_sq(Q, d, M)))


def neighbour_model(N):
    """abstract neighbour list: cn(n, i) >= 0 neighbours nb(n, i, k), k < cn, ids valid by construction (clamped into [0, N-1])"""
    import z3
    cnf = z3.Function("nb_cn", z3.IntSort(), z3.IntSort(), z3.IntSort())
    nbf = z3.Function("nb_id", z3.IntSort(), z3.IntSort(), z3.IntSort(), z3.IntSort())
    cn = lambda n, i: sv.SV(cnf(sv.znum(n), sv.znum(i)))
    nb = lambda n, i, k: sv.maxv(0, sv.minv(sv.SV(nbf(sv.znum(n), sv.znum(i), sv.znum(k))), sv.sub(N, 1)))

    def cg_spec(val_of, n, i):
        return sv.div(sv.add(val_of(i), Sum(0, cn(n, i), lambda k: val_of(nb(n, i, k)))), sv.add(1, cn(n, i)))
    return cn, nb, cg_spec


def neighbour_diag_sums(pos, nb, n, i, m, d=2):
    """S_xx(m) = sum_{k<m} Q_xx(nb(n,i,k)) for the raw tensor Q = (d u u^T - I)/2"""
    raw = lambda j: q_tensor([pos(n, j, c) for c in range(d)], d)
    return [Sum(0, m, lambda k, x=x: raw(nb(n, i, k))[x][x]) for x in range(d)]


def nematic_lemmas():
    """sum_{k<m} tr Q(nb_k) = 0 for unit directors, by induction on m (base m = 0; step uses the unit-director
    precondition at particle nb(n0, i0, m)); on the same terms as the neighbour-averaged unit"""
    import z3
    N, n0, i0, m = sv.integer("N"), sv.integer("n0"), sv.integer("i0"), sv.integer("m_ind")
    posf = z3.Function("ori_pos", z3.IntSort(), z3.IntSort(), z3.IntSort(), z3.RealSort())
    pos = lambda n, i, c: sv.SV(posf(sv.znum(n), sv.znum(i), sv.znum(c)))
    cn, nb, _ = neighbour_model(N)
    S = lambda mm: neighbour_diag_sums(pos, nb, n0, i0, mm)
    j = nb(n0, i0, m)
    unit = sv.cmp("==", sv.add(sv.mul(pos(n0, j, 0), pos(n0, j, 0)), sv.mul(pos(n0, j, 1), pos(n0, j, 1))), 1)
    base = sv.cmp("==", _sum(S(0)), 0)
    step = sv.implies(sv.and_(sv.cmp(">=", m, 0), sv.cmp("==", _sum(S(m)), 0), unit), sv.cmp("==", _sum(S(A.simp(sv.add(m, 1)))), 0))
    return [("lemma:neighbour-sum-of-traces=0:base", base), ("lemma:neighbour-sum-of-traces=0:step", step)]


class Nematic(Unit):
    module = NEM
    qualname = "NematicOrder.tensor"
    prop = "C17"
    timeout = 8
    solver_opts = {"unfold": False, "ext_limit": 120}      # no clause here needs to unfold a neighbour sum; extensionality instances stay on

    def cases(self):
        return [f"{nb}/{sc}" for nb in ("raw", "neighbour-averaged") for sc in ("trace", "eigenvalue")]

    def _summaries(self, inp):
        def spatial_average(interp, args, kwargs):
            """callee contract of utils.coarse_graining.spatial_average (C16): out[n, i, ...] =
            (in[n, i, ...] + sum_{k < cn(n,i)} in[n, nb(n,i,k), ...]) / (1 + cn(n,i)) for the neighbour list of the file"""
            from pyvc.state import cur
            a = kwargs.get("input_property", args[0] if args else None)
            cur().require(isinstance(kwargs.get("neighborfile", args[1] if len(args) > 1 else ""), str), "call:spatial_average:pre")
            # the call normalised against spatial_average's real signature (input_property, neighborfile, Nmax, outputfile): the
            # neighbour file and the neighbour cap are the ones the caller of tensor() passed (a dropped keyword shows the default here)
            nf_got = args[1] if len(args) > 1 else kwargs.get("neighborfile", "")
            nmax_got = args[2] if len(args) > 2 else kwargs.get("Nmax", 30)
            cur().require(nf_got == "neighbors.dat", "call:spatial_average:neighborfile=the-file-given-to-tensor()")
            cur().require(sv.cmp("==", nmax_got, inp["Nmax"]), "call:spatial_average:Nmax=the-Nmax-given-to-tensor()")
            inp["cg_called_with"] = (a, nmax_got)
            r = a.reader()
            import z3
            # the callee's result is an opaque array CG(n, i, x, y); its postcondition (the neighbour mean of the array
            # handed over) is instantiated by the clauses at the frame / particle they talk about
            cgf = z3.Function("CG", *([z3.IntSort()] * len(a.shape)), z3.RealSort())
            raw_out = lambda idx: sv.SV(cgf(*[sv.znum(x) for x in idx]))
            out = raw_out
            if a.ndim == 4 and A.dim_conc(a.shape[2]) and a.shape[2] == a.shape[3]:
                # derived from the callee contract: the neighbour mean of tensors that are symmetric in their last two
                # axes is symmetric (entry (x,y) and (y,x) are the same function of equal inputs).  Symmetry of the input
                # is checked at an arbitrary frame / particle (side obligation), then encoded structurally.
                nn, jj = sv.fresh_int("sn"), sv.fresh_int("sj")
                sym = sv.and_(*[sv.cmp("==", r((nn, jj, x, y)), r((nn, jj, y, x))) for x in range(a.shape[2]) for y in range(x + 1, a.shape[2])])
                cur().require(sv.implies(sv.and_(sv.cmp(">=", nn, 0), sv.cmp("<", nn, a.shape[0]), sv.cmp(">=", jj, 0), sv.cmp("<", jj, a.shape[1])), sym),
                              "call:spatial_average:input-symmetric")
                out = lambda idx: raw_out(tuple(idx[:2]) + ((idx[2], idx[3]) if (sv.is_conc(idx[2]) and sv.is_conc(idx[3]) and idx[2] <= idx[3]) else (idx[3], idx[2])))
            inp["cg_post"] = lambda idx: sv.cmp("==", out(idx), inp["cg_spec"](lambda j: r((idx[0], j) + tuple(idx[2:])), idx[0], idx[1]))
            return A.new_arr(a.shape, out, "float")
        return {"PyMatterSim.utils.coarse_graining.spatial_average": spatial_average}

    def setup(self, ctx, case):
        import z3
        nbm, sc = case.split("/")
        d = 2
        T, N = ctx.int("T"), ctx.int("N")
        ctx.assume(T >= 1)
        ctx.assume(N >= 1)
        snaps, acc = make_snapshots(ctx, "ori", T, N, d)
        n0, i0 = ctx.int("n0"), ctx.int("i0")
        cn, nb, cg_spec = neighbour_model(N)
        Nmax = ctx.int("Nmax")          # the caller's neighbour cap: symbolic, so that it cannot coincide with a default
        ctx.assume(Nmax >= 1)
        inp = dict(d=d, T=T, N=N, acc=acc, n0=n0, i0=i0, nbm=nbm, sc=sc, cg_spec=cg_spec, cn=cn, nb=nb, Nmax=Nmax)
        ctx.interp.summaries.update(self._summaries(inp))
        ctx.assume(cn(n0, i0) >= 0)
        obj = ctx.obj(NEM, "NematicOrder", dict(orientations=snaps, snapshots=None, QIJ=0))
        inp["self"] = obj
        kwargs = dict(ndim=2, neighborfile=("neighbors.dat" if nbm != "raw" else ""), Nmax=Nmax, eigvals=(sc == "eigenvalue"), outputfile="out")
        return [obj], kwargs, inp

    def clause_names(self, case):
        nbm, sc = case.split("/")
        names = ["result-shape=[nsnapshots,nparticle]", "Q-tensor(stored,saved)=(d u u^T - I)/2" + ("-neighbour-averaged" if nbm != "raw" else ""),
                 "frame:trajectory-not-written", "result-saved-to-file"]
        names.append("scalar=sqrt(d/(d-1) tr Q^2)" if sc == "trace" else "scalar=2*largest-eigenvalue-of-Q")
        names += ["lemma:Q-symmetric-traceless-for-unit-director" + ("s(neighbour-mean)" if nbm != "raw" else ""),
                  "lemma:sqrt(d/(d-1) tr Q^2)=2*largest-eigenvalue(2D)"]
        if nbm != "raw":
            names += ["neighbour-average-called-on-raw-Q-tensor"]
        return names

    def Qspec(self, inp, n, i):
        d, acc = inp["d"], inp["acc"]
        raw = lambda j: q_tensor([acc["pos"](n, j, c) for c in range(d)], d)
        if inp["nbm"] == "raw":
            return raw(i)
        return [[inp["cg_spec"](lambda j, x=x, y=y: raw(j)[x][y], n, i) for y in range(d)] for x in range(d)]

    def ensures(self, ctx, case, inp, out):
        from pyvc.libext.C17 import eig_values, vieta_facts
        d, T, N, n0, i0 = inp["d"], inp["T"], inp["N"], inp["n0"], inp["i0"]
        res = out.value
        ok = isinstance(res, A.Arr) and res.ndim == 2
        yield "result-shape=[nsnapshots,nparticle]", (sv.and_(sv.cmp("==", res.shape[0], T), sv.cmp("==", res.shape[1], N)) if ok else False)
        if not ok:
            return
        inr = sv.and_(sv.cmp(">=", n0, 0), sv.cmp("<", n0, T), sv.cmp(">=", i0, 0), sv.cmp("<", i0, N))
        Q = self.Qspec(inp, n0, i0)
        RO = {"ring_only": True}
        # the tensor kept in self.QIJ and written by np.save
        stored = inp["self"].content.get("QIJ")
        saved = [e for e in out.state.trace if e[0] == "np.save" and isinstance(e[1], str) and "QIJ" in e[1]]
        conds = []
        for Qarr in [stored] + [e[2] for e in saved]:
            if not isinstance(Qarr, A.Arr) or Qarr.ndim != 4:
                conds.append(False)
                continue
            conds.append(sv.and_(*[sv.cmp("==", Qarr.get((n0, i0, x, y)), Q[x][y]) for x in range(d) for y in range(d)]))
        nm = [c for c in self.clause_names(case) if c.startswith("Q-tensor")][0]
        post = [inp["cg_post"]((n0, i0, x, y)) for x in range(d) for y in range(d)] if inp.get("cg_post") else []
        PO = {"assume": post, "solver_opts": {}}
        yield nm, (sv.implies(inr, sv.and_(*conds)) if len(saved) == 1 else False), PO
        yield "frame:trajectory-not-written", len(input_stores(out, inp["acc"]["input_sids"])) == 0
        rs = [e for e in out.state.trace if e[0] == "np.save" and isinstance(e[1], str) and "QIJ" not in e[1]]
        yield "result-saved-to-file", (sv.cmp("==", rs[0][2].get((n0, i0)), res.get((n0, i0))) if len(rs) == 1 else False), RO
        got = res.get((n0, i0))
        # the scalar clauses use the Q-tensor clause above (stored tensor = Q) as a hypothesis; the entries of Q are then
        # generalised to fresh constants (universal generalisation keeps the query small)
        # "for every matrix q: stored tensor = q  =>  result = f(q)"; with the clause above (stored tensor = Q) this is
        # result = f(Q); stating it over fresh constants keeps the query small
        q = [[sv.real(f"q_{x}{y}") for y in range(d)] for x in range(d)]
        hyp = sv.and_(inr, *[sv.cmp("==", stored.get((n0, i0, x, y)), q[x][y]) for x in range(d) for y in range(d)]) if isinstance(stored, A.Arr) and stored.ndim == 4 else False
        if inp["sc"] == "trace":
            yield "scalar=sqrt(d/(d-1) tr Q^2)", sv.implies(hyp, sv.cmp("==", got, scalar_order(q, d)))
        else:
            lam = eig_values(q, d)
            yield "scalar=2*largest-eigenvalue-of-Q", sv.implies(hyp, sv.cmp("==", got, sv.mul(2, sv.maxv(lam[0], lam[1]))))
        u = [inp["acc"]["pos"](n0, i0, c) for c in range(d)]
        unit = sv.cmp("==", _sum([sv.mul(x, x) for x in u]), 1)
        if inp["nbm"] == "raw":
            yield ("lemma:Q-symmetric-traceless-for-unit-director",
                   sv.implies(unit, sv.and_(sv.cmp("==", Q[0][1], Q[1][0]), sv.cmp("==", sv.add(Q[0][0], Q[1][1]), 0))))
        else:
            # sum_k tr Q(nb_k) = 0 over the cn neighbours: lemma C17:lemma:neighbour-sum-of-traces=0 (induction, extra_checks)
            Sd = neighbour_diag_sums(inp["acc"]["pos"], inp["nb"], n0, i0, inp["cn"](n0, i0))
            hyp2 = sv.and_(unit, sv.cmp(">=", inp["cn"](n0, i0), 0), sv.cmp("==", _sum(Sd), 0))
            goal = sv.implies(hyp2, sv.and_(sv.cmp("==", Q[0][1], Q[1][0]), sv.cmp("==", sv.add(Q[0][0], Q[1][1]), 0)))
            yield "lemma:Q-symmetric-traceless-for-unit-directors(neighbour-mean)", sv.generalize(goal, Sd)[0], {"solver_opts": {}}
        # for symmetric traceless 2x2 Q = [[a, b], [b, -a]] with eigenvalues l0, l1 (assumed eig contract: l0 + l1 = tr = 0,
        # l0 l1 = det = -(a^2 + b^2)):  sqrt(2 tr Q^2) = 2 max(l0, l1)
        a, b, l0, l1 = sv.real("qa"), sv.real("qb"), sv.real("l0"), sv.real("l1")
        Qg = [[a, b], [b, sv.neg(a)]]
        yield ("lemma:sqrt(d/(d-1) tr Q^2)=2*largest-eigenvalue(2D)",
               sv.implies(sv.and_(*vieta_facts(Qg, 2, [l0, l1])), sv.cmp("==", scalar_order(Qg, 2), sv.mul(2, sv.maxv(l0, l1)))), {"solver_opts": {}})
        if inp["nbm"] != "raw":
            a, nmax = inp.get("cg_called_with", (None, None))
            rawQ = q_tensor([inp["acc"]["pos"](n0, i0, c) for c in range(d)], d)
            okc = isinstance(a, A.Arr) and a.ndim == 4
            yield ("neighbour-average-called-on-raw-Q-tensor",
                   (sv.implies(inr, sv.and_(*[sv.cmp("==", a.get((n0, i0, x, y)), rawQ[x][y]) for x in range(d) for y in range(d)])) if okc else False))

    def replay(self, case, clause, model, seed):
        return _replay_nematic(case, clause, model, seed)


def _replay_nematic(case, clause, model, seed):
    import importlib
    import math
    import os
    import random
    import tempfile
    import numpy as np
    nbm, sc = case.split("/")
    mod = importlib.import_module(NEM)
    ru = importlib.import_module(RU)
    rng = random.Random(seed)
    tmp = tempfile.mkdtemp(prefix="pyvc-c17-")
    cwd = os.getcwd()
    os.chdir(tmp)
    try:
        for k in range(60):
            T = rng.choice([1, 2, 3])
            N = rng.choice([1, 2, 3, 6, 11])
            ang = [[rng.uniform(-math.pi, math.pi) for _ in range(N)] for _ in range(T)]
            U = np.array([[[math.cos(a), math.sin(a)] for a in fr] for fr in ang])
            if k % 7 == 0:
                U[0, 0] = [1.0, 0.0]
            frames = [ru.SingleSnapshot(timestep=10 * n, nparticle=N, particle_type=np.ones(N, dtype=int), positions=U[n].copy(),
                                        boxlength=np.array([10.0, 10.0]), boxbounds=np.array([[0, 10.0], [0, 10.0]]), realbounds=None,
                                        hmatrix=np.diag([10.0, 10.0])) for n in range(T)]
            snaps = ru.Snapshots(nsnapshots=T, snapshots=frames)
            if k % 5 == 3:
                N = rng.choice([34, 40])        # more than 30 (the callee's default cap) neighbours per particle are possible
            nbmax = min(N - 1, 4) if k % 5 != 3 else N - 1
            if k % 5 == 3:
                ang = [[rng.uniform(-math.pi, math.pi) for _ in range(N)] for _ in range(T)]
                U = np.array([[[math.cos(a), math.sin(a)] for a in fr] for fr in ang])
                frames = [ru.SingleSnapshot(timestep=10 * n, nparticle=N, particle_type=np.ones(N, dtype=int), positions=U[n].copy(),
                                            boxlength=np.array([10.0, 10.0]), boxbounds=np.array([[0, 10.0], [0, 10.0]]), realbounds=None,
                                            hmatrix=np.diag([10.0, 10.0])) for n in range(T)]
                snaps = ru.Snapshots(nsnapshots=T, snapshots=frames)
            nbl = [[sorted(rng.sample([j for j in range(N) if j != i], rng.randint(0, nbmax))) for i in range(N)] for _ in range(T)]
            # the neighbour cap the caller passes: above every coordination number (documented use), or a small cap (first Nmax listed count)
            Nmax_arg = (N + 5) if k % 2 == 0 else rng.choice([1, 2, 3])
            nfile = ""
            if nbm != "raw":
                nfile = os.path.join(tmp, "nb.dat")
                with open(nfile, "w") as f:
                    for n in range(T):
                        f.write("id cn neighborlist\n")
                        for i in range(N):
                            f.write(" ".join(str(x) for x in [i + 1, len(nbl[n][i])] + [j + 1 for j in nbl[n][i]]) + "\n")
            obj = mod.NematicOrder(snaps, None)
            try:
                got = obj.tensor(ndim=2, neighborfile=nfile, Nmax=Nmax_arg, eigvals=(sc == "eigenvalue"), outputfile=os.path.join(tmp, "o"))
            except Exception as e:
                return {"ran": True, "failed": True, "inputs": {"directors": U.tolist(), "neighbours": nbl if nbm != "raw" else None},
                        "detail": f"raises {type(e).__name__}: {e}"}
            got = np.asarray(got)
            if got.shape != (T, N):
                return {"ran": True, "failed": True, "inputs": {"directors": U.tolist()}, "detail": f"result shape {got.shape}, documented [{T}, {N}]"}
            for n in range(T):
                for i in range(N):
                    def rawq(j):
                        u = U[n, j]
                        return (2 * np.outer(u, u) - np.eye(2)) / 2
                    Q = rawq(i)
                    if nbm != "raw":
                        listed = nbl[n][i][:Nmax_arg]          # read_neighbors delivers the first Nmax listed neighbours
                        for j in listed:
                            Q = Q + rawq(j)
                        Q = Q / (1 + len(listed))
                    Qs = np.asarray(obj.QIJ)[n, i]
                    if not np.allclose(Qs, Q, rtol=1e-9, atol=1e-11):
                        return {"ran": True, "failed": True, "searched": k + 1, "inputs": {"directors": U.tolist(), "neighbours": nbl if nbm != "raw" else None, "frame": n, "particle": i},
                                "detail": f"stored Q tensor {Qs.tolist()} differs from (d u u^T - I)/2{' neighbour-averaged' if nbm != 'raw' else ''} = {Q.tolist()}"}
                    want = math.sqrt(2.0 * float(np.trace(Q @ Q))) if sc == "trace" else 2.0 * float(max(np.linalg.eigvalsh((Q + Q.T) / 2)))
                    if not abs(complex(got[n, i]) - want) <= 1e-8 * (1 + abs(want)):
                        return {"ran": True, "failed": True, "searched": k + 1, "inputs": {"directors": U.tolist(), "neighbours": nbl if nbm != "raw" else None, "frame": n, "particle": i},
                                "detail": f"scalar order {got[n, i]} differs from the definition {want}"}
                    other = 2.0 * float(max(np.linalg.eigvalsh((Q + Q.T) / 2))) if sc == "trace" else math.sqrt(2.0 * float(np.trace(Q @ Q)))
                    if not abs(other - want) <= 1e-8 * (1 + abs(want)):
                        return {"ran": True, "failed": True, "inputs": {"directors": U.tolist()}, "detail": f"sqrt(2 tr Q^2) = {want} but 2 lambda_max = {other}"}
    finally:
        os.chdir(cwd)
        import shutil
        shutil.rmtree(tmp, ignore_errors=True)
    return {"ran": True, "failed": False, "searched": 60}


# =====================================================================================================
# minimum image (callee contract of utils.pbc.remove_pbc, property C02) as an opaque function of (row, cell, mask)

_PBC = {}


def pbc_component(c, row, Hflat, pflat):
    """component c of remove_pbc(row, H, ppp): the C02 contract value, used here only as a function of its arguments"""
    import z3
    d = len(row)
    key = (d, c)
    if key not in _PBC:
        _PBC[key] = z3.Function(f"MINIMG{d}_{c}", *([z3.RealSort()] * (d + d * d + d)), z3.RealSort())
    return sv.SV(_PBC[key](*[sv.zr(sv.norm(x)) for x in list(row) + list(Hflat) + list(pflat)]))


def pbc_summary(interp, args, kwargs):
    from pyvc.lib import _arr
    RIJ, H, ppp = [_arr(x, interp) for x in args[:3]]
    d = A.conc_dim(RIJ.shape[-1])
    Hl = [x for r in A.to_list(H) for x in r]
    pl = A.to_list(ppp)
    rr = RIJ.reader()
    if RIJ.ndim != 2:
        raise sv.EngineError("remove_pbc summary: (n, d) input expected")
    return A.new_arr(RIJ.shape, lambda idx: pbc_component(idx[1], [rr((idx[0], c)) for c in range(d)], Hl, pl), "float")


def min_image(acc, ppp_list, d, n, i, j):
    """D(i, j) in frame n: remove_pbc(r_j - r_i, H_n, ppp)"""
    row = [sv.sub(acc["pos"](n, j, c), acc["pos"](n, i, c)) for c in range(d)]
    Hl = [acc["H"](n, a, b) for a in range(d) for b in range(d)]
    return [pbc_component(c, row, Hl, ppp_list) for c in range(d)]


def vnorm(v, M=sv):
    acc = 0
    for x in v:
        acc = M.add(acc, M.mul(x, x))
    return M.sqrt(acc)


# =====================================================================================================
# tetrahedral order


def tetra_value(cosines, M=sv):
    """1 - (3/32) sum_{j<k} (cos psi_jk + 1/3)^2 over the six pairs of the four nearest neighbours"""
    acc = 0
    for c in cosines:
        t = M.add(c, M.div(1, 3))
        acc = M.add(acc, M.mul(t, t))
    return M.sub(1, M.mul(M.div(3, 32), acc))


class Tetrahedral(Unit):
    module = GEO
    qualname = "q8_tetrahedral"
    prop = "C17"
    loop_opts = {"cond_acc": "scatter-first"}     # results[n, i] += ...: one writer iteration per element
    timeout = 10
    solver_opts = {"uf_abstraction": True}
    summaries = {"PyMatterSim.utils.pbc.remove_pbc": pbc_summary}

    def setup(self, ctx, case):
        from pyvc.libext import C17 as LX
        del LX.CALLS[:]
        d = 3
        T, N = ctx.int("T"), ctx.int("N")
        ctx.assume(T >= 1)
        ctx.assume(N >= 5)          # the property's quantifier: all 3-D configurations with N >= 5
        snaps, acc = make_snapshots(ctx, "trj", T, N, d)
        ppp = ctx.array("ppp", (3,), "int", origin="argument ppp")
        pl = [ppp.get((c,)) for c in range(3)]
        for x in pl:
            ctx.assume(sv.or_(sv.cmp("==", x, 0), sv.cmp("==", x, 1)))
        n0, i0, m0 = ctx.int("n0"), ctx.int("i0"), ctx.int("m0")
        inp = dict(d=d, T=T, N=N, acc=acc, n0=n0, i0=i0, m0=m0, pl=pl, ppp=ppp)
        return [snaps], dict(ppp=ppp, outputfile=""), inp

    def clause_names(self, case):
        return ["result-shape=[nsnapshots,nparticle]", "value=1-(3/32)*sum_{j<k}(cos psi_jk+1/3)^2-over-the-selected-four",
                "selected-four-are-distinct-particles-other-than-i", "selected-four-are-the-four-nearest(no-other-particle-is-closer)",
                "lemma:all-six-angles-tetrahedral(cos=-1/3)=>value=1", "frame:trajectory-not-written"]

    def ensures(self, ctx, case, inp, out):
        from pyvc.libext import C17 as LX
        d, T, N, n0, i0, m0, acc, pl = inp["d"], inp["T"], inp["N"], inp["n0"], inp["i0"], inp["m0"], inp["acc"], inp["pl"]
        res = out.value
        ok = isinstance(res, A.Arr) and res.ndim == 2
        yield "result-shape=[nsnapshots,nparticle]", (sv.and_(sv.cmp("==", res.shape[0], T), sv.cmp("==", res.shape[1], N)) if ok else False)
        yield "frame:trajectory-not-written", len(input_stores(out, acc["input_sids"]) + [e for e in out.state.events if e[0] == "store" and e[1] == inp["ppp"].sid]) == 0
        cs = [sv.real(f"c{k}") for k in range(6)]
        yield ("lemma:all-six-angles-tetrahedral(cos=-1/3)=>value=1",
               sv.implies(sv.and_(*[sv.cmp("==", c, sv.div(-1, 3)) for c in cs]), sv.cmp("==", tetra_value(cs), 1)))
        kths = sorted(set(LX.CALLS))
        if not ok or len(kths) != 1:
            yield "value=1-(3/32)*sum_{j<k}(cos psi_jk+1/3)^2-over-the-selected-four", False
            return
        inr = sv.and_(sv.cmp(">=", n0, 0), sv.cmp("<", n0, T), sv.cmp(">=", i0, 0), sv.cmp("<", i0, N))
        D = lambda j: min_image(acc, pl, d, n0, i0, j)
        dist = lambda j: vnorm(D(j))
        # witnesses: the assumed argpartition contract instantiated on the SPEC distances of particle i0 in frame n0
        ap = LX.argpartition_terms(dist, N, kths[0])
        P = ap["first"]
        sel = A.compact(P, [sv.cmp("!=", p, i0) for p in P])       # the selected neighbours: those of the first kth+1 that are not i0
        a = [sel.fn(j) for j in range(4)]
        cosines = []
        for j in range(3):
            for k in range(j + 1, 4):
                Dj, Dk = D(a[j]), D(a[k])
                cosines.append(sv.div(_sum([sv.mul(x, y) for x, y in zip(Dj, Dk)]), sv.mul(dist(a[j]), dist(a[k]))))
        facts = list(ap["facts"])
        yield ("value=1-(3/32)*sum_{j<k}(cos psi_jk+1/3)^2-over-the-selected-four",
               sv.implies(inr, sv.cmp("==", res.get((n0, i0)), tetra_value(cosines))), {"assume": facts})
        # no two particles coincide (cos psi is undefined otherwise): instances at the indices the clauses talk about;
        # remove_pbc(0) = 0 (C02 clause (a) at r = 0)
        zero = sv.and_(*[sv.cmp("==", x, 0) for x in D(i0)])
        apart = lambda j: sv.implies(sv.cmp("!=", j, i0), sv.cmp(">", dist(j), 0))
        pre = facts + [zero, sv.cmp("==", dist(i0), 0)] + [apart(p) for p in P] + [apart(m0), ap["others"](i0), ap["others"](m0)]
        yield ("selected-four-are-distinct-particles-other-than-i",
               sv.implies(inr, sv.and_(sv.cmp(">=", sel.length, 4), *([sv.cmp("!=", x, i0) for x in a] + [sv.and_(sv.cmp(">=", x, 0), sv.cmp("<", x, N)) for x in a]
                                                                      + [sv.cmp("!=", a[j], a[k]) for j in range(4) for k in range(j)]))),
               {"assume": pre})
        other = sv.and_(sv.cmp(">=", m0, 0), sv.cmp("<", m0, N), sv.cmp("!=", m0, i0), *[sv.cmp("!=", m0, x) for x in a])
        # generalise the distances: the statement is about the order of the numbers dist(.)
        goal = sv.implies(sv.and_(inr, other, *pre), sv.and_(*[sv.cmp(">=", dist(m0), dist(x)) for x in P]))
        yield "selected-four-are-the-four-nearest(no-other-particle-is-closer)", sv.implies(sv.and_(inr, other), sv.and_(*[sv.cmp(">=", dist(m0), dist(x)) for x in a])), {"assume": pre}

    def replay(self, case, clause, model, seed):
        return _replay_tetra(case, clause, model, seed)


def _replay_tetra(case, clause, model, seed):
    import importlib
    import itertools
    import math
    import random
    import numpy as np
    mod = importlib.import_module(GEO)
    ru = importlib.import_module(RU)
    rng = random.Random(seed)

    def cell(L, tilt):
        H = np.diag(np.array(L, dtype=float))
        if tilt is not None:
            H[1, 0], H[2, 0], H[2, 1] = tilt        # LAMMPS lower-triangular cell: rows a, b, c
        return H

    def mk(frames, L, tilts=None):
        fs = [ru.SingleSnapshot(timestep=n, nparticle=len(P), particle_type=np.ones(len(P), dtype=int), positions=np.array(P, dtype=float),
                                boxlength=np.array(L, dtype=float), boxbounds=np.array([[0.0, x] for x in L]), realbounds=None,
                                hmatrix=cell(L, tilts[n] if tilts else None)) for n, P in enumerate(frames)]
        return ru.Snapshots(nsnapshots=len(fs), snapshots=fs)

    def reference(P, L, ppp, tilt=None):
        P = np.array(P, dtype=float)
        N = len(P)
        out = np.zeros(N)
        H = cell(L, tilt)
        Hinv = np.linalg.inv(H)
        for i in range(N):
            Dv = P - P[i]
            if tilt is None:
                for c in range(3):
                    if ppp[c]:
                        Dv[:, c] -= L[c] * np.round(Dv[:, c] / L[c])
            else:               # fractional rounding in the cell of THIS frame (the documented minimum-image convention, property C02)
                fr = Dv @ Hinv
                Dv = Dv - (np.rint(fr) * np.array(ppp)) @ H
            dist = np.sqrt((Dv ** 2).sum(axis=1))
            order = sorted((j for j in range(N) if j != i), key=lambda j: dist[j])[:4]
            s = 0.0
            for j, k in itertools.combinations(order, 2):
                s += (float(Dv[j] @ Dv[k]) / (dist[j] * dist[k]) + 1.0 / 3) ** 2
            out[i] = 1 - 3.0 / 32 * s
        return out
    cases = []
    # perfect tetrahedral coordination: centre + 4 vertices of a regular tetrahedron (N = 5, the smallest documented size)
    c = np.array([10.0, 10.0, 10.0])
    v = np.array([[1, 1, 1], [1, -1, -1], [-1, 1, -1], [-1, -1, 1]], float)
    cases.append(([np.vstack([c, c + v]).tolist()], [40.0, 40.0, 40.0], [1, 1, 1], {0: 1.0}))
    cases.append(([np.vstack([c, c + v, [[31.0, 3.0, 4.0]]]).tolist()], [40.0, 40.0, 40.0], [1, 1, 1], {0: 1.0}))
    Nm = model.get("N") if isinstance(model.get("N"), int) else None
    for k in range(40):
        N = rng.choice([5, 5, 6, 7, 9, 14]) if not (k == 0 and Nm) else max(5, min(Nm, 30))
        T = rng.choice([1, 2])
        L = [rng.uniform(4, 9) for _ in range(3)]
        frames = [[[rng.uniform(0, L[cc]) for cc in range(3)] for _ in range(N)] for _ in range(T)]
        cases.append((frames, L, [rng.randint(0, 1) for _ in range(3)] if k % 3 else [1, 1, 1], {}))
    # sheared trajectories: the tilt factors change from frame to frame at constant box lengths (the box-length asserts of the routine hold)
    for k in range(8):
        N = rng.choice([6, 9, 14])
        L = [rng.uniform(4, 7) for _ in range(3)]
        tilts = [(rng.uniform(-0.45, 0.45) * L[0], rng.uniform(-0.3, 0.3) * L[0], rng.uniform(-0.3, 0.3) * L[1]) for _ in range(3)]
        frames = []
        for t in tilts:
            H = cell(L, t)
            frames.append([(np.array([rng.random() for _ in range(3)]) @ H).tolist() for _ in range(N)])
        cases.append((frames, L, [1, 1, 1] if k % 2 == 0 else [1, 1, 0], {"tilts": tilts}))
    for n_case, (frames, L, ppp, exact) in enumerate(cases):
        tilts = exact.pop("tilts", None) if isinstance(exact, dict) else None
        snaps = mk(frames, L, tilts)
        keep = [np.array(P, dtype=float).copy() for P in frames]
        try:
            got = np.asarray(mod.q8_tetrahedral(snaps, ppp=np.array(ppp)))
        except Exception as e:
            return {"ran": True, "failed": True, "searched": n_case + 1, "inputs": {"positions": frames, "boxlength": L, "ppp": ppp, "N": len(frames[0])},
                    "detail": f"raises {type(e).__name__}: {e}"}
        if got.shape != (len(frames), len(frames[0])):
            return {"ran": True, "failed": True, "inputs": {"positions": frames}, "detail": f"result shape {got.shape}"}
        for n, P in enumerate(frames):
            want = reference(P, L, ppp, tilts[n] if tilts else None)
            for i in range(len(P)):
                w = exact.get(i, want[i]) if n == 0 else want[i]
                if not abs(got[n, i] - w) <= 1e-9 * (1 + abs(w)):
                    return {"ran": True, "failed": True, "searched": n_case + 1, "inputs": {"positions": frames, "boxlength": L, "tilt_per_frame(xy,xz,yz)": tilts, "ppp": ppp, "frame": n, "particle": i},
                            "detail": f"q_tetra = {got[n, i]}, definition over the four nearest neighbours gives {w}"}
            if not np.array_equal(keep[n], snaps.snapshots[n].positions):
                return {"ran": True, "failed": True, "inputs": {"positions": frames}, "detail": "positions of the trajectory were modified"}
    return {"ran": True, "failed": False, "searched": len(cases)}


# =====================================================================================================
# pair entropy


def masked_accumulation_summary(interp, s, frame, st, lo, hi, item_fn):
    """WRITTEN loop summary for `for ... in enumerate(<boolean-mask selection>): acc += f(item)`:
    acc_after = acc_before + sum_{t in [lo,hi)} [mask(t)] * delta(t), delta(t) obtained by executing the real body once at a
    symbolic underlying position t under the guard mask(t) with the accumulator havocked.  The summary is checked like
    the synthesised ones: the body is run again from state(t) and compared with state(t+1) (guard true), state(t) is
    compared with state(t+1) (guard false), state(lo) with the pre-state."""
    import z3
    from pyvc import loops as LP
    from pyvc.interp import Frame
    from pyvc.state import use_state
    guard = item_fn.guard
    where = f"{frame.fname}:{s.lineno}"
    targets = LP._assigned_names([ast.Assign(targets=[s.target], value=ast.Constant(0))])
    modified = LP._assigned_names(s.body)
    carried = [nm for nm in sorted(modified) if nm in frame.env and nm not in targets]
    if len(carried) != 1:
        raise sv.EngineError(f"masked accumulation summary: exactly one accumulator expected, found {carried}")
    acc = carried[0]
    pre = frame.env[acc]
    pre_heap = dict(st.heap)

    def run(env, t):
        fr = Frame(frame.module, dict(env), frame.fname)
        st2 = st.fork()
        st2.pc = list(st.pc) + [sv.zb(sv.cmp(">=", t, lo)), sv.zb(sv.cmp("<", t, hi)), sv.zb(guard(t))]
        st2.events = []
        with use_state(st2):
            interp.assign(s.target, item_fn(t), fr)
            outs = interp.exec_block_paths(s.body, fr, st2)
        normal = [(f, x) for f, x, o in outs if o[0] in ("normal", "continue")]
        for f, x, o in outs:
            if o[0] == "raise":
                st.side.append(LP._side_infeasible(x, f"loop-body-raises:{o[1]}", where))
            elif o[0] not in ("normal", "continue"):
                raise sv.EngineError("masked accumulation summary: body leaves the loop")
        if len(normal) != 1:
            raise sv.EngineError("masked accumulation summary: body forks")
        f, x = normal[0]
        touched = [sid for sid in x.heap if sid in pre_heap and x.heap[sid] is not pre_heap[sid]]
        if touched:
            raise sv.EngineError("masked accumulation summary: body stores into existing arrays")
        return f, x
    if not sv.is_scalar(sv.norm(pre)):
        raise sv.EngineError("masked accumulation summary: scalar initial value expected")
    # discovery: accumulator havocked
    t = sv.fresh_int("mt")
    h = sv.fresh_real("hacc")
    env = dict(frame.env)
    env[acc] = h
    f1, x1 = run(env, t)
    post = f1.env.get(acc)
    if not isinstance(post, A.Arr):
        raise sv.EngineError("masked accumulation summary: array-valued accumulator expected")
    with use_state(x1):
        shape = tuple(post.shape)
        idx = tuple(sv.fresh_int("ak") for _ in shape)
        delta = sv.sub(post.get(idx), h)
    dts = [z3.simplify(z) for z in LP._terms_of(delta)]
    if any(LP._contains_any(z, {h.t.get_id()}, set()) for z in dts) or any(LP._contains_any(z, {t.t.get_id()}, set()) for dd in shape for z in LP._terms_of(dd)):
        raise sv.EngineError("masked accumulation summary: not an accumulation")
    idz = [x.t for x in idx]

    def state_at(k):
        def fn(ix, k=k):
            pairs = [(a, sv.znum(b)) for a, b in zip(idz, ix)]
            return sv.add(pre, Sum(lo, k, lambda u: sv.ite(guard(u), LP._subst_val(delta, pairs + [(t.t, sv.znum(u))]), 0)))
        return A.new_arr(shape, fn, "float")
    # step check from state(t2)
    t2 = sv.fresh_int("mu")
    env2 = dict(frame.env)
    env2[acc] = state_at(t2)
    nxt = state_at(A.simp(sv.add(t2, 1)))
    f2, x2 = run(env2, t2)
    y = tuple(sv.fresh_int("ay") for _ in shape)
    rng = z3.And(*[sv.zb(sv.and_(sv.cmp(">=", a, 0), sv.cmp("<", a, dd))) for a, dd in zip(y, shape)])
    with use_state(x2):
        got = f2.env[acc]
        g_true = [z3.Implies(rng, g) for g in LP._eq_goals(got.get(y), nxt.get(y))] if isinstance(got, A.Arr) else [z3.BoolVal(False)]
    st.side.append(LP._SideGoal("loop-step", z3.And(*g_true), x2.all_assumptions(), where))
    cur_t = env2[acc]
    g_false = [z3.Implies(rng, g) for g in LP._eq_goals(cur_t.get(y), nxt.get(y))]
    st.side.append(LP._SideGoal("loop-step(guard-false)", z3.And(*g_false),
                                st.all_assumptions() + [sv.zb(sv.cmp(">=", t2, lo)), sv.zb(sv.cmp("<", t2, hi)), z3.Not(sv.zb(guard(t2)))], where))
    init = state_at(lo)
    st.side.append(LP._SideGoal("loop-init", z3.And(*[z3.Implies(rng, g) for g in LP._eq_goals(init.get(y), pre)]), st.all_assumptions(), where))
    frame.env[acc] = state_at(hi)
    for nm in sorted(modified | targets):
        if nm != acc:
            frame.env.pop(nm, None)      # last values of the body's temporaries are not provided


def gaussian(x, sigma, M=sv):
    """exp(-x^2 / (2 sigma^2)) / sqrt(2 pi sigma^2)"""
    s2 = M.mul(2, M.mul(sigma, sigma))
    return M.div(M.exp(M.neg(M.div(M.mul(x, x), s2))), M.sqrt(M.mul(s2, M.PI)))


def s2_summary(interp, args, kwargs):
    """callee contract of s2_integral (proved by its own unit): trapezoid integral of (g ln g - g + 1) r^(d-1)"""
    from pyvc.lib import _arr
    g, r = _arr(args[0], interp), _arr(args[1], interp)
    d = kwargs.get("ndim", args[2] if len(args) > 2 else 3)
    A.require_dim_eq(g.shape[0], r.shape[0], "call:s2_integral:pre")
    gr, rr = g.reader(), r.reader()
    return trapezoid(lambda k: s2_integrand(gr((A.simp(k),)), rr((A.simp(k),)), int(d)), lambda k: rr((A.simp(k),)), g.shape[0], M=SVM)


class ParticleS2(Unit):
    module = PAIR
    qualname = "S2.particle_s2"
    prop = "C17"
    timeout = 10
    solver_opts = {"uf_abstraction": True}
    summaries = {"PyMatterSim.utils.pbc.remove_pbc": pbc_summary, PAIR + ".s2_integral": s2_summary}
    loop_hints = {(PAIR + ".S2.particle_s2", "for", "<mask-selection>"): masked_accumulation_summary}     # any loop of the function over a boolean-mask selection

    def cases(self):
        return [f"d={d}/{g}" for d in (2, 3) for g in ("s2-only", "savegr")]

    def setup(self, ctx, case):
        d = int(case[2])
        savegr = case.endswith("savegr")
        T, N, K, nb = ctx.int("T"), ctx.int("N"), ctx.int("K"), ctx.int("ndelta")
        for c in (T >= 1, N >= 2, K >= 1, nb >= 2):
            ctx.assume(c)
        rd, rho = ctx.real("rdelta"), ctx.real("rho")
        ctx.assume(rd > 0)
        ctx.assume(rho > 0)
        snaps, acc = make_snapshots(ctx, "trj", T, N, d)
        raw_typ = acc["typ"]
        acc["typ"] = lambda n, i: sv.maxv(1, sv.minv(raw_typ(n, i), K))      # species ids are 1..K (by construction)
        snaps, acc2 = make_snapshots(ctx, "trj", T, N, d, typ=acc["typ"])
        acc2["typ"] = acc["typ"]
        acc = acc2
        sig = ctx.array("sigmas", (K, K), "float", origin="argument sigmas")
        ppp = ctx.array("ppp", (d,), "int", origin="argument ppp")
        pl = [ppp.get((c,)) for c in range(d)]
        for x in pl:
            ctx.assume(sv.or_(sv.cmp("==", x, 0), sv.cmp("==", x, 1)))
        obj = ctx.obj(PAIR, "S2", dict(snapshots=snaps, sigmas=sig, ppp=ppp, rdelta=rd, ndelta=nb, ndim=d, nparticle=N,
                                       boxvolume=sv.div(N, rho), rhototal=rho, s2_results=0))
        n0, i0, b0 = ctx.int("n0"), ctx.int("i0"), ctx.int("b0")
        inp = dict(d=d, T=T, N=N, K=K, nb=nb, rd=rd, rho=rho, acc=acc, sig=sig.reader(), sigarr=sig, pl=pl, ppp=ppp, self=obj, n0=n0, i0=i0, b0=b0, savegr=savegr)
        return [obj], dict(savegr=savegr, outputfile=("s2.npy" if savegr else "")), inp

    def clause_names(self, case):
        names = ["result-shape=[nsnapshots,nparticle]", "S2_i=-(d-1)*pi*rho*trapezoid((g ln g - g + 1) r^(d-1))-with-g-the-Gaussian-smeared-pair-distribution",
                 "lemma:others-enumeration-is-a-bijection-onto-{j!=i}", "lemma:r_max=(ndelta-1/2)*rdelta", "self.s2_results=returned", "frame:inputs-not-written"]
        if case.endswith("savegr"):
            names += ["particle_gr[n,i,b]=g_i(r_b)", "saved-files=returned-arrays"]
        return names

    # ---- the documented definition
    def g_spec(self, inp, n, i, b, rmax):
        """g_i(r_b) = (1/norm_b) sum_{j != i, |D_ij| < r_max} G_{sigma(t_i,t_j)}(r_b - |D_ij|); the particles j != i are
        enumerated as j(t) = t + [t >= i], t in [0, N-1) (a bijection onto {j != i}: lemma clause)"""
        d, N, acc, pl, rd, rho = inp["d"], inp["N"], inp["acc"], inp["pl"], inp["rd"], inp["rho"]
        rb = sv.add(sv.mul(b, rd), sv.div(rd, 2))
        norm_b = sv.mul(sv.mul(sv.mul(2, rb), rho), sv.PI) if d == 2 else sv.mul(sv.mul(sv.mul(4, sv.mul(rb, rb)), rho), sv.PI)
        ti = sv.sub(acc["typ"](n, i), 1)

        def term(t):
            j = sv.ite(sv.cmp("<", t, i), t, A.simp(sv.add(t, 1)))
            dist = vnorm(min_image(acc, pl, d, n, i, j))
            sigma = inp["sig"]((ti, sv.sub(acc["typ"](n, j), 1)))
            return sv.ite(sv.cmp("<", dist, rmax), gaussian(sv.sub(rb, dist), sigma), 0)
        return sv.div(Sum(0, A.simp(sv.sub(N, 1)), term), norm_b), rb

    def ensures(self, ctx, case, inp, out):
        d, T, N, nb, rd, rho, n0, i0, b0 = inp["d"], inp["T"], inp["N"], inp["nb"], inp["rd"], inp["rho"], inp["n0"], inp["i0"], inp["b0"]
        res = out.value
        pg = None
        if inp["savegr"]:
            ok = isinstance(res, tuple) and len(res) == 2 and isinstance(res[0], A.Arr) and isinstance(res[1], A.Arr) and res[0].ndim == 2 and res[1].ndim == 3
            if ok:
                res, pg = res
        else:
            ok = isinstance(res, A.Arr) and res.ndim == 2
        yield "result-shape=[nsnapshots,nparticle]", (sv.and_(sv.cmp("==", res.shape[0], T), sv.cmp("==", res.shape[1], N)) if ok else False)
        if not ok:
            return
        inr = sv.and_(sv.cmp(">=", n0, 0), sv.cmp("<", n0, T), sv.cmp(">=", i0, 0), sv.cmp("<", i0, N))
        # r_max = the largest bin centre = (ndelta - 1/2) rdelta (assumed max contract: attained at a witness position and
        # >= the last element; rdelta > 0)
        # (observed at the code's .max() call, not through a local name)
        rmax = sv.mul(sv.sub(nb, sv.div(1, 2)), rd)
        mx = [e for e in out.state.trace if e[0] == "minmax" and e[1] == "max"]
        rmax_code = mx[0][2] if len(mx) == 1 else None
        yield "lemma:r_max=(ndelta-1/2)*rdelta", (sv.cmp("==", rmax_code, rmax) if rmax_code is not None else len(mx) == 0), {"solver_opts": {}}
        # j(t) = t + [t >= i] maps [0, N-1) one-to-one onto {0..N-1} \ {i}
        t1, t2, j1 = sv.integer("t1"), sv.integer("t2"), sv.integer("j1")
        jt = lambda t: sv.ite(sv.cmp("<", t, i0), t, sv.add(t, 1))
        inv = sv.ite(sv.cmp("<", j1, i0), j1, sv.sub(j1, 1))
        rngt = lambda t: sv.and_(sv.cmp(">=", t, 0), sv.cmp("<", t, sv.sub(N, 1)))
        yield ("lemma:others-enumeration-is-a-bijection-onto-{j!=i}", sv.implies(inr, sv.and_(
            sv.implies(rngt(t1), sv.and_(sv.cmp(">=", jt(t1), 0), sv.cmp("<", jt(t1), N), sv.cmp("!=", jt(t1), i0))),
            sv.implies(sv.and_(rngt(t1), rngt(t2), sv.cmp("<", t1, t2)), sv.cmp("<", jt(t1), jt(t2))),
            sv.implies(sv.and_(sv.cmp(">=", j1, 0), sv.cmp("<", j1, N), sv.cmp("!=", j1, i0)), sv.and_(rngt(inv), sv.cmp("==", jt(inv), j1))))), {"solver_opts": {}})
        # S2_i: with r_max replaced by the code's value (equal by the lemma clause)
        rm = rmax_code if rmax_code is not None else rmax
        g = lambda b: self.g_spec(inp, n0, i0, b, rm)
        want = sv.mul(sv.mul(sv.mul(sv.neg(d - 1), sv.PI), rho),
                      trapezoid(lambda k: s2_integrand(g(k)[0], g(k)[1], d), lambda k: g(k)[1], nb, M=SVM))
        yield ("S2_i=-(d-1)*pi*rho*trapezoid((g ln g - g + 1) r^(d-1))-with-g-the-Gaussian-smeared-pair-distribution",
               sv.implies(inr, sv.cmp("==", res.get((n0, i0)), want)))
        stored = inp["self"].content.get("s2_results")
        yield "self.s2_results=returned", (sv.cmp("==", stored.get((n0, i0)), res.get((n0, i0))) if isinstance(stored, A.Arr) and stored.ndim == 2 else False)
        watch = set(inp["acc"]["input_sids"]) | {inp["sigarr"].sid, inp["ppp"].sid}
        yield "frame:inputs-not-written", len([e for e in out.state.events if e[0] == "store" and e[1] in watch]) == 0
        if inp["savegr"]:
            inb = sv.and_(sv.cmp(">=", b0, 0), sv.cmp("<", b0, nb))
            yield "particle_gr[n,i,b]=g_i(r_b)", sv.implies(sv.and_(inr, inb), sv.cmp("==", pg.get((n0, i0, b0)), g(b0)[0]))
            saves = [e for e in out.state.trace if e[0] == "np.save"]
            okk = len(saves) == 2 and saves[0][1] == "s2.npy" and saves[1][1] == "particle_gr.s2.npy"
            yield ("saved-files=returned-arrays", (sv.and_(sv.cmp("==", saves[0][2].get((n0, i0)), res.get((n0, i0))),
                                                         sv.cmp("==", saves[1][2].get((n0, i0, b0)), pg.get((n0, i0, b0)))) if okk else False))

    def replay(self, case, clause, model, seed):
        return _replay_particle_s2(case, clause, model, seed)


def _replay_particle_s2(case, clause, model, seed):
    import importlib
    import math
    import os
    import random
    import tempfile
    import numpy as np
    d = int(case[2])
    savegr = case.endswith("savegr")
    try:
        mod = importlib.import_module(PAIR)
    except Exception as e:
        return {"ran": True, "failed": True, "detail": f"module cannot be imported: {type(e).__name__}: {e}"}
    ru = importlib.import_module(RU)
    rng = random.Random(seed)
    tmp = tempfile.mkdtemp(prefix="pyvc-c17-")
    cwd = os.getcwd()
    os.chdir(tmp)
    try:
        for k in range(25):
            T = rng.choice([1, 2])
            N = rng.choice([2, 3, 5, 9])
            K = rng.choice([1, 2, 3])
            L = [rng.uniform(3, 6) for _ in range(d)]
            tilt = rng.uniform(-1.0, 1.0) if k % 3 == 0 else 0.0
            H = np.diag(L)
            H[1, 0] = tilt
            ppp = np.array([1] * d if k % 4 else [rng.randint(0, 1) for _ in range(d)])
            rdelta = rng.choice([0.02, 0.05, 0.11])
            ndelta = rng.choice([8, 25, 60])
            sig = np.array([[rng.uniform(0.08, 0.3) for _ in range(K)] for _ in range(K)])
            sig = (sig + sig.T) / 2 if k % 2 else sig         # also non-symmetric width matrices
            if k % 6 == 3:
                T = 3            # sheared trajectory below: the tilt changes from frame to frame at constant box lengths
            frames, types, Hs = [], [], []
            for n in range(T):
                Hn = H.copy()
                if k % 6 == 3 and n > 0:
                    Hn[1, 0] = rng.uniform(-1.2, 1.2)
                Hs.append(Hn)
                frac = np.array([[rng.random() for _ in range(d)] for _ in range(N)])
                frames.append(frac @ Hn)
                types.append(np.array([rng.randint(1, K) for _ in range(N)]))
            fs = [ru.SingleSnapshot(timestep=n, nparticle=N, particle_type=types[n].copy(), positions=frames[n].copy(), boxlength=np.array(L),
                                    boxbounds=np.array([[0.0, x] for x in L]), realbounds=None, hmatrix=Hs[n].copy()) for n in range(T)]
            snaps = ru.Snapshots(nsnapshots=T, snapshots=fs)
            inputs = {"positions": [f.tolist() for f in frames], "types": [t.tolist() for t in types], "hmatrix_per_frame": [h.tolist() for h in Hs], "ppp": ppp.tolist(),
                      "sigmas": sig.tolist(), "rdelta": rdelta, "ndelta": ndelta}
            try:
                with np.errstate(all="ignore"):
                    obj = mod.S2(snaps, sig.copy(), ppp.copy(), rdelta, ndelta)
                    got = obj.particle_s2(savegr=savegr, outputfile=("s2.npy" if savegr else ""))
            except Exception as e:
                return {"ran": True, "failed": True, "searched": k + 1, "inputs": inputs, "detail": f"raises {type(e).__name__}: {e}"}
            pg = None
            if savegr:
                if not (isinstance(got, tuple) and len(got) == 2):
                    return {"ran": True, "failed": True, "inputs": inputs, "detail": "savegr=True does not return (s2, particle_gr)"}
                got, pg = got
            got = np.asarray(got)
            if got.shape != (T, N):
                return {"ran": True, "failed": True, "inputs": inputs, "detail": f"result shape {got.shape}"}
            V = abs(np.linalg.det(H)) if tilt == 0.0 else float(np.prod(L))      # the code's density uses prod(boxlength)
            rho = N / float(np.prod(L))
            r = np.array([(b + 0.5) * rdelta for b in range(ndelta)])
            rmax = (ndelta - 0.5) * rdelta
            for n in range(T):
                Hn, Hinv = Hs[n], np.linalg.inv(Hs[n])          # the cell of THIS frame
                for i in range(N):
                    g = np.zeros(ndelta)
                    for j in range(N):
                        if j == i:
                            continue
                        dv = frames[n][j] - frames[n][i]
                        m = dv @ Hinv
                        m = m - np.round(m) * ppp
                        dv = m @ Hn
                        dist = math.sqrt(float(dv @ dv))
                        if dist < rmax:
                            s_ = sig[types[n][i] - 1, types[n][j] - 1]
                            g += np.exp(-(r - dist) ** 2 / (2 * s_ * s_)) / math.sqrt(2 * math.pi * s_ * s_)
                    g /= (2 * math.pi * rho * r) if d == 2 else (4 * math.pi * rho * r * r)
                    if pg is not None and not np.allclose(np.asarray(pg)[n, i], g, rtol=1e-9, atol=1e-300):
                        return {"ran": True, "failed": True, "searched": k + 1, "inputs": dict(inputs, frame=n, particle=i),
                                "detail": "particle_gr differs from the Gaussian-smeared pair distribution"}
                    with np.errstate(all="ignore"):
                        y = (g * np.log(g) - g + 1) * r ** (d - 1)
                    want = -(d - 1) * math.pi * rho * float(sum((r[b + 1] - r[b]) * (y[b + 1] + y[b]) / 2 for b in range(ndelta - 1)))
                    if math.isnan(want) and math.isnan(got[n, i]):
                        continue
                    if not abs(got[n, i] - want) <= 1e-8 * (1 + abs(want)):
                        return {"ran": True, "failed": True, "searched": k + 1, "inputs": dict(inputs, frame=n, particle=i),
                                "detail": f"S2 = {got[n, i]}, the definition gives {want}"}
                if not (np.array_equal(fs[n].positions, frames[n]) and np.array_equal(fs[n].particle_type, types[n])):
                    return {"ran": True, "failed": True, "inputs": inputs, "detail": "the trajectory was modified"}
    finally:
        os.chdir(cwd)
        import shutil
        shutil.rmtree(tmp, ignore_errors=True)
    return {"ran": True, "failed": False, "searched": 25}


class S2Init(Unit):
    """S2.__init__: the object invariant particle_s2 relies on (rho = N / V with V the product of the box lengths)"""
    module = PAIR
    qualname = "S2.__init__"
    prop = "C17"
    timeout = 10

    def cases(self):
        return ["d=2", "d=3"]

    def setup(self, ctx, case):
        from pyvc.interp import load_module, new_obj
        d = int(case[2])
        T, N, K = ctx.int("T"), ctx.int("N"), ctx.int("K")
        for c in (T >= 1, N >= 1, K >= 1):
            ctx.assume(c)
        snaps, acc = make_snapshots(ctx, "trj", T, N, d)
        for c in range(d):
            ctx.assume(acc["L"](c) > 0)
        sig = ctx.array("sigmas", (K, K), "float", origin="argument sigmas")
        ppp = ctx.array("ppp", (d,), "int", origin="argument ppp")
        rd, nb = ctx.real("rdelta"), ctx.int("ndelta")
        obj = new_obj(load_module(PAIR).get_class("S2"), {}, frozen=False)
        inp = dict(d=d, T=T, N=N, acc=acc, obj=obj, snaps=snaps, sig=sig, ppp=ppp, rd=rd, nb=nb)
        return [obj, snaps, sig, ppp, rd, nb], {}, inp

    def clause_names(self, case):
        return ["ndim=len(ppp)", "nparticle=N", "rhototal=N/prod(boxlength)", "inputs-kept", "s2_results-initialised", "frame:inputs-not-written"]

    def ensures(self, ctx, case, inp, out):
        d, N, acc = inp["d"], inp["N"], inp["acc"]
        c = inp["obj"].content
        yield "ndim=len(ppp)", sv.cmp("==", c.get("ndim", -1), d)
        yield "nparticle=N", sv.cmp("==", c.get("nparticle", -1), N)
        V = 1
        for k in range(d):
            V = sv.mul(V, acc["L"](k))
        rho = c.get("rhototal")
        yield "rhototal=N/prod(boxlength)", (sv.cmp("==", rho, sv.div(N, V)) if sv.is_scalar(sv.norm(rho)) and rho is not None else False)
        same = lambda a, b: (isinstance(a, A.Arr) and isinstance(b, A.Arr) and a.sid == b.sid)
        yield "inputs-kept", bool(same(c.get("sigmas"), inp["sig"]) and same(c.get("ppp"), inp["ppp"]) and getattr(c.get("snapshots"), "sid", None) == inp["snaps"].sid
                                  and c.get("rdelta") is inp["rd"] and c.get("ndelta") is inp["nb"])
        yield "s2_results-initialised", sv.cmp("==", c.get("s2_results", -1), 0) if sv.is_scalar(sv.norm(c.get("s2_results", -1))) else False
        watch = set(acc["input_sids"]) | {inp["sig"].sid, inp["ppp"].sid}
        yield "frame:inputs-not-written", len([e for e in out.state.events if e[0] == "store" and e[1] in watch]) == 0

    def raises(self, ctx, case, inp, out):
        return None

    def replay(self, case, clause, model, seed):
        import importlib
        import random
        import numpy as np
        d = int(case[2])
        mod = importlib.import_module(PAIR)
        ru = importlib.import_module(RU)
        rng = random.Random(seed)
        for k in range(30):
            T, N, K = rng.choice([1, 2, 3]), rng.choice([1, 2, 5, 12]), rng.choice([1, 2, 3])
            L = [rng.uniform(2, 9) for _ in range(d)]
            fs = [ru.SingleSnapshot(timestep=n, nparticle=N, particle_type=np.array([rng.randint(1, K) for _ in range(N)]), positions=np.random.RandomState(k).rand(N, d),
                                    boxlength=np.array(L), boxbounds=np.array([[0.0, x] for x in L]), realbounds=None, hmatrix=np.diag(L)) for n in range(T)]
            try:
                obj = mod.S2(ru.Snapshots(nsnapshots=T, snapshots=fs), np.ones((K, K)) * 0.2, np.array([1] * d), 0.02, 50)
            except Exception as e:
                return {"ran": True, "failed": True, "inputs": {"N": N, "T": T, "boxlength": L}, "detail": f"raises {type(e).__name__}: {e}"}
            want = N / float(np.prod(L))
            if obj.ndim != d or obj.nparticle != N or abs(obj.rhototal - want) > 1e-12 * want:
                return {"ran": True, "failed": True, "inputs": {"N": N, "boxlength": L}, "detail": f"ndim={obj.ndim} nparticle={obj.nparticle} rhototal={obj.rhototal}, expected {d}, {N}, {want}"}
        return {"ran": True, "failed": False, "searched": 30}


UNITS = [Gyration(), S2Integral(), Nematic(), Tetrahedral(), ParticleS2(), S2Init()]
# callee contracts of other properties used at call sites: their units are re-verified with this check
from contracts.common import callee_units as _callee_units   # noqa: E402
UNITS = UNITS + _callee_units([('C02', None), ('C05', {'read_neighbors'}), ('C16', {'spatial_average'})], UNITS)

HELPERS = [("PyMatterSim.utils.funcs", "grid_gaussian"), ("PyMatterSim.utils.funcs", "kronecker")]


def _function_node(repo, module, qualname):
    path = os.path.join(repo, *module.split(".")) + ".py"
    with open(path) as f:
        tree = ast.parse(f.read())
    parts = qualname.split(".")
    body = tree.body
    node = None
    for p in parts:
        node = next((n for n in body if isinstance(n, (ast.FunctionDef, ast.ClassDef)) and n.name == p), None)
        if node is None:
            return None, tree
        body = node.body
    return node, tree


def numpy_names_used(repo, module, qualname):
    """dotted numpy entry points (np.x, np.linalg.x) referenced in the function, and module-level names the function
    uses that are bound by `from numpy import ...` at import time"""
    node, tree = _function_node(repo, module, qualname)
    if node is None:
        return []
    out = set()
    for n in ast.walk(node):
        if isinstance(n, ast.Attribute):
            chain = [n.attr]
            v = n.value
            while isinstance(v, ast.Attribute):
                chain.append(v.attr)
                v = v.value
            if isinstance(v, ast.Name) and v.id == "np":
                chain = list(reversed(chain))
                if chain[0] in ("linalg", "random", "fft") and len(chain) >= 2:
                    out.add("np." + ".".join(chain[:2]))
                else:
                    out.add("np." + chain[0])
    return sorted(out)


def existence_probe(repo):
    """every numpy entry point a function under contract calls must exist in the installed numpy (DESIGN I.7 (a)): the
    engine's library table has a contract for np.trapz, the interpreter that runs the package may not have the function"""
    targets = [(u.module, u.qualname) for u in UNITS] + HELPERS
    seen, per = set(), {}
    for m, q in targets:
        if (m, q) in seen:
            continue
        seen.add((m, q))
        per[(m, q)] = numpy_names_used(repo, m, q)
    names = sorted({x for v in per.values() for x in v})
    code = ("import json, numpy as np\nres = {}\nfor n in %r:\n    o = np\n    ok = True\n    for p in n.split('.')[1:]:\n"
            "        ok = ok and hasattr(o, p)\n        o = getattr(o, p, None)\n    res[n] = bool(ok)\nprint('PROBE ' + json.dumps(res))" % (names,))
    py = os.environ.get("PYVC_REPLAY_PYTHON", "/venv/bin/python")
    res = {}
    try:
        r = subprocess.run([py, "-W", "ignore", "-c", code], capture_output=True, text=True, timeout=120, cwd="/tmp")
        for line in r.stdout.splitlines():
            if line.startswith("PROBE "):
                res = json.loads(line[6:])
    except Exception:  # noqa
        res = {}
    obs = []
    for (m, q), used in per.items():
        missing = [n for n in used if res.get(n) is False]
        unknown = [n for n in used if n not in res]
        st = "REFUTED" if missing else ("UNDECIDED" if unknown else "PROVED")
        ob = {"name": f"{q}:numpy-entry-points-exist-in-the-installed-numpy", "status": st, "ms": 0.0, "backends": ["cpython-probe"], "queries": 1,
              "replayable": True}
        if st != "PROVED":
            ob["failed"] = [{"status": st, "backend": "cpython-probe", "reason": "missing in the installed numpy: " + ", ".join(missing or unknown),
                             "model": {"module": m, "qualname": q, "missing": missing}}]
        obs.append(ob)
    return obs


def replay_extra(rec):
    """an entry point that does not exist: run the real function (first case of its unit) and see it raise"""
    model = rec.get("model") or {}
    q, m = model.get("qualname"), model.get("module")
    for u in UNITS:
        if u.qualname == q and u.module == m:
            r = u.replay(u.cases()[0], "", {}, int(rec.get("seed") or 0))
            r["note"] = f"numpy entry points missing: {model.get('missing')}"
            return r
    import importlib
    import numpy as np
    missing = []
    for n in model.get("missing") or []:
        o = np
        for p in n.split(".")[1:]:
            o = getattr(o, p, None)
        if o is None:
            missing.append(n)
    return {"ran": True, "failed": bool(missing), "detail": f"{m}.{q} references {missing}, absent from numpy {np.__version__}"}


def tetra_lemmas():
    """perfect tetrahedral coordination: four unit bond directions u_1..u_4 with u_1+..+u_4 = 0 and equal mutual angles
    have cos psi = -1/3 (so the order parameter is exactly 1 by the unit's lemma clause):
       |sum_a u_a|^2 = sum_a |u_a|^2 + 2 sum_{a<b} u_a.u_b        (ring identity)
       0 = 4 + 12 c  =>  c = -1/3                                   (linear)"""
    u = [[sv.real(f"u{a}_{c}") for c in range(3)] for a in range(4)]
    dot = lambda x, y: _sum([sv.mul(p, q) for p, q in zip(x, y)])
    tot = [_sum([u[a][c] for a in range(4)]) for c in range(3)]
    lhs = dot(tot, tot)
    rhs = sv.add(_sum([dot(u[a], u[a]) for a in range(4)]), sv.mul(2, _sum([dot(u[a], u[b]) for a in range(4) for b in range(a + 1, 4)])))
    n2 = [sv.real(f"nn{a}") for a in range(4)]
    dd = [sv.real(f"dd{k}") for k in range(6)]
    c, s2 = sv.real("cc"), sv.real("ss")
    hyp = sv.and_(sv.cmp("==", s2, sv.add(_sum(n2), sv.mul(2, _sum(dd)))), sv.cmp("==", s2, 0), *([sv.cmp("==", x, 1) for x in n2] + [sv.cmp("==", x, c) for x in dd]))
    return [("lemma:tetrahedron:|sum u|^2=sum|u|^2+2*sum_{a<b}u_a.u_b", sv.cmp("==", lhs, rhs)),
            ("lemma:tetrahedron:unit-bonds,zero-sum,equal-angles=>cos=-1/3", sv.implies(hyp, sv.cmp("==", c, sv.div(-1, 3))))]


def extra_checks(tier, seed, repo):
    from pyvc.vc import prove_lemmas
    obs = prove_lemmas("C17", gyration_lemmas() + tetra_lemmas() + nematic_lemmas())
    obs += existence_probe(repo)
    return {"obligations": obs}


NOT_DECIDED = [
    "floating-point accuracy of every formula (A1): 0 * log(0) = nan for an empty neighbourhood, division by log10(Rg) = 0 at Rg = 1, the literal 1.0/3 and 3.0/8 are exact rationals here",
    "complex-typed eigenvalues that np.linalg.eig may return for numerically asymmetric input: the assumed eig contract covers real symmetric input only (symmetry of the matrix handed to eig is a proved side obligation)",
    "tetrahedral order when two particles coincide or when the fourth and fifth nearest distances tie: the statement's 'four nearest' is then not unique (the clause proves: no unselected particle is strictly closer than a selected one)",
    "3-D nematic order: NematicOrder.tensor asserts ndim == 2 (documented: only two-dimensional systems are supported)",
    "that remove_pbc returns the minimum image (property C02; used here as an opaque function of (row, cell, mask)) and that spatial_average returns the neighbour mean (property C16; callee contract assumed at the call site)",
    "purity of gyration_tensor (it recentres the caller's array in place): property C18, reported there",
]
TRUSTED = [
    "assumed library contracts of pyvc/libext/C17.py: np.linalg.eig (real symmetric 2x2/3x3: eigenvalues are functions of the entries, Vieta relations, no order), np.sort (<= 3 values), np.log10 = log/log(10), np.trapz/np.trapezoid = trapezoid sum, np.delete (one row), np.argpartition (relational: permutation, partition property, kth < n required), ndarray.max over a symbolic axis (attained, bounds the end elements), np.unique (multiplicities sum to n)",
    "callee contracts used at call sites: utils.pbc.remove_pbc as an opaque function MINIMG(row, cell, mask) with remove_pbc(0) = 0 (C02 clause a) - its precondition det(H) != 0 is an input assumption for every frame and is not re-checked at the call sites; utils.coarse_graining.spatial_average = (x_i + sum over the listed neighbours x_j) / (1 + cn_i) for an abstract neighbour list with valid ids (C16); s2_integral (own unit)",
    "written loop summary contracts.C17.masked_accumulation_summary for `for j, rij in enumerate(distance[condition])` (guarded accumulation over a boolean-mask selection); its init/step obligations are generated from two executions of the real loop body and discharged like synthesised summaries",
    "input model: a trajectory is a list of T frames (T symbolic) of the same particle number N (symbolic) and box lengths (the functions assert this); species ids lie in 1..K and neighbour ids in 0..N-1 by construction; directors are unit vectors only where a lemma says so; no two particles coincide (tetrahedral clauses about the selection)",
    "induction principle for the lemma sum_t (x_t - mean)^2 >= 0 (base and step are proved obligations)",
    "opt-in proof accelerator pyvc.solve.abstract_nonlinear: products / quotients / powers replaced by uninterpreted functions (sound for unsat)",
]
MANIFEST = {
    "text": "Real ASTs of gyration_tensor, s2_integral, S2.__init__, S2.particle_s2, q8_tetrahedral, NematicOrder.tensor, for symbolic frame number T, particle number N, species number K, bin number ndelta (no bound). gyration_tensor (d=2,3): the matrix handed to eig is the centred second-moment tensor (1/N) sum_i (r_i - rbar)(r_i - rbar)^T, it is symmetric, Rg = sqrt(mean squared distance to the centroid) = sqrt(sum of eigenvalues), asphericity = lam3 - (lam1+lam2)/2, acylindricity = lam2 - lam1, anisotropy = (b^2 + 3c^2/4)/Rg^4, fractal dimension = log10 N / log10 Rg, 2-D list [Rg, c, fd]. s2_integral = trapezoid sum of (g ln g - g + 1) r^(d-1). S2.__init__: rho = N / prod(boxlength). S2.particle_s2 (d=2,3; with and without savegr): S2[n,i] = -(d-1) pi rho trapz((g ln g - g + 1) r^(d-1)) with g_i(r_b) = (1/norm_b) sum_{j != i, |D_ij| < r_max} Gauss_{sigma(t_i,t_j)}(r_b - |D_ij|), r_b = (b+1/2) rdelta, norm_b = 2 pi rho r_b / 4 pi rho r_b^2, r_max = (ndelta - 1/2) rdelta, D_ij the remove_pbc image; particle_gr and the saved files equal the returned arrays. q8_tetrahedral: value = 1 - (3/32) sum_{j<k} (cos psi_jk + 1/3)^2 over four selected particles that are distinct, different from i and such that no other particle is closer; value 1 when all six cosines are -1/3; kth of argpartition in range for every N >= 5. NematicOrder.tensor (2-D; raw and neighbour-averaged; trace and eigenvalue branch): stored/saved Q = (d u u^T - I)/2 (neighbour mean of it when a list is given), result = sqrt(d/(d-1) tr Q^2) resp. 2 max eig(Q); for unit directors Q is symmetric traceless and the two scalars coincide (raw tensor). Inputs are never written (except gyration_tensor, see C18). Every numpy entry point the functions reference exists in the installed numpy (CPython probe). Extension round: NematicOrder.tensor is run with a symbolic Nmax and the call site of spatial_average must hand on the caller's neighbour file and Nmax.",
    "note": "floats as reals (A1); assumed library contracts in pyvc/libext/C17.py (eig as Vieta relations for real symmetric input, argpartition relational, trapz = trapezoid sum, max over a symbolic axis, delete, sort <= 3, unique); remove_pbc and spatial_average enter through their callee contracts (C02, C16); one written loop summary (masked accumulation) with generated init/step obligations; sums over symbolic ranges are uninterpreted with unfold/extensionality instances; on the pinned tree two obligations fail with failing replays (np.trapz missing in numpy 2.5; argpartition kth out of range for N = 5) - fix diffs in design_notes/C17.fix-*.diff",
}
