"""C17 — local order parameters (S2, tetrahedral, nematic, gyration) equal their definitions.

Functions under contract (real ASTs, re-read every run):
  PyMatterSim.static.shape.gyration_tensor
  PyMatterSim.static.pairentropy.s2_integral
  PyMatterSim.static.nematic.NematicOrder.tensor
  PyMatterSim.static.geometric.q8_tetrahedral
  PyMatterSim.static.pairentropy.S2.particle_s2
Specs are written from the property statement and docs/orderings.md (and the Wikipedia page the gyration
docstring cites), with a backend parameter M (pyvc.sv symbolic / pyvc.conc floats for the replays).
"""
import ast
import json
import os
import subprocess

from pyvc import arr as A
from pyvc import sv
from pyvc.sigma import Sum
from pyvc.vc import Unit

SHAPE = "PyMatterSim.static.shape"
PAIR = "PyMatterSim.static.pairentropy"
NEM = "PyMatterSim.static.nematic"
GEO = "PyMatterSim.static.geometric"


def _sum(xs):
    acc = 0
    for x in xs:
        acc = sv.add(acc, x)
    return acc


def _fr(x, default=None):
    if isinstance(x, bool):
        return float(x)
    if isinstance(x, (int, float)):
        return float(x)
    if isinstance(x, str):
        try:
            if "/" in x:
                a, b = x.split("/")
                return int(a) / int(b)
            return float(x)
        except ValueError:
            return default
    return default


def _model_array(model, name, shape, rng, lo=-3.0, hi=3.0):
    """numpy array from the function interpretation `name` of a solver model (missing entries: seeded random)"""
    import numpy as np
    out = np.array([rng.uniform(lo, hi) for _ in range(int(np.prod(shape)))], dtype=float).reshape(shape)
    ent = model.get(name) if isinstance(model, dict) else None
    used = False
    if isinstance(ent, dict):
        other = _fr(ent.get("else"))
        if other is not None and abs(other) < 1e6:
            out[...] = other
            used = True
        for e in ent.get("__func__") or []:
            idx, val = e[:-1], _fr(e[-1])
            if val is None or len(idx) != len(shape) or abs(val) > 1e6:
                continue
            try:
                if all(isinstance(i, int) and 0 <= i < s for i, s in zip(idx, shape)):
                    out[tuple(idx)] = val
                    used = True
            except TypeError:
                pass
    return out, used


# =====================================================================================================
# gyration tensor


def second_moment_spec(p, N, d):
    """S_mn = (1/N) sum_i (r_i,m - rbar_m)(r_i,n - rbar_n),  rbar = (1/N) sum_i r_i   (p(i, c): coordinate c of point i)"""
    mean = [sv.div(Sum(0, N, lambda t, c=c: p(t, c)), N) for c in range(d)]
    return [[sv.div(Sum(0, N, lambda t, m=m, n=n: sv.mul(sv.sub(p(t, m), mean[m]), sv.sub(p(t, n), mean[n]))), N)
             for n in range(d)] for m in range(d)]


def gyration_descriptors(lam, N, d, M=sv, log10=None, rg=None):
    """documented shape descriptors as functions of the ascending eigenvalues lam[0] <= lam[1] (<= lam[2]) of the
    gyration tensor (https://en.wikipedia.org/wiki/Gyration_tensor, cited by the docstring):
       Rg^2 = sum lam;  asphericity b = lam_3 - (lam_1 + lam_2)/2;  acylindricity c = lam_2 - lam_1;
       relative shape anisotropy kappa^2 = (b^2 + (3/4) c^2) / Rg^4;  fractal dimension = log10(N) / log10(Rg)"""
    tot = lam[0]
    for x in lam[1:]:
        tot = M.add(tot, x)
    rg_def = M.sqrt(tot)
    rg = rg_def if rg is None else rg      # symbolic clauses: (Rg^2)^2 on the returned Rg; Rg^2 = sum lam is its own clause
    c = M.sub(lam[1], lam[0])
    fd = M.div(log10(N), log10(rg_def))
    if d == 2:
        return [rg_def, c, fd]
    b = M.sub(lam[2], M.div(M.add(lam[0], lam[1]), 2))
    rg2 = M.mul(rg, rg)
    k2 = M.div(M.add(M.mul(b, b), M.mul(M.div(3, 4), M.mul(c, c))), M.mul(rg2, rg2))
    return [rg_def, b, c, k2, fd]


def _centred_square(p, N, c):
    mean_c = sv.div(Sum(0, N, lambda t: p(t, c)), N)
    return lambda t: sv.mul(sv.sub(p(t, c), mean_c), sv.sub(p(t, c), mean_c))


def gyration_lemmas():
    """sum_{t<k} (p(t,c) - mean_c)^2 >= 0 for every k >= 0, by induction on k (base: empty sum; step below), on the
    same terms the gyration unit uses (input array P as an uninterpreted function, symbolic N)"""
    import z3
    N, k = sv.integer("N"), sv.integer("k_ind")
    Pf = z3.Function("P", z3.IntSort(), z3.IntSort(), z3.RealSort())
    p = lambda t, c: sv.SV(Pf(sv.znum(t), sv.znum(c)))
    out = []
    for c in range(3):
        sq = _centred_square(p, N, c)
        out.append((f"lemma:sum-of-squares>=0:base:c={c}", sv.cmp(">=", Sum(0, 0, sq), 0)))
        out.append((f"lemma:sum-of-squares>=0:step:c={c}",
                    sv.implies(sv.and_(sv.cmp(">=", k, 0), sv.cmp(">=", Sum(0, k, sq), 0)), sv.cmp(">=", Sum(0, A.simp(sv.add(k, 1)), sq), 0))))
    return out


class Gyration(Unit):
    module = SHAPE
    qualname = "gyration_tensor"
    prop = "C17"
    timeout = 20

    def cases(self):
        return ["d=2", "d=3"]

    def setup(self, ctx, case):
        d = int(case[2])
        N = ctx.int("N")
        ctx.assume(N >= 2)
        P = ctx.array("P", (N, d), "float", origin="argument pos_group")
        rd = P.reader()          # bound to the content at call time (the function may store into its argument)
        inp = dict(d=d, N=N, P=P, p=lambda t, c: rd((t, c)))
        return [P], {}, inp

    def clause_names(self, case):
        d = int(case[2])
        names = ["returns-list-of-documented-length", "tensor-handed-to-eig=centred-second-moment-tensor", "tensor-symmetric",
                 "radius_of_gyration=sqrt(mean-squared-distance-to-centroid)", "radius_of_gyration=sqrt(sum-of-eigenvalues)",
                 "radius_of_gyration^2=sum-of-eigenvalues", "lemma:sum-of-eigenvalues>=0",
                 "acylindricity=lam2-lam1", "fractal_dimension=log10(N)/log10(Rg)"]
        if d == 3:
            names += ["asphericity=lam3-(lam1+lam2)/2", "shape_anisotropy=(b^2+3c^2/4)/(Rg^2)^2"]
        return names

    def ensures(self, ctx, case, inp, out):
        from pyvc.libext.C17 import eig_values, log10, sort_small, vieta_facts
        d, N, p = inp["d"], inp["N"], inp["p"]
        try:
            res = ctx.interp.iter_concrete(out.value)
        except Exception:
            res = None
        ok = res is not None and len(res) == (5 if d == 3 else 3) and all(sv.is_scalar(sv.norm(x)) for x in res)
        yield "returns-list-of-documented-length", bool(ok)
        eigs = [e for e in out.state.trace if e[0] == "eig"]
        if not ok or len(eigs) != 1:
            yield "tensor-handed-to-eig=centred-second-moment-tensor", False
            return
        RO = {"ring_only": True}
        T = eigs[0][1]
        S = second_moment_spec(p, N, d)
        yield ("tensor-handed-to-eig=centred-second-moment-tensor",
               sv.and_(*[sv.cmp("==", T.get((m, n)), S[m][n]) for m in range(d) for n in range(d)]), RO)
        yield "tensor-symmetric", sv.and_(*[sv.cmp("==", T.get((m, n)), T.get((n, m))) for m in range(d) for n in range(m + 1, d)]), RO
        # eigenvalues of the SPEC tensor (assumed eig contract instantiated on the spec tensor); the code's are EIG(code
        # tensor) = EIG(spec tensor) by the first clause (congruence)
        lamS = eig_values(S, d)
        lam = sort_small(lamS)
        vieta = sv.and_(*vieta_facts(S, d, lamS))
        atoms = list(lamS) + [S[m][n] for m in range(d) for n in range(m, d)]

        def G(goal, extra=()):
            return sv.generalize(goal, atoms + list(extra))[0]
        trS = _sum([S[c][c] for c in range(d)])
        tot = _sum(lam)
        # Rg = sqrt((1/N) sum_i |r_i - rbar|^2): sum of the sorted eigenvalues = trace (Vieta) = sum_c S_cc
        yield "radius_of_gyration=sqrt(mean-squared-distance-to-centroid)", G(sv.implies(vieta, sv.cmp("==", res[0], sv.sqrt(trS))))
        want = gyration_descriptors(lam, N, d, M=sv, log10=log10, rg=res[0])
        if d == 3:
            names = ["radius_of_gyration=sqrt(sum-of-eigenvalues)", "asphericity=lam3-(lam1+lam2)/2", "acylindricity=lam2-lam1",
                     "shape_anisotropy=(b^2+3c^2/4)/(Rg^2)^2", "fractal_dimension=log10(N)/log10(Rg)"]
        else:
            names = ["radius_of_gyration=sqrt(sum-of-eigenvalues)", "acylindricity=lam2-lam1", "fractal_dimension=log10(N)/log10(Rg)"]
        for k, nm in enumerate(names):
            yield nm, sv.cmp("==", res[k], want[k]), RO
        # Rg^2 = sum lam (so that (Rg^2)^2 in the anisotropy is (sum lam)^2): sqrt(x)^2 = x for x >= 0, and x = trace >= 0
        yield "radius_of_gyration^2=sum-of-eigenvalues", G(sv.implies(sv.cmp(">=", tot, 0), sv.cmp("==", sv.mul(res[0], res[0]), tot)))
        # sum_t (p(t,c) - mean_c)^2 >= 0: induction on the upper bound, proved once on the same terms in extra_checks
        # (lemma C17:lemma:sum-of-squares>=0:base/step); used here at the upper bound N
        facts = [sv.cmp(">=", Sum(0, N, _centred_square(p, N, c)), 0) for c in range(d)]
        sums = [Sum(0, N, _centred_square(p, N, c)) for c in range(d)]
        yield ("lemma:sum-of-eigenvalues>=0",
               sv.generalize(sv.implies(sv.and_(vieta.__and__(sv.cmp(">=", N, 2)), *facts), sv.cmp(">=", tot, 0)), list(lamS) + sums)[0])

    def replay(self, case, clause, model, seed):
        return _replay_gyration(case, clause, model, seed)


def _gyration_reference(P):
    import math
    import numpy as np
    N, d = P.shape
    c = np.zeros(d)
    for i in range(N):
        c += P[i]
    c /= N
    S = np.zeros((d, d))
    for i in range(N):
        q = P[i] - c
        for m in range(d):
            for n in range(d):
                S[m, n] += q[m] * q[n]
    S /= N
    lam = sorted(float(x) for x in np.linalg.eigvalsh(S))
    rg2 = sum(lam)
    rg = math.sqrt(max(rg2, 0.0))
    cyl = lam[1] - lam[0]
    with np.errstate(all="ignore"):
        fd = float(np.log10(N) / np.log10(rg)) if rg > 0 else float("nan")
    if d == 2:
        return [rg, cyl, fd], S
    b = lam[2] - 0.5 * (lam[0] + lam[1])
    k2 = (b * b + 0.75 * cyl * cyl) / (rg2 * rg2) if rg2 > 0 else float("nan")
    return [rg, b, cyl, k2, fd], S


def _replay_gyration(case, clause, model, seed):
    import importlib
    import math
    import random
    import numpy as np
    mod = importlib.import_module(SHAPE)
    d = int(case[2])
    rng = random.Random(seed)
    tried = 0
    for k in range(300):
        if k == 0:
            N = model.get("N") if isinstance(model.get("N"), int) else 3
            N = max(2, min(int(N), 40))
            P, _ = _model_array(model, "P", (N, d), rng)
        else:
            N = rng.choice([2, 2, 3, 4, 5, 7, 12, 30])
            P = np.array([[rng.uniform(-4, 4) * (1 + 3 * (c == 0)) for c in range(d)] for _ in range(N)]) + rng.uniform(-50, 50)
            if k % 17 == 3:
                P[:, 1] = P[:, 0] * 0.5 + 1.0       # collinear cloud
        want, S = _gyration_reference(P.copy())
        if not (want[0] > 1e-6 and abs(want[0] - 1.0) > 1e-3):
            continue    # log10(Rg) = 0 or Rg = 0: the fractal dimension is a division by zero (A1)
        tried += 1
        try:
            with np.errstate(all="ignore"):
                got = mod.gyration_tensor(P.copy())
        except Exception as e:
            return {"ran": True, "failed": True, "inputs": {"pos_group": P.tolist()}, "detail": f"raises {type(e).__name__}: {e}"}
        if not isinstance(got, (list, tuple)) or len(got) != len(want):
            return {"ran": True, "failed": True, "inputs": {"pos_group": P.tolist()}, "detail": f"returned {type(got).__name__} of length {len(got) if hasattr(got, '__len__') else None}, documented length {len(want)}"}
        for j, (g, w) in enumerate(zip(got, want)):
            g = complex(g)
            scale = 1.0 + abs(w)
            if abs(g.imag) > 1e-9 or not (abs(g.real - w) <= 1e-7 * scale + 1e-7 * float(np.abs(S).max())):
                return {"ran": True, "failed": True, "from_model": k == 0, "searched": tried, "inputs": {"pos_group": P.tolist()},
                        "detail": f"descriptor #{j}: got {g}, definition gives {w}", "got": [str(x) for x in got], "expected": want}
    return {"ran": True, "failed": False, "searched": tried, "detail": "real gyration_tensor agrees with the definitions on model and seeded inputs"}


# =====================================================================================================
# s2_integral: trapezoid rule of (g ln g - g + 1) r^(d-1)


def s2_integrand(g, r, d, M=sv):
    y = M.add(M.sub(M.mul(g, M.log(g)), g), 1)
    return M.mul(y, M.power(r, d - 1))


def trapezoid(y, x, n, M=sv):
    """sum_{k=0}^{n-2} (x_{k+1} - x_k) (y_{k+1} + y_k) / 2"""
    def body(k):
        k1 = M.add(k, 1)
        return M.div(M.mul(M.sub(x(k1), x(k)), M.add(y(k1), y(k))), 2)
    return M.Sum(0, M.sub(n, 1), body)


class _SvM:
    """pyvc.sv with Sum (symbolic backend for spec functions that need big operators)"""
    def __getattr__(self, name):
        if name == "Sum":
            return lambda lo, hi, f: Sum(lo, A.simp(hi) if isinstance(hi, sv.SV) else hi, lambda t: f(A.simp(t) if isinstance(t, sv.SV) else t))
        return getattr(sv, name)


SVM = _SvM()


class S2Integral(Unit):
    module = PAIR
    qualname = "s2_integral"
    prop = "C17"
    timeout = 20

    def cases(self):
        return ["d=2", "d=3"]

    def setup(self, ctx, case):
        d = int(case[2])
        n = ctx.int("nbins")
        ctx.assume(n >= 2)
        g = ctx.array("g", (n,), "float", origin="argument gr")
        r = ctx.array("r", (n,), "float", origin="argument gr_bins")
        k = ctx.int("k")
        return [g, r, d], {}, dict(d=d, n=n, g=g.reader(), r=r.reader(), garr=g, rarr=r)

    def clause_names(self, case):
        return ["result=trapezoid-integral-of-(g ln g - g + 1) r^(d-1)", "frame:inputs-not-written"]

    def ensures(self, ctx, case, inp, out):
        d, n, g, r = inp["d"], inp["n"], inp["g"], inp["r"]
        want = trapezoid(lambda k: s2_integrand(g((A.simp(k),)), r((A.simp(k),)), d), lambda k: r((A.simp(k),)), n, M=SVM)
        res = out.value
        yield "result=trapezoid-integral-of-(g ln g - g + 1) r^(d-1)", (sv.cmp("==", res, want) if sv.is_scalar(sv.norm(res)) else False)
        stores = [e for e in out.state.events if e[0] == "store" and e[1] in (inp["garr"].sid, inp["rarr"].sid)]
        yield "frame:inputs-not-written", len(stores) == 0

    def replay(self, case, clause, model, seed):
        return _replay_s2_integral(case, clause, model, seed)


def _replay_s2_integral(case, clause, model, seed):
    import importlib
    import math
    import random
    import numpy as np
    from pyvc import conc
    mod = importlib.import_module(PAIR)
    d = int(case[2])
    rng = random.Random(seed)
    for k in range(200):
        n = rng.choice([2, 3, 5, 8, 40])
        if k == 0 and isinstance(model.get("nbins"), int):
            n = max(2, min(model["nbins"], 60))
        g = np.array([rng.uniform(0.05, 3.0) for _ in range(n)])
        r = np.cumsum(np.array([rng.uniform(0.01, 0.5) for _ in range(n)]))
        if k == 0:
            gm, _ = _model_array(model, "g", (n,), rng, 0.05, 3.0)
            rm, _ = _model_array(model, "r", (n,), rng, 0.05, 3.0)
            if np.all(gm > 0):
                g, r = gm, rm
        keep = (g.copy(), r.copy())
        try:
            got = float(mod.s2_integral(g, r, d))
        except Exception as e:
            return {"ran": True, "failed": True, "inputs": {"gr": keep[0].tolist(), "gr_bins": keep[1].tolist(), "ndim": d},
                    "detail": f"raises {type(e).__name__}: {e}"}
        y = [(keep[0][j] * math.log(keep[0][j]) - keep[0][j] + 1) * keep[1][j] ** (d - 1) for j in range(n)]
        want = sum((keep[1][j + 1] - keep[1][j]) * (y[j + 1] + y[j]) / 2 for j in range(n - 1))
        if not conc.close(got, want, rel=1e-9, abs_=1e-11):
            return {"ran": True, "failed": True, "from_model": k == 0, "searched": k + 1, "inputs": {"gr": keep[0].tolist(), "gr_bins": keep[1].tolist(), "ndim": d},
                    "detail": f"got {got}, trapezoid integral of (g ln g - g + 1) r^(d-1) is {want}"}
        if not (np.array_equal(keep[0], g) and np.array_equal(keep[1], r)):
            return {"ran": True, "failed": True, "inputs": {"gr": keep[0].tolist()}, "detail": "an input array was modified"}
    return {"ran": True, "failed": False, "searched": 200}


UNITS = [Gyration(), S2Integral()]

def extra_checks(tier, seed, repo):
    from pyvc.vc import prove_lemmas
    obs = prove_lemmas("C17", gyration_lemmas())
    return {"obligations": obs}


NOT_DECIDED = []
TRUSTED = []
MANIFEST = {"text": "", "note": ""}
