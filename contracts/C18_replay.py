"""C18 replay harness (runs under /venv/bin/python against the REAL package).

For an entry point `module.qualname` the harness builds seeded inputs (shared Snapshots objects, arrays, neighbour files made by
the package's own writers in a scratch directory), and checks, with straightforward code that does not use the package:

  frame        every ndarray reachable from the arguments (and from the constructor arguments of the object, and from mutable
               default arguments) has the same bytes, shape and dtype after the call as before (also when the call raises);
  history      the call is repeated on the same (shared) input objects after the same entry point was run on OTHER inputs:
               the two results must be bit-for-bit identical (hidden state, non-determinism, in-place damage of inputs);
  file         when an output file was requested: .npy files load to exactly the returned array; .csv files parse to the
               returned table within half a unit of the written precision.

SPECS maps 'module.qualname' -> list of (label, builder(K) -> dict(call=thunk, watch=object tree, files=[(path, kind, pick)])).
"""
from __future__ import annotations

import importlib
import io
import os
import shutil
import tempfile


class Kit:
    """seeded inputs; everything is built lazily and cached so that specs share the same snapshot objects"""

    def __init__(self, seed, tmp):
        import numpy as np
        self.np = np
        self.seed = seed
        self.rng = np.random.default_rng(seed)
        self.tmp = tmp
        self._c = {}

    def mod(self, name):
        return importlib.import_module("PyMatterSim." + name)

    def path(self, name):
        return os.path.join(self.tmp, name)

    def snaps(self, d=3, T=4, N=24, K=2, centred=False, L=None, tag=""):
        """Snapshots with T frames of N particles in an orthogonal box; centred: box bounds [-L/2, L/2] (sum of bounds 0)"""
        key = ("snaps", d, T, N, K, centred, L, tag)
        if key in self._c:
            return self._c[key]
        np = self.np
        ru = self.mod("reader.reader_utils")
        L = L or (N / 0.8) ** (1.0 / d)
        lo = -L / 2 if centred else 0.0
        frames = []
        base = lo + self.rng.random((N, d)) * L
        types = np.array([1 + (i % K) for i in range(N)], dtype=np.int32)
        for t in range(T):
            pos = base + 0.05 * t * self.rng.standard_normal((N, d))
            if not tag.startswith("xu"):
                pos = lo + np.mod(pos - lo, L)
            elif tag.endswith("far"):
                # unwrapped coordinates well outside the primary cell (whole box lengths away): valid input wherever the minimum image is taken
                pos = pos.copy()
                pos[::5] += L * np.array([[2, -1, 1][:d]])
                pos[1::7] -= L
            bounds = np.array([[lo, lo + L]] * d)
            frames.append(ru.SingleSnapshot(timestep=1000 * t, nparticle=N, particle_type=types.copy(), positions=np.ascontiguousarray(pos),
                                            boxlength=np.array([L] * d), boxbounds=bounds, realbounds=bounds.copy(), hmatrix=np.diag([L] * d).astype(float)))
        s = ru.Snapshots(nsnapshots=T, snapshots=frames)
        self._c[key] = s
        return s

    def neigh(self, d=3, kind="neighbor", **kw):
        """neighbour / weight files of snaps(d, **kw) written by the package's freud interface (read_neighbors format)"""
        key = ("neigh", d, tuple(sorted(kw.items())))
        if key not in self._c:
            base = self.path(f"voro{d}_{len(self._c)}")
            self.mod("neighbors.freud_neighbors").cal_neighbors(self.snaps(d, **kw), outputfile=base)
            self._c[key] = base
        base = self._c[key]
        return base + {"neighbor": ".neighbor.dat", "weights": (".facearea.dat" if d == 3 else ".edgelength.dat")}[kind]

    def nn(self, d=3, n=6, **kw):
        key = ("nn", d, n, tuple(sorted(kw.items())))
        if key not in self._c:
            f = self.path(f"nn{d}_{n}_{len(self._c)}.dat")
            self.mod("neighbors.calculate_neighbors").Nnearests(self.snaps(d, **kw), N=n, ppp=self.np.array([1] * d), fnfile=f)
            self._c[key] = f
        return self._c[key]

    def ppp(self, d):
        return self.np.array([1] * d)


def _arrays(obj, path="", seen=None, out=None, depth=0):
    """every ndarray reachable from obj: [(path, array)]"""
    import numpy as np
    if out is None:
        out, seen = [], set()
    if obj is None or isinstance(obj, (str, bytes, int, float, complex, bool)) or depth > 6:
        return out
    if id(obj) in seen:
        return out
    seen.add(id(obj))
    if isinstance(obj, np.ndarray):
        out.append((path, obj))
        return out
    try:
        import pandas as pd
        if isinstance(obj, (pd.DataFrame, pd.Series)):
            out.append((path + "<frame>", obj))
            return out
    except ImportError:  # pragma: no cover
        pass
    if isinstance(obj, dict):
        for k, v in obj.items():
            _arrays(v, f"{path}[{k!r}]", seen, out, depth + 1)
    elif isinstance(obj, (list, tuple)):
        for i, v in enumerate(obj):
            _arrays(v, f"{path}[{i}]", seen, out, depth + 1)
    elif hasattr(obj, "__dict__") and not callable(obj) and not isinstance(obj, (io.IOBase, type)):
        for k, v in vars(obj).items():
            _arrays(v, f"{path}.{k}", seen, out, depth + 1)
    return out


def _sig(a):
    import numpy as np
    if isinstance(a, np.ndarray):
        return (a.shape, str(a.dtype), a.tobytes() if a.dtype != object else repr(a.tolist()))
    return ("frame", tuple(map(str, getattr(a, "columns", []))), a.to_numpy().tobytes() if hasattr(a, "to_numpy") else repr(a))


def _same(a, b, path="result"):
    """bit-for-bit comparison of two results -> None or a description of the first difference"""
    import numpy as np
    try:
        import pandas as pd
    except ImportError:  # pragma: no cover
        pd = None
    if type(a) is not type(b):
        return f"{path}: type {type(a).__name__} vs {type(b).__name__}"
    if isinstance(a, np.ndarray):
        if a.shape != b.shape or a.dtype != b.dtype:
            return f"{path}: shape/dtype {a.shape}{a.dtype} vs {b.shape}{b.dtype}"
        if a.dtype == object:
            return _same(a.tolist(), b.tolist(), path)
        if a.tobytes() != b.tobytes():
            with np.errstate(all="ignore"):
                try:
                    k = np.argwhere(~((a == b) | ((a != a) & (b != b))))
                    idx = tuple(k[0]) if len(k) else ()
                    return f"{path}{list(idx)}: {a[idx]!r} vs {b[idx]!r}"
                except Exception:  # noqa
                    return f"{path}: bytes differ"
        return None
    if pd is not None and isinstance(a, (pd.DataFrame, pd.Series)):
        if a.shape != b.shape:
            return f"{path}: shape {a.shape} vs {b.shape}"
        return _same(a.to_numpy(), b.to_numpy(), path + ".values")
    if isinstance(a, dict):
        if list(a.keys()) != list(b.keys()):
            return f"{path}: keys differ"
        for k in a:
            r = _same(a[k], b[k], f"{path}[{k!r}]")
            if r:
                return r
        return None
    if isinstance(a, (list, tuple)):
        if len(a) != len(b):
            return f"{path}: length {len(a)} vs {len(b)}"
        for i, (x, y) in enumerate(zip(a, b)):
            r = _same(x, y, f"{path}[{i}]")
            if r:
                return r
        return None
    if isinstance(a, float):
        return None if (a == b or (a != a and b != b)) else f"{path}: {a!r} vs {b!r}"
    if hasattr(a, "__dict__") and not callable(a):
        return _same(vars(a), vars(b), path)
    try:
        return None if a == b else f"{path}: {a!r} vs {b!r}"
    except Exception:  # noqa
        return None


def _check_file(path, kind, value, decimals):
    """file content vs returned value -> None or description"""
    import numpy as np
    if not os.path.exists(path):
        return f"requested output file {os.path.basename(path)} was not written"
    if kind == "npy":
        got = np.load(path, allow_pickle=False)
        want = np.asarray(value)
        if got.shape != want.shape:
            return f"{os.path.basename(path)}: shape {got.shape} in the file vs {want.shape} returned"
        if got.tobytes() != np.ascontiguousarray(want).tobytes():
            with np.errstate(all="ignore"):
                k = np.argwhere(~((got == want) | ((got != got) & (want != want))))
            if len(k):
                idx = tuple(k[0])
                return f"{os.path.basename(path)}{list(idx)}: file {got[idx]!r} vs returned {want[idx]!r}"
        return None
    if kind == "csv":
        import pandas as pd
        got = pd.read_csv(path)
        want = value
        if list(map(str, got.columns)) != list(map(str, want.columns)):
            return f"{os.path.basename(path)}: columns {list(got.columns)} vs returned {list(want.columns)}"
        g, w = got.to_numpy(dtype=float), want.to_numpy(dtype=float)
        if g.shape != w.shape:
            return f"{os.path.basename(path)}: shape {g.shape} vs returned {w.shape}"
        tol = 0.5 * 10.0 ** (-decimals) * (1 + 1e-6) + 1e-12 * np.abs(w) if decimals is not None else 1e-15 * (1 + np.abs(w))
        with np.errstate(all="ignore"):
            bad = np.argwhere(~((np.abs(g - w) <= tol) | ((g != g) & (w != w))))
        if len(bad):
            i, j = bad[0]
            return f"{os.path.basename(path)} row {i} column {got.columns[j]!r}: file {g[i, j]!r} vs returned {w[i, j]!r} (written precision {decimals} decimals)"
        return None
    if kind == "txt":
        got = np.loadtxt(path, skiprows=decimals[1] if isinstance(decimals, tuple) else 0, ndmin=2)
        want = np.asarray(value, dtype=float)
        want = want.reshape(got.shape) if want.size == got.size else want
        dec = decimals[0] if isinstance(decimals, tuple) else decimals
        if got.shape != want.shape:
            return f"{os.path.basename(path)}: shape {got.shape} vs returned {want.shape}"
        bad = np.argwhere(np.abs(got - want) > 0.5 * 10.0 ** (-dec) * (1 + 1e-6))
        if len(bad):
            idx = tuple(bad[0])
            return f"{os.path.basename(path)}{list(idx)}: file {got[idx]!r} vs returned {want[idx]!r}"
        return None
    return None


# ------------------------------------------------------------------------------------------------------------
# specs


def _S(call, watch, files=()):
    return {"call": call, "watch": watch, "files": list(files)}


def _specs():
    S = {}

    def add(name, label):
        def deco(fn):
            S.setdefault("PyMatterSim." + name, []).append((label, fn))
            return fn
        return deco

    # ---- utils
    @add("utils.pbc.remove_pbc", "3d")
    def _(K):
        np = K.np
        s = K.snaps(3).snapshots[0]
        R = s.positions - s.positions[0]
        p = K.ppp(3)
        return _S(lambda: K.mod("utils.pbc").remove_pbc(R, s.hmatrix, p), (R, s, p))

    @add("utils.pbc.remove_pbc", "2d-row")
    def _(K):
        s = K.snaps(2).snapshots[0]
        R = (s.positions[3] - s.positions[0]).copy()
        p = K.ppp(2)
        return _S(lambda: K.mod("utils.pbc").remove_pbc(R, s.hmatrix, p), (R, s, p))

    for fn, args in (("kronecker", (1, 2)), ("nidealfac", (3,)), ("areafac", (2,)), ("alpha2factor", (3,)), ("Wignerindex", (4,))):
        def mk(fn=fn, args=args):
            def b(K):
                return _S(lambda: getattr(K.mod("utils.funcs"), fn)(*args), ())
            return b
        S.setdefault("PyMatterSim.utils.funcs." + fn, []).append(("plain", mk()))

    @add("utils.funcs.moment_of_inertia", "3d")
    def _(K):
        pos = K.snaps(3).snapshots[0].positions
        return _S(lambda: K.mod("utils.funcs").moment_of_inertia(pos, 1, True), (pos,))

    @add("utils.funcs.grid_gaussian", "1d")
    def _(K):
        x = K.rng.random(7)
        return _S(lambda: K.mod("utils.funcs").grid_gaussian(x, 1.3), (x,))

    @add("utils.funcs.Legendre_polynomials", "3d")
    def _(K):
        x = K.rng.random(7)
        return _S(lambda: K.mod("utils.funcs").Legendre_polynomials(x, 3), (x,))

    @add("utils.geometry.triangle_area", "2d")
    def _(K):
        s = K.snaps(2).snapshots[0]
        pos = s.positions[:3].copy()
        p = K.ppp(2)
        return _S(lambda: K.mod("utils.geometry").triangle_area(pos, s.hmatrix, p), (pos, s, p))

    @add("utils.geometry.triangle_angle", "plain")
    def _(K):
        return _S(lambda: K.mod("utils.geometry").triangle_angle(3.0, 4.0, 5.0), ())

    @add("utils.geometry.lines_intersection", "2d")
    def _(K):
        P = [K.rng.random(2) for _ in range(4)]
        return _S(lambda: K.mod("utils.geometry").lines_intersection(*P), (P,))

    @add("utils.geometry.LineWithinSquare", "2d")
    def _(K):
        np = K.np
        P = [np.array([0., 0.]), np.array([1., 0.]), np.array([1., 1.]), np.array([0., 1.])]
        R0, v = np.array([0.5, 0.5]), np.array([1.0, 0.3])
        return _S(lambda: K.mod("utils.geometry").LineWithinSquare(*P, R0, v), (P, R0, v))

    @add("utils.fft.Filon_COS", "file")
    def _(K):
        np = K.np
        t = np.linspace(0, 5, 41)
        C = np.exp(-t)
        f = K.path("filon.csv")
        return _S(lambda: K.mod("utils.fft").Filon_COS(C, t, 0, f), (C, t), [(f, "csv", lambda r: r, 6)])

    @add("utils.fitting.fits", "linear")
    def _(K):
        np = K.np
        x = np.linspace(0.1, 3, 20)
        y = 2 * np.exp(-x / 1.5)
        p0 = [1.0, 1.0]
        return _S(lambda: K.mod("utils.fitting").fits(lambda t, a, b: a * np.exp(-t / b), x, y, p0=p0), (x, y, p0))

    for fn, args in (("wavevector3d", (20,)), ("wavevector2d", (20,)), ("choosewavevector", (3, 12, False)), ("choosewavevector", (2, 12, True)),
                     ("continuousvector", (2, 8, False))):
        def mk(fn=fn, args=args):
            def b(K):
                return _S(lambda: getattr(K.mod("utils.wavevector"), fn)(*args), ())
            return b
        S.setdefault("PyMatterSim.utils.wavevector." + fn, []).append(("/".join(map(str, args)), mk()))

    for l in list(range(1, 11)):
        def mk(l=l):
            def b(K):
                th, ph = K.rng.random(5) * 3, K.rng.random(5) * 6
                return _S(lambda: getattr(K.mod("utils.spherical_harmonics"), f"SphHarm{l}")(th, ph), (th, ph))
            return b
        S.setdefault(f"PyMatterSim.utils.spherical_harmonics.SphHarm{l}", []).append(("arrays", mk()))

    @add("utils.spherical_harmonics.SphHarm_above", "l=12")
    def _(K):
        th, ph = K.rng.random(5) * 3, K.rng.random(5) * 6
        return _S(lambda: K.mod("utils.spherical_harmonics").SphHarm_above(12, th, ph), (th, ph))

    @add("utils.spherical_harmonics.sph_harm_l", "l=4")
    def _(K):
        th, ph = K.rng.random(5) * 3, K.rng.random(5) * 6
        return _S(lambda: K.mod("utils.spherical_harmonics").sph_harm_l(4, th, ph), (th, ph))

    @add("utils.coarse_graining.time_average", "float")
    def _(K):
        sn = K.snaps(3)
        A = K.rng.random((sn.nsnapshots, sn.snapshots[0].nparticle))
        return _S(lambda: K.mod("utils.coarse_graining").time_average(sn, A, time_period=2 * 1000 * 0.002, dt=0.002), (sn, A))

    @add("utils.coarse_graining.spatial_average", "file")
    def _(K):
        sn = K.snaps(3)
        A = K.rng.random((sn.nsnapshots, sn.snapshots[0].nparticle))
        f = K.path("cg.npy")
        nf = K.nn(3, 6)
        return _S(lambda: K.mod("utils.coarse_graining").spatial_average(A, nf, 30, f), (A,), [(f, "npy", lambda r: r, None)])

    @add("utils.coarse_graining.gaussian_blurring", "2d-file")
    def _(K):
        np = K.np
        sn = K.snaps(2)
        A = K.rng.random((sn.nsnapshots, sn.snapshots[0].nparticle))
        ng, p = np.array([4, 5]), K.ppp(2)
        f = K.path("gb")
        return _S(lambda: K.mod("utils.coarse_graining").gaussian_blurring(sn, A, ng, 1.0, p, 6.0, f), (sn, A, ng, p),
                  [(f + "_positions.npy", "npy", lambda r: r[0], None), (f + "_properties.npy", "npy", lambda r: r[1], None)])

    @add("utils.coarse_graining.gaussian_blurring", "2d-unwrapped-outside-the-cell")
    def _(K):
        np = K.np
        sn = K.snaps(2, tag="xu-far")
        A = K.rng.random((sn.nsnapshots, sn.snapshots[0].nparticle))
        ng, p = np.array([3, 4]), K.ppp(2)
        return _S(lambda: K.mod("utils.coarse_graining").gaussian_blurring(sn, A, ng, 1.0, p, 6.0, ""), (sn, A, ng, p))

    # ---- neighbours
    for d in (3, 2):
        @add("neighbors.calculate_neighbors.Nnearests", f"{d}d")
        def _(K, d=d):
            sn, p = K.snaps(d), K.ppp(d)
            return _S(lambda: K.mod("neighbors.calculate_neighbors").Nnearests(sn, 5, p, K.path("o_nn.dat")), (sn, p))

        @add("neighbors.calculate_neighbors.cutoffneighbors", f"{d}d")
        def _(K, d=d):
            sn, p = K.snaps(d), K.ppp(d)
            return _S(lambda: K.mod("neighbors.calculate_neighbors").cutoffneighbors(sn, 1.4, p, K.path("o_cut.dat")), (sn, p))

        @add("neighbors.calculate_neighbors.cutoffneighbors_particletype", f"{d}d")
        def _(K, d=d):
            np = K.np
            sn, p = K.snaps(d), K.ppp(d)
            rc = np.array([[1.3, 1.5], [1.5, 1.7]])
            return _S(lambda: K.mod("neighbors.calculate_neighbors").cutoffneighbors_particletype(sn, rc, p, K.path("o_cutt.dat")), (sn, p, rc))

        for centred in (False, True):
            tag = f"{d}d-{'centred' if centred else 'origin-at-0'}"

            @add("neighbors.freud_neighbors.convert_configuration", tag)
            def _(K, d=d, centred=centred):
                sn = K.snaps(d, centred=centred)
                return _S(lambda: K.mod("neighbors.freud_neighbors").convert_configuration(sn)[1], (sn,))

            @add("neighbors.freud_neighbors.cal_neighbors", tag)
            def _(K, d=d, centred=centred):
                sn = K.snaps(d, centred=centred)
                return _S(lambda: K.mod("neighbors.freud_neighbors").cal_neighbors(sn, K.path("o_voro")), (sn,))

            for tm in (True, False):
                @add("neighbors.freud_neighbors.VolumeMatrix", tag + ("/transform" if tm else "/raw") + "/file")
                def _(K, d=d, centred=centred, tm=tm):
                    sn = K.snaps(d, T=2, N=12, centred=centred)
                    f = K.path("vm.npy")
                    return _S(lambda: K.mod("neighbors.freud_neighbors").VolumeMatrix(sn, ndim=d, nconfig=0, deltar=0.01, transform_matrix=tm, outputfile=f), (sn,),
                              [(f, "npy", lambda r: r, None)])

    @add("neighbors.read_neighbors.read_neighbors", "file")
    def _(K):
        nf = K.nn(3, 6)

        def call():
            with open(nf, encoding="utf-8") as fh:
                a = K.mod("neighbors.read_neighbors").read_neighbors(fh, K.snaps(3).snapshots[0].nparticle, 10)
                b = K.mod("neighbors.read_neighbors").read_neighbors(fh, K.snaps(3).snapshots[0].nparticle, 10)
            return a, b
        return _S(call, ())

    # ---- static
    @add("static.shape.gyration_tensor", "3d")
    def _(K):
        pos = K.snaps(3).snapshots[0].positions
        return _S(lambda: K.mod("static.shape").gyration_tensor(pos), (pos,))

    @add("static.shape.gyration_tensor", "2d")
    def _(K):
        pos = K.snaps(2).snapshots[0].positions
        return _S(lambda: K.mod("static.shape").gyration_tensor(pos), (pos,))

    for d in (3, 2):
        for Kn, meth in ((1, "unary"), (2, "binary"), (3, "ternary"), (4, "quarternary"), (5, "quinary")):
            for cls, mod in (("gr", "static.gr"), ("sq", "static.sq")):
                def mk(d=d, Kn=Kn, meth=meth, cls=cls, mod=mod, via=None):
                    def b(K):
                        sn = K.snaps(d, T=2, N=20, K=Kn)
                        f = K.path(f"{cls}.csv")
                        if cls == "gr":
                            p = K.ppp(d)
                            obj = K.mod(mod).gr(sn, p, 0.1, f)
                            watch = (sn, p)
                        else:
                            obj = K.mod(mod).sq(sn, qrange=4.0, onlypositive=False, qvector=None, saveqvectors=False, outputfile=f)
                            watch = (sn,)
                        if via == "__init__":
                            return _S(lambda: sorted(vars(K.mod(mod).gr(sn, p, 0.1, f) if cls == "gr" else K.mod(mod).sq(sn, qrange=4.0, outputfile=f))), watch)
                        return _S(lambda: getattr(obj, via or meth)(), watch, [(f, "csv", lambda r: r, 6)])
                    return b
                S.setdefault(f"PyMatterSim.{mod}.{cls}.{meth}", []).append((f"{d}d", mk()))
                if (d, Kn) in ((3, 2), (2, 1)):
                    S.setdefault(f"PyMatterSim.{mod}.{cls}.getresults", []).append((f"{d}d/K={Kn}", mk(via="getresults")))
                    S.setdefault(f"PyMatterSim.{mod}.{cls}.__init__", []).append((f"{d}d/K={Kn}", mk(via="__init__")))

    for d in (3, 2):
        for ct in (None, "vector", "tensor"):
            @add("static.gr.conditional_gr", f"{d}d/{ct}")
            def _(K, d=d, ct=ct):
                np = K.np
                s = K.snaps(d).snapshots[0]
                n = s.nparticle
                cond = K.rng.random(n) > 0.4 if ct is None else (K.rng.random((n, d)) if ct == "vector" else K.rng.random((n, d, d)))
                p = K.ppp(d)
                return _S(lambda: K.mod("static.gr").conditional_gr(s, cond, ct, p, 0.1), (s, cond, p))

        @add("static.sq.conditional_sq", f"{d}d")
        def _(K, d=d):
            np = K.np
            s = K.snaps(d).snapshots[0]
            L = s.boxlength[0]
            q = K.mod("utils.wavevector").choosewavevector(d, 10, False).astype(float) * 2 * np.pi / L
            cond = K.rng.random(s.nparticle)
            return _S(lambda: K.mod("static.sq").conditional_sq(s, q, cond), (s, q, cond))

    @add("static.boo.boo_2d.lthorder", "2d/file")
    def _(K):
        sn, p = K.snaps(2), K.ppp(2)
        f = K.path("phi.npy")
        o = K.mod("static.boo").boo_2d(sn, 6, K.neigh(2), "", p, 12)
        return _S(lambda: o.lthorder(f), (sn, p), [(f, "npy", lambda r: r, None)])

    @add("static.boo.boo_2d.lthorder", "2d/weights")
    def _(K):
        sn, p = K.snaps(2), K.ppp(2)
        o = K.mod("static.boo").boo_2d(sn, 6, K.neigh(2), K.neigh(2, "weights"), p, 12)
        return _S(lambda: o.lthorder(), (sn, p))

    @add("static.boo.boo_2d.__init__", "2d")
    def _(K):
        sn, p = K.snaps(2), K.ppp(2)
        return _S(lambda: vars(K.mod("static.boo").boo_2d(sn, 6, K.neigh(2), "", p, 12)), (sn, p))

    @add("static.boo.boo_2d.time_average", "2d/file")
    def _(K):
        sn, p = K.snaps(2), K.ppp(2)
        f = K.path("tavg.npy")
        o = K.mod("static.boo").boo_2d(sn, 6, K.neigh(2), "", p, 12)
        return _S(lambda: o.time_average(2 * 1000 * 0.002, 0.002, True, f), (sn, p),
                  [(f, "npy", lambda r: r[0], None), (f + ".snapshot_id.dat", "txt", lambda r: r[1], (0, 1))])

    @add("static.boo.boo_2d.spatial_corr", "2d/file")
    def _(K):
        sn, p = K.snaps(2), K.ppp(2)
        f = K.path("b2sc.csv")
        o = K.mod("static.boo").boo_2d(sn, 6, K.neigh(2), "", p, 12)
        return _S(lambda: o.spatial_corr(0.1, f), (sn, p), [(f, "csv", lambda r: r, 8)])

    @add("static.boo.boo_2d.time_corr", "2d/file")
    def _(K):
        sn, p = K.snaps(2), K.ppp(2)
        f = K.path("b2tc.csv")
        o = K.mod("static.boo").boo_2d(sn, 6, K.neigh(2), "", p, 12)
        return _S(lambda: o.time_corr(0.002, f), (sn, p), [(f, "csv", lambda r: r, 8)])

    def boo3(K, weights=False):
        sn, p = K.snaps(3), K.ppp(3)
        o = K.mod("static.boo").boo_3d(sn, 4, K.neigh(3), K.neigh(3, "weights") if weights else None, p, 40)
        return sn, p, o

    @add("static.boo.boo_3d.__init__", "3d")
    def _(K):
        sn, p = K.snaps(3), K.ppp(3)
        return _S(lambda: vars(K.mod("static.boo").boo_3d(sn, 4, K.neigh(3), None, p, 40)), (sn, p))

    @add("static.boo.boo_3d.qlm_Qlm", "3d")
    def _(K):
        sn, p, o = boo3(K)
        return _S(lambda: o.qlm_Qlm(), (sn, p))

    @add("static.boo.boo_3d.qlm_Qlm", "3d/weights")
    def _(K):
        sn, p, o = boo3(K, True)
        return _S(lambda: o.qlm_Qlm(), (sn, p))

    for cg in (False, True):
        @add("static.boo.boo_3d.ql_Ql", f"3d/cg={cg}/file")
        def _(K, cg=cg):
            sn, p, o = boo3(K)
            f = K.path("ql.npy")
            return _S(lambda: o.ql_Ql(cg, f), (sn, p), [(f, "npy", lambda r: r, None)])

        @add("static.boo.boo_3d.sij_ql_Ql", f"3d/cg={cg}/file")
        def _(K, cg=cg):
            sn, p, o = boo3(K)
            return _S(lambda: o.sij_ql_Ql(cg, 0.7, K.path("sijq.csv"), K.path("sij.dat")), (sn, p))

        @add("static.boo.boo_3d.w_W_cap", f"3d/cg={cg}/file")
        def _(K, cg=cg):
            sn, p, o = boo3(K)
            f1, f2 = K.path("w.npy"), K.path("wc.npy")
            return _S(lambda: o.w_W_cap(cg, f1, f2), (sn, p), [(f1, "npy", lambda r: r[0], None), (f2, "npy", lambda r: r[1], None)])

        # names ending in .dat / .txt: the documented text twin (np.savetxt, 6 decimals) next to the binary file <name>.npy
        @add("static.boo.boo_3d.w_W_cap", f"3d/cg={cg}/text-files")
        def _(K, cg=cg):
            sn, p, o = boo3(K)
            f1, f2 = K.path("w.dat"), K.path("wc.txt")
            return _S(lambda: o.w_W_cap(cg, f1, f2), (sn, p),
                      [(f1 + ".npy", "npy", lambda r: r[0], None), (f2 + ".npy", "npy", lambda r: r[1], None),
                       (f1, "txt", lambda r: r[0], 6), (f2, "txt", lambda r: r[1], 6)])

        @add("static.boo.boo_3d.ql_Ql", f"3d/cg={cg}/text-file")
        def _(K, cg=cg):
            sn, p, o = boo3(K)
            f = K.path("ql.dat")
            return _S(lambda: o.ql_Ql(cg, f), (sn, p), [(f + ".npy", "npy", lambda r: r, None), (f, "txt", lambda r: r, 6)])

    @add("static.boo.boo_3d.spatial_corr", "3d/file")
    def _(K):
        sn, p, o = boo3(K)
        f = K.path("b3sc.csv")
        return _S(lambda: o.spatial_corr(False, 0.1, f), (sn, p), [(f, "csv", lambda r: r, 8)])

    @add("static.boo.boo_3d.time_corr", "3d/file")
    def _(K):
        sn, p, o = boo3(K)
        f = K.path("b3tc.csv")
        return _S(lambda: o.time_corr(False, 0.002, f), (sn, p), [(f, "csv", lambda r: r, 8)])

    @add("static.geometric.packing_capability_2d", "2d/file")
    def _(K):
        np = K.np
        sn, p = K.snaps(2), K.ppp(2)
        sig = np.array([[1.0, 1.2], [1.2, 1.4]])
        f = K.path("pc.npy")
        return _S(lambda: K.mod("static.geometric").packing_capability_2d(sn, sig, K.neigh(2), p, f), (sn, sig, p), [(f, "npy", lambda r: r, None)])

    @add("static.geometric.q8_tetrahedral", "3d/file")
    def _(K):
        sn, p = K.snaps(3), K.ppp(3)
        f = K.path("q8.npy")
        return _S(lambda: K.mod("static.geometric").q8_tetrahedral(sn, p, f), (sn, p), [(f, "npy", lambda r: r, None)])

    for d in (2, 3):
        @add("static.hessians.HessianMatrix.diagonalize_hessian", f"{d}d")
        def _(K, d=d):
            np = K.np
            H = K.mod("static.hessians")
            s = K.snaps(d, N=16).snapshots[0]
            masses = {1: 1.0, 2: 1.3}
            eps = np.array([[1.0, 1.5], [1.5, 0.5]])
            sig = np.array([[1.0, 0.8], [0.8, 0.88]])
            rc = 2.5 * sig
            p = K.ppp(d)
            o = H.HessianMatrix(s, masses, eps, sig, rc, p, True)
            ip = H.InteractionParams(model_name=H.ModelName.lennard_jones)
            f = K.path("hess")
            return _S(lambda: o.diagonalize_hessian(ip, True, True, f), (s, masses, eps, sig, rc, p))

        @add("static.hessians.HessianMatrix.pair_matrix", f"{d}d")
        def _(K, d=d):
            np = K.np
            H = K.mod("static.hessians")
            s = K.snaps(d, N=16).snapshots[0]
            eps = np.array([[1.0]])
            p = K.ppp(d)
            o = H.HessianMatrix(s, {1: 1.0}, eps, eps.copy(), 2.5 * eps, p, True)
            R = K.rng.random(d) + 0.5
            du = [0.3, 0.1, 2.0]
            return _S(lambda: o.pair_matrix(R, du), (s, eps, p, R, du))

    @add("static.hessians.PairInteractions.caller", "lj")
    def _(K):
        H = K.mod("static.hessians")
        o = H.PairInteractions(1.1, 1.0, 1.0, 2.5, True)
        return _S(lambda: [o.caller(H.InteractionParams(model_name=H.ModelName.lennard_jones)), o.lennard_jones(), o.inverse_power_law(12, 1.0), o.harmonic_hertz(2.0)], ())
    for m in ("lennard_jones", "inverse_power_law", "harmonic_hertz", "__init__"):
        S["PyMatterSim.static.hessians.PairInteractions." + m] = S["PyMatterSim.static.hessians.PairInteractions.caller"]

    def nem(K):
        np = K.np
        ru = K.mod("reader.reader_utils")
        sx = K.snaps(2)
        fr = []
        for s in sx.snapshots:
            th = K.rng.random(s.nparticle) * 2 * np.pi
            fr.append(ru.SingleSnapshot(s.timestep, s.nparticle, s.particle_type, np.column_stack([np.cos(th), np.sin(th)]), s.boxlength, s.boxbounds, s.realbounds, s.hmatrix))
        so = ru.Snapshots(sx.nsnapshots, fr)
        return so, sx

    @add("static.nematic.NematicOrder.tensor", "2d/eig/file")
    def _(K):
        so, sx = nem(K)
        o = K.mod("static.nematic").NematicOrder(so, sx)
        f = K.path("nem")
        return _S(lambda: o.tensor(2, "", 30, True, f), (so, sx), [(f + ".eigval.npy", "npy", lambda r: r, None)])

    @add("static.nematic.NematicOrder.tensor", "2d/trace/cg/file")
    def _(K):
        so, sx = nem(K)
        o = K.mod("static.nematic").NematicOrder(so, sx)
        f = K.path("nemt")
        return _S(lambda: o.tensor(2, K.nn(2, 5), 30, False, f), (so, sx), [(f + ".Qtrace.npy", "npy", lambda r: r, None)])

    @add("static.nematic.NematicOrder.spatial_corr", "2d/file")
    def _(K):
        so, sx = nem(K)
        o = K.mod("static.nematic").NematicOrder(so, sx)
        o.tensor(2, "", 30, False, K.path("nem0"))
        p = K.ppp(2)
        f = K.path("nemsc.csv")
        return _S(lambda: o.spatial_corr(0.1, p, f), (so, sx, p), [(f, "csv", lambda r: r, 8)])

    @add("static.nematic.NematicOrder.time_corr", "2d")
    def _(K):
        so, sx = nem(K)
        o = K.mod("static.nematic").NematicOrder(so, sx)
        o.tensor(2, "", 30, False, K.path("nem1"))
        return _S(lambda: o.time_corr(0.002, K.path("nemtc.csv")), (so, sx))

    @add("static.pairentropy.s2_integral", "3d")
    def _(K):
        np = K.np
        r = np.linspace(0.01, 3, 60)
        g = 1 + 0.3 * np.sin(3 * r) * np.exp(-r)
        return _S(lambda: K.mod("static.pairentropy").s2_integral(g, r, 3), (g, r))

    def s2(K, d=3):
        np = K.np
        sn, p = K.snaps(d), K.ppp(d)
        sig = np.array([[1.5, 2.0], [2.0, 1.5]])
        return sn, p, sig, K.mod("static.pairentropy").S2(sn, sig, p, 0.05, 60)

    for d in (3, 2):
        @add("static.pairentropy.S2.particle_s2", f"{d}d/file")
        def _(K, d=d):
            sn, p, sig, o = s2(K, d)
            f = "s2out.npy"
            cwd = os.getcwd()

            def call():
                os.chdir(K.tmp)
                try:
                    return o.particle_s2(True, f)
                finally:
                    os.chdir(cwd)
            return _S(call, (sn, p, sig), [(K.path(f), "npy", lambda r: r[0], None), (K.path("particle_gr." + f), "npy", lambda r: r[1], None)])

    @add("static.pairentropy.S2.spatial_corr", "3d/file")
    def _(K):
        sn, p, sig, o = s2(K)
        o.particle_s2()
        f = K.path("s2sc.csv")
        return _S(lambda: o.spatial_corr(False, f), (sn, p, sig), [(f, "csv", lambda r: r, 8)])

    @add("static.pairentropy.S2.time_corr", "3d/file")
    def _(K):
        sn, p, sig, o = s2(K)
        o.particle_s2()
        f = K.path("s2tc.csv")
        return _S(lambda: o.time_corr(0.002, f), (sn, p, sig), [(f, "csv", lambda r: r, 6)])

    @add("static.vector.participation_ratio", "2d")
    def _(K):
        v = K.rng.standard_normal((12, 2))
        return _S(lambda: K.mod("static.vector").participation_ratio(v), (v,))

    @add("static.vector.local_vector_alignment", "2d")
    def _(K):
        v = K.rng.standard_normal((K.snaps(2).snapshots[0].nparticle, 2))
        return _S(lambda: K.mod("static.vector").local_vector_alignment(v, K.nn(2, 5)), (v,))

    @add("static.vector.phase_quotient", "2d")
    def _(K):
        v = K.rng.standard_normal((K.snaps(2).snapshots[0].nparticle, 2))
        return _S(lambda: K.mod("static.vector").phase_quotient(v, K.nn(2, 5)), (v,))

    for d in (2, 3):
        @add("static.vector.divergence_curl", f"{d}d")
        def _(K, d=d):
            s = K.snaps(d).snapshots[0]
            v = K.rng.standard_normal((s.nparticle, d))
            p = K.ppp(d)
            return _S(lambda: K.mod("static.vector").divergence_curl(s, v, p, K.nn(d, 5)), (s, v, p))

    @add("static.vector.vibrability", "file")
    def _(K):
        np = K.np
        n, d = 6, 2
        w = np.abs(K.rng.standard_normal(n * d)) + 0.1
        ev = K.rng.standard_normal((n * d, n * d))
        f = K.path("vib.npy")
        return _S(lambda: K.mod("static.vector").vibrability(w, ev, n, f), (w, ev), [(f, "npy", lambda r: r, None)])

    for d in (2, 3):
        @add("static.vector.vector_decomposition_sq", f"{d}d/file")
        def _(K, d=d):
            np = K.np
            s = K.snaps(d).snapshots[0]
            q = K.mod("utils.wavevector").choosewavevector(d, 8, False).astype(float) * 2 * np.pi / s.boxlength[0]
            v = K.rng.standard_normal((s.nparticle, d))
            f = K.path("vd.csv")
            return _S(lambda: K.mod("static.vector").vector_decomposition_sq(s, q, v, f), (s, q, v), [(f, "csv", lambda r: r[1], 8)])

    @add("static.vector.vector_fft_corr", "2d/file")
    def _(K):
        np = K.np
        sn = K.snaps(2)
        s = sn.snapshots[0]
        q = K.mod("utils.wavevector").choosewavevector(2, 6, False).astype(float) * 2 * np.pi / s.boxlength[0]
        v = K.rng.standard_normal((sn.nsnapshots, s.nparticle, 2))
        f = K.path("vfc")
        return _S(lambda: K.mod("static.vector").vector_fft_corr(sn, q, v, 0.002, f), (sn, q, v),
                  [(f + ".FFT.npy", "npy", lambda r: r["FFT"].values, None), (f + ".T_FFT.npy", "npy", lambda r: r["T_FFT"].values, None)])

    # ---- dynamics
    @add("dynamic.time_corr.time_correlation", "scalar/file")
    def _(K):
        sn = K.snaps(3)
        c = K.rng.random((sn.nsnapshots, sn.snapshots[0].nparticle))
        f = K.path("tc.csv")
        return _S(lambda: K.mod("dynamic.time_corr").time_correlation(sn, c, 0.002, f), (sn, c), [(f, "csv", lambda r: r, 8)])

    @add("dynamic.time_corr.time_correlation", "vector")
    def _(K):
        sn = K.snaps(3)
        c = K.rng.random((sn.nsnapshots, sn.snapshots[0].nparticle, 3))
        return _S(lambda: K.mod("dynamic.time_corr").time_correlation(sn, c, 0.002, ""), (sn, c))

    @add("dynamic.dynamics.cage_relative", "3d")
    def _(K):
        np = K.np
        R = K.rng.standard_normal((10, 3))
        cn = np.array([[3, 1, 2, 4, 0]] * 10)
        return _S(lambda: K.mod("dynamic.dynamics").cage_relative(R, cn), (R, cn))

    def dyn(K, cls, d, mode):
        np = K.np
        D = K.mod("dynamic.dynamics")
        xu = K.snaps(d, tag="xu")
        x = K.snaps(d)
        p = np.array([0] * d) if mode == "xu" else K.ppp(d)
        dia = {1: 1.0, 2: 1.2}
        kw = dict(dt=0.002, ppp=p, diameters=dia, a=0.3, cal_type="slow")
        if mode == "xu":
            o = getattr(D, cls)(xu_snapshots=xu, x_snapshots=None, **kw)
        elif mode == "x":
            o = getattr(D, cls)(xu_snapshots=None, x_snapshots=x, **kw)
        else:
            o = getattr(D, cls)(xu_snapshots=xu, x_snapshots=x, neighborfile=K.nn(d, 5), max_neighbors=30, **kw)
        return o, (xu, x, p, dia)

    for cls in ("Dynamics", "LogDynamics"):
        for d in (3, 2):
            for mode in ("xu", "x", "cage"):
                @add(f"dynamic.dynamics.{cls}.relaxation", f"{d}d/{mode}/file")
                def _(K, cls=cls, d=d, mode=mode):
                    o, w = dyn(K, cls, d, mode)
                    f = K.path("rel.csv")
                    cond = K.rng.random((w[0].nsnapshots, w[0].snapshots[0].nparticle) if cls == "Dynamics" else w[0].snapshots[0].nparticle) > 0.3
                    return _S(lambda: o.relaxation(2 * K.np.pi, cond, f), w + (cond,), [(f, "csv", lambda r: r, None)])

        @add(f"dynamic.dynamics.{cls}.__init__", "3d/xu")
        def _(K, cls=cls):
            o, w = dyn(K, cls, 3, "xu")
            return _S(lambda: sorted(vars(dyn(K, cls, 3, "xu")[0]).keys()), w)

    for d in (3, 2):
        @add("dynamic.dynamics.Dynamics.sq4", f"{d}d/file")
        def _(K, d=d):
            o, w = dyn(K, "Dynamics", d, "xu")
            f = K.path("sq4.csv")
            return _S(lambda: o.sq4(2 * 1000 * 0.002, 4.0, None, f), w, [(f, "csv", lambda r: r, None)])

        # a per-frame selection passed by the caller, in the dtypes a caller plausibly passes (bool mask, 0/1 floats): whether a
        # conversion inside the routine copies depends on the dtype (np.asarray / astype(copy=False) return the caller's own array)
        for dt in ("bool", "float64"):
            @add("dynamic.dynamics.Dynamics.sq4", f"{d}d/condition-{dt}/file")
            def _(K, d=d, dt=dt):
                o, w = dyn(K, "Dynamics", d, "xu")
                f = K.path("sq4c.csv")
                cond = (K.rng.random((w[0].nsnapshots, w[0].snapshots[0].nparticle)) > 0.2).astype(dt)
                return _S(lambda: o.sq4(2 * 1000 * 0.002, 4.0, cond, f), w + (cond,), [(f, "csv", lambda r: r, None)])

    # ---- readers / writer
    def dumpfile(K, d=3):
        sn = K.snaps(d)
        W = K.mod("writer.lammps_writer")
        f = K.path(f"dump{d}.atom")
        with open(f, "w", encoding="utf-8") as fh:
            for s in sn.snapshots:
                bb = s.boxbounds if d == 3 else K.np.vstack([s.boxbounds, [[-0.5, 0.5]]])
                fh.write(W.write_dump_header(s.timestep, s.nparticle, s.boxbounds, "") if d == 3 else W.write_dump_header(s.timestep, s.nparticle, s.boxbounds, ""))
                for i in range(s.nparticle):
                    fh.write(f"{i + 1} {s.particle_type[i]} " + " ".join(f"{x:.6f}" for x in s.positions[i]) + "\n")
        return f

    for d in (3, 2):
        @add("reader.dump_reader.DumpReader.read_onefile", f"{d}d")
        def _(K, d=d):
            f = dumpfile(K, d)

            def call():
                r = K.mod("reader.dump_reader").DumpReader(f, ndim=d)
                r.read_onefile()
                return r.snapshots
            return _S(call, ())

        @add("reader.lammps_reader_helper.read_lammps_wrapper", f"{d}d")
        def _(K, d=d):
            f = dumpfile(K, d)
            return _S(lambda: K.mod("reader.lammps_reader_helper").read_lammps_wrapper(f, d), ())

    @add("writer.lammps_writer.write_dump_header", "3d")
    def _(K):
        bb = K.snaps(3).snapshots[0].boxbounds
        return _S(lambda: K.mod("writer.lammps_writer").write_dump_header(5, 10, bb, "vx"), (bb,))

    @add("writer.lammps_writer.write_data_header", "3d")
    def _(K):
        bb = K.snaps(3).snapshots[0].boxbounds
        return _S(lambda: K.mod("writer.lammps_writer").write_data_header(10, 2, bb), (bb,))

    @add("reader.gsd_reader_helper.read_gsd_dcd", "duck")
    def _(K):
        np = K.np
        from types import SimpleNamespace as NS
        N = 5
        fr = [NS(configuration=NS(step=7 * t, dimensions=3, box=np.array([4., 4., 4., 0, 0, 0])),
                 particles=NS(N=N, typeid=np.zeros(N, dtype=int), position=K.rng.random((N, 3)))) for t in range(2)]

        class G(list):
            pass
        g = G(fr)
        xyz = K.rng.random((2, N, 3))
        dcd = NS(read=lambda: (xyz, None, None))
        return _S(lambda: K.mod("reader.gsd_reader_helper").read_gsd_dcd(g, dcd, 3), (fr, xyz))

    @add("reader.gsd_reader_helper.read_gsd", "duck")
    def _(K):
        np = K.np
        from types import SimpleNamespace as NS
        N = 5
        fr = [NS(configuration=NS(step=7 * t, dimensions=3, box=np.array([4., 4., 4., 0, 0, 0])),
                 particles=NS(N=N, typeid=np.zeros(N, dtype=int), position=K.rng.random((N, 3)))) for t in range(2)]
        return _S(lambda: K.mod("reader.gsd_reader_helper").read_gsd(fr, 3), (fr,))
    return S


_SPECS = None


def specs():
    global _SPECS
    if _SPECS is None:
        _SPECS = _specs()
    return _SPECS


# ------------------------------------------------------------------------------------------------------------
# runner


def _default_arrays(fullname):
    """mutable default arguments of the entry point (and of its class constructor): [(label, object)]"""
    out = []
    try:
        parts = fullname.split(".")
        for cut in (len(parts) - 1, len(parts) - 2):
            try:
                m = importlib.import_module(".".join(parts[:cut]))
            except ImportError:
                continue
            obj = m
            for p in parts[cut:]:
                obj = getattr(obj, p)
            fns = [obj]
            if cut == len(parts) - 2:
                fns.append(getattr(getattr(m, parts[cut]), "__init__"))
            for fn in fns:
                for k, dflt in zip(reversed(fn.__code__.co_varnames[:fn.__code__.co_argcount]), reversed(fn.__defaults__ or ())):
                    out.append((f"default:{fn.__qualname__}.{k}", dflt))
            break
    except Exception:  # noqa
        pass
    return out


def _auto_specs(fullname):
    """entry points without a hand-written spec (e.g. a NEW function): arguments are guessed from the parameter names and
    annotations of the real function (Snapshots / SingleSnapshot / ndarray / ppp / scalars with defaults)"""
    import inspect
    parts = fullname.split(".")
    try:
        m = importlib.import_module(".".join(parts[:-1]))
        fn = getattr(m, parts[-1])
    except Exception:  # noqa  (methods: no automatic harness)
        return None
    if not inspect.isfunction(fn):
        return None
    sig = inspect.signature(fn)

    def mk(d):
        def build(K):
            np = K.np
            sn = K.snaps(d)
            args = {}
            for name, p in sig.parameters.items():
                ann = str(p.annotation)
                low = name.lower()
                if "Snapshots" in ann or low in ("snapshots", "xu_snapshots", "x_snapshots"):
                    args[name] = sn
                elif "SingleSnapshot" in ann or low == "snapshot":
                    args[name] = sn.snapshots[0]
                elif low == "ppp":
                    args[name] = K.ppp(d)
                elif low in ("neighborfile", "fnfile") and p.default is inspect.Parameter.empty:
                    args[name] = K.nn(d, 5)
                elif p.default is not inspect.Parameter.empty:
                    continue
                elif "NDArray" in ann or "ndarray" in ann or "array" in ann or p.annotation is inspect.Parameter.empty:
                    if low in ("condition", "input_property"):
                        args[name] = K.rng.random((sn.nsnapshots, sn.snapshots[0].nparticle))
                    elif low in ("hmatrix",):
                        args[name] = sn.snapshots[0].hmatrix
                    else:
                        args[name] = sn.snapshots[0].positions
                elif "int" in ann:
                    args[name] = d
                elif "float" in ann:
                    args[name] = 1.0
                elif "str" in ann:
                    args[name] = K.path("auto.out")
                else:
                    args[name] = sn.snapshots[0].positions
            return _S(lambda: fn(**args), (args,))
        return build
    return [("auto/3d", mk(3)), ("auto/2d", mk(2))]


_SELF_STATE_OK = ("S2.s2_results", "NematicOrder.QIJ", "DumpReader.snapshots")      # documented call-order state (same list as contracts/C18.NAMED_SELF_STATE)


def run_entry(fullname, what, seed=0, only_label=None):
    """-> replay result dict.  what in {'frame', 'history', 'file', 'all'}"""
    import numpy as np
    sp = specs().get(fullname)
    if not sp:
        sp = _auto_specs(fullname)
    if not sp:
        return {"ran": False, "failed": False, "error": f"no replay harness for {fullname}"}
    details, failed, ran, errors = [], False, 0, []
    first_fail_inputs = None
    for label, build in sp:
        if only_label and only_label != label:
            continue
        for sd in (seed, seed + 1):
            tmp = tempfile.mkdtemp(prefix="pyvc-c18.")
            tmp2 = tempfile.mkdtemp(prefix="pyvc-c18b.")
            cwd = os.getcwd()
            try:
                os.chdir(tmp)
                np.set_printoptions(edgeitems=3, infstr='inf', linewidth=75, nanstr='nan', precision=8, suppress=False, threshold=1000)
                K = Kit(sd, tmp)
                try:
                    b = build(K)
                except Exception as e:  # building inputs uses the package's own writers; a failure here is not a verdict
                    errors.append(f"[{label}] could not build inputs: {type(e).__name__}: {e}")
                    continue
                ran += 1
                watch = _arrays(b["watch"], "args") + _arrays(_default_arrays(fullname), "")
                # a method of an analysis object: the arrays the object holds (computed at construction) are inputs of the call as much as
                # its arguments (later calls on the same object read them); documented call-order state is named in _SELF_STATE_OK
                if not fullname.endswith(".__init__"):
                    for cell in (getattr(b["call"], "__closure__", None) or ()):
                        try:
                            v = cell.cell_contents
                        except ValueError:
                            continue
                        if hasattr(v, "__dict__") and type(v).__module__.startswith("PyMatterSim") and not isinstance(v, type) \
                                and type(v).__name__ in fullname.split("."):
                            have = {id(a) for _, a in watch}
                            for pth, a in _arrays({k: x for k, x in vars(v).items() if f"{type(v).__name__}.{k}" not in _SELF_STATE_OK}, "self"):
                                if id(a) not in have:
                                    watch.append((pth, a))
                before = [(p, a, _sig(a)) for p, a in watch]
                exc1 = None
                try:
                    r1 = b["call"]()
                except Exception as e:  # noqa
                    exc1, r1 = e, None
                changed = []
                for p, a, s0 in before:
                    s1 = _sig(a)
                    if s1 != s0:
                        if isinstance(a, np.ndarray) and s1[0] == s0[0] and s1[1] == s0[1]:
                            old = np.frombuffer(s0[2], dtype=a.dtype).reshape(a.shape) if a.dtype != object else a
                            k = np.argwhere(old != a)
                            idx = tuple(k[0]) if len(k) else ()
                            changed.append(f"{p}{list(idx)}: {old[idx]!r} -> {a[idx]!r} ({len(k)} of {a.size} elements changed)")
                        else:
                            changed.append(f"{p}: shape/dtype/content changed")
                if what in ("frame", "all") and changed:
                    failed = True
                    details.append(f"[{label}, seed {sd}] input modified by the call" + (f" (which then raised {type(exc1).__name__})" if exc1 else "") + ": " + "; ".join(changed[:4]))
                if what in ("history", "all"):
                    # the same entry point on other inputs in between, then the same call again on the same shared objects
                    try:
                        K2 = Kit(sd + 1000, tmp2)
                        b2 = build(K2)
                        try:
                            b2["call"]()
                        except Exception:  # noqa
                            pass
                    except Exception:  # noqa
                        pass
                    exc2 = None
                    try:
                        r2 = b["call"]()
                    except Exception as e:  # noqa
                        exc2, r2 = e, None
                    if (exc1 is None) != (exc2 is None):
                        failed = True
                        details.append(f"[{label}, seed {sd}] first call {'raised ' + type(exc1).__name__ if exc1 else 'returned'}, the repeated call {'raised ' + type(exc2).__name__ + ': ' + str(exc2)[:80] if exc2 else 'returned'}")
                    elif exc1 is None:
                        diff = _same(r1, r2)
                        if diff:
                            failed = True
                            details.append(f"[{label}, seed {sd}] repeated call on the same inputs returns a different result: {diff}")
                if what in ("file", "all") and b["files"]:
                    if exc1 is not None:
                        failed = True
                        details.append(f"[{label}, seed {sd}] call with an output file requested raises {type(exc1).__name__}: {str(exc1)[:120]}")
                    else:
                        for path, kind, pick, dec in b["files"]:
                            try:
                                msg = _check_file(path, kind, pick(r1), dec)
                            except Exception as e:  # noqa
                                msg = f"{os.path.basename(path)}: cannot compare ({type(e).__name__}: {e})"
                            if msg:
                                failed = True
                                details.append(f"[{label}, seed {sd}] {msg}")
                if exc1 is not None and what in ("frame", "history") and not changed:
                    errors.append(f"[{label}] call raises {type(exc1).__name__}: {str(exc1)[:100]}")
                if failed and first_fail_inputs is None:
                    first_fail_inputs = {"spec": label, "seed": sd}
            finally:
                os.chdir(cwd)
                shutil.rmtree(tmp, ignore_errors=True)
                shutil.rmtree(tmp2, ignore_errors=True)
            if failed:
                break
        if failed:
            break
    out = {"ran": ran > 0, "failed": failed, "searched": ran, "inputs": first_fail_inputs,
           "detail": " | ".join(details[:6]) if details else f"{what}: no difference on {ran} seeded call(s)"}
    if errors:
        out["notes"] = errors[:6]
    if ran == 0:
        out["error"] = "; ".join(errors[:3]) or "no spec ran"
    return out


if __name__ == "__main__":  # /venv/bin/python contracts/C18_replay.py [substr] : run every harness (all clauses) on the real package
    import json
    import sys
    import logging
    logging.disable(logging.CRITICAL)
    if len(sys.argv) >= 5 and sys.argv[1] == "--one":      # --one <repo> <module.qualname> <frame|history|file|all> [seed]
        sys.path.insert(0, sys.argv[2])
        try:
            res = run_entry(sys.argv[3], sys.argv[4], int(sys.argv[5]) if len(sys.argv) > 5 else 0)
        except Exception as e:  # noqa
            res = {"ran": False, "failed": False, "error": f"{type(e).__name__}: {e}"}
        print("C18-REPLAY " + json.dumps(res, default=str))
        sys.exit(0)
    sys.path.insert(0, os.environ.get("PYVC_REPO", "/repo"))
    sub = sys.argv[1] if len(sys.argv) > 1 else ""
    nfail = 0
    for name in sorted(specs()):
        if sub in name:
            r = run_entry(name, "all")
            tag = "FAIL" if r.get("failed") else ("ok  " if r.get("ran") else "NORUN")
            print(tag, name, "--", r.get("detail") if r.get("failed") or not r.get("ran") else "", r.get("error", ""), r.get("notes", ""))
