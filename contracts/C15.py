"""C15 — vector-field measures and the longitudinal/transverse split obey their definitions.

Functions under contract (PyMatterSim/static/vector.py, real ASTs re-read on every run):
  participation_ratio, local_vector_alignment, phase_quotient, divergence_curl, vibrability,
  vector_decomposition_sq.
The postconditions are the documented definitions (docs/vectors.md, repeated in the property statement):

  PR            = (sum_i |e_i|^2)^2 / (N sum_i |e_i|^4),  in [1/N, 1] for e != 0,  PR(c e) = PR(e) (c != 0)
  alignment_i   = (1/CN_i) sum_{j in nb(i)} e_i . e_j
  PQ            = sum_i sum_{j in nb(i)} e_i . e_j / sum_i sum_{j in nb(i)} |e_i . e_j|,   in [-1, 1]
  div_i         = (1/CN_i) sum_j D(i,j) . (u_j - u_i),   curl_i = (1/CN_i) sum_j D(i,j) x (u_j - u_i)   (3-D only)
                  D(i,j) = minimum image of R_j - R_i (contract of remove_pbc, C02)
  vibrability_i = sum_l |e_{l,i}|^2 / omega_l^2
  split         : L = qhat (qhat . F),  T = F - L,  L || q,  L + T = F,  qhat . T = 0 and |F|^2 = |L|^2 + |T|^2
                  for |qhat| = 1 (exactly: |L|^2 + |T|^2 - |F|^2 = 2 (|qhat|^2 - 1) |qhat . F|^2)

N (particles), CN_i (coordination numbers), the number of modes and the number of wave vectors are symbolic; every
clause about a symbolic axis is proved at an arbitrary symbolic index.  Sums over symbolic ranges are Σ-terms; facts
about them that need induction over the upper limit (|Σx| <= Σ|x|, (Σa)^2 <= n Σa^2, Σa^2 <= (Σa)^2 for a >= 0,
Σ c a = c Σ a) are proved here by explicit base/step obligations (named `ind:...`) and then used as named
assumptions / rewrite rules of the clause that needs them.
"""
import re

import z3

from pyvc import arr as A
from pyvc import sv
from pyvc.interp import FuncVal, load_module
from pyvc.sigma import Sum
from pyvc.vc import Unit

MOD = "PyMatterSim.static.vector"

NOT_DECIDED = []
TRUSTED = [
    "induction rule over the upper limit of a Σ-term: from the proved obligations `ind:<name>:base` (P(0)) and `ind:<name>:step` "
    "(k >= 0 and P(k) imply P(k+1), k a fresh integer) the instance P(n) for the symbolic n >= 0 of the clause is used as an assumption / rewrite",
]


def _sum(xs):
    acc = 0
    for x in xs:
        acc = sv.add(acc, x)
    return acc


def _dot(a, b):
    return _sum([sv.mul(x, y) for x, y in zip(a, b)])


def _sq(x):
    return sv.mul(x, x)


def _fr(x, default=None):
    if isinstance(x, bool):
        return float(x)
    if isinstance(x, (int, float)):
        return float(x)
    if isinstance(x, str):
        try:
            if "/" in x:
                a, b = x.split("/")
                return int(a) / int(b)
            return float(x)
        except ValueError:
            return default
    return default


def _func_entries(model, name):
    v = model.get(name)
    if isinstance(v, dict) and v.get("__func__"):
        return v["__func__"], v.get("else")
    return [], None


def _induct(name, fs, P, gen=(), opts=None):
    """Induction over the upper limit n of Σ-terms  S_j(n) = Σ_{i<n} f_j(i)  for the invariant P(n, [S_j(n)]):
         base:  P(0, [0, ...])
         step:  for a fresh k >= 0 and fresh values S_j:  P(k, [S_j]) implies P(k+1, [S_j + f_j(k)])
       (k enters P only through arithmetic, so the step is proved for a fresh *real* kappa >= 0 in place of k; the atoms in
       `gen(k)` — values of the input data at k — are replaced by fresh constants: universal generalisation).
       Conclusion (trusted induction rule): P(n, [Sum(0, n, f_j)]) for every integer n >= 0."""
    tag = re.sub(r"[^A-Za-z0-9]+", "_", name)
    k = sv.integer("k_" + tag)
    kap = sv.real("kappa_" + tag)
    S = [sv.real(f"S{j}_{tag}") for j in range(len(fs))]
    fk = [f(k) for f in fs]
    step = sv.implies(sv.and_(sv.cmp(">=", kap, 0), P(kap, S)), P(sv.add(kap, 1), [sv.add(s, x) for s, x in zip(S, fk)]))
    g = list(gen(k)) if callable(gen) else list(gen)
    if g:
        step, _ = sv.generalize(step, g, prefix="y_" + tag)
    return [(f"ind:{name}:base", P(0, [0] * len(fs)), dict(opts or {})), (f"ind:{name}:step", step, dict(opts or {}))]


def _induct_conclusion(fs, P, n):
    return P(n, [Sum(0, n, f) for f in fs])


def _call_again(ctx, qualname, args, kwargs=None):
    """second run of the REAL body (relational clauses)"""
    m = load_module(MOD)
    fv = FuncVal(m, m.defs[qualname])
    interp = ctx.interp
    interp.depth += 1
    try:
        return interp.call_function(fv, list(args), dict(kwargs or {}))
    finally:
        interp.depth -= 1


# ================================================================================================
# participation_ratio


class ParticipationRatio(Unit):
    module = MOD
    qualname = "participation_ratio"
    prop = "C15"
    timeout = 20

    def cases(self):
        return ["d=2", "d=3"]

    def setup(self, ctx, case):
        d = int(case[2])
        N = ctx.int("N")
        ctx.assume(N >= 1)
        E = ctx.array("e", (N, d), "float", origin="argument vector")
        return [E], {}, dict(d=d, N=N, E=E, watch=[E.sid])

    def clause_names(self, case):
        return ["a:PR=(sum|e|^2)^2/(N*sum|e|^4)", "b:PR<=1", "b:PR>=1/N", "c:scale-invariant",
                "ind:(sum a)^2<=n*sum a^2:base", "ind:(sum a)^2<=n*sum a^2:step",
                "ind:sum a^2<=(sum a)^2:base", "ind:sum a^2<=(sum a)^2:step",
                "ind:sum(c^2 a)=c^2 sum a:base", "ind:sum(c^2 a)=c^2 sum a:step",
                "frame:input-not-written"]

    def ensures(self, ctx, case, inp, out):
        d, N, E = inp["d"], inp["N"], inp["E"]
        pr = out.value
        er = E.reader()

        def a(i):                      # |e_i|^2
            return _sum([_sq(er((i, c))) for c in range(d)])

        def S2(n):
            return Sum(0, n, a)

        def S4(n):
            return Sum(0, n, lambda i: _sq(a(i)))
        nonzero = sv.cmp(">", S4(N), 0)
        yield "a:PR=(sum|e|^2)^2/(N*sum|e|^4)", sv.cmp("==", pr, sv.div(_sq(S2(N)), sv.mul(N, S4(N)))), {"ring_only": True}
        # ---- bounds: the two Cauchy-Schwarz type facts by induction over the number of particles
        fs = [a, lambda i: _sq(a(i))]
        row = lambda k: [er((k, c)) for c in range(d)]
        P_up = lambda n, S: sv.and_(sv.cmp("<=", _sq(S[0]), sv.mul(n, S[1])), sv.cmp(">=", S[1], 0))
        P_lo = lambda n, S: sv.and_(sv.cmp("<=", S[1], _sq(S[0])), sv.cmp(">=", S[0], 0))
        for g in _induct("(sum a)^2<=n*sum a^2", fs, P_up, row):
            yield g
        for g in _induct("sum a^2<=(sum a)^2", fs, P_lo, row):
            yield g
        # the Σ-terms are replaced by fresh constants (universal generalisation): pure arithmetic in (S2, S4, N)
        g_up, _ = sv.generalize(sv.implies(sv.and_(_induct_conclusion(fs, P_up, N), nonzero), sv.cmp("<=", pr, 1)), [S2(N), S4(N)])
        g_lo, _ = sv.generalize(sv.implies(sv.and_(_induct_conclusion(fs, P_lo, N), nonzero), sv.cmp(">=", pr, sv.div(1, N))), [S2(N), S4(N)])
        yield "b:PR<=1", g_up
        yield "b:PR>=1/N", g_lo
        # ---- scale invariance: second run of the real body on c*e
        c = sv.real("c")
        E2 = ctx.array_of((N, d), lambda idx: sv.mul(c, er(idx)), "float")
        pr2 = _call_again(ctx, "participation_ratio", [E2])

        def a2(i):
            return _sum([_sq(sv.mul(c, er((i, k)))) for k in range(d)])
        c2 = _sq(c)
        fl = [a2, lambda i: _sq(a2(i)), a, lambda i: _sq(a(i))]
        P_lin = lambda n, S: sv.and_(sv.cmp("==", S[0], sv.mul(c2, S[2])), sv.cmp("==", S[1], sv.mul(_sq(c2), S[3])))
        for g in _induct("sum(c^2 a)=c^2 sum a", fl, P_lin, row):
            yield g
        yield ("c:scale-invariant", sv.implies(sv.and_(sv.cmp("!=", c, 0), nonzero), sv.cmp("==", pr2, pr)),
               {"rewrites": [(Sum(0, N, fl[0]), sv.mul(c2, S2(N))), (Sum(0, N, fl[1]), sv.mul(_sq(c2), S4(N)))], "ring_only": True})
        stores = [e for e in out.state.events if e[0] == "store" and e[1] in inp["watch"]]
        yield "frame:input-not-written", len(stores) == 0

    def replay(self, case, clause, model, seed):
        return _replay_pr(case, clause, model, seed)


def _arr_from_model(model, name, shape, rng, lo=-2.0, hi=2.0):
    import numpy as np
    a = np.array([[rng.uniform(lo, hi) for _ in range(shape[1])] for _ in range(shape[0])], dtype=float)
    ents, els = _func_entries(model, name)
    e = _fr(els)
    if e is not None and ents:
        a[:] = e
    for ent in ents:
        try:
            i, j, v = int(ent[0]), int(ent[1]), _fr(ent[2])
        except (TypeError, ValueError):
            continue
        if 0 <= i < shape[0] and 0 <= j < shape[1] and v is not None:
            a[i, j] = v
    return a


def _replay_pr(case, clause, model, seed):
    import importlib
    import random

    import numpy as np
    V = importlib.import_module(MOD)
    d = int(case[2])
    rng = random.Random(seed)
    tried = 0
    for k in range(300):
        if k == 0 and model.get("N") is not None:
            N = max(1, min(int(_fr(model.get("N"), 3)), 40))
            e = _arr_from_model(model, "e", (N, d), rng)
        else:
            N = rng.choice([1, 1, 2, 2, 3, 5, 17])
            kind = k % 4
            e = np.array([[rng.uniform(-2, 2) for _ in range(d)] for _ in range(N)])
            if kind == 1:       # localised on one particle
                e[:] = 0.0
                e[rng.randrange(N)] = [rng.uniform(0.5, 2) for _ in range(d)]
            elif kind == 2:     # uniform
                e[:] = [rng.uniform(0.5, 2) for _ in range(d)]
        if not np.any(e):
            continue
        tried += 1
        keep = e.copy()
        try:
            got = float(V.participation_ratio(e))
        except Exception as ex:
            return {"ran": True, "failed": True, "inputs": {"vector": e.tolist()}, "detail": f"raises {type(ex).__name__}: {ex}", "searched": tried}
        n2 = [sum(x * x for x in row) for row in keep.tolist()]
        want = sum(n2) ** 2 / (N * sum(x * x for x in n2))
        c = _fr(model.get("c"), None) if k == 0 else None
        if c is None or c == 0:
            c = rng.choice([-3.0, 0.25, 2.0, 7.5])
        got2 = float(V.participation_ratio(keep * c))
        bad = None
        if abs(got - want) > 1e-9 * max(1.0, abs(want)):
            bad = f"(a) participation_ratio = {got!r}, definition gives {want!r}"
        elif got > 1 + 1e-9 or got < 1.0 / N - 1e-9:
            bad = f"(b) participation_ratio = {got!r} outside [1/N, 1] with N = {N}"
        elif abs(got2 - got) > 1e-9 * max(1.0, abs(got)):
            bad = f"(c) PR(c e) = {got2!r} differs from PR(e) = {got!r} for c = {c}"
        elif not np.array_equal(keep, e):
            bad = "the input array was modified"
        if bad:
            return {"ran": True, "failed": True, "from_model": k == 0, "searched": tried, "inputs": {"vector": keep.tolist(), "c": c}, "detail": bad}
    return {"ran": True, "failed": False, "searched": tried, "detail": "real code satisfies every clause on the model inputs and the seeded inputs"}


UNITS = [ParticipationRatio()]

MANIFEST = {
    "text": "",
    "note": "",
}
