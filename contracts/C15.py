"""C15 — vector-field measures and the longitudinal/transverse split obey their definitions.

Functions under contract (PyMatterSim/static/vector.py, real ASTs re-read on every run):
  participation_ratio, local_vector_alignment, phase_quotient, divergence_curl, vibrability,
  vector_decomposition_sq, vector_fft_corr.
The postconditions are the documented definitions (docs/vectors.md, repeated in the property statement):

  PR            = (sum_i |e_i|^2)^2 / (N sum_i |e_i|^4),  in [1/N, 1] for e != 0,  PR(c e) = PR(e) (c != 0)
  alignment_i   = (1/CN_i) sum_{j in nb(i)} e_i . e_j
  PQ            = sum_i sum_{j in nb(i)} e_i . e_j / sum_i sum_{j in nb(i)} |e_i . e_j|,   in [-1, 1]
  div_i         = (1/CN_i) sum_j D(i,j) . (u_j - u_i),   curl_i = (1/CN_i) sum_j D(i,j) x (u_j - u_i)   (3-D only)
                  D(i,j) = minimum image of R_j - R_i (contract of remove_pbc, C02)
  vibrability_i = sum_l |e_{l,i}|^2 / omega_l^2
  split         : L = qhat (qhat . F),  T = F - L,  L || q,  L + T = F,  qhat . T = 0 and |F|^2 = |L|^2 + |T|^2
                  for |qhat| = 1 (exactly: |L|^2 + |T|^2 - |F|^2 = 2 (|qhat|^2 - 1) |qhat . F|^2)
  correlation   : vector_fft_corr over T frames and Q wave vectors (docs/vectors.md section 7): spectra = frame average of the per-frame
                  averaged tables (-> outputfile.spectra.csv); for H in {FFT, T_FFT, L_FFT}: row n of alldata[H] = the q columns of the
                  first frame's table followed by time_correlation(X_{H,n})["time_corr"][k] for every lag k, X_{H,n}[t, c] = column H<c> of
                  frame t's table at wave vector n (C14: origin-averaged normalised autocorrelation), rounded to 8 decimals, lag columns
                  labelled by the callee's time axis, the same values in outputfile.H.npy

N (particles), CN_i (coordination numbers), the number of modes and the number of wave vectors are symbolic; every
clause about a symbolic axis is proved at an arbitrary symbolic index.  Sums over symbolic ranges are Σ-terms; facts
about them that need induction over the upper limit (|Σx| <= Σ|x|, (Σa)^2 <= n Σa^2, Σa^2 <= (Σa)^2 for a >= 0,
Σ c a = c Σ a) are proved here by explicit base/step obligations (named `ind:...`) and then used as named
assumptions / rewrite rules of the clause that needs them.
"""
import re

import z3

from pyvc import arr as A
from pyvc import sv
from pyvc.interp import FuncVal, load_module
from pyvc.sigma import Sum
from pyvc.vc import Unit

MOD = "PyMatterSim.static.vector"

NOT_DECIDED = [
    "vector_fft_corr on trajectories whose number of distinct rounded wave numbers |q| differs between frames (cell changing shape between frames, "
    "e.g. Lx = Ly in one frame only): precondition `the averaged table has the same number G of rows in every frame`.  pandas aligns "
    "`spectra += ave_sqresults` on the row labels: rows missing in a later frame become NaN, additional rows of a later frame are dropped silently, "
    "and rows are paired by their rank among the distinct |q| of each frame, not by wave number (observed on the real code, design_notes/C15.md); NaN is "
    "outside A1, so the case is excluded by the precondition rather than decided",
    "vector_fft_corr for a (header, wave vector) whose lag-zero autocorrelation sum_t sum_c |X[t,c]|^2 (first frame only for unevenly spaced frames) is 0 "
    "(e.g. a purely transverse field at that q for L_FFT): time_correlation divides by it (nan in numpy); excluded by the callee's precondition C(0) != 0, "
    "which vector_fft_corr inherits as a precondition (assumed at the call, not provable from the inputs), and wave vectors with |q| = 0 (the split divides by |q|)",
    "vector_fft_corr: the composition `columns of the per-frame tables = round8 of the split of the transform` is the callee contract of "
    "vector_decomposition_sq (proved for its body by its own unit); inside the proof of vector_fft_corr the tables are arbitrary (uninterpreted), so the "
    "end-to-end formula is obtained by substituting one contract into the other, not by a single obligation; the per-column dtype of pandas frames "
    "(int64 zeros replaced by float64 columns) is not tracked, only the values",
    "S = S_L + S_T at the level of the rounded columns: conditional_sq rounds q0..q<d-1>, q, Sq and FFT to 8 decimals before the split, so "
    "|qhat| = 1 and Sq = sum|FFT_c|^2 hold only up to 1e-8; proved instead, exactly and for every input: "
    "|L|^2 + |T|^2 - |F|^2 = 2 (|qhat|^2 - 1) |qhat.F|^2 and qhat.T = (1 - |qhat|^2)(qhat.F), i.e. the Pythagorean identity and the "
    "orthogonality hold whenever sum_c q_c^2 = q^2 (checked numerically to 1e-7 by the replay on the real pipeline)",
    "the values of the transform columns themselves (FFT_c = N^-1/2 sum_i v_ic exp(-i q.r_i)) are conditional_sq's contract (C13), used here as "
    "an arbitrary complex vector per wave vector",
    "rows of the neighbour array for particles with zero neighbours (mean of an empty list is undefined) and a vanishing denominator of PQ / PR: "
    "clauses are stated for CN_i >= 1 and for non-zero fields, as the statement's definitions presuppose",
    "floating-point accuracy (A1) and the 8-decimal rounding function itself (uninterpreted, monotone, |x - round8 x| <= 5e-9)",
]
TRUSTED = [
    "induction rule over the upper limit of a Σ-term: from the proved obligations `ind:<name>:base` (P(0, 0..)) and `ind:<name>:step` "
    "(for fresh kappa >= 0 and fresh S_j: P(kappa, S) implies P(kappa+1, S + f(k))) the instance P(n, Σ_{i<n} f(i)) for the symbolic n >= 0 of "
    "the clause is used as an assumption / rewrite rule",
    "callee contract of read_neighbors for neighbour-list files (C05 hand-off contract, DESIGN Part II): integer array (N, 1+M), row i = "
    "[cn_i, ids-1 ..., 0 padding], 0 <= cn_i <= M <= Nmax, ids in [0, N); represented as clamped uninterpreted entries",
    "callee contract of remove_pbc (proved by contracts/C02.py): requires det H != 0 and ppp in {0,1}^d, returns per row the minimum image "
    "MINIMAGE(row, H, ppp) = C02.pbc_spec_row, kept as an uninterpreted function of its arguments",
    "callee contract of conditional_sq for a float vector field (C13): frame with columns q0.., q >= 0, Sq, FFT0.. (complex), Q rows; column "
    "values arbitrary",
    "assumed library contracts added for C15 (pyvc/libext/C15.py): np.cross for 2- and 3-vectors; open() returns an opaque handle consumed only "
    "by the read_neighbors contract",
    "pandas model (pyvc/pandas_model.py): DataFrame = record of columns; [[labels]] selection, .values is a read-only array (pandas 3), join by "
    "position, round(8) = uninterpreted round8 per element (componentwise for complex), groupby(key).mean().reset_index() = one row per distinct "
    "key with group means, to_csv = file-write event",
    "ndarray.reshape(n, -1) of a length d*n column with symbolic n: row-major, missing dimension d",
    "vector_fft_corr: callee contract of time_correlation (C14.Spec: rank-2 complex condition of shape (T, d), the d components play the role of the "
    "particles; evenly spaced frames ts_j = ts_0 + j h, T >= 2: origin average; otherwise first frame as only origin; t[k] = (ts_k - ts_0) dt), proved "
    "for the real body by contracts/C14.py (the two cases used are re-verified with this check); it is a function of the shape and the elements of "
    "`condition`: at the call in the wave-vector loop the argument is proved equal (shape, dtype, every element) to X_{H,n} and the result is taken at X_{H,n}",
    "vector_fft_corr: callee contract of vector_decomposition_sq as far as needed (tables with the documented columns, Q rows / G rows, default RangeIndex, "
    "values uninterpreted functions of (frame, row)); preconditions checked at the call: snapshot is frame n of the trajectory, qvector is the caller's, "
    "vector = vectors[n], no per-frame output file",
    "vector_fft_corr preconditions (requires): snapshots.nsnapshots = len(snapshots.snapshots) = T >= 1 = vectors.shape[0], every frame has N particles, Q >= 1 "
    "wave vectors, timesteps evenly spaced with T >= 2 (cases `linear`) or not all differences equal / a single frame (cases `log`), the number G of distinct "
    "rounded |q| is the same in every frame, the lag-zero autocorrelation of every (header, wave vector) is non-zero",
    "wide-frame pandas model (pyvc/libext/C15.py, each item checked on pandas 3.0.6): pd.DataFrame(0, columns=np.arange(Q), index=np.arange(T)) = T x Q block of "
    "zeros with these labels; `frame[n] = float array` replaces column n by exactly these values (no cast to int64; label must be present and the length must be T: "
    "obligations); `frame.index = labels` (length obligation); `.T`; pd.concat([a, b], axis=1) aligns rows BY LABEL - modelled only for identical indexes, which is "
    "an obligation at the call (row label i at position i in every input), result = columns side by side with RangeIndex; `.round(8)` = uninterpreted round8 per "
    "element; `.values` = named columns followed by the block; np.save(path, array) = file-write event; DataFrame arithmetic `0 + df`, `df + df`, `df / n` "
    "element-wise for frames with the same columns, the same length (obligation) and the default RangeIndex (pandas' in-place `+=` reindexes the result to the left "
    "frame: the same values under that obligation)",
    "the written loop invariants of vector_fft_corr are checked by init/step obligations generated from executions of the real loop bodies; the post-state of a loop "
    "is the state after its last iteration executed from the invariant state (the induction principle over the iteration count is the trusted rule)",
]


def _sum(xs):
    acc = 0
    for x in xs:
        acc = sv.add(acc, x)
    return acc


def _dot(a, b):
    return _sum([sv.mul(x, y) for x, y in zip(a, b)])


def _sq(x):
    return sv.mul(x, x)


def _fr(x, default=None):
    if isinstance(x, bool):
        return float(x)
    if isinstance(x, (int, float)):
        return float(x)
    if isinstance(x, str):
        try:
            if "/" in x:
                a, b = x.split("/")
                return int(a) / int(b)
            return float(x)
        except ValueError:
            return default
    return default


def _func_entries(model, name):
    v = model.get(name)
    if isinstance(v, dict) and v.get("__func__"):
        return v["__func__"], v.get("else")
    return [], None


def _induct(name, fs, P, gen=(), opts=None):
    """Induction over the upper limit n of Σ-terms  S_j(n) = Σ_{i<n} f_j(i)  for the invariant P(n, [S_j(n)]):
         base:  P(0, [0, ...])
         step:  for a fresh k >= 0 and fresh values S_j:  P(k, [S_j]) implies P(k+1, [S_j + f_j(k)])
       (k enters P only through arithmetic, so the step is proved for a fresh *real* kappa >= 0 in place of k; the atoms in
       `gen(k)` — values of the input data at k — are replaced by fresh constants: universal generalisation).
       Conclusion (trusted induction rule): P(n, [Sum(0, n, f_j)]) for every integer n >= 0."""
    tag = re.sub(r"[^A-Za-z0-9]+", "_", name)
    k = sv.integer("k_" + tag)
    kap = sv.real("kappa_" + tag)
    S = [sv.real(f"S{j}_{tag}") for j in range(len(fs))]
    fk = [f(k) for f in fs]
    step = sv.implies(sv.and_(sv.cmp(">=", kap, 0), P(kap, S)), P(sv.add(kap, 1), [sv.add(s, x) for s, x in zip(S, fk)]))
    g = list(gen(k)) if callable(gen) else list(gen)
    if g:
        step, _ = sv.generalize(step, g, prefix="y_" + tag)
    return [(f"ind:{name}:base", P(0, [0] * len(fs)), dict(opts or {})), (f"ind:{name}:step", step, dict(opts or {}))]


def _induct_conclusion(fs, P, n):
    return P(n, [Sum(0, n, f) for f in fs])


def _call_again(ctx, qualname, args, kwargs=None):
    """second run of the REAL body (relational clauses)"""
    m = load_module(MOD)
    fv = FuncVal(m, m.defs[qualname])
    interp = ctx.interp
    interp.depth += 1
    try:
        return interp.call_function(fv, list(args), dict(kwargs or {}))
    finally:
        interp.depth -= 1


# ================================================================================================
# callee contracts (summaries)


def read_neighbors_contract(interp, args, kwargs):
    """Callee contract of PyMatterSim.neighbors.read_neighbors.read_neighbors(f, nparticle, Nmax=200) for a neighbour-LIST
    file (header contains the word `neighborlist`; the only kind the vector functions can use, because the entries are
    used as array indices) — the contract planned for C05 (DESIGN Part II, C05 "File hand-off"):
      requires  f is an open text handle positioned at a frame header; rows `id cn v_1 .. v_cn`, every id in 1..nparticle
                exactly once, every v in 1..nparticle;
      ensures   an integer array of shape (nparticle, 1 + M), M = min(max_i cn_i, Nmax); row i: [min(cn_i, Nmax), v_1 - 1, ...]
                zero padded: 0 <= row[0] <= M, 0 <= row[1+k] < nparticle for k < row[0], row[1+k] = 0 for k >= row[0];
                the handle is advanced by one frame.
    The array is represented as an arbitrary array with these bounds: raw uninterpreted entries clamped into their range
    (every array satisfying the bounds is of this form), so the facts hold at every index without quantifiers."""
    from pyvc.interp import Ref
    from pyvc.state import Content, cur
    f, n = args[0], args[1]
    nmax = kwargs.get("Nmax", args[2] if len(args) > 2 else 200)
    st = cur()
    ok = isinstance(f, Ref) and f.kind == "file" and "r" in str(f.content.get("mode", "r"))
    st.require(bool(ok), "call:read_neighbors:pre(open-readable-handle)")
    st.require(sv.cmp(">=", n, 1), "call:read_neighbors:pre(nparticle>=1)")
    pos = f.content.get("pos", 0) if ok else 0
    M = sv.integer(f"maxcn{pos}")
    st.assume(sv.and_(sv.cmp(">=", M, 0), sv.cmp("<=", M, nmax)))
    cnraw = z3.Function(f"cnraw{pos}", z3.IntSort(), z3.IntSort())
    nbraw = z3.Function(f"nbraw{pos}", z3.IntSort(), z3.IntSort(), z3.IntSort())

    def clamp(x, lo, hi):
        return sv.maxv(lo, sv.minv(x, hi))

    def cn(i):
        return clamp(sv.SV(cnraw(sv.znum(i))), 0, M)

    def nb(i, k):
        return clamp(sv.SV(nbraw(sv.znum(i), sv.znum(k))), 0, sv.sub(n, 1))

    def elem(idx):
        i, j = idx
        k = A.simp(sv.sub(j, 1))
        body = sv.ite(sv.cmp("<", k, cn(i)), lambda: nb(i, k), 0)
        if sv.is_conc(j):
            return cn(i) if int(j) == 0 else body
        return sv.ite(sv.cmp("==", j, 0), lambda: cn(i), body)
    arr = A.new_arr((n, A.simp(sv.add(1, M))), elem, "int")
    if ok:
        c = st.heap[f.sid]
        st.heap[f.sid] = Content("file", dict(c.data, pos=pos + 1), c.meta)
    calls = getattr(interp, "c15_neighbor_reads", None)
    if calls is None:
        calls = interp.c15_neighbor_reads = {}
    calls[pos] = dict(cn=cn, nb=nb, M=M, arr=arr, n=n)
    return arr


READ_NEIGHBORS = "PyMatterSim.neighbors.read_neighbors.read_neighbors"
REMOVE_PBC = "PyMatterSim.utils.pbc.remove_pbc"


def minimum_image(row, Hm, pm, d):
    """D = remove_pbc(row, H, ppp) as specified by the C02 contract (C02.pbc_spec_row: sum_k (m_k - rint(m_k) ppp_k) H[k,:],
    m = row H^-1).  C15 needs no property of the minimum image other than that it is this function of (row, H, ppp), so the
    d components are kept as applications of uninterpreted function symbols MINIMAGE<d>_<c>(row, H, ppp) (keeps the queries
    free of the rational functions of H)."""
    args = [sv.zr(x) for x in row] + [sv.zr(x) for r in Hm for x in r] + [sv.zr(sv.to_real(x)) for x in pm]
    out = []
    for c in range(d):
        f = z3.Function(f"MINIMAGE{d}_{c}", *([z3.RealSort()] * len(args)), z3.RealSort())
        out.append(sv.SV(f(*args)))
    return out


def remove_pbc_contract(interp, args, kwargs):
    """Callee contract of remove_pbc (proved for the real body by contracts/C02.py, clauses a/b for every mask in {0,1}^d):
    requires det(hmatrix) != 0, ppp_k in {0,1}; ensures row r of the result is minimum_image(RIJ[r], hmatrix, ppp)
    (= the term C02.pbc_spec_row)."""
    from contracts import C02
    from pyvc.state import cur
    names = ["RIJ", "hmatrix", "ppp"]
    vals = dict(zip(names, args))
    vals.update(kwargs)
    R, H, P = vals["RIJ"], vals["hmatrix"], vals.get("ppp")
    if P is None or not isinstance(R, A.Arr) or not isinstance(H, A.Arr) or not isinstance(P, A.Arr):
        raise sv.EngineError("remove_pbc contract: array arguments expected (default ppp is 3-D only)")
    d = A.conc_dim(H.shape[0], "cell dimension")
    A.require_dim_eq(H.shape[1], d, "call:remove_pbc:pre(square-cell)")
    A.require_dim_eq(P.shape[0], d, "call:remove_pbc:pre(ppp-length)")
    A.require_dim_eq(R.shape[-1], d, "call:remove_pbc:pre(RIJ-columns)")
    Hm = A.to_list(H)
    det, _ = C02._inv_spec(Hm, d)
    cur().require(sv.cmp("!=", det, 0), "call:remove_pbc:pre(det!=0)")
    pm = A.to_list(P)
    for x in pm:
        cur().require(sv.or_(sv.cmp("==", x, 0), sv.cmp("==", x, 1)), "call:remove_pbc:pre(ppp-in-{0,1})")
    rr = R.reader()
    if R.ndim == 1:
        row = minimum_image([rr((c,)) for c in range(d)], Hm, pm, d)
        return A.new_arr((1, d), lambda idx: A._pick(row, idx[1]), "float")
    if R.ndim != 2:
        raise sv.EngineError("remove_pbc contract: RIJ rank")

    def fn(idx):
        row = minimum_image([rr((idx[0], c)) for c in range(d)], Hm, pm, d)
        return A._pick(row, idx[1])
    return A.new_arr((R.shape[0], d), fn, "float")


# ================================================================================================
# participation_ratio


class ParticipationRatio(Unit):
    module = MOD
    qualname = "participation_ratio"
    prop = "C15"
    timeout = 20

    def cases(self):
        return ["d=2", "d=3"]

    def setup(self, ctx, case):
        d = int(case[2])
        N = ctx.int("N")
        ctx.assume(N >= 1)
        E = ctx.array("e", (N, d), "float", origin="argument vector")
        return [E], {}, dict(d=d, N=N, E=E, watch=[E.sid])

    def clause_names(self, case):
        return ["a:PR=(sum|e|^2)^2/(N*sum|e|^4)", "b:PR<=1", "b:PR>=1/N", "c:scale-invariant",
                "ind:(sum a)^2<=n*sum a^2:base", "ind:(sum a)^2<=n*sum a^2:step",
                "ind:sum a^2<=(sum a)^2:base", "ind:sum a^2<=(sum a)^2:step",
                "ind:sum(c^2 a)=c^2 sum a:base", "ind:sum(c^2 a)=c^2 sum a:step",
                "frame:input-not-written"]

    def ensures(self, ctx, case, inp, out):
        d, N, E = inp["d"], inp["N"], inp["E"]
        pr = out.value
        er = E.reader()

        def a(i):                      # |e_i|^2
            return _sum([_sq(er((i, c))) for c in range(d)])

        def S2(n):
            return Sum(0, n, a)

        def S4(n):
            return Sum(0, n, lambda i: _sq(a(i)))
        nonzero = sv.cmp(">", S4(N), 0)
        yield "a:PR=(sum|e|^2)^2/(N*sum|e|^4)", sv.cmp("==", pr, sv.div(_sq(S2(N)), sv.mul(N, S4(N)))), {"ring_only": True}
        # ---- bounds: the two Cauchy-Schwarz type facts by induction over the number of particles
        fs = [a, lambda i: _sq(a(i))]
        row = lambda k: [er((k, c)) for c in range(d)]
        P_up = lambda n, S: sv.and_(sv.cmp("<=", _sq(S[0]), sv.mul(n, S[1])), sv.cmp(">=", S[1], 0))
        P_lo = lambda n, S: sv.and_(sv.cmp("<=", S[1], _sq(S[0])), sv.cmp(">=", S[0], 0))
        for g in _induct("(sum a)^2<=n*sum a^2", fs, P_up, row):
            yield g
        for g in _induct("sum a^2<=(sum a)^2", fs, P_lo, row):
            yield g
        # the Σ-terms are replaced by fresh constants (universal generalisation): pure arithmetic in (S2, S4, N)
        g_up, _ = sv.generalize(sv.implies(sv.and_(_induct_conclusion(fs, P_up, N), nonzero), sv.cmp("<=", pr, 1)), [S2(N), S4(N)])
        g_lo, _ = sv.generalize(sv.implies(sv.and_(_induct_conclusion(fs, P_lo, N), nonzero), sv.cmp(">=", pr, sv.div(1, N))), [S2(N), S4(N)])
        yield "b:PR<=1", g_up
        yield "b:PR>=1/N", g_lo
        # ---- scale invariance: second run of the real body on c*e
        c = sv.real("c")
        E2 = ctx.array_of((N, d), lambda idx: sv.mul(c, er(idx)), "float")
        pr2 = _call_again(ctx, "participation_ratio", [E2])

        def a2(i):
            return _sum([_sq(sv.mul(c, er((i, k)))) for k in range(d)])
        c2 = _sq(c)
        fl = [a2, lambda i: _sq(a2(i)), a, lambda i: _sq(a(i))]
        P_lin = lambda n, S: sv.and_(sv.cmp("==", S[0], sv.mul(c2, S[2])), sv.cmp("==", S[1], sv.mul(_sq(c2), S[3])))
        for g in _induct("sum(c^2 a)=c^2 sum a", fl, P_lin, row):
            yield g
        yield ("c:scale-invariant", sv.implies(sv.and_(sv.cmp("!=", c, 0), nonzero), sv.cmp("==", pr2, pr)),
               {"rewrites": [(Sum(0, N, fl[0]), sv.mul(c2, S2(N))), (Sum(0, N, fl[1]), sv.mul(_sq(c2), S4(N)))], "ring_only": True})
        stores = [e for e in out.state.events if e[0] == "store" and e[1] in inp["watch"]]
        yield "frame:input-not-written", len(stores) == 0

    def replay(self, case, clause, model, seed):
        return _replay_pr(case, clause, model, seed)


def _arr_from_model(model, name, shape, rng, lo=-2.0, hi=2.0):
    import numpy as np
    a = np.array([[rng.uniform(lo, hi) for _ in range(shape[1])] for _ in range(shape[0])], dtype=float)
    ents, els = _func_entries(model, name)
    e = _fr(els)
    if e is not None and ents:
        a[:] = e
    for ent in ents:
        try:
            i, j, v = int(ent[0]), int(ent[1]), _fr(ent[2])
        except (TypeError, ValueError):
            continue
        if 0 <= i < shape[0] and 0 <= j < shape[1] and v is not None:
            a[i, j] = v
    return a


def _replay_pr(case, clause, model, seed):
    import importlib
    import random

    import numpy as np
    V = importlib.import_module(MOD)
    d = int(case[2])
    rng = random.Random(seed)
    tried = 0
    for k in range(300):
        if k == 0 and model.get("N") is not None:
            N = max(1, min(int(_fr(model.get("N"), 3)), 40))
            e = _arr_from_model(model, "e", (N, d), rng)
        else:
            N = rng.choice([1, 1, 2, 2, 3, 5, 17])
            kind = k % 4
            e = np.array([[rng.uniform(-2, 2) for _ in range(d)] for _ in range(N)])
            if kind == 1:       # localised on one particle
                e[:] = 0.0
                e[rng.randrange(N)] = [rng.uniform(0.5, 2) for _ in range(d)]
            elif kind == 2:     # uniform
                e[:] = [rng.uniform(0.5, 2) for _ in range(d)]
        if not np.any(e):
            continue
        tried += 1
        keep = e.copy()
        try:
            got = float(V.participation_ratio(e))
        except Exception as ex:
            return {"ran": True, "failed": True, "inputs": {"vector": e.tolist()}, "detail": f"raises {type(ex).__name__}: {ex}", "searched": tried}
        n2 = [sum(x * x for x in row) for row in keep.tolist()]
        want = sum(n2) ** 2 / (N * sum(x * x for x in n2))
        c = _fr(model.get("c"), None) if k == 0 else None
        if c is None or c == 0:
            c = rng.choice([-3.0, 0.25, 2.0, 7.5])
        got2 = float(V.participation_ratio(keep * c))
        bad = None
        if abs(got - want) > 1e-9 * max(1.0, abs(want)):
            bad = f"(a) participation_ratio = {got!r}, definition gives {want!r}"
        elif got > 1 + 1e-9 or got < 1.0 / N - 1e-9:
            bad = f"(b) participation_ratio = {got!r} outside [1/N, 1] with N = {N}"
        elif abs(got2 - got) > 1e-9 * max(1.0, abs(got)):
            bad = f"(c) PR(c e) = {got2!r} differs from PR(e) = {got!r} for c = {c}"
        elif not np.array_equal(keep, e):
            bad = "the input array was modified"
        if bad:
            return {"ran": True, "failed": True, "from_model": k == 0, "searched": tried, "inputs": {"vector": keep.tolist(), "c": c}, "detail": bad}
    return {"ran": True, "failed": False, "searched": tried, "detail": "real code satisfies every clause on the model inputs and the seeded inputs"}


# ================================================================================================
# neighbour-list based measures: shared pieces


def _nbinfo(ctx):
    calls = getattr(ctx.interp, "c15_neighbor_reads", None) or {}
    return calls.get(0)


def _nb_index(nbi, p, k):
    """neighbour number k of particle p: entry 1+k of row p of the array returned by read_neighbors"""
    return nbi["arr"].get((p, A.simp(sv.add(1, k))))


def _write_neighbor_file(path, lists):
    with open(path, "w", encoding="utf-8") as f:
        f.write("id     cn     neighborlist\n")
        for i, l in enumerate(lists):
            f.write("%d %d " % (i + 1, len(l)))
            f.write(" ".join(str(j + 1) for j in l))
            f.write("\n")


def _neighbors_from_model(model, N, rng, first, min_cn=1):
    """neighbour lists (0-based) from the model's raw tables (clamped exactly like the contract), else seeded"""
    lists = []
    cn_e, cn_else = _func_entries(model, "cnraw0") if first else ([], None)
    nb_e, nb_else = _func_entries(model, "nbraw0") if first else ([], None)
    use_model = bool(cn_e or nb_e or cn_else is not None)
    M = model.get("maxcn0") if first else None
    M = int(_fr(M, 6)) if M is not None else 6
    M = max(min_cn, min(M, 12))
    for i in range(N):
        if use_model:
            cn = next((e[1] for e in cn_e if e[0] == i), cn_else)
            cn = int(_fr(cn, rng.randint(min_cn, min(M, 4))))
            cn = max(min_cn, min(cn, M))
            row = []
            for k in range(cn):
                v = next((e[2] for e in nb_e if e[0] == i and e[1] == k), nb_else)
                v = int(_fr(v, rng.randrange(N)))
                row.append(max(0, min(v, N - 1)))
        else:
            cn = rng.randint(min_cn, max(min_cn, min(5, N + 1)))
            row = [rng.randrange(N) for _ in range(cn)]
        lists.append(row)
    return lists


class _NeighborUnit(Unit):
    module = MOD
    prop = "C15"
    timeout = 20
    summaries = {READ_NEIGHBORS: read_neighbors_contract}

    def cases(self):
        return ["d=2", "d=3"]

    def setup(self, ctx, case):
        d = int(case[2])
        N = ctx.int("N")
        ctx.assume(N >= 1)
        E = ctx.array("e", (N, d), "float", origin="argument vector")
        return [E, "neighborlist.dat"], {}, dict(d=d, N=N, E=E, watch=[E.sid])


# ================================================================================================
# local_vector_alignment


class LocalAlignment(_NeighborUnit):
    qualname = "local_vector_alignment"

    def clause_names(self, case):
        return ["shape", "a:alignment_i=mean_j(e_i.e_j)", "frame:input-not-written", "neighbour-file-read-once"]

    def ensures(self, ctx, case, inp, out):
        d, N, E = inp["d"], inp["N"], inp["E"]
        res = out.value
        nbi = _nbinfo(ctx)
        ok = isinstance(res, A.Arr) and res.ndim == 1 and A.dim_eq_syntactic(res.shape[0], N) and nbi is not None
        yield "shape", bool(ok)
        if not ok:
            return
        er = E.reader()
        p = ctx.int("p")
        cn = nbi["cn"](p)
        want = sv.div(Sum(0, cn, lambda k: _dot([er((p, c)) for c in range(d)], [er((_nb_index(nbi, p, k), c)) for c in range(d)])), cn)
        inr = sv.and_(sv.cmp(">=", p, 0), sv.cmp("<", p, N), sv.cmp(">=", cn, 1))
        yield "a:alignment_i=mean_j(e_i.e_j)", sv.implies(inr, sv.cmp("==", res.get((p,)), want))
        stores = [e for e in out.state.events if e[0] == "store" and e[1] in inp["watch"]]
        yield "frame:input-not-written", len(stores) == 0
        yield "neighbour-file-read-once", len(getattr(ctx.interp, "c15_neighbor_reads", {})) == 1

    def replay(self, case, clause, model, seed):
        return _replay_nb(self.qualname, case, clause, model, seed)


# ================================================================================================
# phase_quotient


class PhaseQuotient(_NeighborUnit):
    qualname = "phase_quotient"

    def clause_names(self, case):
        return ["a:PQ=sum(e_i.e_j)/sum|e_i.e_j|", "b:-1<=PQ<=1", "ind:|sum_j x|<=sum_j|x|:base", "ind:|sum_j x|<=sum_j|x|:step",
                "ind:|sum_i X_i|<=sum_i Y_i:base", "ind:|sum_i X_i|<=sum_i Y_i:step", "frame:input-not-written"]

    def ensures(self, ctx, case, inp, out):
        d, N, E = inp["d"], inp["N"], inp["E"]
        pq = out.value
        nbi = _nbinfo(ctx)
        er = E.reader()

        def x(i, k):                    # e_i . e_nb(i,k)
            return _dot([er((i, c)) for c in range(d)], [er((_nb_index(nbi, i, k), c)) for c in range(d)])

        def X(i, m=None):               # inner sums over the first m neighbours (default: all CN_i)
            return Sum(0, nbi["cn"](i) if m is None else m, lambda k: x(i, k))

        def Y(i, m=None):
            return Sum(0, nbi["cn"](i) if m is None else m, lambda k: sv.absv(x(i, k)))
        num = Sum(0, N, lambda i: X(i))
        den = Sum(0, N, lambda i: Y(i))
        yield "a:PQ=sum(e_i.e_j)/sum|e_i.e_j|", sv.cmp("==", pq, sv.div(num, den))
        # ---- |PQ| <= 1: triangle inequality, twice by induction (inner: over neighbours of a fixed particle i; outer: over particles)
        i0 = ctx.int("i0")
        absle = lambda a, b: sv.and_(sv.cmp("<=", a, b), sv.cmp("<=", sv.neg(a), b))
        P_in = lambda n, S: absle(S[0], S[1])
        f_in = [lambda k: x(i0, k), lambda k: sv.absv(x(i0, k))]
        for g in _induct("|sum_j x|<=sum_j|x|", f_in, P_in, lambda k: [x(i0, k)]):
            yield g
        # outer step: uses the inner conclusion at particle k (i0 := k, n := CN_k), an instance of the lemma above
        f_out = [lambda i: X(i), lambda i: Y(i)]
        name = "|sum_i X_i|<=sum_i Y_i"
        tag = re.sub(r"[^A-Za-z0-9]+", "_", name)
        k = sv.integer("k_" + tag)
        S = [sv.real(f"S{j}_{tag}") for j in range(2)]
        inner_at_k = absle(X(k), Y(k))
        step = sv.implies(sv.and_(inner_at_k, P_in(0, S)), P_in(0, [sv.add(S[0], X(k)), sv.add(S[1], Y(k))]))
        step, _ = sv.generalize(step, [X(k), Y(k)])
        yield f"ind:{name}:base", P_in(0, [0, 0])
        yield f"ind:{name}:step", step
        concl = absle(num, den)
        g, _ = sv.generalize(sv.implies(sv.and_(concl, sv.cmp(">", den, 0)), sv.and_(sv.cmp("<=", pq, 1), sv.cmp(">=", pq, -1))), [num, den])
        yield "b:-1<=PQ<=1", g
        stores = [e for e in out.state.events if e[0] == "store" and e[1] in inp["watch"]]
        yield "frame:input-not-written", len(stores) == 0

    def replay(self, case, clause, model, seed):
        return _replay_nb(self.qualname, case, clause, model, seed)


# ================================================================================================
# divergence_curl


def _cross3(a, b):
    return [sv.sub(sv.mul(a[1], b[2]), sv.mul(a[2], b[1])), sv.sub(sv.mul(a[2], b[0]), sv.mul(a[0], b[2])),
            sv.sub(sv.mul(a[0], b[1]), sv.mul(a[1], b[0]))]


class DivergenceCurl(Unit):
    module = MOD
    qualname = "divergence_curl"
    prop = "C15"
    timeout = 30
    summaries = {READ_NEIGHBORS: read_neighbors_contract, REMOVE_PBC: remove_pbc_contract}

    def cases(self):
        return ["d=2", "d=3"]

    def setup(self, ctx, case):
        from contracts import C02
        d = int(case[2])
        N = ctx.int("N")
        ctx.assume(N >= 1)
        U = ctx.array("u", (N, d), "float", origin="argument vector")
        R = ctx.array("r", (N, d), "float", origin="snapshot.positions")
        Hm = C02._mat(ctx, "H", d, "general")
        H = A.from_nested(Hm, "float")
        ctx.state.origin[H.sid] = "snapshot.hmatrix"
        det, G = C02._inv_spec(Hm, d)
        ctx.assume(sv.cmp("!=", det, 0))
        pm = [ctx.int(f"ppp_{k}") for k in range(d)]
        for x in pm:
            ctx.assume(sv.or_(sv.cmp("==", x, 0), sv.cmp("==", x, 1)))
        P = A.from_nested(pm, "int")
        ctx.state.origin[P.sid] = "argument ppp"
        snap = ctx.obj("PyMatterSim.reader.reader_utils", "SingleSnapshot",
                       dict(timestep=0, nparticle=N, particle_type=None, positions=R, boxlength=None, boxbounds=None, realbounds=None, hmatrix=H))
        return [snap, U, P, "neighborlist.dat"], {}, dict(d=d, N=N, U=U, R=R, Hm=Hm, G=G, pm=pm, watch=[U.sid, R.sid, H.sid, P.sid])

    def clause_names(self, case):
        names = ["shape", "a:div_i=mean_j(D_ij.(u_j-u_i))", "frame:inputs-not-written"]
        if case == "d=3":
            names.append("b:curl_i=mean_j(D_ij x (u_j-u_i))")
        else:
            names.append("b:2D-returns-divergence-only")
        return names

    def ensures(self, ctx, case, inp, out):
        from contracts import C02
        d, N, U, R = inp["d"], inp["N"], inp["U"], inp["R"]
        nbi = _nbinfo(ctx)
        res = out.value
        if d == 2:
            div, curl = res, None
            yield "b:2D-returns-divergence-only", isinstance(res, A.Arr)
        else:
            ok = isinstance(res, tuple) and len(res) == 2
            div, curl = (res if ok else (None, None))
        ok = isinstance(div, A.Arr) and div.ndim == 1 and A.dim_eq_syntactic(div.shape[0], N) and nbi is not None
        if d == 3:
            ok = ok and isinstance(curl, A.Arr) and curl.ndim == 2 and A.dim_eq_syntactic(curl.shape[0], N) and A.dim_eq_syntactic(curl.shape[1], 3)
        yield "shape", bool(ok)
        if not ok:
            return
        ur, rr = U.reader(), R.reader()
        p = ctx.int("p")
        cn = nbi["cn"](p)

        def D(k):       # minimum image of R_j - R_i, j = neighbour k of p
            j = _nb_index(nbi, p, k)
            return minimum_image([sv.sub(rr((j, c)), rr((p, c))) for c in range(d)], inp["Hm"], inp["pm"], d)

        def dU(k):
            j = _nb_index(nbi, p, k)
            return [sv.sub(ur((j, c)), ur((p, c))) for c in range(d)]
        inr = sv.and_(sv.cmp(">=", p, 0), sv.cmp("<", p, N), sv.cmp(">=", cn, 1))
        want = sv.div(Sum(0, cn, lambda k: _dot(D(k), dU(k))), cn)
        yield "a:div_i=mean_j(D_ij.(u_j-u_i))", sv.implies(inr, sv.cmp("==", div.get((p,)), want))
        if d == 3:
            goals = []
            for c in range(3):
                wc = sv.div(Sum(0, cn, lambda k, c=c: _cross3(D(k), dU(k))[c]), cn)
                goals.append(sv.cmp("==", curl.get((p, c)), wc))
            yield "b:curl_i=mean_j(D_ij x (u_j-u_i))", sv.implies(inr, sv.and_(*goals))
        stores = [e for e in out.state.events if e[0] == "store" and e[1] in inp["watch"]]
        yield "frame:inputs-not-written", len(stores) == 0

    def replay(self, case, clause, model, seed):
        return _replay_divcurl(case, clause, model, seed)


def _replay_divcurl(case, clause, model, seed):
    import importlib
    import os
    import random
    import shutil
    import tempfile

    import numpy as np
    V = importlib.import_module(MOD)
    RU = importlib.import_module("PyMatterSim.reader.reader_utils")
    d = int(case[2])
    rng = random.Random(seed)
    tmp = tempfile.mkdtemp(prefix="pyvc-c15-")
    path = os.path.join(tmp, "neighborlist.dat")
    tried = 0
    try:
        for k in range(150):
            first = k == 0 and model.get("N") is not None
            if first:
                N = max(1, min(int(_fr(model.get("N"), 3)), 30))
                u = _arr_from_model(model, "u", (N, d), rng)
                r = _arr_from_model(model, "r", (N, d), rng, 0.0, 6.0)
            else:
                N = rng.choice([1, 2, 3, 5, 9, 20])
                r = np.array([[rng.uniform(0, 6) for _ in range(d)] for _ in range(N)])
                u = np.array([[rng.uniform(-2, 2) for _ in range(d)] for _ in range(N)])
                if k % 3 == 1:                                    # linear field u = A r (no wrap: open boundaries)
                    Am = np.array([[rng.uniform(-1, 1) for _ in range(d)] for _ in range(d)])
                    u = r @ Am.T
            H = np.zeros((d, d))
            for a in range(d):
                for b in range(d):
                    v = _fr(model.get(f"H_{a}{b}")) if first else None
                    if v is None:
                        v = rng.uniform(5, 8) if a == b else (rng.uniform(-1.5, 1.5) if (b < a and k % 2) else 0.0)
                    H[a, b] = v
            if abs(np.linalg.det(H)) < 1e-6:
                continue
            ppp = np.array([int(_fr(model.get(f"ppp_{a}"), 1)) if first else rng.randint(0, 1) for a in range(d)])
            ppp = np.clip(ppp, 0, 1)
            if not first and k % 3 == 1:
                ppp[:] = 0
            lists = _neighbors_from_model(model, N, rng, first)
            _write_neighbor_file(path, lists)
            snap = RU.SingleSnapshot(timestep=0, nparticle=N, particle_type=np.ones(N, dtype=int), positions=r.copy(),
                                     boxlength=np.abs(np.diag(H)).copy(), boxbounds=np.column_stack([np.zeros(d), np.abs(np.diag(H))]),
                                     realbounds=None, hmatrix=H.copy())
            keep_u, keep_r = u.copy(), r.copy()
            tried += 1
            inputs = {"positions": keep_r.tolist(), "vector": keep_u.tolist(), "hmatrix": H.tolist(), "ppp": ppp.tolist(), "neighbors": lists}
            try:
                got = V.divergence_curl(snap, u, ppp, path)
            except Exception as ex:
                return {"ran": True, "failed": True, "searched": tried, "from_model": first, "inputs": inputs, "detail": f"raises {type(ex).__name__}: {ex}"}
            G = np.linalg.inv(H)
            bad = None
            if d == 2:
                if isinstance(got, tuple):
                    bad = "2-D call returned a tuple, expected the divergence array only"
                div, curl = got, None
            else:
                if not (isinstance(got, tuple) and len(got) == 2):
                    bad = "3-D call did not return (divergence, curl)"
                div, curl = got if bad is None else (None, None)
            if bad is None:
                near_tie = False
                for i in range(N):
                    sd, sc = 0.0, np.zeros(3)
                    for j in lists[i]:
                        rij = keep_r[j] - keep_r[i]
                        m = rij @ G
                        if np.any(np.abs(np.abs(m - np.floor(m)) - 0.5) < 1e-7):
                            near_tie = True
                        m = m - np.rint(m) * ppp
                        D = m @ H
                        du = keep_u[j] - keep_u[i]
                        sd += float(np.dot(D, du))
                        if d == 3:
                            sc += np.array([D[1] * du[2] - D[2] * du[1], D[2] * du[0] - D[0] * du[2], D[0] * du[1] - D[1] * du[0]])
                    if near_tie:
                        break
                    cn = len(lists[i])
                    tol = 1e-8 * (1 + abs(sd) / cn + np.abs(H).max() * np.abs(keep_u).max())
                    if abs(float(div[i]) - sd / cn) > tol:
                        bad = f"divergence[{i}] = {float(div[i])!r}, neighbour average of D_ij.(u_j-u_i) = {sd / cn!r}"
                        break
                    if d == 3 and np.any(np.abs(np.asarray(curl[i], dtype=float) - sc / cn) > tol):
                        bad = f"curl[{i}] = {np.asarray(curl[i]).tolist()}, neighbour average of D_ij x (u_j-u_i) = {(sc / cn).tolist()}"
                        break
            if bad is None and not (np.array_equal(keep_u, u) and np.array_equal(keep_r, snap.positions) and np.array_equal(H, snap.hmatrix)):
                bad = "an input array was modified"
            if bad:
                return {"ran": True, "failed": True, "searched": tried, "from_model": first, "inputs": inputs, "detail": bad}
    finally:
        shutil.rmtree(tmp, ignore_errors=True)
    return {"ran": True, "failed": False, "searched": tried, "detail": "real code satisfies every clause on the model inputs and the seeded inputs"}


# ================================================================================================
# vibrability


class Vibrability(Unit):
    module = MOD
    qualname = "vibrability"
    prop = "C15"
    timeout = 20

    def cases(self):
        # K free: any number of modes; square: K = d*N (all modes of a Hessian: rows and columns are both indexable by d*i+c)
        return [f"d={d}/{o}" for d in (2, 3) for o in ("nofile", "file", "square")]

    def setup(self, ctx, case):
        d = int(case[2])
        N, K = ctx.int("N"), ctx.int("K")
        ctx.assume(N >= 1)
        if case.endswith("square"):
            K = A.simp(sv.mul(d, N))
        else:
            ctx.assume(K >= 0)
        W = ctx.array("omega", (K,), "float", origin="argument eigenfrequencies")
        EV = ctx.array("ev", (A.simp(sv.mul(d, N)), K), "float", origin="argument eigenvectors")
        out = "vibrability.npy" if case.endswith("/file") else ""
        return [W, EV, N], ({"outputfile": out} if out else {}), dict(d=d, N=N, K=K, W=W, EV=EV, out=out, watch=[W.sid, EV.sid])

    def clause_names(self, case):
        return ["shape", "a:vibrability_i=sum_l|e_li|^2/omega_l^2", "b:saved-array-is-the-returned-one", "frame:inputs-not-written"]

    def ensures(self, ctx, case, inp, out):
        d, N, K, W, EV = inp["d"], inp["N"], inp["K"], inp["W"], inp["EV"]
        res = out.value
        ok = isinstance(res, A.Arr) and res.ndim == 1 and A.dim_eq_syntactic(res.shape[0], N)
        yield "shape", bool(ok)
        if not ok:
            return
        wr, er = W.reader(), EV.reader()
        p = ctx.int("p")
        inr = sv.and_(sv.cmp(">=", p, 0), sv.cmp("<", p, N))
        # particle p owns rows d*p .. d*p+d-1 of every mode (the layout of the Hessian module: reshape(N, -1) of a column)
        want = Sum(0, K, lambda l: sv.div(_sum([_sq(er((A.simp(sv.add(sv.mul(d, p), c)), l))) for c in range(d)]), _sq(wr((l,)))))
        yield "a:vibrability_i=sum_l|e_li|^2/omega_l^2", sv.implies(inr, sv.cmp("==", res.get((p,)), want))
        saves = [t for t in out.state.trace if t and t[0] == "np.save"]
        if inp["out"]:
            good = len(saves) == 1 and saves[0][1] == inp["out"] and isinstance(saves[0][2], A.Arr) and saves[0][2].ndim == 1
            if good:
                yield "b:saved-array-is-the-returned-one", sv.implies(inr, sv.cmp("==", saves[0][2].get((p,)), res.get((p,))))
            else:
                yield "b:saved-array-is-the-returned-one", False
        else:
            yield "b:saved-array-is-the-returned-one", len(saves) == 0
        stores = [e for e in out.state.events if e[0] == "store" and e[1] in inp["watch"]]
        yield "frame:inputs-not-written", len(stores) == 0

    def replay(self, case, clause, model, seed):
        return _replay_vib(case, clause, model, seed)


def _replay_vib(case, clause, model, seed):
    import importlib
    import os
    import random
    import shutil
    import tempfile

    import numpy as np
    V = importlib.import_module(MOD)
    d = int(case[2])
    tofile = case.endswith("/file")
    rng = random.Random(seed)
    tmp = tempfile.mkdtemp(prefix="pyvc-c15-")
    tried = 0
    try:
        for k in range(200):
            first = k == 0 and model.get("N") is not None
            if first:
                N = max(1, min(int(_fr(model.get("N"), 2)), 12))
                K = max(0, min(int(_fr(model.get("K"), 2)), 12)) if not case.endswith("square") else d * N
                ev = _arr_from_model(model, "ev", (d * N, max(K, 1)), rng)[:, :K]
                om = np.array([rng.uniform(0.5, 3) for _ in range(K)])
                ents, _ = _func_entries(model, "omega")
                for e in ents:
                    v = _fr(e[1])
                    if isinstance(e[0], int) and 0 <= e[0] < K and v not in (None, 0):
                        om[e[0]] = v
            else:
                N = rng.choice([1, 2, 3, 7])
                K = rng.choice([0, 1, 2, d * N]) if not case.endswith("square") else d * N
                ev = np.array([[rng.uniform(-1, 1) for _ in range(K)] for _ in range(d * N)]).reshape(d * N, K)
                om = np.array([rng.uniform(0.3, 3) for _ in range(K)])
            keep_ev, keep_om = ev.copy(), om.copy()
            path = os.path.join(tmp, f"vib{k}.npy")
            tried += 1
            inputs = {"eigenfrequencies": keep_om.tolist(), "eigenvectors": keep_ev.tolist(), "num_of_partices": N}
            try:
                got = V.vibrability(om, ev, N, outputfile=path) if tofile else V.vibrability(om, ev, N)
            except Exception as ex:
                return {"ran": True, "failed": True, "searched": tried, "from_model": first, "inputs": inputs, "detail": f"raises {type(ex).__name__}: {ex}"}
            got = np.asarray(got, dtype=float)
            bad = None
            if got.shape != (N,):
                bad = f"shape {got.shape}, expected ({N},)"
            else:
                for i in range(N):
                    want = sum(sum(keep_ev[d * i + c, l] ** 2 for c in range(d)) / keep_om[l] ** 2 for l in range(K))
                    if abs(got[i] - want) > 1e-9 * max(1.0, abs(want)):
                        bad = f"vibrability[{i}] = {got[i]!r}, eigenvalue-weighted mode sum = {want!r}"
                        break
            if bad is None and tofile:
                if not os.path.exists(path):
                    bad = "outputfile was not written"
                elif not np.array_equal(np.load(path), got):
                    bad = "saved array differs from the returned one"
            if bad is None and not (np.array_equal(keep_ev, ev) and np.array_equal(keep_om, om)):
                bad = "an input array was modified"
            if bad:
                return {"ran": True, "failed": True, "searched": tried, "from_model": first, "inputs": inputs, "detail": bad}
    finally:
        shutil.rmtree(tmp, ignore_errors=True)
    return {"ran": True, "failed": False, "searched": tried, "detail": "real code satisfies every clause on the model inputs and the seeded inputs"}


# ================================================================================================
# vector_decomposition_sq

CONDITIONAL_SQ = "PyMatterSim.static.sq.conditional_sq"


def conditional_sq_contract(interp, args, kwargs):
    """Callee contract of PyMatterSim.static.sq.conditional_sq(snapshot, qvector, condition) for a float vector condition of
    shape (N, d) (the branch `len(condition.shape) > 1`), as far as C15 needs it (the full contract — the values of the
    columns as density-mode sums — is C13's):
      requires  qvector of shape (Q, d), condition of shape (nparticle, d), positions of shape (nparticle, d);
      ensures   a pair (frame, averaged frame); the frame has Q rows and the columns, in this order,
                q0..q<d-1> (float), q (float, >= 0), Sq (float), FFT0..FFT<d-1> (complex), all rounded to 8 decimals.
    The column values are left arbitrary (fresh uninterpreted functions of the row), so everything proved about the split
    holds for whatever transform conditional_sq returns."""
    from pyvc import pandas_model as PM
    from pyvc.state import cur
    names = ["snapshot", "qvector", "condition"]
    vals = dict(zip(names, args))
    vals.update(kwargs)
    snap, qv, cond = vals["snapshot"], vals["qvector"], vals["condition"]
    st = cur()
    okq = isinstance(qv, A.Arr) and qv.ndim == 2 and A.dim_conc(qv.shape[1])
    okc = isinstance(cond, A.Arr) and cond.ndim == 2 and cond.dtype == "float"
    st.require(bool(okq and okc), "call:conditional_sq:pre(qvector (Q,d), float condition (N,d))")
    if not (okq and okc):
        raise sv.EngineError("conditional_sq contract: argument shapes")
    d = qv.shape[1]
    pos = interp.getattr(snap, "positions")
    A.require_dim_eq(cond.shape[1], d, "call:conditional_sq:pre(condition-columns)")
    A.require_dim_eq(pos.shape[1], d, "call:conditional_sq:pre(position-columns)")
    A.require_dim_eq(cond.shape[0], pos.shape[0], "call:conditional_sq:pre(condition-rows)")
    A.require_dim_eq(interp.getattr(snap, "nparticle"), pos.shape[0], "call:conditional_sq:pre(nparticle)")
    Q = qv.shape[0]
    calls = getattr(interp, "c15_csq_calls", None)
    if calls is None:
        calls = interp.c15_csq_calls = []
    tag = f"csq{len(calls)}"
    I, Rr = z3.IntSort(), z3.RealSort()
    fq = z3.Function(f"{tag}_qc", I, I, Rr)
    fn_ = z3.Function(f"{tag}_q", I, Rr)
    fs = z3.Function(f"{tag}_Sq", I, Rr)
    fre = z3.Function(f"{tag}_FFTre", I, I, Rr)
    fim = z3.Function(f"{tag}_FFTim", I, I, Rr)
    qc = lambda n, c: sv.SV(fq(sv.znum(n), sv.znum(c)))
    qn = lambda n: sv.absv(sv.SV(fn_(sv.znum(n))))          # a norm: non-negative
    Sq = lambda n: sv.SV(fs(sv.znum(n)))
    F = lambda n, c: sv.Cx(sv.SV(fre(sv.znum(n), sv.znum(c))), sv.SV(fim(sv.znum(n), sv.znum(c))))
    cols, order = {}, []
    for c in range(d):
        cols[f"q{c}"] = A.new_arr((Q,), lambda idx, c=c: qc(idx[0], c), "float")
        order.append(f"q{c}")
    cols["q"] = A.new_arr((Q,), lambda idx: qn(idx[0]), "float")
    cols["Sq"] = A.new_arr((Q,), lambda idx: Sq(idx[0]), "float")
    order += ["q", "Sq"]
    for c in range(d):
        cols[f"FFT{c}"] = A.new_arr((Q,), lambda idx, c=c: F(idx[0], c), "complex")
        order.append(f"FFT{c}")
    df = PM.new_df(cols, order, Q)
    gb = PM.GroupBy({"Sq": cols["Sq"]}, ("q", cols["q"]), ["Sq"])
    ave = PM.group_mean_frame(gb)
    calls.append(dict(qc=qc, q=qn, Sq=Sq, F=F, Q=Q, d=d))
    return (df, ave)


def _cabs2(v):
    v = sv.as_cx(v)
    return sv.add(_sq(v.re), _sq(v.im))


def split_spec(qh, F):
    """documented split of a complex vector F along the real direction qh:  L = qh (qh . F),  T = F - L"""
    dotp = 0
    for a, b in zip(qh, F):
        dotp = sv.add(dotp, sv.mul(a, b))
    L = [sv.mul(a, dotp) for a in qh]
    T = [sv.sub(f, l) for f, l in zip(F, L)]
    return dotp, L, T


def _cx_eq(a, b):
    a, b = sv.as_cx(a), sv.as_cx(b)
    return sv.and_(sv.cmp("==", a.re, b.re), sv.cmp("==", a.im, b.im))


class VectorDecompositionSq(Unit):
    module = MOD
    qualname = "vector_decomposition_sq"
    prop = "C15"
    timeout = 6       # the loop-step obligation (mixed guards + rational functions) is cvc5's; z3 gives up after this budget
    summaries = {CONDITIONAL_SQ: conditional_sq_contract}

    def cases(self):
        return [f"d={d}/{o}" for d in (2, 3) for o in ("nofile", "file", "file.csv")]

    def setup(self, ctx, case):
        d = int(case[2])
        N, Q = ctx.int("N"), ctx.int("Q")
        ctx.assume(N >= 1)
        ctx.assume(Q >= 1)
        R = ctx.array("r", (N, d), "float", origin="snapshot.positions")
        Lb = ctx.array("boxlength", (d,), "float", origin="snapshot.boxlength")
        V = ctx.array("v", (N, d), "float", origin="argument vector")
        QV = ctx.array("qvector", (Q, d), "int", origin="argument qvector")
        snap = ctx.obj("PyMatterSim.reader.reader_utils", "SingleSnapshot",
                       dict(timestep=0, nparticle=N, particle_type=None, positions=R, boxlength=Lb, boxbounds=None, realbounds=None, hmatrix=None))
        out = {"nofile": "", "file": "split", "file.csv": "split.csv"}[case.split("/")[1]]
        return [snap, QV, V], ({"outputfile": out} if out else {}), dict(d=d, N=N, Q=Q, out=out, watch=[R.sid, Lb.sid, V.sid, QV.sid])

    def clause_names(self, case):
        return ["shape:frames-and-columns", "a:L_FFT=round8(qhat(qhat.F))", "b:T_FFT=round8(F-L)", "c:Sq_L=round8(|L|^2),Sq_T=round8(|T|^2)",
                "d:transform-columns-kept", "e:L-parallel-to-q", "e:L+T=F", "e:qhat.T=(1-|qhat|^2)(qhat.F)",
                "e:|L|^2+|T|^2-|F|^2=2(|qhat|^2-1)|qhat.F|^2", "f:average-over-equal-q", "g:csv-file", "frame:inputs-not-written"]

    def ensures(self, ctx, case, inp, out):
        from pyvc import pandas_model as PM
        from pyvc.interp import Ref
        d, Q = inp["d"], inp["Q"]
        res = out.value
        calls = getattr(ctx.interp, "c15_csq_calls", [])
        ok = isinstance(res, tuple) and len(res) == 2 and all(isinstance(x, Ref) and x.kind == "df" for x in res) and len(calls) >= 1
        want_order = _vf_order(d)       # (the same column lists are what the callee contract used by vector_fft_corr returns: FrameTables)
        if ok:
            fr, av = PM.df_content(res[0]), PM.df_content(res[1])
            ok = fr["order"] == want_order and A.dim_eq_syntactic(fr["n"], Q) and av["order"] == AVE_COLS
        yield "shape:frames-and-columns", bool(ok)
        if not ok:
            return
        cs = calls[-1]
        n = ctx.int("n")
        qn = cs["q"](n)
        inr = sv.and_(sv.cmp(">=", n, 0), sv.cmp("<", n, Q), sv.cmp("!=", qn, 0))
        qh = [sv.div(cs["qc"](n, c), qn) for c in range(d)]
        F = [cs["F"](n, c) for c in range(d)]
        dotp, L, T = split_spec(qh, F)
        r8 = lambda v: sv.round_dec(v, 8)
        col = lambda name: fr["cols"][name].get((n,))
        RO = {"ring_only": True}
        yield "a:L_FFT=round8(qhat(qhat.F))", sv.implies(inr, sv.and_(*[_cx_eq(col(f"L_FFT{c}"), r8(L[c])) for c in range(d)]))
        yield "b:T_FFT=round8(F-L)", sv.implies(inr, sv.and_(*[_cx_eq(col(f"T_FFT{c}"), r8(T[c])) for c in range(d)]))
        SL = _sum([_cabs2(x) for x in L])
        ST = _sum([_cabs2(x) for x in T])
        SF = _sum([_cabs2(x) for x in F])
        yield "c:Sq_L=round8(|L|^2),Sq_T=round8(|T|^2)", sv.implies(inr, sv.and_(sv.cmp("==", col("Sq_L"), r8(SL)), sv.cmp("==", col("Sq_T"), r8(ST))))
        kept = [sv.cmp("==", col(f"q{c}"), r8(cs["qc"](n, c))) for c in range(d)] + [sv.cmp("==", col("q"), r8(qn)), sv.cmp("==", col("Sq"), r8(cs["Sq"](n)))] \
            + [_cx_eq(col(f"FFT{c}"), r8(F[c])) for c in range(d)]
        yield "d:transform-columns-kept", sv.implies(sv.and_(sv.cmp(">=", n, 0), sv.cmp("<", n, Q)), sv.and_(*kept)), RO
        # ---- the identities of the documented split (statement: L parallel to q, T orthogonal to q, L + T = F, S = S_L + S_T)
        qq = _sum([_sq(x) for x in qh])                      # |qhat|^2 (= 1 up to the 8-decimal rounding of the q columns)
        par = []
        for a in range(d):
            for b in range(a + 1, d):
                par.append(_cx_eq(sv.sub(sv.mul(L[a], cs["qc"](n, b)), sv.mul(L[b], cs["qc"](n, a))), 0))
        yield "e:L-parallel-to-q", sv.implies(inr, sv.and_(*par)), RO
        yield "e:L+T=F", sv.implies(inr, sv.and_(*[_cx_eq(sv.add(L[c], T[c]), F[c]) for c in range(d)])), RO
        qT = 0
        for a, b in zip(qh, T):
            qT = sv.add(qT, sv.mul(a, b))
        yield "e:qhat.T=(1-|qhat|^2)(qhat.F)", sv.implies(inr, _cx_eq(qT, sv.mul(sv.sub(1, qq), dotp))), RO
        yield ("e:|L|^2+|T|^2-|F|^2=2(|qhat|^2-1)|qhat.F|^2",
               sv.implies(inr, sv.cmp("==", sv.sub(sv.add(SL, ST), SF), sv.mul(sv.mul(2, sv.sub(qq, 1)), _cabs2(dotp)))), RO)
        # ---- averaged frame: one row per distinct (rounded) q, each S column the mean over the rows with that q
        meta = out.state.heap[res[1].sid].meta.get("groupby")
        if not meta or not A.dim_eq_syntactic(meta["n"], Q):
            yield "f:average-over-equal-q", False
        else:
            g = ctx.int("g")
            G, K = meta["G"], meta["K"]
            key = lambda t: fr["cols"]["q"].get((t,))
            goals = [sv.cmp("==", av["cols"]["q"].get((g,)), K(g)), sv.cmp("==", meta["keys"]((n,)), key(n))]
            for nm in ("Sq", "Sq_T", "Sq_L"):
                num = Sum(0, Q, lambda t, nm=nm: sv.ite(sv.cmp("==", key(t), K(g)), lambda: fr["cols"][nm].get((t,)), 0))
                den = Sum(0, Q, lambda t: sv.ite(sv.cmp("==", key(t), K(g)), 1, 0))
                goals.append(sv.cmp("==", av["cols"][nm].get((g,)), sv.div(num, den)))
            yield "f:average-over-equal-q", sv.implies(sv.and_(sv.cmp(">=", g, 0), sv.cmp("<", g, G), sv.cmp(">=", n, 0), sv.cmp("<", n, Q)), sv.and_(*goals))
        csvs = [t for t in out.state.trace if t and t[0] == "to_csv"]
        if inp["out"]:
            good = len(csvs) == 1 and csvs[0][1] == "split.csv" and csvs[0][3] == ["q", "Sq", "Sq_T", "Sq_L"] and csvs[0][4] == "%.8f"
            if good:
                g2 = ctx.int("g2")
                yield "g:csv-file", sv.and_(sv.cmp("==", csvs[0][5], av["n"]),
                                            *[sv.cmp("==", csvs[0][2][nm].get((g2,)), av["cols"][nm].get((g2,))) for nm in av["order"]])
            else:
                yield "g:csv-file", False
        else:
            yield "g:csv-file", len(csvs) == 0
        stores = [e for e in out.state.events if e[0] == "store" and e[1] in inp["watch"]]
        yield "frame:inputs-not-written", len(stores) == 0

    def replay(self, case, clause, model, seed):
        return _replay_split(case, clause, model, seed)


def _replay_split(case, clause, model, seed):
    import importlib
    import os
    import random
    import shutil
    import tempfile

    import numpy as np
    V = importlib.import_module(MOD)
    RU = importlib.import_module("PyMatterSim.reader.reader_utils")
    d = int(case[2])
    mode = case.split("/")[1]
    rng = random.Random(seed)
    tmp = tempfile.mkdtemp(prefix="pyvc-c15-")
    tried = 0
    try:
        for k in range(40):
            N = rng.choice([1, 2, 5, 30])
            Lbox = np.array([rng.uniform(4, 9) for _ in range(d)])
            r = np.array([[rng.uniform(0, Lbox[c]) for c in range(d)] for _ in range(N)])
            v = np.array([[rng.uniform(-2, 2) for _ in range(d)] for _ in range(N)])
            if k % 4 == 1:
                v[:] = [rng.uniform(0.5, 2) for _ in range(d)]
            qs = set()
            while len(qs) < rng.choice([1, 3, 6]):
                q = tuple(rng.randint(-3, 3) for _ in range(d))
                if any(q):
                    qs.add(q)
            if k % 3 == 0:          # equal |q| in different directions (exercises the average)
                qs |= {tuple(-x for x in q) for q in list(qs)}
            qvector = np.array(sorted(qs), dtype=int)
            H = np.diag(Lbox)
            snap = RU.SingleSnapshot(timestep=0, nparticle=N, particle_type=np.ones(N, dtype=int), positions=r.copy(), boxlength=Lbox.copy(),
                                     boxbounds=np.column_stack([np.zeros(d), Lbox]), realbounds=None, hmatrix=H)
            keep_v, keep_q = v.copy(), qvector.copy()
            base = os.path.join(tmp, f"split{k}")
            kw = {} if mode == "nofile" else {"outputfile": base if mode == "file" else base + ".csv"}
            tried += 1
            inputs = {"positions": r.tolist(), "boxlength": Lbox.tolist(), "vector": keep_v.tolist(), "qvector": keep_q.tolist()}
            try:
                fr, av = V.vector_decomposition_sq(snap, qvector, v, **kw)
            except Exception as ex:
                return {"ran": True, "failed": True, "searched": tried, "from_model": False, "inputs": inputs, "detail": f"raises {type(ex).__name__}: {ex}"}
            bad = None
            want_cols = [f"q{c}" for c in range(d)] + ["q", "Sq"] + [f"FFT{c}" for c in range(d)] + [f"T_FFT{c}" for c in range(d)] + ["Sq_T"] \
                + [f"L_FFT{c}" for c in range(d)] + ["Sq_L"]
            if list(fr.columns) != want_cols or len(fr) != len(qvector):
                bad = f"frame columns {list(fr.columns)} / rows {len(fr)}"
            else:
                # independent transform: F_c(q) = N^-1/2 sum_i v_ic exp(-i q.r_i)
                for n_, qi in enumerate(qvector):
                    qv = 2 * np.pi * qi / Lbox
                    ph = np.exp(-1j * (r @ qv))
                    Fv = (ph[:, None] * keep_v).sum(axis=0) / np.sqrt(N)
                    qh = qv / np.linalg.norm(qv)
                    Lv = qh * np.dot(qh, Fv)
                    Tv = Fv - Lv
                    tol = 1e-7 * (1 + np.abs(Fv).max())
                    gotF = np.array([fr[f"FFT{c}"][n_] for c in range(d)])
                    gotL = np.array([fr[f"L_FFT{c}"][n_] for c in range(d)])
                    gotT = np.array([fr[f"T_FFT{c}"][n_] for c in range(d)])
                    if np.abs(gotF - Fv).max() > tol:
                        bad = f"row {n_}: FFT columns {gotF.tolist()} differ from the transform {Fv.tolist()}"
                    elif np.abs(gotL - Lv).max() > tol:
                        bad = f"row {n_}: L_FFT {gotL.tolist()} is not qhat (qhat.F) = {Lv.tolist()}"
                    elif np.abs(gotT - Tv).max() > tol:
                        bad = f"row {n_}: T_FFT {gotT.tolist()} is not F - L = {Tv.tolist()}"
                    elif np.abs(gotL + gotT - gotF).max() > 3e-8:
                        bad = f"row {n_}: L + T != F"
                    elif abs(np.dot(qh, gotT)) > tol:
                        bad = f"row {n_}: qhat . T = {np.dot(qh, gotT)!r} != 0"
                    elif d == 3 and np.abs(np.cross(qh, gotL)).max() > tol or d == 2 and abs(qh[0] * gotL[1] - qh[1] * gotL[0]) > tol:
                        bad = f"row {n_}: L is not parallel to q"
                    elif abs(fr["Sq_L"][n_] - np.sum(np.abs(Lv) ** 2)) > tol * (1 + np.abs(Fv).max()) or abs(fr["Sq_T"][n_] - np.sum(np.abs(Tv) ** 2)) > tol * (1 + np.abs(Fv).max()):
                        bad = f"row {n_}: Sq_L/Sq_T = {fr['Sq_L'][n_]!r}/{fr['Sq_T'][n_]!r} are not |L|^2/|T|^2 = {np.sum(np.abs(Lv) ** 2)!r}/{np.sum(np.abs(Tv) ** 2)!r}"
                    elif abs(fr["Sq"][n_] - fr["Sq_L"][n_] - fr["Sq_T"][n_]) > tol * (1 + np.abs(Fv).max()):
                        bad = f"row {n_}: Sq = {fr['Sq'][n_]!r} != Sq_L + Sq_T = {fr['Sq_L'][n_] + fr['Sq_T'][n_]!r}"
                    if bad:
                        break
            if bad is None:
                keys = sorted(set(fr["q"].tolist()))
                if list(av.columns) != ["q", "Sq", "Sq_T", "Sq_L"] or av["q"].tolist() != keys:
                    bad = f"averaged frame: columns {list(av.columns)}, keys {av['q'].tolist()} (expected ascending distinct q {keys})"
                else:
                    for g_, kq in enumerate(keys):
                        rows = [n_ for n_ in range(len(fr)) if fr["q"][n_] == kq]
                        for nm in ("Sq", "Sq_T", "Sq_L"):
                            want = sum(fr[nm][n_] for n_ in rows) / len(rows)
                            if abs(av[nm][g_] - want) > 1e-9 * max(1.0, abs(want)):
                                bad = f"averaged {nm} at q = {kq}: {av[nm][g_]!r}, mean over rows {rows} = {want!r}"
            if bad is None and mode != "nofile":
                path = base + ".csv"
                if not os.path.exists(path):
                    bad = f"csv file {os.path.basename(path)} was not written"
                else:
                    import pandas as pd
                    back = pd.read_csv(path)
                    if list(back.columns) != ["q", "Sq", "Sq_T", "Sq_L"] or len(back) != len(av) or np.abs(back.values - av.values).max() > 1e-8:
                        bad = "csv content differs from the returned averaged frame"
            if bad is None and not (np.array_equal(keep_v, v) and np.array_equal(keep_q, qvector) and np.array_equal(r, snap.positions)):
                bad = "an input array was modified"
            if bad:
                return {"ran": True, "failed": True, "searched": tried, "from_model": False, "inputs": inputs, "detail": bad}
    finally:
        shutil.rmtree(tmp, ignore_errors=True)
    return {"ran": True, "failed": False, "searched": tried, "detail": "real code satisfies every clause on the seeded inputs"}


def _replay_nb(qualname, case, clause, model, seed):
    """replay of local_vector_alignment / phase_quotient on the real code with a real neighbour file"""
    import importlib
    import os
    import random
    import tempfile

    import numpy as np
    V = importlib.import_module(MOD)
    fn = getattr(V, qualname)
    d = int(case[2])
    rng = random.Random(seed)
    tmp = tempfile.mkdtemp(prefix="pyvc-c15-")
    path = os.path.join(tmp, "neighborlist.dat")
    tried = 0
    try:
        for k in range(200):
            first = k == 0 and model.get("N") is not None
            if first:
                N = max(1, min(int(_fr(model.get("N"), 3)), 30))
                e = _arr_from_model(model, "e", (N, d), rng)
            else:
                N = rng.choice([1, 2, 3, 5, 9, 24])
                e = np.array([[rng.uniform(-2, 2) for _ in range(d)] for _ in range(N)])
                if k % 5 == 1:
                    e[:] = [rng.uniform(0.5, 2) for _ in range(d)]      # uniform field
                if k % 5 == 2:
                    e = e * np.array([[(-1) ** i] for i in range(N)])   # staggered
            lists = _neighbors_from_model(model, N, rng, first)
            _write_neighbor_file(path, lists)
            keep = e.copy()
            tried += 1
            try:
                got = fn(e, path)
            except Exception as ex:
                return {"ran": True, "failed": True, "searched": tried, "from_model": first,
                        "inputs": {"vector": keep.tolist(), "neighbors": lists}, "detail": f"raises {type(ex).__name__}: {ex}"}
            dots = [[sum(keep[i][c] * keep[j][c] for c in range(d)) for j in lists[i]] for i in range(N)]
            bad = None
            if qualname == "local_vector_alignment":
                got = np.asarray(got, dtype=float)
                if got.shape != (N,):
                    bad = f"shape {got.shape}, expected ({N},)"
                else:
                    for i in range(N):
                        want = sum(dots[i]) / len(dots[i])
                        if abs(got[i] - want) > 1e-9 * max(1.0, abs(want)):
                            bad = f"alignment[{i}] = {got[i]!r}, mean neighbour dot product = {want!r}"
                            break
            else:
                num = sum(sum(r) for r in dots)
                den = sum(sum(abs(v) for v in r) for r in dots)
                if den > 0:
                    want = num / den
                    g = float(got)
                    if abs(g - want) > 1e-9 * max(1.0, abs(want)):
                        bad = f"phase quotient = {g!r}, definition gives {want!r}"
                    elif not (-1 - 1e-9 <= g <= 1 + 1e-9):
                        bad = f"phase quotient = {g!r} outside [-1, 1]"
            if bad is None and not np.array_equal(keep, e):
                bad = "the input array was modified"
            if bad:
                return {"ran": True, "failed": True, "searched": tried, "from_model": first,
                        "inputs": {"vector": keep.tolist(), "neighbors": lists}, "detail": bad}
    finally:
        import shutil
        shutil.rmtree(tmp, ignore_errors=True)
    return {"ran": True, "failed": False, "searched": tried, "detail": "real code satisfies every clause on the model inputs and the seeded inputs"}



# ================================================================================================
# vector_fft_corr

VDSQ = "PyMatterSim.static.vector.vector_decomposition_sq"
TCORR = "PyMatterSim.dynamic.time_corr.time_correlation"
HEADERS = ["FFT", "T_FFT", "L_FFT"]
CALL_V = ["call:vector_decomposition_sq:snapshot=frame-n-of-the-trajectory", "call:vector_decomposition_sq:qvector=the-wave-vector-array",
          "call:vector_decomposition_sq:vector=vectors[n]", "call:vector_decomposition_sq:no-per-frame-file"]
CALL_T = ["call:time_correlation:snapshots=the-trajectory", "call:time_correlation:condition=(T,d)-columns-of-this-header-at-wave-vector-n-over-frames",
          "call:time_correlation:dt", "call:time_correlation:no-output-file", "call:time_correlation:frame-spacing-as-assumed"]
AVE_COLS = ["q", "Sq", "Sq_T", "Sq_L"]


def _vf_order(d):
    return [f"q{c}" for c in range(d)] + ["q", "Sq"] + [f"FFT{c}" for c in range(d)] + [f"T_FFT{c}" for c in range(d)] + ["Sq_T"] \
        + [f"L_FFT{c}" for c in range(d)] + ["Sq_L"]


class FrameTables:
    """What vector_decomposition_sq returns for frame s of the trajectory, as far as vector_fft_corr needs it: a table with Q rows and the
    columns q0..q<d-1>, q, Sq, FFT0.., T_FFT0.., Sq_T, L_FFT0.., Sq_L (FFT/T_FFT/L_FFT complex) and an averaged table with the columns
    q, Sq, Sq_T, Sq_L.  The VALUES are whatever the callee returns: uninterpreted TAB_<column>(s, n) (real and imaginary part for the
    complex columns) and AVE(s, g, column).  Their relation to the transform of frame s (q_c = round8(2 pi n_c / L_c), FFT = round8(F),
    L_FFT = round8(qhat (qhat . F)), T_FFT = round8(F - L), Sq_L/Sq_T = round8(|.|^2), group means over equal rounded |q|) is the
    callee's own contract, proved for its body by the unit VectorDecompositionSq above (clauses a-d, f) and not needed here: everything
    proved about vector_fft_corr holds for any tables.  The averaged table has G rows in every frame (precondition of vector_fft_corr,
    see NOT_DECIDED)."""

    def __init__(self, d, Q, G):
        self.d, self.Q, self.G = d, Q, G
        I, R = z3.IntSort(), z3.RealSort()
        self.fn = {}
        for nm in _vf_order(d):
            if "FFT" in nm:
                self.fn[nm] = (z3.Function(f"TAB_{nm}_re", I, I, R), z3.Function(f"TAB_{nm}_im", I, I, R))
            else:
                self.fn[nm] = z3.Function(f"TAB_{nm}", I, I, R)
        self.AVE = z3.Function("AVE", I, I, I, R)

    def col(self, name):
        """(s, n) -> value of column `name` of frame s's table at row n"""
        f = self.fn[name]
        if isinstance(f, tuple):
            return lambda s, n: sv.Cx(sv.SV(f[0](sv.znum(s), sv.znum(n))), sv.SV(f[1](sv.znum(s), sv.znum(n))))
        return lambda s, n: sv.SV(f(sv.znum(s), sv.znum(n)))

    def dtype(self, name):
        return "complex" if "FFT" in name else "float"

    def table(self, s):
        from pyvc import pandas_model as PM
        order = _vf_order(self.d)
        cols = {nm: A.new_arr((self.Q,), (lambda idx, f=self.col(nm): f(s, idx[0])), self.dtype(nm)) for nm in order}
        return PM.new_df(cols, order, self.Q)

    def ave(self, s, g, ci):
        return sv.SV(self.AVE(sv.znum(s), sv.znum(g), z3.IntVal(ci)))

    def ave_table(self, fn):
        from pyvc import pandas_model as PM
        cols = {nm: A.new_arr((self.G,), (lambda idx, ci=ci: fn(idx[0], ci)), "float") for ci, nm in enumerate(AVE_COLS)}
        return PM.new_df(cols, AVE_COLS, self.G)


def _df_eq_goals(got, want, order, n):
    """[z3 goals]: `got` is a DataFrame with the columns `order`, n rows, and at an arbitrary row the values of `want` (both in cur())"""
    from pyvc import pandas_model as PM
    from pyvc.interp import Ref
    if not (isinstance(got, Ref) and got.kind == "df"):
        return [z3.BoolVal(False)]
    g, w = PM.df_content(got), PM.df_content(want)
    if list(g["order"]) != list(order):
        return [z3.BoolVal(False)]
    goals = []
    if not A.dim_eq_syntactic(g["n"], n):
        goals.append(sv.zb(sv.cmp("==", g["n"], n)))
    b = sv.fresh_int("row")
    inr = sv.and_(sv.cmp(">=", b, 0), sv.cmp("<", b, n))
    for c in order:
        x, y = g["cols"][c].get((b,)), w["cols"][c].get((b,))
        goals.append(sv.zb(sv.implies(inr, _cx_eq(x, y))))
    return goals


def _vfc_loops():
    """(lineno of the frame loop, lineno of the per-wave-vector loop nested in the header loop) of vector_fft_corr"""
    import ast
    node = load_module(MOD).defs["vector_fft_corr"]
    top = [n for n in node.body if isinstance(n, ast.For)]
    first = top[0].lineno if top else None
    inner = None
    for outer in top[1:]:
        for n in ast.walk(outer):
            if isinstance(n, ast.For) and n is not outer:
                inner = n.lineno
                break
        if inner:
            break
    return first, inner


class VectorFftCorr(Unit):
    """vector_fft_corr(snapshots, qvector, vectors, dt, outputfile): frame-averaged spectra + per-wave-vector time correlation of the
    FFT / T_FFT / L_FFT columns.  Callee contracts: vector_decomposition_sq (this module), time_correlation (C14.Spec)."""
    file_clause_in_own_contract = True      # returns a dict of frames: `npy file = frame values` is a clause of this unit (read by contracts/C18.FrameOf)
    module = MOD
    qualname = "vector_fft_corr"
    prop = "C15"
    timeout = 5

    def cases(self):
        return [f"d={d}/{sp}/{o}" for d in (2, 3) for sp in ("linear", "log") for o in ("file",)] + ["d=2/linear/default-name"]

    def setup(self, ctx, case):
        from contracts import C14
        from contracts.common import Traj
        from pyvc.interp import Frame, Ref
        from pyvc.loops import _SideGoal, AppendedSeq
        from pyvc.pandas_model import df_content
        from pyvc.state import Content, cur, use_state
        from pyvc.libext.C15 import wide_content, _is_wide
        d = int(case[2])
        spacing = case.split("/")[1]
        tr = Traj(ctx, d)
        T, N = tr.T, tr.N
        Q, G = ctx.int("Q"), ctx.int("G")
        ctx.assume(Q >= 1)
        ctx.assume(sv.and_(G >= 1, sv.cmp("<=", G, Q)))
        ts0, h = ctx.int("ts0"), ctx.int("h")
        TS = tr.TS
        tsf = lambda j: sv.SV(TS(sv.znum(j)))
        w = ctx.int("w")
        if spacing == "linear":
            # evenly spaced frames: ts_j = ts0 + j h, at least two frames
            ctx.assume(T >= 2)
            ctx.array_fact(TS.name(), lambda j: TS(j) == sv.znum(ts0) + j * sv.znum(h))
        else:
            ctx.assume(sv.or_(sv.cmp("==", T, 1),
                              sv.and_(w >= 0, sv.cmp("<", w, sv.sub(T, 1)),
                                      sv.cmp("!=", sv.sub(tsf(sv.add(w, 1)), tsf(w)), sv.sub(tsf(1), tsf(0))))))
        V = ctx.array("v", (T, N, d), "float", origin="argument vectors")
        QV = ctx.array("qvector", (Q, d), "int", origin="argument qvector")
        dt = ctx.real("dt")
        snaps = tr.snapshots()
        of = "" if case.endswith("default-name") else "corr"
        FT = FrameTables(d, Q, G)
        I = z3.IntSort()
        st0 = ctx.state
        fname = f"{MOD}.{self.qualname}"

        # ---------------------------------------------------------------- callee contract: vector_decomposition_sq
        def vdsq(interp, args, kwargs):
            """requires: snapshot is frame s of the trajectory; qvector is the caller's wave-vector array; vector = vectors[s] (N, d);
            outputfile = "" (nothing is written per frame); ensures: (table of frame s, averaged table of frame s), see FrameTables"""
            a = dict(zip(["snapshot", "qvector", "vector", "outputfile"], args))
            a.update(kwargs)
            snap = a.get("snapshot")
            pos = snap.content.get("positions") if isinstance(snap, Ref) and snap.kind == "obj" else None
            s = None
            if isinstance(pos, A.Arr) and pos.ndim == 2:
                i0, c0 = sv.fresh_int("pi"), sv.fresh_int("pc")
                t = pos.get((i0, c0))
                if isinstance(t, sv.SV) and z3.is_app(t.t) and t.t.decl().name() == tr.POS.name() and t.t.arg(1).eq(i0.t) and t.t.arg(2).eq(c0.t):
                    s = sv.wrap(t.t.arg(0))
            if s is None:
                _call_req(False, CALL_V[0])
                raise sv.EngineError("vector_decomposition_sq summary: snapshot argument is not a frame of the trajectory")
            bl = snap.content.get("boxlength")
            c1 = sv.fresh_int("bc")
            okb = isinstance(bl, A.Arr) and bl.ndim == 1 and A.dim_conc(bl.shape[0]) and bl.shape[0] == d
            _call_req(sv.and_(sv.cmp(">=", s, 0), sv.cmp("<", s, T), sv.cmp("==", snap.content.get("nparticle"), N),
                              sv.implies(sv.and_(sv.cmp(">=", c1, 0), sv.cmp("<", c1, d)), sv.cmp("==", bl.get((c1,)), tr.bl(s, c1))) if okb else False), CALL_V[0])
            _same_array_req(a.get("qvector"), QV, CALL_V[1])
            row = A.new_arr((N, d), lambda idx: V.get((s, idx[0], idx[1])), "float")
            _same_array_req(a.get("vector"), row, CALL_V[2])
            _call_req(a.get("outputfile", "") == "", CALL_V[3])
            return (FT.table(s), FT.ave_table(lambda g, ci: FT.ave(s, g, ci)))

        # ---------------------------------------------------------------- callee contract: time_correlation (C14)
        tc_calls = []

        def tc_table(cond):
            """C14 contract for a rank-2 complex condition of shape (T, d) (the d components are the `particles` of the callee):
            t[k] = (ts_k - ts_0) dt, time_corr[k] = C(k)/C(0)"""
            from pyvc import pandas_model as PM
            spec = C14.Spec(cond, 2, None, T, d)
            c0 = sv.SV(spec.C(0, spacing))
            tcol = A.new_arr((T,), lambda idx: sv.mul(sv.to_real(sv.sub(tsf(idx[0]), tsf(0))), dt), "float")
            ccol = A.new_arr((T,), lambda idx: sv.div(sv.SV(spec.C(idx[0], spacing)), c0), "float")
            return PM.new_df({"t": tcol, "time_corr": ccol}, ["t", "time_corr"], T), c0

        def tcorr(interp, args, kwargs):
            a = dict(zip(["snapshots", "condition", "dt", "outputfile"], args))
            a.update(kwargs)
            st = cur()
            _call_req(getattr(a.get("snapshots"), "sid", None) == snaps.sid, CALL_T[0])
            cond = a.get("condition")
            ok = isinstance(cond, A.Arr) and cond.ndim == 2 and cond.dtype == "complex" and A.dim_conc(cond.shape[1]) and cond.shape[1] == d
            if not ok:
                _call_req(False, CALL_T[1])
                raise sv.EngineError("time_correlation summary: condition is not a complex (T, d) array")
            exp = inp.get("expect")
            if exp is not None:
                # inside the wave-vector loop of header H at wave vector n: the argument must be condition_{H,n}; the callee's result is
                # then the contract value for condition_{H,n} (the contract is a function of the array's shape and elements)
                want = X_of(exp[0], exp[1])
                _same_array_req(cond, want, CALL_T[1])
                cond = want
            else:
                _call_req(sv.cmp("==", cond.shape[0], T), CALL_T[1])
            _call_req(sv.cmp("==", a.get("dt", sv.to_frac(0.002)), dt), CALL_T[2])
            _call_req(a.get("outputfile", "") == "", CALL_T[3])
            # spacing of the frames as the callee sees it (its contract has one clause per kind of spacing)
            j = sv.fresh_int("tj")
            if spacing == "linear":
                _call_req(sv.and_(sv.cmp(">=", T, 2), sv.implies(sv.and_(sv.cmp(">=", j, 0), sv.cmp("<", j, T)), sv.cmp("==", tsf(j), sv.add(ts0, sv.mul(j, h))))),
                          CALL_T[4])
            else:
                _call_req(sv.or_(sv.cmp("==", T, 1), sv.and_(w >= 0, sv.cmp("<", w, sv.sub(T, 1)),
                                                          sv.cmp("!=", sv.sub(tsf(sv.add(w, 1)), tsf(w)), sv.sub(tsf(1), tsf(0))))), CALL_T[4])
            df, c0 = tc_table(cond)
            # precondition of vector_fft_corr (statement: the correlation is normalised by its lag-zero value): instance for this call
            st.assume(sv.cmp("!=", c0, 0))
            tc_calls.append(1)
            return df

        def X_of(H, n):
            """condition_{H,n}: (T, d) complex array, X[t, c] = column H<c> of frame t's table at row n"""
            fs = [FT.col(f"{H}{c}") for c in range(d)]
            return A.new_arr((T, d), lambda idx: A._pick([sv.as_cx(f(idx[0], n)) for f in fs], idx[1]) if not sv.is_conc(idx[1]) else sv.as_cx(fs[int(idx[1])](idx[0], n)), "complex")

        ctx.interp.summaries[VDSQ] = vdsq
        ctx.interp.summaries[TCORR] = tcorr

        # ---------------------------------------------------------------- written invariant of the frame loop
        def side(kind, goals, s2, where, clause=None, sigma=False):
            for g in goals:
                sg = _SideGoal(kind, g, s2.all_assumptions(), where)
                if clause:
                    sg.clause = clause
                # the invariants follow by linear arithmetic + congruence (both sides are built from the same callee-contract terms):
                # one attempt with products as uninterpreted functions, no fall-back chain (a false goal must fail fast)
                sg.opts = {"abstract_nl": True, "abstract_only": True}
                if not sigma:       # no Σ-term has to be unfolded: no Σ-axiom instances in the query
                    sg.opts.update({"unfold": False, "ext": False, "rounds": 1})
                st0.side.append(sg)

        def adopt(st, frame, s4, f4):
            """the current path continues from the forked state s4 / frame f4"""
            for attr in ("heap", "pc", "events", "decisions", "trace", "fresh", "where"):
                setattr(st, attr, getattr(s4, attr))
            frame.env.clear()
            frame.env.update(f4.env)

        def body_run(interp, s, frame, st, item_fn, kv, lo, hi, prepare, drop, what):
            """one execution of the loop body at index kv in a fork of st; `prepare(fr, st2)` installs the invariant state; the locals in
            `drop` (assigned by the body, not described by the invariant) are unbound first, so that a read before the assignment is not
            a normal path"""
            fr = Frame(frame.module, dict(frame.env), frame.fname)
            st2 = st.fork()
            st2.pc = list(st.pc) + [sv.zb(sv.cmp(">=", kv, lo)), sv.zb(sv.cmp("<", kv, hi))]
            with use_state(st2):
                for nm in drop:
                    fr.env.pop(nm, None)
                prepare(fr, st2)
                interp.assign(s.target, item_fn(kv), fr)
                outs = interp.exec_block_paths(s.body, fr, st2)
            normal = [(f2, s2) for f2, s2, out in outs if out[0] == "normal"]
            if len(outs) != 1 or len(normal) != 1:
                raise sv.EngineError(f"vector_fft_corr {what}: body does not have a single normal path ({[o[2] for o in outs]})")
            return normal[0]

        def frame_loop(interp, s, frame, st, lo, hi, item_fn):
            """after k >= 1 frames:  <accumulator> = sum_{t<k} (averaged table of frame t)  (a DataFrame, columns q, Sq, Sq_T, Sq_L, G rows),
            <list> = [table of frame 0, ..., table of frame k-1].  The accumulator (local that is 0 before the loop and a DataFrame after
            the first iteration) and the list (empty before, changed by the first iteration) are found by executing the first iteration."""
            from pyvc.loops import _assigned_names
            import ast as _ast
            where = f"{frame.fname}:{s.lineno}"
            what = "frame loop"
            if not (sv.is_conc(lo) and lo == 0):
                raise sv.EngineError("vector_fft_corr frame loop: iteration space does not start at 0")
            if not interp.decide(sv.cmp(">=", hi, 2)):
                # a single frame: the loop is its first iteration (executed as it is)
                interp.assign(s.target, item_fn(0), frame)
                interp.exec_body_single(s.body, frame)
                return
            targets = _assigned_names([_ast.Assign(targets=[s.target], value=_ast.Constant(0))])
            assigned = _assigned_names(s.body)
            pre_env, pre_heap = dict(frame.env), dict(st.heap)
            f2, s2 = body_run(interp, s, frame, st, item_fn, 0, lo, hi, lambda fr, st2: None, (), what)
            is_df = lambda v: isinstance(v, Ref) and v.kind == "df"
            acc = [nm for nm, v in pre_env.items() if nm not in targets and isinstance(v, int) and not isinstance(v, bool) and v == 0 and is_df(f2.env.get(nm))]
            lists = [sid for sid, c in pre_heap.items() if c.kind == "list" and isinstance(c.data, tuple) and len(c.data) == 0 and s2.heap.get(sid) is not c]
            others = [sid for sid, c in pre_heap.items() if s2.heap.get(sid) is not c and sid not in lists]
            if len(acc) != 1 or len(lists) != 1 or others:
                raise sv.EngineError(f"vector_fft_corr frame loop: expected one accumulator and one list (found {acc}, {len(lists)} lists, {len(others)} other cells written)")
            acc, lsid = acc[0], lists[0]
            drop = [nm for nm in assigned if nm != acc and nm not in targets]
            seq_fn = lambda t: FT.table(t)

            def inv_spectra(k):
                return FT.ave_table(lambda g, ci: Sum(0, k, lambda t: FT.ave(t, g, ci)))

            def install(k):
                def prepare(fr, st2):
                    fr.env[acc] = inv_spectra(k)
                    c = st2.heap[lsid]
                    st2.heap[lsid] = Content("list", A.SeqVal(k, seq_fn), c.meta)
                return prepare

            def check(f2, s2, kv, kind):
                nxt = A.simp(sv.add(kv, 1))
                with use_state(s2):
                    side(kind, _df_eq_goals(f2.env.get(acc), inv_spectra(nxt), AVE_COLS, G), s2, where, "spectra:loop-invariant", sigma=True)
                    c = s2.heap[lsid].data
                    if sv.is_conc(kv):
                        okl = isinstance(c, tuple) and len(c) == 1
                        last = c[0] if okl else None
                    else:
                        okl = isinstance(c, AppendedSeq) and c.base_fn is seq_fn and A.dim_eq_syntactic(c.n, kv)
                        last = c.last if okl else None
                    goals = _df_eq_goals(last, FT.table(kv), _vf_order(d), Q) if okl else [z3.BoolVal(False)]
                    side(kind, goals, s2, where, "vectors_fft:loop-invariant")
                    bad = [sid for sid, c0 in pre_heap.items() if s2.heap.get(sid) is not c0 and sid != lsid]
                    if bad:
                        raise sv.EngineError("vector_fft_corr frame loop: the body writes a cell the invariant does not describe")
            check(f2, s2, lo, "loop-init")
            k = sv.fresh_int("k")
            st.pc.append(sv.zb(sv.cmp(">=", k, 1)))     # (only constrains the fresh k)
            f3, s3 = body_run(interp, s, frame, st, item_fn, k, lo, hi, install(k), drop, what)
            check(f3, s3, k, "loop-step")
            # post-state: the last iteration (index hi - 1 >= 1) from the invariant state, then the invariant at hi
            last = A.simp(sv.sub(hi, 1))
            f4, s4 = body_run(interp, s, frame, st, item_fn, last, lo, hi, install(last), drop, what)
            adopt(st, frame, s4, f4)
            frame.env[acc] = inv_spectra(hi)
            c = st.heap[lsid]
            st.heap[lsid] = Content("list", A.SeqVal(hi, seq_fn), c.meta)

        # ---------------------------------------------------------------- written invariant of the wave-vector loop (per header)
        def tc_col(H, n):
            """the callee's table for condition_{H,n}"""
            df, _ = tc_table(X_of(H, n))
            return df

        def q_loop(interp, s, frame, st, lo, hi, item_fn):
            """after k wave vectors:  <wide frame>[:, j] = time_correlation(condition_{H,j})["time_corr"] for j < k, unchanged for j >= k.
            H = the header of the enclosing iteration, the wide frame = the frame with one column per wave vector (both found in the
            locals by their values: the only header string, the only wide frame without named columns)."""
            from pyvc.loops import _assigned_names
            import ast as _ast
            where = f"{frame.fname}:{s.lineno}"
            what = "wave-vector loop"
            Hs = [v for v in frame.env.values() if isinstance(v, str) and v in HEADERS]
            cals = [v for v in frame.env.values() if _is_wide(v) and not wide_content(v)["pre"]["order"]]
            if len(set(Hs)) != 1 or len({c.sid for c in cals}) != 1 or not (sv.is_conc(lo) and lo == 0):
                raise sv.EngineError("vector_fft_corr wave-vector loop: unexpected pre-state (one header, one wide frame expected)")
            H, cal = Hs[0], cals[0]
            targets = _assigned_names([_ast.Assign(targets=[s.target], value=_ast.Constant(0))])
            drop = [nm for nm in _assigned_names(s.body) if nm not in targets]
            pre_heap = dict(st.heap)
            cell0 = st.heap[cal.sid]
            blk = wide_content(cal)["block"]
            pre_block = blk.reader()
            tcv = lambda n, t: df_content(tc_col(H, n))["cols"]["time_corr"].get((t,))

            def inv_block(k):
                return lambda idx: sv.ite(sv.cmp("<", idx[1], k), lambda: tcv(idx[1], idx[0]), lambda: pre_block(idx))

            def install(k):
                def prepare(fr, st2):
                    c = st2.heap[blk.sid]
                    st2.heap[blk.sid] = Content("arr", A._memo(inv_block(k)), c.meta)
                return prepare

            def run(kv, prepare, dr):
                inp["expect"] = (H, kv)
                try:
                    return body_run(interp, s, frame, st, item_fn, kv, lo, hi, prepare, dr, what)
                finally:
                    inp["expect"] = None

            def check(f2, s2, kv, kind):
                nxt = A.simp(sv.add(kv, 1))
                clause = f"{H}:cal_data:loop-invariant"
                with use_state(s2):
                    bad = [sid for sid, c0 in pre_heap.items() if s2.heap.get(sid) is not c0 and sid != blk.sid]
                    if bad:
                        raise sv.EngineError("vector_fft_corr wave-vector loop: the body writes a cell the invariant does not describe")
                    t, j = sv.fresh_int("t"), sv.fresh_int("j")
                    inr = sv.and_(sv.cmp(">=", t, 0), sv.cmp("<", t, T), sv.cmp(">=", j, 0), sv.cmp("<", j, Q))
                    got = s2.heap[blk.sid].data((t, j))
                    if sv.is_conc(kv):
                        # inv(lo + 1) at column j >= 0: j < lo + 1 iff j == lo (stated with the concrete column so that the callee's
                        # Σ-terms are the ones of the call with n = lo)
                        want = sv.ite(sv.cmp("==", j, kv), lambda: tcv(kv, t), lambda: pre_block((t, j)))
                    else:
                        want = inv_block(nxt)((t, j))
                    side(kind, [sv.zb(sv.implies(inr, sv.cmp("==", got, want)))], s2, where, clause)
            f2, s2 = run(lo, lambda fr, st2: None, ())
            check(f2, s2, lo, "loop-init")
            k = sv.fresh_int("k")
            st.pc.append(sv.zb(sv.cmp(">=", k, 1)))     # (only constrains the fresh k)
            f3, s3 = run(k, install(k), drop)
            check(f3, s3, k, "loop-step")
            # post-state: the last iteration (index hi - 1 >= 0) from the invariant state, then the invariant at hi
            last = A.simp(sv.sub(hi, 1))
            f4, s4 = run(last, install(last), drop)
            adopt(st, frame, s4, f4)
            c = st.heap[blk.sid]
            st.heap[blk.sid] = Content("arr", A._memo(inv_block(hi)), c.meta)
            st.events.append(("store", blk.sid, where, list(st.pc)))

        l1, l2 = _vfc_loops()
        if l1 is not None:
            ctx.interp.loop_hints[(fname, "for", l1)] = frame_loop
        if l2 is not None:
            ctx.interp.loop_hints[(fname, "for", l2)] = q_loop
        inp = dict(d=d, T=T, N=N, Q=Q, G=G, V=V, QV=QV, dt=dt, snaps=snaps, of=of, FT=FT, tsf=tsf, spacing=spacing, expect=None,
                   X_of=X_of, tc_col=tc_col, tc_calls=tc_calls, watch=[V.sid, QV.sid])
        kwargs = {"dt": dt}
        if of:
            kwargs["outputfile"] = of
        return [snaps, QV, V], kwargs, inp

    def clause_names(self, case):
        names = ["returns-dict-with-exactly-the-keys-FFT,T_FFT,L_FFT", "spectra=frame-average-of-the-averaged-tables", "spectra:csv-file",
                 "spectra:loop-invariant", "vectors_fft:loop-invariant", "frame:inputs-not-written"] + CALL_V + CALL_T
        for H in HEADERS:
            names += [f"{H}:frame-shape-and-columns", f"{H}:q-columns=round8(frame-0-table)", f"{H}:lag-columns=round8(time_correlation(condition_n).time_corr)",
                      f"{H}:lag-column-labels=t-column-of-the-callee", f"{H}:npy-file=values", f"{H}:cal_data:loop-invariant"]
        return names

    def ensures(self, ctx, case, inp, out):
        from pyvc.interp import Ref
        from pyvc.libext.C15 import _is_wide, wide_content
        from pyvc.pandas_model import df_content
        d, T, Q, G, FT, of = inp["d"], inp["T"], inp["Q"], inp["G"], inp["FT"], inp["of"]
        res = out.value
        # every clause follows from the invariants by linear arithmetic + congruence: one attempt with products as uninterpreted
        # functions and without Σ-axiom instances, no fall-back chain (a false clause fails fast and the replay decides)
        FAST = {"abstract_nl": True, "abstract_only": True, "solver_opts": {"unfold": False, "ext": False, "rounds": 1}}
        ok = isinstance(res, Ref) and res.kind == "dict" and list(res.content.keys()) == HEADERS
        yield "returns-dict-with-exactly-the-keys-FFT,T_FFT,L_FFT", bool(ok)
        # ---- spectra: the frame written to outputfile + ".spectra.csv"
        csvs = [t for t in out.state.trace if t and t[0] == "to_csv"]
        good = len(csvs) == 1 and csvs[0][1] == of + ".spectra.csv" and list(csvs[0][3]) == AVE_COLS and csvs[0][4] == "%.8f"
        yield "spectra:csv-file", bool(good)
        g = ctx.int("g")
        if good:
            ing = sv.and_(sv.cmp(">=", g, 0), sv.cmp("<", g, G))
            eqs = [sv.cmp("==", csvs[0][5], G)]
            for ci, nm in enumerate(AVE_COLS):
                want = sv.div(Sum(0, T, lambda t: FT.ave(t, g, ci)), T)
                eqs.append(sv.implies(ing, sv.cmp("==", csvs[0][2][nm].get((g,)), want)))
            # (single-frame path: sum_{t<T} with T = 1 has to be unfolded, so the Σ-axiom instances stay in this query)
            yield "spectra=frame-average-of-the-averaged-tables", sv.and_(*eqs), {"abstract_nl": True, "abstract_only": True}
        else:
            yield "spectra=frame-average-of-the-averaged-tables", False
        stores = [e for e in out.state.events if e[0] == "store" and e[1] in inp["watch"]]
        yield "frame:inputs-not-written", len(stores) == 0
        if not ok:
            return
        n, k = ctx.int("n"), ctx.int("k")
        inn = sv.and_(sv.cmp(">=", n, 0), sv.cmp("<", n, Q))
        ink = sv.and_(sv.cmp(">=", k, 0), sv.cmp("<", k, T))
        saves = [t for t in out.state.trace if t and t[0] == "np.save"]
        qcols = [f"q{c}" for c in range(d)] + ["q"]
        r8 = lambda v: sv.round_dec(v, 8)
        for hi_, H in enumerate(HEADERS):
            fr = res.content[H]
            shape_ok = _is_wide(fr)
            if shape_ok:
                c = wide_content(fr)
                shape_ok = c["pre"]["order"] == qcols and c["index"] is None and c["block"] is not None and A.dim_eq_syntactic(c["n"], Q) \
                    and A.dim_eq_syntactic(c["block"].shape[0], Q) and A.dim_eq_syntactic(c["block"].shape[1], T) and A.dim_eq_syntactic(c["labels"].shape[0], T)
            yield f"{H}:frame-shape-and-columns", bool(shape_ok)
            if not shape_ok:
                continue
            yield (f"{H}:q-columns=round8(frame-0-table)",
                   sv.implies(inn, sv.and_(*[sv.cmp("==", c["pre"]["cols"][nm].get((n,)), r8(FT.col(nm)(0, n))) for nm in qcols])), FAST)
            want_tc = df_content(inp["tc_col"](H, n))["cols"]
            yield (f"{H}:lag-columns=round8(time_correlation(condition_n).time_corr)",
                   sv.implies(sv.and_(inn, ink), sv.cmp("==", c["block"].get((n, k)), r8(want_tc["time_corr"].get((k,))))), FAST)
            tk = sv.mul(sv.to_real(sv.sub(inp["tsf"](k), inp["tsf"](0))), inp["dt"])
            yield f"{H}:lag-column-labels=t-column-of-the-callee", sv.implies(ink, sv.cmp("==", c["labels"].get((k,)), tk)), FAST
            mine = [t for t in saves if t[1] == of + "." + H + ".npy"]
            if len(mine) == 1 and len(saves) == 3 and isinstance(mine[0][2], A.Arr) and mine[0][2].ndim == 2:
                arr = mine[0][2]
                j = ctx.int("j")
                p = d + 1
                wantv = sv.ite(sv.cmp("<", j, p), lambda: A._pick([c["pre"]["cols"][nm].get((n,)) for nm in qcols], sv.minv(j, p - 1)),
                               lambda: c["block"].get((n, A.simp(sv.sub(j, p)))))
                inj = sv.and_(sv.cmp(">=", j, 0), sv.cmp("<", j, sv.add(p, T)))
                yield (f"{H}:npy-file=values", sv.and_(sv.cmp("==", arr.shape[0], Q), sv.cmp("==", arr.shape[1], sv.add(p, T)),
                                                       sv.implies(sv.and_(inn, inj), sv.cmp("==", arr.get((n, j)), wantv))), FAST)
            else:
                yield f"{H}:npy-file=values", False

    def replay(self, case, clause, model, seed):
        return _replay_fft_corr(case, clause, model, seed)


def _call_req(cond, clause, assume=True):
    """precondition of a callee contract at a call site: a NAMED obligation of the unit (proved under the path condition of the call,
    reported as `<unit>:<clause>`), assumed afterwards like every checked requirement (unless assume=False: nothing later relies on it)"""
    from pyvc.loops import _SideGoal
    from pyvc.state import cur
    st = cur()
    if isinstance(cond, bool):
        g = z3.BoolVal(cond)
    else:
        g = sv.zb(cond)
    sg = _SideGoal("call-site:" + clause, g, st.all_assumptions(), st.where)
    sg.clause = clause
    sg.opts = {"unfold": False, "ext": False, "rounds": 1}      # argument checks: no Σ-term has to be unfolded
    st.side.append(sg)
    if assume and not isinstance(cond, bool):
        st.assume(cond)


def _same_array_req(a, b, clause):
    """call-site obligation: array argument `a` has the rank, dtype, shape and, at an arbitrary index, the elements of `b`"""
    if not isinstance(a, A.Arr) or a.ndim != b.ndim or a.dtype != b.dtype:
        _call_req(False, clause)
        return
    if a.sid == b.sid and a.view is None and b.view is None:
        _call_req(True, clause)
        return
    idx, conds = [], []
    for k in range(b.ndim):
        if not A.dim_eq_syntactic(a.shape[k], b.shape[k]):
            _call_req(sv.cmp("==", a.shape[k], b.shape[k]), clause)
        t = sv.fresh_int("ai")
        idx.append(t)
        conds.append(sv.and_(sv.cmp(">=", t, 0), sv.cmp("<", t, b.shape[k])))
    _call_req(sv.implies(sv.and_(*conds), _cx_eq(a.get(tuple(idx)), b.get(tuple(idx)))), clause, assume=False)


def fft_corr_reference(positions, boxes, vectors, qvector, timesteps, dt, spacing):
    """independent numpy implementation of what vector_fft_corr documents (docs/vectors.md section 7, docs/dynamics.md time correlation):
    per frame F_c(q) = N^-1/2 sum_i v_ic exp(-i q.r_i), L = qhat (qhat . F), T = F - L on the 8-decimal tables, S = |.|^2, averages over equal
    rounded |q|; per wave vector the origin-averaged (evenly spaced frames) or first-origin (otherwise) normalised autocorrelation."""
    import numpy as np
    Tn, N, d = vectors.shape
    Qn = len(qvector)
    r8 = lambda x: np.round(x, 8)
    X = {H: np.zeros((Tn, Qn, d), dtype=complex) for H in HEADERS}
    qtab = None
    spectra = None
    for t in range(Tn):
        qv = 2 * np.pi * qvector.astype(float) / boxes[t][None, :]
        qn = np.sqrt((qv ** 2).sum(axis=1))
        F = np.zeros((Qn, d), dtype=complex)
        for n_ in range(Qn):
            ph = np.exp(-1j * (positions[t] @ qv[n_]))
            F[n_] = (ph[:, None] * vectors[t]).sum(axis=0) / np.sqrt(N)
        Sq = (np.abs(F) ** 2).sum(axis=1)
        qv, qn, F, Sq = r8(qv), r8(qn), r8(F.real) + 1j * r8(F.imag), r8(Sq)
        qh = qv / qn[:, None]
        L = qh * (qh * F).sum(axis=1)[:, None]
        Tr = F - L
        SL, ST = r8((np.abs(L) ** 2).sum(axis=1)), r8((np.abs(Tr) ** 2).sum(axis=1))
        L, Tr = r8(L.real) + 1j * r8(L.imag), r8(Tr.real) + 1j * r8(Tr.imag)
        X["FFT"][t], X["L_FFT"][t], X["T_FFT"][t] = F, L, Tr
        if t == 0:
            qtab = np.column_stack([qv, qn])
        keys = sorted(set(qn.tolist()))
        ave = np.array([[kq] + [float(np.mean([col[n_] for n_ in range(Qn) if qn[n_] == kq])) for col in (Sq, ST, SL)] for kq in keys])
        if spectra is None:
            spectra = ave.copy()
        elif spectra.shape != ave.shape:
            return None                          # number of distinct |q| differs between frames: outside the precondition
        else:
            spectra = spectra + ave
    spectra = spectra / Tn
    tcs = {}
    for H in HEADERS:
        out = np.zeros((Qn, Tn))
        for n_ in range(Qn):
            A_ = X[H][:, n_, :]
            C = np.zeros(Tn)
            for k in range(Tn):
                if spacing == "linear":
                    C[k] = sum((A_[n0 + k] * np.conj(A_[n0])).sum().real for n0 in range(Tn - k)) / (Tn - k)
                else:
                    C[k] = (A_[k] * np.conj(A_[0])).sum().real
            if abs(C[0]) < 1e-6:
                return None                      # lag-zero correlation (nearly) zero: outside the precondition
            out[n_] = C / C[0]
        tcs[H] = out
    tcol = (np.asarray(timesteps) - timesteps[0]) * dt
    return dict(qtab=qtab, spectra=spectra, tcs=tcs, t=tcol)


def _replay_fft_corr(case, clause, model, seed):
    import importlib
    import os
    import random
    import shutil
    import tempfile

    import numpy as np
    V = importlib.import_module(MOD)
    RU = importlib.import_module("PyMatterSim.reader.reader_utils")
    import pandas as pd
    d = int(case[2])
    spacing = case.split("/")[1]
    default_name = case.endswith("default-name")
    rng = random.Random(seed)
    tmp = tempfile.mkdtemp(prefix="pyvc-c15-")
    cwd = os.getcwd()
    tried = 0
    try:
        os.chdir(tmp)
        for trial in range(60):
            first = trial == 0 and model.get("T") is not None
            if first:
                Tn = max(2 if spacing == "linear" else 1, min(int(_fr(model.get("T"), 3)), 6))
                N = max(1, min(int(_fr(model.get("N"), 3)), 8))
                Qn = max(1, min(int(_fr(model.get("Q"), 2)), 5))
            else:
                Tn = rng.choice([2, 3, 4, 6] if spacing == "linear" else [1, 2, 3, 5])
                N = rng.choice([1, 3, 8])
                Qn = rng.choice([1, 2, 4])
            if spacing == "linear":
                ts0, h = rng.choice([0, 0, 500]), rng.choice([1, 100])
                ts = [ts0 + j * h for j in range(Tn)]
            elif Tn <= 2:
                ts = [rng.choice([0, 7]) + 3 * j for j in range(Tn)]      # one or two frames: no common spacing exists only for T = 1
                if Tn == 2:
                    continue
            else:
                ts = [rng.choice([0, 10])]
                for j in range(1, Tn):
                    ts.append(ts[-1] + 2 ** (j - 1) * rng.choice([1, 10]))
                if len(set(np.diff(ts).tolist())) == 1:
                    continue
            dt = rng.choice([0.002, 0.01, 1.0])
            box0 = np.array([rng.uniform(4, 9) for _ in range(d)])
            boxes = [box0 * (1.0 if trial % 3 else rng.uniform(0.9, 1.1)) for _ in range(Tn)]
            positions = [np.array([[rng.uniform(0, boxes[t][c]) for c in range(d)] for _ in range(N)]) for t in range(Tn)]
            vectors = np.array([[[rng.uniform(-2, 2) for _ in range(d)] for _ in range(N)] for _ in range(Tn)])
            if trial % 4 == 1:
                vectors[:] = vectors[0][None]          # the same field in every frame
            qs = []
            while len(qs) < Qn:
                q = tuple(rng.randint(-3, 3) for _ in range(d))
                if any(q) and q not in qs:
                    qs.append(q)
            if trial % 3 == 0 and Qn >= 2:
                qs[1] = tuple(-x for x in qs[0])       # equal |q| (exercises the average over equal wave numbers)
            qvector = np.array(qs, dtype=int)
            ref = fft_corr_reference(positions, boxes, vectors, qvector, ts, dt, spacing)
            if ref is None:
                continue
            snaps = [RU.SingleSnapshot(timestep=ts[t], nparticle=N, particle_type=np.ones(N, dtype=int), positions=positions[t].copy(),
                                       boxlength=boxes[t].copy(), boxbounds=np.column_stack([np.zeros(d), boxes[t]]), realbounds=None,
                                       hmatrix=np.diag(boxes[t])) for t in range(Tn)]
            S = RU.Snapshots(nsnapshots=Tn, snapshots=snaps)
            keep_v, keep_q = vectors.copy(), qvector.copy()
            of = "" if default_name else f"corr{trial}"
            tried += 1
            inputs = {"timesteps": ts, "dt": dt, "boxlengths": [b.tolist() for b in boxes], "positions": [p.tolist() for p in positions],
                      "vectors": keep_v.tolist(), "qvector": keep_q.tolist()}
            before = set(os.listdir(tmp))
            try:
                got = V.vector_fft_corr(S, qvector, vectors, dt=dt, outputfile=of) if not default_name else V.vector_fft_corr(S, qvector, vectors, dt=dt)
            except Exception as ex:
                return {"ran": True, "failed": True, "searched": tried, "from_model": first, "inputs": inputs, "detail": f"raises {type(ex).__name__}: {ex}"}
            bad = None
            tol = 5e-7
            if not isinstance(got, dict) or list(got.keys()) != HEADERS:
                bad = f"returned keys {list(got.keys()) if isinstance(got, dict) else type(got).__name__}, expected {HEADERS}"
            for H in ([] if bad else HEADERS):
                df = got[H]
                vals = np.asarray(df.values, dtype=float)
                if vals.shape != (Qn, d + 1 + Tn):
                    bad = f"{H}: frame of shape {vals.shape}, expected ({Qn}, {d + 1 + Tn}) = one row per wave vector, q0..q{d - 1}, q and one column per lag"
                elif list(df.columns[:d + 1]) != [f"q{c}" for c in range(d)] + ["q"]:
                    bad = f"{H}: leading columns {list(df.columns[:d + 1])}"
                elif np.abs(np.array([float(x) for x in df.columns[d + 1:]]) - ref["t"]).max() > 1e-9 * max(1.0, np.abs(ref["t"]).max()):
                    bad = f"{H}: lag column labels {list(df.columns[d + 1:])} are not the time axis (ts_k - ts_0) dt = {ref['t'].tolist()}"
                elif np.abs(vals[:, :d + 1] - ref["qtab"]).max() > 3e-8:
                    bad = f"{H}: q columns {vals[:, :d + 1].tolist()} differ from the first frame's q table {ref['qtab'].tolist()}"
                elif not np.all(np.isfinite(vals)):
                    bad = f"{H}: non-finite entries {vals.tolist()}"
                elif np.abs(vals[:, d + 1:] - ref["tcs"][H]).max() > tol:
                    n_, k_ = np.unravel_index(np.argmax(np.abs(vals[:, d + 1:] - ref["tcs"][H])), ref["tcs"][H].shape)
                    bad = (f"{H}: wave vector {int(n_)}, lag {int(k_)}: {vals[n_, d + 1 + k_]!r}, but the normalised autocorrelation of the {H} columns "
                           f"of that wave vector over the frames is {ref['tcs'][H][n_, k_]!r}")
                elif np.abs(vals - np.round(vals, 8)).max() > 1e-12:
                    bad = f"{H}: values are not rounded to 8 decimals"
                else:
                    path = of + "." + H + ".npy"
                    if not os.path.exists(path):
                        bad = f"{H}: file {path} was not written"
                    elif not np.array_equal(np.load(path), vals):
                        bad = f"{H}: saved array differs from the returned frame"
                if bad:
                    break
            if bad is None:
                path = of + ".spectra.csv"
                if not os.path.exists(path):
                    bad = f"spectra file {path} was not written"
                else:
                    back = pd.read_csv(path)
                    if list(back.columns) != AVE_COLS or back.values.shape != ref["spectra"].shape:
                        bad = f"spectra file: columns {list(back.columns)}, shape {back.values.shape}, expected {AVE_COLS} x {ref['spectra'].shape[0]} rows"
                    elif np.abs(back.values - ref["spectra"]).max() > 1e-7:
                        bad = f"spectra file {back.values.tolist()} is not the frame average of the per-frame averaged tables {ref['spectra'].tolist()}"
            if bad is None:
                extra = sorted(set(os.listdir(tmp)) - before - {of + ".spectra.csv"} - {of + "." + H + ".npy" for H in HEADERS})
                if extra:
                    bad = f"unexpected files written: {extra} (documented: the spectra csv and one npy file per mode)"
            if bad is None and not (np.array_equal(keep_v, vectors) and np.array_equal(keep_q, qvector)
                                    and all(np.array_equal(positions[t], snaps[t].positions) for t in range(Tn))):
                bad = "an input array was modified"
            if bad:
                return {"ran": True, "failed": True, "searched": tried, "from_model": first, "inputs": inputs, "detail": bad}
    finally:
        os.chdir(cwd)
        shutil.rmtree(tmp, ignore_errors=True)
    return {"ran": True, "failed": False, "searched": tried, "detail": "real code satisfies every clause on the seeded inputs"}


UNITS = [ParticipationRatio(), LocalAlignment(), PhaseQuotient(), DivergenceCurl(), Vibrability(), VectorDecompositionSq(), VectorFftCorr()]
# callee contracts of other properties used at call sites: their units are re-verified with this check
from contracts.common import callee_units as _callee_units   # noqa: E402
UNITS = UNITS + _callee_units([('C02', None), ('C05', {'read_neighbors'}), ('C13', {'conditional_sq'})], UNITS)


def _time_correlation_callee():
    """the cases of the C14 unit whose contract vector_fft_corr uses at its call site: rank-2 complex condition (T, d), evenly and
    unevenly spaced frames (the whole C14 unit has 28 cases; `./check C14` runs them all)"""
    from contracts import C14

    class TimeCorrelationCallee(C14.TimeCorr):
        def cases(self):
            return ["rank2/complex/linear", "rank2/complex/log"]
    return TimeCorrelationCallee()


UNITS = UNITS + [_time_correlation_callee()]

MANIFEST = {
    "text": "Seven functions of PyMatterSim/static/vector.py, real ASTs, symbolic particle number N, coordination numbers CN_i, mode number K and wave-vector number Q, d in {2,3}, every clause at an arbitrary symbolic index: participation_ratio = (sum|e|^2)^2/(N sum|e|^4), in [1/N,1] for e != 0 (two Cauchy-Schwarz type facts proved by induction over N), invariant under e -> c e (second symbolic run of the real body); local_vector_alignment_i = mean over the neighbour list of e_i.e_j; phase_quotient = sum e_i.e_j / sum|e_i.e_j| and in [-1,1] (triangle inequality by two nested inductions); divergence_i / curl_i = neighbour averages of D_ij.(u_j-u_i) / D_ij x (u_j-u_i) with D the minimum image of remove_pbc (nested symbolic loops summarised and checked inductively), 2-D returns the divergence only; vibrability_i = sum_l |e_li|^2/omega_l^2 and the saved array is the returned one; vector_decomposition_sq: L_FFT = round8(qhat (qhat.F)), T_FFT = round8(F - L), Sq_L/Sq_T = round8(|L|^2/|T|^2), transform columns kept, L parallel to q, L + T = F, qhat.T = (1-|qhat|^2)(qhat.F), |L|^2+|T|^2-|F|^2 = 2(|qhat|^2-1)|qhat.F|^2 (so S = S_L + S_T whenever |qhat| = 1), averaged frame = group means over equal q, csv = averaged frame; vector_fft_corr (symbolic T frames, N particles, Q wave vectors, d in {2,3}, evenly and unevenly spaced timesteps, every argument of the two callee calls a named call-site obligation): the frame loop keeps the written invariant spectra = sum of the per-frame averaged tables and vectors_fft = the per-frame tables (init/step from executions of the real body), the csv outputfile.spectra.csv holds their frame average; for each header H in {FFT, T_FFT, L_FFT} the wave-vector loop keeps cal_data[:, j] = time_correlation(X_{H,j}).time_corr for j < k (X_{H,j} = the (T, d) complex array of that header's columns of wave vector j over the frames, time_correlation = the C14 contract), and the returned dict has exactly the three keys, each a frame with one row per wave vector: q0..q<d-1>, q of the first frame's table and one column per lag k = round8 of the callee's time_corr[k], lag columns labelled by the callee's time axis (ts_k - ts_0) dt, the same values in outputfile.H.npy; no input array is written. Before the fix commit e113e6a vector_decomposition_sq (and vector_fft_corr through it) raised for every input (in-place division of the read-only DataFrame.values array, pandas 3): exc-free failed with a failing replay; on the repaired tree every obligation is proved.",
    "note": "floats as reals (A1); callee contracts of read_neighbors (C05), remove_pbc (C02, proved there), conditional_sq (C13) used at the call sites; induction rule over the upper limit of Σ-terms; assumed np.cross/open/pandas contracts incl. the wide-frame model of pyvc/libext/C15.py (concat(axis=1) only for identical indexes, checked as an obligation); vector_fft_corr requires the same number of distinct |q| in every frame and non-zero lag-zero correlations, its per-frame tables are the (uninterpreted) results of vector_decomposition_sq; the Pythagorean identity is exact only for |qhat| = 1, the 8-decimal rounding of the q columns by conditional_sq is not decided",
}
