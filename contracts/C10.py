"""C10 — 2-D bond-orientational order equals the l-fold definition.

Functions under contract (class boo_2d of PyMatterSim/static/boo.py, real ASTs re-read on every run):
  lthorder (with and without weights file, with and without output file), time_average (method), spatial_corr, time_corr.
Callee contracts used: read_neighbors (C05), remove_pbc (C02), utils.coarse_graining.time_average (C16), conditional_gr (C13),
time_correlation (C14).

Spec (statement of C10, docs/boo_2d.md eq. (1), (2)).  For frame s and particle i let cn = NB_s(i,0) >= 1 be the coordination
number delivered by the neighbour file, j_t = NB_s(i,1+t) (t < cn) its neighbours, D_t = minimum-image vector r_{j_t} - r_i
(remove_pbc contract, C02), phi_t = atan2(D_t.y, D_t.x):
  unweighted:  psi_l(s,i) = (1/cn) sum_{t<cn} exp(i l phi_t)
  weighted:    psi_l(s,i) = sum_{t<cn} ( w_t / sum_{u<cn} |w_u| ) exp(i l phi_t),      w_t = W_s(i,1+t)  (weights file, same layout)
with exp(i x) = (cos x, sin x).
"""
import z3

from contracts.common import PBC, Traj, min_image
from pyvc import arr as A
from pyvc import sigma, sv
from pyvc.sigma import Sum
from pyvc.state import cur
from pyvc.vc import Unit

MOD = "PyMatterSim.static.boo"
RN = "PyMatterSim.neighbors.read_neighbors.read_neighbors"
NBFILE, WFILE = "neighbors.dat", "weights.dat"


def outer_sigmas(t):
    """outermost Σ-applications of a z3 term"""
    out, seen = [], set()

    def walk(e):
        if e.get_id() in seen:
            return
        seen.add(e.get_id())
        if sigma.sigma_def_of(e) is not None:
            out.append(e)
            return
        for c in e.children():
            walk(c)
    walk(t)
    return out


# ---------------------------------------------------------------------------------------------------------------
# symbolic neighbour / weight files and the callee contract of read_neighbors


class NbFiles:
    """symbolic content of the neighbour file and the weights file as delivered by read_neighbors (documented layout,
    docs/neighbors.md): frame s, row i: column 0 = coordination number, columns 1..cn = zero-based neighbour ids / weights."""

    def __init__(self, ctx, tr, Nmax):
        I, R = z3.IntSort(), z3.RealSort()
        self.tr, self.Nmax = tr, Nmax
        self.NB = z3.Function("NB", I, I, I, I)
        self.WT = z3.Function("WT", I, I, I, R)
        self.MAXCN = z3.Function("MAXCN", I, I)
        self.MAXCNW = z3.Function("MAXCNW", I, I)
        N = tr.N
        NB, MAXCN, MAXCNW = self.NB, self.MAXCN, self.MAXCNW
        zN, zNmax = sv.znum(N), sv.znum(Nmax)
        # documented layout of the array returned by read_neighbors for a neighbour list; "every particle has >= 1 neighbour"
        ctx.array_fact("NB", lambda s, i, c: z3.And(NB(s, i, 0) >= 1, NB(s, i, 0) <= MAXCN(s),
                                                     z3.Implies(z3.And(c >= 1, c <= NB(s, i, 0)), z3.And(NB(s, i, c) >= 0, NB(s, i, c) < zN))))
        ctx.array_fact("MAXCN", lambda s: z3.And(MAXCN(s) >= 1, MAXCN(s) <= zNmax))
        # "this file should be consistent with neighborfile": same coordination numbers, hence the same number of columns
        ctx.array_fact("MAXCNW", lambda s: MAXCNW(s) == MAXCN(s))

    def cn(self, s, i):
        return sv.SV(self.NB(sv.znum(s), sv.znum(i), z3.IntVal(0)))

    def nb(self, s, i, t):
        """t-th neighbour (t = 0..cn-1)"""
        return sv.SV(self.NB(sv.znum(s), sv.znum(i), z3.simplify(sv.znum(sv.add(1, t)))))

    def w(self, s, i, t):
        return sv.SV(self.WT(sv.znum(s), sv.znum(i), z3.simplify(sv.znum(sv.add(1, t)))))

    def summary(self, files):
        """callee contract of read_neighbors(f, nparticle, Nmax) (verified on its own under C05):
        requires: f an open handle of a known file, nparticle = N, Nmax = the cap the file facts are stated for, a frame is left;
        ensures:  returns a fresh array (N, 1 + max cn of the frame) holding the next frame of the file; the handle advances by one frame"""
        from pyvc.libext.C10 import handle_info
        tr = self.tr

        def rn(interp, args, kwargs):
            f = args[0] if args else kwargs.get("f")
            npart = args[1] if len(args) > 1 else kwargs.get("nparticle")
            nmax = args[2] if len(args) > 2 else kwargs.get("Nmax", 200)
            d = handle_info(f)
            st = cur()
            if d is None:
                st.require(False, "call:read_neighbors:pre:file-handle")
                raise sv.EngineError("read_neighbors called with something that is not a file handle")
            st.require(not d["closed"], "call:read_neighbors:pre:handle-open")
            kind = files.get(d["path"])
            st.require(kind is not None, "call:read_neighbors:pre:known-file")
            if kind is None:
                raise sv.EngineError(f"read_neighbors on unknown file {d['path']!r}")
            st.require(sv.cmp("==", npart, tr.N), "call:read_neighbors:pre:nparticle=N")
            st.require(sv.cmp("==", nmax, self.Nmax), "call:read_neighbors:pre:Nmax")
            pos = d["pos"].get(())
            st.require(sv.and_(sv.cmp(">=", pos, 0), sv.cmp("<", pos, tr.T)), "call:read_neighbors:pre:frame-available")
            A.inplace(d["pos"], "+", 1)
            zp = sv.znum(pos)
            if kind == "nb":
                return A.new_arr((tr.N, A.simp(sv.add(1, sv.SV(self.MAXCN(zp))))),
                                 lambda idx: sv.SV(self.NB(zp, sv.znum(idx[0]), sv.znum(idx[1]))), "int")
            return A.new_arr((tr.N, A.simp(sv.add(1, sv.SV(self.MAXCNW(zp))))),
                             lambda idx: sv.SV(self.WT(zp, sv.znum(idx[0]), sv.znum(idx[1]))), "float")
        return rn


def bond_angle(tr, nf, s, i, t, p):
    D = min_image(tr, s, i, nf.nb(s, i, t), p)
    return sv.atan2(D[1], D[0])


def psi_terms(tr, nf, s, i, p, l, weighted):
    """(sum_re, sum_im, normaliser):  psi = (sum_re + i sum_im) / normaliser, normaliser = cn (unweighted) or 1 (weights normalised inside)"""
    cn = nf.cn(s, i)
    if not weighted:
        re = Sum(0, cn, lambda t: sv.cos(sv.mul(l, bond_angle(tr, nf, s, i, t, p))))
        im = Sum(0, cn, lambda t: sv.sin(sv.mul(l, bond_angle(tr, nf, s, i, t, p))))
        return re, im, cn
    sabs = Sum(0, cn, lambda u: sv.absv(nf.w(s, i, u)))
    re = Sum(0, cn, lambda t: sv.mul(sv.div(nf.w(s, i, t), sabs), sv.cos(sv.mul(l, bond_angle(tr, nf, s, i, t, p)))))
    im = Sum(0, cn, lambda t: sv.mul(sv.div(nf.w(s, i, t), sabs), sv.sin(sv.mul(l, bond_angle(tr, nf, s, i, t, p)))))
    return re, im, 1


# ---------------------------------------------------------------------------------------------------------------


def _setup_boo(ctx, weighted, attrs_extra=None):
    tr = Traj(ctx, 2)
    T, N = tr.T, tr.N
    l = ctx.int("l")
    ctx.assume(sv.and_(l >= 1, l <= 12))
    Nmax = ctx.int("Nmax")
    ctx.assume(Nmax >= 1)
    p = [ctx.int(f"ppp_{k}") for k in range(2)]
    for k in range(2):
        ctx.assume(sv.or_(sv.cmp("==", p[k], 0), sv.cmp("==", p[k], 1)))
    ppp = A.from_nested(p, "int")
    ctx.state.origin[ppp.sid] = "argument ppp"
    from contracts.C02 import _inv_spec
    ctx.array_fact("HM", lambda s, a, b: sv.zb(sv.cmp("!=", _inv_spec(tr.Hm(sv.SV(s)), 2)[0], 0)))
    nf = NbFiles(ctx, tr, Nmax)
    snaps = tr.snapshots()
    attrs = dict(snapshots=snaps, l=l, neighborfile=NBFILE, weightsfile=WFILE if weighted else "", ppp=ppp, Nmax=Nmax, nparticle=N)
    attrs.update(attrs_extra or {})
    o = ctx.obj(MOD, "boo_2d", attrs)
    ctx.interp.summaries[RN] = nf.summary({NBFILE: "nb", WFILE: "w"})
    return o, dict(tr=tr, T=T, N=N, l=l, p=p, ppp=ppp, nf=nf, Nmax=Nmax, weighted=weighted)


class LthOrder(Unit):
    module = MOD
    qualname = "boo_2d.lthorder"
    prop = "C10"
    summaries = dict(PBC)
    timeout = 30
    solver_opts = {"rounds": 4}

    def cases(self):
        return [f"{w}/{o}" for w in ("unweighted", "weighted") for o in ("nofile", "file")]

    def setup(self, ctx, case):
        weighted = case.startswith("weighted")
        o, inp = _setup_boo(ctx, weighted)
        out_phi = "phi.npy" if case.endswith("/file") else ""
        inp["out_phi"] = out_phi
        inp["s"], inp["i"] = ctx.int("s"), ctx.int("i")
        return [o, out_phi], {}, inp

    def clause_names(self, case):
        return ["shape=(T,N)", "re:sum-over-neighbours", "im:sum-over-neighbours", "re:normalisation", "im:normalisation",
                "files:opened-read-closed", "file=returned"]

    def ensures(self, ctx, case, inp, out):
        tr, nf, T, N, s, i = inp["tr"], inp["nf"], inp["T"], inp["N"], inp["s"], inp["i"]
        res = out.value
        ok = isinstance(res, A.Arr) and res.ndim == 2 and res.dtype == "complex" and A.dim_eq_syntactic(res.shape[0], T) and A.dim_eq_syntactic(res.shape[1], N)
        yield "shape=(T,N)", bool(ok)
        if not ok:
            return
        inr = sv.and_(sv.cmp(">=", s, 0), sv.cmp("<", s, T), sv.cmp(">=", i, 0), sv.cmp("<", i, N))
        got = sv.as_cx(res.get((s, i)))
        wre, wim, nrm = psi_terms(tr, nf, s, i, inp["p"], inp["l"], inp["weighted"])
        for part, g, want in (("re", got.re, wre), ("im", got.im, wim)):
            sig = outer_sigmas(sv.zr(g))
            if len(sig) != 1:
                yield f"{part}:sum-over-neighbours", False
                yield f"{part}:normalisation", False
                continue
            raw = sv.SV(sig[0])
            # the Σ-term accumulated by the real code equals the sum over the neighbour list of the definition
            yield f"{part}:sum-over-neighbours", sv.implies(inr, sv.cmp("==", raw, want))
            # the stored value as a function of that sum (any value of the sum)
            gn, _ = sv.generalize(sv.implies(inr, sv.cmp("==", g, sv.div(raw, nrm))), [raw], "sum")
            yield f"{part}:normalisation", gn, {"ring_only": True}
        # files: both files are opened for reading once, every frame is read (handle position = T), handles closed
        tr_ev = out.state.trace
        opens = [e for e in tr_ev if e[0] == "open"]
        closes = [e for e in tr_ev if e[0] == "close"]
        want_files = [NBFILE] + ([WFILE] if inp["weighted"] else [])
        okf = sorted(e[1] for e in opens) == sorted(want_files) and sorted(e[1] for e in closes) == sorted(want_files) \
            and all(str(e[2]).startswith("r") for e in opens)
        yield "files:opened-read-closed", bool(okf)
        saves = [e for e in tr_ev if e[0] == "np.save"]
        if not inp["out_phi"]:
            yield "file=returned", len(saves) == 0
        elif len(saves) == 1 and saves[0][1] == inp["out_phi"]:
            sa = sv.as_cx(saves[0][2].get((s, i)))
            yield "file=returned", sv.implies(inr, sv.and_(sv.cmp("==", sa.re, got.re), sv.cmp("==", sa.im, got.im))), {"ring_only": True}
        else:
            yield "file=returned", False

    def replay(self, case, clause, model, seed):
        return _replay_boo("lthorder", case, clause, model, seed)


# ---------------------------------------------------------------------------------------------------------------
# replay (runs under /venv/bin/python against the real package)


def _write_nb_files(d, nbs, wts, N):
    """neighbour file / weights file in the documented format (docs/neighbors.md): header, then `id cn item_1 .. item_cn` per particle and frame"""
    import os
    fn, fw = os.path.join(d, "nb.neighbor.dat"), os.path.join(d, "nb.weights.dat")
    with open(fn, "w") as f, open(fw, "w") as g:
        for s in range(len(nbs)):
            f.write("id     cn     neighborlist\n")
            g.write("id     cn     edgelengthlist\n")
            for i in range(N):
                f.write(f"{i + 1} {len(nbs[s][i])} " + " ".join(str(j + 1) for j in nbs[s][i]) + "\n")
                g.write(f"{i + 1} {len(nbs[s][i])} " + " ".join(repr(float(w)) for w in wts[s][i]) + "\n")
    return fn, fw


def _gen_system(rng, trial, lattice=None):
    """seeded 2-D trajectory + neighbour lists + weights: orthogonal / triclinic cells, all periodicity masks, T = 1..3,
    coordination 1..7, weights of both signs"""
    import numpy as np
    T = int(rng.integers(1, 4))
    N = int(rng.integers(2, 9))
    L = rng.uniform(3.0, 7.0, size=2)
    H = np.diag(L)
    if trial % 2 == 1:
        H[1, 0] = rng.uniform(-0.45, 0.45) * L[0]
    ppp = np.array([1, 1]) if trial % 3 == 0 else np.array([int(rng.integers(0, 2)), int(rng.integers(0, 2))])
    pos, nbs, wts = [], [], []
    for s in range(T):
        frac = rng.uniform(-0.2, 1.2, size=(N, 2))
        pos.append(frac @ H)
        nb, wt = [], []
        for i in range(N):
            others = [j for j in range(N) if j != i]
            cn = int(rng.integers(1, min(7, len(others)) + 1))
            lst = [int(x) for x in rng.choice(others, size=cn, replace=False)]
            nb.append(lst)
            w = rng.uniform(0.1, 2.0, size=cn)
            if trial % 2 == 0:
                w = w * rng.choice([-1.0, 1.0], size=cn)
            if abs(np.abs(w).sum()) < 1e-3:
                w[0] = 1.0
            wt.append([float(x) for x in w])
        nbs.append(nb)
        wts.append(wt)
    return dict(T=T, N=N, H=H, L=L, ppp=ppp, pos=pos, nbs=nbs, wts=wts)


def _snapshots(sysd, timestep0=0, dstep=100):
    import importlib

    import numpy as np
    RUm = importlib.import_module("PyMatterSim.reader.reader_utils")
    snaps = []
    for s in range(sysd["T"]):
        L = sysd["L"]
        snaps.append(RUm.SingleSnapshot(timestep=timestep0 + s * dstep, nparticle=sysd["N"], particle_type=np.ones(sysd["N"], dtype=int),
                                        positions=np.array(sysd["pos"][s], dtype=float), boxlength=np.array(L, dtype=float),
                                        boxbounds=np.column_stack([np.zeros(2), L]), realbounds=np.column_stack([np.zeros(2), L]),
                                        hmatrix=np.array(sysd["H"], dtype=float)))
    return RUm.Snapshots(nsnapshots=sysd["T"], snapshots=snaps)


def psi_reference(sysd, l, weighted):
    """independent implementation of the definition (plain loops): psi[s][i]"""
    import cmath
    import math

    import numpy as np
    H = np.array(sysd["H"], dtype=float)
    Hinv = np.linalg.inv(H)
    out = np.zeros((sysd["T"], sysd["N"]), dtype=complex)
    for s in range(sysd["T"]):
        pos = np.array(sysd["pos"][s], dtype=float)
        for i in range(sysd["N"]):
            acc = 0j
            wsum = sum(abs(w) for w in sysd["wts"][s][i])
            for t, j in enumerate(sysd["nbs"][s][i]):
                dr = pos[j] - pos[i]
                m = dr @ Hinv
                m = m - np.rint(m) * sysd["ppp"]
                D = m @ H
                e = cmath.exp(1j * l * math.atan2(D[1], D[0]))
                acc += (sysd["wts"][s][i][t] / wsum) * e if weighted else e / len(sysd["nbs"][s][i])
            out[s, i] = acc
    return out


def _make_boo(sysd, l, weighted, tmpdir, Nmax=None, output_phi=""):
    import importlib
    B = importlib.import_module(MOD)
    fn, fw = _write_nb_files(tmpdir, sysd["nbs"], sysd["wts"], sysd["N"])
    S = _snapshots(sysd)
    kw = dict(weightsfile=fw) if weighted else {}
    if Nmax is not None:
        kw["Nmax"] = Nmax
    if output_phi:
        kw["output_phi"] = output_phi
    return B.boo_2d(S, l, fn, ppp=np_array(sysd["ppp"]), **kw), S


def np_array(x):
    import numpy as np
    return np.array(x)


def _lattice_system(kind):
    """perfect triangular (l = 6) / square (l = 4) lattice in a periodic orthogonal cell, nearest neighbours"""
    import numpy as np
    if kind == "square":
        nx = ny = 4
        a = 1.0
        pts = [(ix * a, iy * a) for ix in range(nx) for iy in range(ny)]
        L = np.array([nx * a, ny * a])
        nn, l = 4, 4
    else:
        nx, ny = 4, 4
        a = 1.0
        pts = []
        for iy in range(ny):
            for ix in range(nx):
                pts.append((ix * a + (iy % 2) * a / 2, iy * a * np.sqrt(3) / 2))
        L = np.array([nx * a, ny * a * np.sqrt(3) / 2])
        nn, l = 6, 6
    pos = np.array(pts)
    N = len(pts)
    H = np.diag(L)
    nb = []
    for i in range(N):
        d = pos - pos[i]
        d = d - np.rint(d / L) * L
        r = np.linalg.norm(d, axis=1)
        r[i] = 1e9
        nb.append([int(j) for j in np.argsort(r, kind="stable")[:nn]])
    wts = [[[1.0 + 0.1 * t for t in range(nn)] for _ in range(N)]]
    return dict(T=1, N=N, H=H, L=L, ppp=np.array([1, 1]), pos=[pos], nbs=[nb], wts=wts), l


def _replay_boo(which, case, clause, model, seed):
    import tempfile

    import numpy as np
    rng = np.random.default_rng(seed + 101)
    tried = 0
    weighted_cases = [case.startswith("weighted")] if which == "lthorder" else [False, True]
    with tempfile.TemporaryDirectory(prefix="pyvc-c10-") as tmp:
        for trial in range(14):
            sysd = _gen_system(rng, trial)
            l = int(rng.integers(1, 13))
            for weighted in weighted_cases:
                out_phi = (tmp + f"/phi{trial}.npy") if (which == "lthorder" and case.endswith("/file")) else ""
                try:
                    boo, S = _make_boo(sysd, l, weighted, tmp, Nmax=int(rng.integers(7, 12)), output_phi=out_phi)
                except Exception as e:
                    return {"ran": True, "failed": True, "searched": tried, "detail": f"boo_2d(...) raises {type(e).__name__}: {e}",
                            "inputs": _inputs(sysd, l, weighted)}
                tried += 1
                want = psi_reference(sysd, l, weighted)
                got = np.asarray(boo.ParticlePhi)
                bad = _cmp(got, want, "ParticlePhi (definition of psi_l)")
                if bad is None and np.any(np.abs(got) > 1 + 1e-9):
                    bad = f"|psi| = {np.abs(got).max()!r} exceeds one"
                if bad is None and out_phi:
                    saved = np.load(out_phi)
                    bad = _cmp(saved, got, "saved output_phi vs returned")
                if bad is None and which != "lthorder":
                    bad = _check_methods(which, case, boo, S, sysd, want, rng)
                if bad is not None:
                    return {"ran": True, "failed": True, "searched": tried, "detail": bad, "inputs": _inputs(sysd, l, weighted)}
        # instances: perfect lattices have modulus one; rotation of a non-periodic system multiplies psi by exp(i l alpha)
        if which == "lthorder":
            for kind in ("triangular", "square"):
                sysd, l = _lattice_system(kind)
                for weighted in weighted_cases:
                    boo, S = _make_boo(sysd, l, weighted, tmp)
                    tried += 1
                    mod = np.abs(np.asarray(boo.ParticlePhi))
                    if np.any(np.abs(mod - 1) > 1e-9):
                        return {"ran": True, "failed": True, "searched": tried, "detail": f"perfect {kind} lattice, l={l}: |psi| = {mod.min()!r}..{mod.max()!r}, expected 1",
                                "inputs": {"lattice": kind, "l": l, "weighted": weighted}}
            for trial in range(4):
                sysd = _gen_system(rng, trial)
                l = int(rng.integers(1, 13))
                alpha = float(rng.uniform(-3, 3))
                R = np.array([[np.cos(alpha), -np.sin(alpha)], [np.sin(alpha), np.cos(alpha)]])
                rot = dict(sysd)
                rot["pos"] = [np.array(p) @ R.T for p in sysd["pos"]]
                rot["H"] = np.array(sysd["H"]) @ R.T
                for weighted in weighted_cases:
                    b0, _ = _make_boo(sysd, l, weighted, tmp)
                    b1, _ = _make_boo(rot, l, weighted, tmp)
                    tried += 1
                    bad = _cmp(np.asarray(b1.ParticlePhi), np.exp(1j * l * alpha) * np.asarray(b0.ParticlePhi), f"rotation by {alpha}: psi' vs exp(i l alpha) psi")
                    if bad is not None:
                        return {"ran": True, "failed": True, "searched": tried, "detail": bad, "inputs": _inputs(sysd, l, weighted)}
    return {"ran": True, "failed": False, "searched": tried, "detail": "real code agrees with the definition on the seeded inputs"}


def _cmp(got, want, what):
    import numpy as np
    got, want = np.asarray(got), np.asarray(want)
    if got.shape != want.shape:
        return f"{what}: shape {got.shape}, expected {want.shape}"
    if not np.allclose(got, want, rtol=1e-9, atol=1e-10, equal_nan=True):
        k = np.unravel_index(int(np.nanargmax(np.abs(got - want))), got.shape)
        return f"{what}: at {tuple(int(x) for x in k)} got {got[k]!r}, expected {want[k]!r}"
    return None


def _inputs(sysd, l, weighted):
    return {"l": l, "weighted": weighted, "T": sysd["T"], "N": sysd["N"], "hmatrix": np_array(sysd["H"]).tolist(), "ppp": np_array(sysd["ppp"]).tolist(),
            "positions": [np_array(p).tolist() for p in sysd["pos"]], "neighbours": sysd["nbs"], "weights": sysd["wts"] if weighted else None}


def _check_methods(which, case, boo, S, sysd, psi, rng):
    return None


UNITS = [LthOrder()]

NOT_DECIDED = []
TRUSTED = []
MANIFEST = {"text": "todo", "note": "todo"}
