"""C10 — 2-D bond-orientational order equals the l-fold definition.

Functions under contract (class boo_2d of PyMatterSim/static/boo.py, real ASTs re-read on every run):
  lthorder (with and without weights file, with and without output file), time_average (method), spatial_corr, time_corr.
Callee contracts used: read_neighbors (C05), remove_pbc (C02), utils.coarse_graining.time_average (C16), conditional_gr (C13),
time_correlation (C14).

Spec (statement of C10, docs/boo_2d.md eq. (1), (2)).  For frame s and particle i let cn = NB_s(i,0) >= 1 be the coordination
number delivered by the neighbour file, j_t = NB_s(i,1+t) (t < cn) its neighbours, D_t = minimum-image vector r_{j_t} - r_i
(remove_pbc contract, C02), phi_t = atan2(D_t.y, D_t.x):
  unweighted:  psi_l(s,i) = (1/cn) sum_{t<cn} exp(i l phi_t)
  weighted:    psi_l(s,i) = sum_{t<cn} ( w_t / sum_{u<cn} |w_u| ) exp(i l phi_t),      w_t = W_s(i,1+t)  (weights file, same layout)
with exp(i x) = (cos x, sin x).
"""
import z3

from contracts.common import PBC, Traj, min_image
from pyvc import arr as A
from pyvc import sigma, sv
from pyvc.sigma import Sum
from pyvc.state import cur
from pyvc.vc import Unit

MOD = "PyMatterSim.static.boo"
RN = "PyMatterSim.neighbors.read_neighbors.read_neighbors"
NBFILE, WFILE = "neighbors.dat", "weights.dat"


def outer_sigmas(t):
    """outermost Σ-applications of a z3 term"""
    out, seen = [], set()

    def walk(e):
        if e.get_id() in seen:
            return
        seen.add(e.get_id())
        if sigma.sigma_def_of(e) is not None:
            out.append(e)
            return
        for c in e.children():
            walk(c)
    walk(t)
    return out


# ---------------------------------------------------------------------------------------------------------------
# symbolic neighbour / weight files and the callee contract of read_neighbors


class NbFiles:
    """symbolic content of the neighbour file and the weights file as delivered by read_neighbors (documented layout,
    docs/neighbors.md): frame s, row i: column 0 = coordination number, columns 1..cn = zero-based neighbour ids / weights."""

    def __init__(self, ctx, tr, Nmax):
        I, R = z3.IntSort(), z3.RealSort()
        self.tr, self.Nmax = tr, Nmax
        self.NB = z3.Function("NB", I, I, I, I)
        self.WT = z3.Function("WT", I, I, I, R)
        self.MAXCN = z3.Function("MAXCN", I, I)
        self.MAXCNW = z3.Function("MAXCNW", I, I)
        N = tr.N
        NB, MAXCN, MAXCNW = self.NB, self.MAXCN, self.MAXCNW
        zN, zNmax = sv.znum(N), sv.znum(Nmax)
        # documented layout of the array returned by read_neighbors for a neighbour list; "every particle has >= 1 neighbour"
        ctx.array_fact("NB", lambda s, i, c: z3.And(NB(s, i, 0) >= 1, NB(s, i, 0) <= MAXCN(s),
                                                     z3.Implies(z3.And(c >= 1, c <= NB(s, i, 0)), z3.And(NB(s, i, c) >= 0, NB(s, i, c) < zN))))
        ctx.array_fact("MAXCN", lambda s: z3.And(MAXCN(s) >= 1, MAXCN(s) <= zNmax))
        # "this file should be consistent with neighborfile": same coordination numbers, hence the same number of columns
        ctx.array_fact("MAXCNW", lambda s: MAXCNW(s) == MAXCN(s))

    def cn(self, s, i):
        return sv.SV(self.NB(sv.znum(s), sv.znum(i), z3.IntVal(0)))

    def nb(self, s, i, t):
        """t-th neighbour (t = 0..cn-1)"""
        return sv.SV(self.NB(sv.znum(s), sv.znum(i), z3.simplify(sv.znum(sv.add(1, t)))))

    def w(self, s, i, t):
        return sv.SV(self.WT(sv.znum(s), sv.znum(i), z3.simplify(sv.znum(sv.add(1, t)))))

    def summary(self, files):
        """callee contract of read_neighbors(f, nparticle, Nmax) (verified on its own under C05):
        requires: f an open handle of a known file, nparticle = N, Nmax = the cap the file facts are stated for, a frame is left;
        ensures:  returns a fresh array (N, 1 + max cn of the frame) holding the next frame of the file; the handle advances by one frame"""
        from pyvc.libext.C10 import handle_info
        tr = self.tr

        def rn(interp, args, kwargs):
            f = args[0] if args else kwargs.get("f")
            npart = args[1] if len(args) > 1 else kwargs.get("nparticle")
            nmax = args[2] if len(args) > 2 else kwargs.get("Nmax", 200)
            d = handle_info(f)
            st = cur()
            if d is None:
                st.require(False, "call:read_neighbors:pre:file-handle")
                raise sv.EngineError("read_neighbors called with something that is not a file handle")
            st.require(not d["closed"], "call:read_neighbors:pre:handle-open")
            kind = files.get(d["path"])
            st.require(kind is not None, "call:read_neighbors:pre:known-file")
            if kind is None:
                raise sv.EngineError(f"read_neighbors on unknown file {d['path']!r}")
            st.require(sv.cmp("==", npart, tr.N), "call:read_neighbors:pre:nparticle=N")
            st.require(sv.cmp("==", nmax, self.Nmax), "call:read_neighbors:pre:Nmax")
            pos = d["pos"].get(())
            st.require(sv.and_(sv.cmp(">=", pos, 0), sv.cmp("<", pos, tr.T)), "call:read_neighbors:pre:frame-available")
            A.inplace(d["pos"], "+", 1)
            zp = sv.znum(pos)
            if kind == "nb":
                return A.new_arr((tr.N, A.simp(sv.add(1, sv.SV(self.MAXCN(zp))))),
                                 lambda idx: sv.SV(self.NB(zp, sv.znum(idx[0]), sv.znum(idx[1]))), "int")
            return A.new_arr((tr.N, A.simp(sv.add(1, sv.SV(self.MAXCNW(zp))))),
                             lambda idx: sv.SV(self.WT(zp, sv.znum(idx[0]), sv.znum(idx[1]))), "float")
        return rn


def bond_angle(tr, nf, s, i, t, p):
    D = min_image(tr, s, i, nf.nb(s, i, t), p)
    return sv.atan2(D[1], D[0])


def psi_terms(tr, nf, s, i, p, l, weighted):
    """(sum_re, sum_im, normaliser):  psi = (sum_re + i sum_im) / normaliser, normaliser = cn (unweighted) or 1 (weights normalised inside)"""
    cn = nf.cn(s, i)
    if not weighted:
        re = Sum(0, cn, lambda t: sv.cos(sv.mul(l, bond_angle(tr, nf, s, i, t, p))))
        im = Sum(0, cn, lambda t: sv.sin(sv.mul(l, bond_angle(tr, nf, s, i, t, p))))
        return re, im, cn
    sabs = Sum(0, cn, lambda u: sv.absv(nf.w(s, i, u)))
    re = Sum(0, cn, lambda t: sv.mul(sv.div(nf.w(s, i, t), sabs), sv.cos(sv.mul(l, bond_angle(tr, nf, s, i, t, p)))))
    im = Sum(0, cn, lambda t: sv.mul(sv.div(nf.w(s, i, t), sabs), sv.sin(sv.mul(l, bond_angle(tr, nf, s, i, t, p)))))
    return re, im, 1


# ---------------------------------------------------------------------------------------------------------------


def _setup_boo(ctx, weighted, attrs_extra=None):
    tr = Traj(ctx, 2)
    T, N = tr.T, tr.N
    l = ctx.int("l")
    ctx.assume(sv.and_(l >= 1, l <= 12))
    Nmax = ctx.int("Nmax")
    ctx.assume(Nmax >= 1)
    p = [ctx.int(f"ppp_{k}") for k in range(2)]
    for k in range(2):
        ctx.assume(sv.or_(sv.cmp("==", p[k], 0), sv.cmp("==", p[k], 1)))
    ppp = A.from_nested(p, "int")
    ctx.state.origin[ppp.sid] = "argument ppp"
    from contracts.C02 import _inv_spec
    ctx.array_fact("HM", lambda s, a, b: sv.zb(sv.cmp("!=", _inv_spec(tr.Hm(sv.SV(s)), 2)[0], 0)))
    nf = NbFiles(ctx, tr, Nmax)
    snaps = tr.snapshots()
    attrs = dict(snapshots=snaps, l=l, neighborfile=NBFILE, weightsfile=WFILE if weighted else "", ppp=ppp, Nmax=Nmax, nparticle=N)
    attrs.update(attrs_extra or {})
    o = ctx.obj(MOD, "boo_2d", attrs)
    ctx.interp.summaries[RN] = nf.summary({NBFILE: "nb", WFILE: "w"})
    return o, dict(tr=tr, T=T, N=N, l=l, p=p, ppp=ppp, nf=nf, Nmax=Nmax, weighted=weighted)


class LthOrder(Unit):
    loop_opts = {"const_sum_closed": True}      # a loop-invariant increment is summed in closed form: d * (k - lo)
    module = MOD
    qualname = "boo_2d.lthorder"
    prop = "C10"
    summaries = dict(PBC)
    timeout = 6
    solver_opts = {"rounds": 4}

    def cases(self):
        return [f"{w}/{o}" for w in ("unweighted", "weighted") for o in ("nofile", "file")]

    def setup(self, ctx, case):
        weighted = case.startswith("weighted")
        o, inp = _setup_boo(ctx, weighted)
        out_phi = "phi.npy" if case.endswith("/file") else ""
        inp["out_phi"] = out_phi
        inp["s"], inp["i"] = ctx.int("s"), ctx.int("i")
        return [o, out_phi], {}, inp

    def clause_names(self, case):
        return ["shape=(T,N)", "re:sum-over-neighbours", "im:sum-over-neighbours", "re:normalisation", "im:normalisation",
                "files:opened-read-closed", "file=returned"]

    def ensures(self, ctx, case, inp, out):
        tr, nf, T, N, s, i = inp["tr"], inp["nf"], inp["T"], inp["N"], inp["s"], inp["i"]
        res = out.value
        ok = isinstance(res, A.Arr) and res.ndim == 2 and res.dtype == "complex" and A.dim_eq_syntactic(res.shape[0], T) and A.dim_eq_syntactic(res.shape[1], N)
        yield "shape=(T,N)", bool(ok)
        if not ok:
            return
        inr = sv.and_(sv.cmp(">=", s, 0), sv.cmp("<", s, T), sv.cmp(">=", i, 0), sv.cmp("<", i, N))
        got = sv.as_cx(res.get((s, i)))
        wre, wim, nrm = psi_terms(tr, nf, s, i, inp["p"], inp["l"], inp["weighted"])
        for part, g, want in (("re", got.re, wre), ("im", got.im, wim)):
            sig = outer_sigmas(sv.zr(g))
            if len(sig) != 1:
                # the stored value is not of the shape "one Σ-term, normalised" (restructured code): compare the value with the
                # definition directly (one SMT query; undecided rather than refuted when the solver cannot relate the terms)
                yield f"{part}:sum-over-neighbours", sv.implies(inr, sv.cmp("==", g, sv.div(want, nrm)))
                yield f"{part}:normalisation", True
                continue
            raw = sv.SV(sig[0])
            # the Σ-term accumulated by the real code equals the sum over the neighbour list of the definition
            yield f"{part}:sum-over-neighbours", sv.implies(inr, sv.cmp("==", raw, want))
            # the stored value as a function of that sum (any value of the sum)
            gn, _ = sv.generalize(sv.implies(inr, sv.cmp("==", g, sv.div(raw, nrm))), [raw], "sum")
            yield f"{part}:normalisation", gn, {"ring_only": True}
        # files: both files are opened for reading once, every frame is read (handle position = T), handles closed
        tr_ev = out.state.trace
        opens = [e for e in tr_ev if e[0] == "open"]
        closes = [e for e in tr_ev if e[0] == "close"]
        want_files = [NBFILE] + ([WFILE] if inp["weighted"] else [])
        okf = sorted(e[1] for e in opens) == sorted(want_files) and sorted(e[1] for e in closes) == sorted(want_files) \
            and all(str(e[2]).startswith("r") for e in opens)
        handles = [c.data for c in out.state.heap.values() if c.kind == "file" and isinstance(c.data, dict) and c.data.get("opaque")]
        okf = okf and len(handles) == len(want_files) and all(h["closed"] for h in handles)
        if okf:
            # every handle has delivered exactly T frames
            yield "files:opened-read-closed", sv.and_(*[sv.cmp("==", h["pos"].get(()), T) for h in handles])
        else:
            yield "files:opened-read-closed", False
        saves = [e for e in tr_ev if e[0] == "np.save"]
        if not inp["out_phi"]:
            yield "file=returned", len(saves) == 0
        elif len(saves) == 1 and saves[0][1] == inp["out_phi"]:
            sa = sv.as_cx(saves[0][2].get((s, i)))
            yield "file=returned", sv.implies(inr, sv.and_(sv.cmp("==", sa.re, got.re), sv.cmp("==", sa.im, got.im))), {"ring_only": True}
        else:
            yield "file=returned", False

    def replay(self, case, clause, model, seed):
        return _replay_boo("lthorder", case, clause, model, seed)


# ---------------------------------------------------------------------------------------------------------------
# time_average / time_corr / spatial_corr: the documented functions of the complex numbers psi (docs/boo_2d.md eq. (3)-(6))

TAVG = "PyMatterSim.utils.coarse_graining.time_average"
TCORR = "PyMatterSim.dynamic.time_corr.time_correlation"
CGR = "PyMatterSim.static.gr.conditional_gr"


def _setup_methods(ctx):
    """a boo_2d object after __init__: ParticlePhi is an arbitrary complex (T,N) array PHI"""
    tr = Traj(ctx, 2)
    T, N = tr.T, tr.N
    l = ctx.int("l")
    ctx.assume(sv.and_(l >= 1, l <= 12))
    p = [ctx.int(f"ppp_{k}") for k in range(2)]
    for k in range(2):
        ctx.assume(sv.or_(sv.cmp("==", p[k], 0), sv.cmp("==", p[k], 1)))
    ppp = A.from_nested(p, "int")
    phi = ctx.array("PHI", (T, N), "complex", origin="self.ParticlePhi")
    snaps = tr.snapshots()
    o = ctx.obj(MOD, "boo_2d", dict(snapshots=snaps, l=l, neighborfile=NBFILE, weightsfile="", ppp=ppp, Nmax=10, nparticle=N, ParticlePhi=phi))
    return o, dict(tr=tr, T=T, N=N, l=l, p=p, ppp=ppp, phi=phi, snaps=snaps)


def _same_array(a, b, what):
    """call-site obligation: array argument `a` has the shape and, at an arbitrary index, the elements of `b`"""
    st = cur()
    if not isinstance(a, A.Arr) or a.ndim != b.ndim:
        st.require(False, what + ":rank")
        return
    idx = []
    conds = []
    for k in range(b.ndim):
        A.require_dim_eq(a.shape[k], b.shape[k], what + ":shape")
        t = sv.fresh_int("ai")
        idx.append(t)
        conds.append(sv.and_(sv.cmp(">=", t, 0), sv.cmp("<", t, b.shape[k])))
    x, y = sv.as_cx(a.get(tuple(idx))), sv.as_cx(b.get(tuple(idx)))
    st.require(sv.implies(sv.and_(*conds), sv.and_(sv.cmp("==", x.re, y.re), sv.cmp("==", x.im, y.im))), what + ":elements")


def window_mean(reader, w, k, i):
    """(1/w) sum_{t<w} x[k+t, i]   (complex)"""
    re = Sum(0, w, lambda t: sv.as_cx(reader((A.simp(sv.add(k, t)), i))).re)
    im = Sum(0, w, lambda t: sv.as_cx(reader((A.simp(sv.add(k, t)), i))).im)
    return sv.Cx(sv.div(re, w), sv.div(im, w))


class TimeAverage(Unit):
    loop_opts = {"const_sum_closed": True}      # a loop-invariant increment is summed in closed form: d * (k - lo)
    """boo_2d.time_average: the window average of the complex values (average_complex) or of modulus and phase separately,
    recombined as <|psi|> exp(i <arg psi>); window and middle-frame index are those of utils.coarse_graining.time_average (C16)"""
    module = MOD
    qualname = "boo_2d.time_average"
    prop = "C10"
    timeout = 6

    def cases(self):
        return [f"{m}/{o}" for m in ("complex", "modulus-phase") for o in ("nofile", "file")]

    def setup(self, ctx, case):
        o, inp = _setup_methods(ctx)
        tp, dt = ctx.real("time_period"), ctx.real("dt")
        ctx.assume(tp > 0)
        ctx.assume(inp["T"] >= 2)     # the callee derives the frame interval from the first two frames
        w = ctx.int("w")          # window length in frames chosen by the callee (int(time_period / (frame interval * dt)))
        ctx.assume(sv.and_(w >= 1, w <= inp["T"]))
        MID = z3.Function("MID", z3.IntSort(), z3.IntSort())
        calls = []
        T, N = inp["T"], inp["N"]
        K = A.simp(sv.sub(T, w))

        def tavg(interp, args, kwargs):
            """callee contract of utils.coarse_graining.time_average(snapshots, input_property, time_period, dt):
            requires the trajectory object and an array of shape (T, N); ensures results[k, i] = mean of input_property[k : k + w, i]
            (complex (T - w, N) array), ids[k] = index of the window's middle frame"""
            names = ["snapshots", "input_property", "time_period", "dt"]
            a = dict(zip(names, args))
            a.update(kwargs)
            st = cur()
            st.require(a.get("snapshots") is not None and getattr(a["snapshots"], "sid", None) == inp["snaps"].sid, "call:time_average:pre:snapshots-is-the-trajectory")
            st.require(sv.cmp(">=", T, 2), "call:time_average:pre:at-least-two-frames")
            st.require(sv.cmp("==", a.get("time_period", 0), tp), "call:time_average:pre:time_period")
            st.require(sv.cmp("==", a.get("dt", sv.to_frac(0.002)), dt), "call:time_average:pre:dt")
            arr = a["input_property"]
            if not isinstance(arr, A.Arr) or arr.ndim != 2:
                raise sv.EngineError("time_average summary: input_property must be a (T,N) array")
            A.require_dim_eq(arr.shape[0], T, "call:time_average:pre:shape")
            A.require_dim_eq(arr.shape[1], N, "call:time_average:pre:shape")
            r = arr.reader()
            calls.append(arr)
            res = A.new_arr((K, N), lambda idx: window_mean(r, w, idx[0], idx[1]), "complex")
            ids = A.new_arr((K,), lambda idx: sv.SV(MID(sv.znum(idx[0]))), "int")
            return (res, ids)
        ctx.interp.summaries[TAVG] = tavg
        of = "avg.npy" if case.endswith("/file") else ""
        inp.update(tp=tp, dt=dt, w=w, MID=MID, K=K, of=of, k=ctx.int("k"), i=ctx.int("i"), calls=calls)
        return [o, tp, dt, case.startswith("complex"), of], {}, inp

    def clause_names(self, case):
        return ["returns-(values,ids)", "value=documented-average", "ids=middle-frame-of-window", "file=returned"]

    def ensures(self, ctx, case, inp, out):
        res = out.value
        ok = isinstance(res, tuple) and len(res) == 2 and all(isinstance(x, A.Arr) for x in res) and res[0].ndim == 2 and res[1].ndim == 1 \
            and A.dim_eq_syntactic(res[0].shape[0], inp["K"]) and A.dim_eq_syntactic(res[0].shape[1], inp["N"]) and A.dim_eq_syntactic(res[1].shape[0], inp["K"])
        yield "returns-(values,ids)", bool(ok)
        if not ok:
            return
        k, i, w, phi = inp["k"], inp["i"], inp["w"], inp["phi"]
        inr = sv.and_(sv.cmp(">=", k, 0), sv.cmp("<", k, inp["K"]), sv.cmp(">=", i, 0), sv.cmp("<", i, inp["N"]))
        got = sv.as_cx(res[0].get((k, i)))
        pr = phi.reader()
        if case.startswith("complex"):
            want = window_mean(pr, w, k, i)                                            # eq. (4): average of the complex number
        else:
            mod = window_mean(lambda ix: sv.absv(sv.as_cx(pr(ix))), w, k, i).re              # eq. (3): average of the modulus ...
            pha = window_mean(lambda ix: sv.atan2(sv.as_cx(pr(ix)).im, sv.as_cx(pr(ix)).re), w, k, i).re   # ... and of the phase
            want = sv.Cx(sv.mul(mod, sv.cos(pha)), sv.mul(mod, sv.sin(pha)))
        yield "value=documented-average", sv.implies(inr, sv.and_(sv.cmp("==", got.re, want.re), sv.cmp("==", got.im, want.im)))
        yield "ids=middle-frame-of-window", sv.implies(inr, sv.cmp("==", res[1].get((k,)), sv.SV(inp["MID"](sv.znum(k)))))
        saves = [e for e in out.state.trace if e[0] == "np.save"]
        txts = [e for e in out.state.trace if e[0] == "np.savetxt"]
        if not inp["of"]:
            yield "file=returned", len(saves) == 0 and len(txts) == 0
        elif len(saves) == 1 and len(txts) == 1 and saves[0][1] == inp["of"] and txts[0][1] == inp["of"] + ".snapshot_id.dat" \
                and saves[0][2].ndim == 2 and txts[0][2].ndim == 2:
            sa = sv.as_cx(saves[0][2].get((k, i)))
            yield "file=returned", sv.implies(inr, sv.and_(sv.cmp("==", sa.re, got.re), sv.cmp("==", sa.im, got.im),
                                                           sv.cmp("==", txts[0][2].get((k, 0)), res[1].get((k,)))))
        else:
            yield "file=returned", False

    def raises(self, ctx, case, inp, out):
        return None

    def replay(self, case, clause, model, seed):
        return _replay_boo("time_average", case, clause, model, seed)


class TimeCorr(Unit):
    loop_opts = {"const_sum_closed": True}      # a loop-invariant increment is summed in closed form: d * (k - lo)
    """boo_2d.time_corr = time_correlation(trajectory, psi, dt, outputfile) (C14: origin-averaged, normalised to 1 at lag 0: eq. (6))"""
    module = MOD
    qualname = "boo_2d.time_corr"
    prop = "C10"
    timeout = 6

    def cases(self):
        return ["nofile", "file"]

    def setup(self, ctx, case):
        o, inp = _setup_methods(ctx)
        dt = ctx.real("dt")
        of = "tc.csv" if case == "file" else ""
        marker = ("RESULT-OF-time_correlation",)
        ncalls = []

        def tc(interp, args, kwargs):
            names = ["snapshots", "condition", "dt", "outputfile"]
            a = dict(zip(names, args))
            a.update(kwargs)
            st = cur()
            st.require(getattr(a.get("snapshots"), "sid", None) == inp["snaps"].sid, "call:time_correlation:pre:snapshots-is-the-trajectory")
            _same_array(a.get("condition"), inp["phi"], "call:time_correlation:pre:condition=psi")
            st.require(sv.cmp("==", a.get("dt", sv.to_frac(0.002)), dt), "call:time_correlation:pre:dt")
            st.require(a.get("outputfile", "") == of, "call:time_correlation:pre:outputfile")
            ncalls.append(1)
            return marker
        ctx.interp.summaries[TCORR] = tc
        inp.update(marker=marker, ncalls=ncalls)
        return [o, dt, of], {}, inp

    def clause_names(self, case):
        return ["returns-time_correlation-of-psi"]

    def ensures(self, ctx, case, inp, out):
        yield "returns-time_correlation-of-psi", out.value is inp["marker"]

    def replay(self, case, clause, model, seed):
        return _replay_boo("time_corr", case, clause, model, seed)


class Init(Unit):
    loop_opts = {"const_sum_closed": True}      # a loop-invariant increment is summed in closed form: d * (k - lo)
    """boo_2d.__init__: stores the constructor arguments and sets ParticlePhi = self.lthorder(output_phi) — the complex numbers every
    other method works on are the ones computed by lthorder (its contract above) from the same trajectory, files, l, ppp and Nmax"""
    module = MOD
    qualname = "boo_2d.__init__"
    prop = "C10"
    timeout = 6

    def cases(self):
        return ["weights", "noweights"]

    def setup(self, ctx, case):
        from pyvc.interp import new_obj, load_module
        tr = Traj(ctx, 2, same_cell=True)
        l, Nmax = ctx.int("l"), ctx.int("Nmax")
        ppp = A.from_nested([ctx.int("ppp_0"), ctx.int("ppp_1")], "int")
        snaps = tr.snapshots()
        o = ctx.obj(MOD, "boo_2d", {})
        wf = WFILE if case == "weights" else ""
        marker = A.new_arr((tr.T, tr.N), lambda idx: sv.Cx(sv.real("psi_re"), sv.real("psi_im")), "complex")
        seen = []

        def lth(interp, args, kwargs):
            me = args[0]
            seen.append((dict(me.content), args[1] if len(args) > 1 else kwargs.get("output_phi", "")))
            return marker
        ctx.interp.summaries[f"{MOD}.boo_2d.lthorder"] = lth
        inp = dict(tr=tr, l=l, Nmax=Nmax, ppp=ppp, snaps=snaps, wf=wf, marker=marker, seen=seen, o=o)
        return [o, snaps, l, NBFILE, wf, ppp, Nmax, "phi.npy"], {}, inp

    def clause_names(self, case):
        return ["attributes=arguments-when-lthorder-runs", "ParticlePhi=lthorder(output_phi)"]

    def ensures(self, ctx, case, inp, out):
        seen = inp["seen"]
        ok = len(seen) == 1
        if ok:
            at, ophi = seen[0]
            ok = (getattr(at.get("snapshots"), "sid", None) == inp["snaps"].sid and at.get("l") is inp["l"] and at.get("neighborfile") == NBFILE
                  and at.get("weightsfile") == inp["wf"] and getattr(at.get("ppp"), "sid", None) == inp["ppp"].sid and at.get("Nmax") is inp["Nmax"]
                  and ophi == "phi.npy" and A.dim_eq_syntactic(at.get("nparticle"), inp["tr"].N))
        yield "attributes=arguments-when-lthorder-runs", bool(ok)
        fin = inp["o"].content
        yield "ParticlePhi=lthorder(output_phi)", bool(isinstance(fin.get("ParticlePhi"), A.Arr) and fin["ParticlePhi"].sid == inp["marker"].sid)

    def raises(self, ctx, case, inp, out):
        return None

    def replay(self, case, clause, model, seed):
        return _replay_boo("init", "weighted/nofile" if case == "weights" else "unweighted/nofile", clause, model, seed)


GCOLS = ["r", "gr", "gA"]


def _first_for_lineno(qual):
    import ast
    from pyvc.interp import load_module
    node = load_module(MOD).get_class(qual.split(".")[0]).methods[qual.split(".")[1]]
    for n in ast.walk(node):
        if isinstance(n, ast.For):
            return n.lineno
    return None


class SpatialCorr(Unit):
    loop_opts = {"const_sum_closed": True}      # a loop-invariant increment is summed in closed form: d * (k - lo)
    """boo_2d.spatial_corr: the frame average of conditional_gr(frame n, condition = psi[n], ppp, rdelta) (C13 callee contract, eq. (5)):
    column c, bin b of the returned frame = (1/T) sum_n CGR_n(b, c).  The frame loop accumulates a DataFrame; its summary is a written
    invariant  glresults(k) = sum_{t<k} CGR_t  checked by the usual init/step obligations (first iteration from the real pre-state)."""
    module = MOD
    qualname = "boo_2d.spatial_corr"
    prop = "C10"
    timeout = 6

    def cases(self):
        return ["nofile", "file"]

    def setup(self, ctx, case):
        from pyvc.interp import Frame
        from pyvc.loops import _SideGoal
        from pyvc.pandas_model import df_content, new_df
        from pyvc.state import use_state
        o, inp = _setup_methods(ctx)
        rd = ctx.real("rdelta")
        ctx.assume(rd > 0)
        B = ctx.int("maxbin")          # number of bins of conditional_gr: the same for every frame (equal box lengths: object invariant)
        ctx.assume(B >= 1)
        I = z3.IntSort()
        CG = z3.Function("CGR", I, I, I, z3.RealSort())
        T, N, phi = inp["T"], inp["N"], inp["phi"]

        def frame_table(fn):
            return new_df({c: A.new_arr((B,), (lambda idx, ci=ci: fn(idx[0], ci)), "float") for ci, c in enumerate(GCOLS)}, GCOLS, B)

        def cgr(interp, args, kwargs):
            """callee contract of conditional_gr(snapshot, condition, conditiontype, ppp, rdelta) for a complex condition:
            requires condition of shape (N,); ensures a frame with columns r, gr, gA and maxbin rows: CGR_s(b, c) for frame s"""
            names = ["snapshot", "condition", "conditiontype", "ppp", "rdelta"]
            a = dict(zip(names, args))
            a.update(kwargs)
            st = cur()
            snap = a.get("snapshot")
            ts = snap.content["timestep"] if getattr(snap, "kind", None) == "obj" else None
            if not isinstance(ts, sv.SV) or ts.t.decl().name() != inp["tr"].TS.name():
                st.require(False, "call:conditional_gr:pre:snapshot-is-a-frame-of-the-trajectory")
                raise sv.EngineError("conditional_gr summary: snapshot argument is not a frame of the trajectory")
            sfr = sv.wrap(ts.t.arg(0))
            cond = a.get("condition")
            row = A.new_arr((N,), lambda idx: phi.get((sfr, idx[0])), "complex")
            _same_array(cond, row, "call:conditional_gr:pre:condition=psi-of-the-same-frame")
            st.require(isinstance(cond, A.Arr) and cond.dtype == "complex", "call:conditional_gr:pre:complex-condition")
            st.require(a.get("conditiontype") is None, "call:conditional_gr:pre:conditiontype=None")
            _same_array(a.get("ppp"), inp["ppp"], "call:conditional_gr:pre:ppp")
            st.require(sv.cmp("==", a.get("rdelta", sv.to_frac(0.01)), rd), "call:conditional_gr:pre:rdelta")
            return frame_table(lambda b, ci: sv.SV(CG(sv.znum(sfr), sv.znum(b), z3.IntVal(ci))))
        ctx.interp.summaries[CGR] = cgr

        def hint(interp, s, frame, st, lo, hi, item_fn):
            where = f"{frame.fname}:{s.lineno}"
            var = "glresults"

            def inv(k):
                return frame_table(lambda b, ci: Sum(lo, k, lambda t: sv.SV(CG(sv.znum(t), sv.znum(b), z3.IntVal(ci)))))

            def run(kv, val, extra):
                fr = Frame(frame.module, dict(frame.env), frame.fname)
                fr.env[var] = val
                st2 = st.fork()
                st2.pc = list(st.pc) + [sv.zb(sv.cmp(">=", kv, lo)), sv.zb(sv.cmp("<", kv, hi))] + extra
                with use_state(st2):
                    interp.assign(s.target, item_fn(kv), fr)
                    outs = interp.exec_block_paths(s.body, fr, st2)
                normal = [(f2, s2) for f2, s2, out in outs if out[0] == "normal"]
                if len(outs) != 1 or len(normal) != 1:
                    raise sv.EngineError("spatial_corr frame loop: body does not have a single normal path")
                return normal[0]

            def eq_goals(s2, got, want_df, kind):
                b = sv.fresh_int("b")
                with use_state(s2):
                    if not (getattr(got, "kind", None) == "df" and df_content(got)["order"] == GCOLS and A.dim_eq_syntactic(df_content(got)["n"], B)):
                        st.side.append(_SideGoal(kind, z3.BoolVal(False), s2.all_assumptions(), where))
                        return
                    for c in GCOLS:
                        g = sv.cmp("==", df_content(got)["cols"][c].get((b,)), df_content(want_df)["cols"][c].get((b,)))
                        goal = sv.zb(sv.implies(sv.and_(sv.cmp(">=", b, 0), sv.cmp("<", b, B)), g))
                        st.side.append(_SideGoal(kind, goal, s2.all_assumptions(), where))
            # init: the first iteration, from the real pre-state, establishes inv(lo + 1)
            lo1 = A.simp(sv.add(lo, 1))
            want1 = inv(lo1)
            f2, s2 = run(lo, frame.env[var], [])
            eq_goals(s2, f2.env[var], want1, "loop-init")
            # step: from inv(k), lo + 1 <= k < hi, the body establishes inv(k + 1)
            k = sv.fresh_int("k")
            cur_df, nxt_df = inv(k), inv(A.simp(sv.add(k, 1)))
            f3, s3 = run(k, cur_df, [sv.zb(sv.cmp(">=", k, lo1))])
            eq_goals(s3, f3.env[var], nxt_df, "loop-step")
            # post-state
            frame.env[var] = inv(hi)
            last = A.simp(sv.sub(hi, 1))
            interp.assign(s.target, item_fn(last), frame)
        ln = _first_for_lineno(self.qualname)
        ctx.interp.loop_hints[(f"{MOD}.{self.qualname}", "for", ln)] = hint
        of = "gl.csv" if case == "file" else ""
        inp.update(rd=rd, B=B, CG=CG, of=of, b=ctx.int("b"))
        return [o, rd, of], {}, inp

    def clause_names(self, case):
        return ["columns", "value=frame-average-of-conditional_gr", "file=returned"]

    def ensures(self, ctx, case, inp, out):
        from pyvc.pandas_model import df_content
        res = out.value
        ok = getattr(res, "kind", None) == "df" and df_content(res)["order"] == GCOLS and A.dim_eq_syntactic(df_content(res)["n"], inp["B"])
        yield "columns", bool(ok)
        if not ok:
            return
        b, B, T, CG = inp["b"], inp["B"], inp["T"], inp["CG"]
        inr = sv.and_(sv.cmp(">=", b, 0), sv.cmp("<", b, B))
        cols = df_content(res)["cols"]
        eqs = []
        for ci, c in enumerate(GCOLS):
            want = sv.div(Sum(0, T, lambda t: sv.SV(CG(sv.znum(t), sv.znum(b), z3.IntVal(ci)))), T)
            eqs.append(sv.cmp("==", cols[c].get((b,)), want))
        yield "value=frame-average-of-conditional_gr", sv.implies(inr, sv.and_(*eqs))
        writes = [e for e in out.state.trace if e[0] == "to_csv"]
        if not inp["of"]:
            yield "file=returned", len(writes) == 0
        elif len(writes) == 1 and writes[0][1] == inp["of"] and writes[0][3] == GCOLS:
            yield "file=returned", sv.implies(inr, sv.and_(*[sv.cmp("==", writes[0][2][c].get((b,)), cols[c].get((b,))) for c in GCOLS]))
        else:
            yield "file=returned", False

    def replay(self, case, clause, model, seed):
        return _replay_boo("spatial_corr", case, clause, model, seed)


# ---------------------------------------------------------------------------------------------------------------
# replay (runs under /venv/bin/python against the real package)


def _write_nb_files(d, nbs, wts, N):
    """neighbour file / weights file in the documented format (docs/neighbors.md): header, then `id cn item_1 .. item_cn` per particle and frame"""
    import os
    fn, fw = os.path.join(d, "nb.neighbor.dat"), os.path.join(d, "nb.weights.dat")
    with open(fn, "w") as f, open(fw, "w") as g:
        for s in range(len(nbs)):
            f.write("id     cn     neighborlist\n")
            g.write("id     cn     edgelengthlist\n")
            for i in range(N):
                f.write(f"{i + 1} {len(nbs[s][i])} " + " ".join(str(j + 1) for j in nbs[s][i]) + "\n")
                g.write(f"{i + 1} {len(nbs[s][i])} " + " ".join(repr(float(w)) for w in wts[s][i]) + "\n")
    return fn, fw


def _gen_system(rng, trial, lattice=None, minT=1, shear=False):
    """seeded 2-D trajectory + neighbour lists + weights: orthogonal / triclinic cells, all periodicity masks, T = 1..3,
    coordination 1..7, weights of both signs"""
    import numpy as np
    T = int(rng.integers(minT, minT + 3))
    N = int(rng.integers(2, 9))
    L = rng.uniform(3.0, 7.0, size=2)
    H = np.diag(L)
    if trial % 2 == 1:
        H[1, 0] = rng.uniform(-0.45, 0.45) * L[0]
    ppp = np.array([1, 1]) if trial % 3 == 0 else np.array([int(rng.integers(0, 2)), int(rng.integers(0, 2))])
    pos, nbs, wts = [], [], []
    for s in range(T):
        frac = rng.uniform(-0.2, 1.2, size=(N, 2))
        pos.append(frac @ H)
        nb, wt = [], []
        for i in range(N):
            others = [j for j in range(N) if j != i]
            cn = int(rng.integers(1, min(7, len(others)) + 1))
            lst = [int(x) for x in rng.choice(others, size=cn, replace=False)]
            nb.append(lst)
            w = rng.uniform(0.1, 2.0, size=cn)
            if trial % 2 == 0:
                w = w * rng.choice([-1.0, 1.0], size=cn)
            if abs(np.abs(w).sum()) < 1e-3:
                w[0] = 1.0
            wt.append([float(x) for x in w])
        nbs.append(nb)
        wts.append(wt)
    out = dict(T=T, N=N, H=H, L=L, ppp=ppp, pos=pos, nbs=nbs, wts=wts)
    if shear and T >= 2:
        # sheared trajectory: the tilt factor changes from frame to frame, the box lengths (which __init__ asserts constant) do not
        Hs = []
        for s in range(T):
            Hf = np.diag(L)
            Hf[1, 0] = rng.uniform(-0.45, 0.45) * L[0]
            Hs.append(Hf)
        out["Hs"] = Hs
        out["H"] = Hs[0]
        out["pos"] = [rng.uniform(-0.2, 1.2, size=(N, 2)) @ Hs[s] for s in range(T)]
    return out


def _snapshots(sysd, timestep0=0, dstep=100):
    import importlib

    import numpy as np
    RUm = importlib.import_module("PyMatterSim.reader.reader_utils")
    snaps = []
    for s in range(sysd["T"]):
        L = sysd["L"]
        snaps.append(RUm.SingleSnapshot(timestep=timestep0 + s * dstep, nparticle=sysd["N"], particle_type=np.ones(sysd["N"], dtype=int),
                                        positions=np.array(sysd["pos"][s], dtype=float), boxlength=np.array(L, dtype=float),
                                        boxbounds=np.column_stack([np.zeros(2), L]), realbounds=np.column_stack([np.zeros(2), L]),
                                        hmatrix=np.array(sysd["Hs"][s] if "Hs" in sysd else sysd["H"], dtype=float)))
    return RUm.Snapshots(nsnapshots=sysd["T"], snapshots=snaps)


def psi_reference(sysd, l, weighted, Nmax=None):
    """independent implementation of the definition (plain loops): psi[s][i]; lists longer than Nmax are cut to their first Nmax
    entries, as read_neighbors delivers them (documented cap)"""
    import cmath
    import math

    import numpy as np
    out = np.zeros((sysd["T"], sysd["N"]), dtype=complex)
    for s in range(sysd["T"]):
        H = np.array(sysd["Hs"][s] if "Hs" in sysd else sysd["H"], dtype=float)       # the cell of THIS frame
        Hinv = np.linalg.inv(H)
        pos = np.array(sysd["pos"][s], dtype=float)
        for i in range(sysd["N"]):
            acc = 0j
            cut = len(sysd["nbs"][s][i]) if Nmax is None else min(Nmax, len(sysd["nbs"][s][i]))
            wsum = sum(abs(w) for w in sysd["wts"][s][i][:cut])
            for t, j in enumerate(sysd["nbs"][s][i][:cut]):
                dr = pos[j] - pos[i]
                m = dr @ Hinv
                m = m - np.rint(m) * sysd["ppp"]
                D = m @ H
                e = cmath.exp(1j * l * math.atan2(D[1], D[0]))
                acc += (sysd["wts"][s][i][t] / wsum) * e if weighted else e / cut
            out[s, i] = acc
    return out


def _make_boo(sysd, l, weighted, tmpdir, Nmax=None, output_phi=""):
    import importlib
    B = importlib.import_module(MOD)
    fn, fw = _write_nb_files(tmpdir, sysd["nbs"], sysd["wts"], sysd["N"])
    S = _snapshots(sysd)
    kw = dict(weightsfile=fw) if weighted else {}
    if Nmax is not None:
        kw["Nmax"] = Nmax
    if output_phi:
        kw["output_phi"] = output_phi
    import builtins
    opened = []

    def tracking_open(*a, **k):
        f = builtins.open(*a, **k)
        opened.append(f)
        return f
    B.open = tracking_open          # module-level name shadows the builtin inside boo.py only
    try:
        obj = B.boo_2d(S, l, fn, ppp=np_array(sysd["ppp"]), **kw)
    finally:
        del B.open
    obj._pyvc_unclosed = [getattr(f, "name", "?") for f in opened if not f.closed]
    for f in opened:
        if not f.closed:
            f.close()
    return obj, S


def np_array(x):
    import numpy as np
    return np.array(x)


def _lattice_system(kind):
    """perfect triangular (l = 6) / square (l = 4) lattice in a periodic orthogonal cell, nearest neighbours"""
    import numpy as np
    if kind == "square":
        nx = ny = 4
        a = 1.0
        pts = [(ix * a, iy * a) for ix in range(nx) for iy in range(ny)]
        L = np.array([nx * a, ny * a])
        nn, l = 4, 4
    else:
        nx, ny = 4, 4
        a = 1.0
        pts = []
        for iy in range(ny):
            for ix in range(nx):
                pts.append((ix * a + (iy % 2) * a / 2, iy * a * np.sqrt(3) / 2))
        L = np.array([nx * a, ny * a * np.sqrt(3) / 2])
        nn, l = 6, 6
    pos = np.array(pts)
    N = len(pts)
    H = np.diag(L)
    nb = []
    for i in range(N):
        d = pos - pos[i]
        d = d - np.rint(d / L) * L
        r = np.linalg.norm(d, axis=1)
        r[i] = 1e9
        nb.append([int(j) for j in np.argsort(r, kind="stable")[:nn]])
    wts = [[[1.0 + 0.1 * t for t in range(nn)] for _ in range(N)]]
    return dict(T=1, N=N, H=H, L=L, ppp=np.array([1, 1]), pos=[pos], nbs=[nb], wts=wts), l


def _replay_boo(which, case, clause, model, seed):
    import tempfile

    import numpy as np
    rng = np.random.default_rng(seed + 101)
    tried = 0
    weighted_cases = [case.startswith("weighted")] if which in ("lthorder", "init") else [False, True]
    with tempfile.TemporaryDirectory(prefix="pyvc-c10-") as tmp:
        for trial in range(14):
            sysd = _gen_system(rng, trial, minT=(2 if (which in ("lthorder", "init") and trial % 4 == 3) else 1) if which in ("lthorder", "spatial_corr") else 2,
                               shear=(which in ("lthorder", "init") and trial % 4 == 3))
            l = int(rng.integers(1, 13))
            for weighted in weighted_cases:
                out_phi = (tmp + f"/phi{trial}.npy") if (which == "lthorder" and case.endswith("/file")) else ""
                nmax = int(rng.integers(7, 12)) if trial % 4 else int(rng.integers(2, 5))
                try:
                    boo, S = _make_boo(sysd, l, weighted, tmp, Nmax=nmax, output_phi=out_phi)
                except Exception as e:
                    return {"ran": True, "failed": True, "searched": tried, "detail": f"boo_2d(...) raises {type(e).__name__}: {e}",
                            "inputs": _inputs(sysd, l, weighted)}
                tried += 1
                want = psi_reference(sysd, l, weighted, nmax)
                got = np.asarray(boo.ParticlePhi)
                bad = _cmp(got, want, "ParticlePhi (definition of psi_l)")
                if bad is None and boo._pyvc_unclosed:
                    bad = f"files left open by lthorder: {boo._pyvc_unclosed}"
                if bad is None and np.any(np.abs(got) > 1 + 1e-9):
                    bad = f"|psi| = {np.abs(got).max()!r} exceeds one"
                if bad is None and out_phi:
                    saved = np.load(out_phi)
                    bad = _cmp(saved, got, "saved output_phi vs returned")
                if bad is None and which != "lthorder":
                    bad = _check_methods(which, case, boo, S, sysd, want, rng)
                if bad is not None:
                    return {"ran": True, "failed": True, "searched": tried, "detail": bad, "inputs": _inputs(sysd, l, weighted)}
        # instances: perfect lattices have modulus one; rotation of a non-periodic system multiplies psi by exp(i l alpha)
        if which == "lthorder":
            for kind in ("triangular", "square"):
                sysd, l = _lattice_system(kind)
                for weighted in weighted_cases:
                    boo, S = _make_boo(sysd, l, weighted, tmp)
                    tried += 1
                    mod = np.abs(np.asarray(boo.ParticlePhi))
                    if np.any(np.abs(mod - 1) > 1e-9):
                        return {"ran": True, "failed": True, "searched": tried, "detail": f"perfect {kind} lattice, l={l}: |psi| = {mod.min()!r}..{mod.max()!r}, expected 1",
                                "inputs": {"lattice": kind, "l": l, "weighted": weighted}}
            for trial in range(4):
                sysd = _gen_system(rng, trial)
                l = int(rng.integers(1, 13))
                alpha = float(rng.uniform(-3, 3))
                R = np.array([[np.cos(alpha), -np.sin(alpha)], [np.sin(alpha), np.cos(alpha)]])
                rot = dict(sysd)
                rot["pos"] = [np.array(p) @ R.T for p in sysd["pos"]]
                rot["H"] = np.array(sysd["H"]) @ R.T
                for weighted in weighted_cases:
                    b0, _ = _make_boo(sysd, l, weighted, tmp)
                    b1, _ = _make_boo(rot, l, weighted, tmp)
                    tried += 1
                    bad = _cmp(np.asarray(b1.ParticlePhi), np.exp(1j * l * alpha) * np.asarray(b0.ParticlePhi), f"rotation by {alpha}: psi' vs exp(i l alpha) psi")
                    if bad is not None:
                        return {"ran": True, "failed": True, "searched": tried, "detail": bad, "inputs": _inputs(sysd, l, weighted)}
    return {"ran": True, "failed": False, "searched": tried, "detail": "real code agrees with the definition on the seeded inputs"}


def _cmp(got, want, what):
    import numpy as np
    got, want = np.asarray(got), np.asarray(want)
    if got.shape != want.shape:
        return f"{what}: shape {got.shape}, expected {want.shape}"
    if not np.allclose(got, want, rtol=1e-9, atol=1e-10, equal_nan=True):
        k = np.unravel_index(int(np.nanargmax(np.abs(got - want))), got.shape)
        return f"{what}: at {tuple(int(x) for x in k)} got {got[k]!r}, expected {want[k]!r}"
    return None


def _inputs(sysd, l, weighted):
    return {"l": l, "weighted": weighted, "T": sysd["T"], "N": sysd["N"], "hmatrix": np_array(sysd["H"]).tolist(), "ppp": np_array(sysd["ppp"]).tolist(),
            "positions": [np_array(p).tolist() for p in sysd["pos"]], "neighbours": sysd["nbs"], "weights": sysd["wts"] if weighted else None}


def _check_methods(which, case, boo, S, sysd, psi, rng):
    """time_average / time_corr / spatial_corr of the real object against straightforward re-implementations of the documented
    functions of psi (psi itself was checked against the definition by the caller)"""
    import importlib
    import os
    import tempfile

    import numpy as np
    T, N = sysd["T"], sysd["N"]
    psi = np.asarray(boo.ParticlePhi)
    withfile = case.endswith("file") and not case.endswith("nofile")
    tmp = tempfile.mkdtemp(prefix="pyvc-c10m-")
    import atexit
    import shutil
    atexit.register(shutil.rmtree, tmp, True)       # scratch directory of this replay process: removed when the process ends
    if which == "time_average":
        dt = float(rng.choice([0.002, 0.01]))
        w = int(rng.integers(1, T + 1))
        tp = (w + 0.5) * 100 * dt            # frames are 100 steps apart: int(tp / (100 dt)) = w
        cplx = case.startswith("complex")
        of = os.path.join(tmp, "avg") if withfile else ""
        try:
            got, ids = boo.time_average(tp, dt, cplx, of)
        except Exception as e:
            return f"time_average(time_period={tp}, dt={dt}, average_complex={cplx}) raises {type(e).__name__}: {e}"
        want = np.zeros((T - w, N), dtype=complex)
        for k in range(T - w):
            if cplx:
                want[k] = psi[k:k + w].mean(axis=0)
            else:
                want[k] = np.abs(psi[k:k + w]).mean(axis=0) * np.exp(1j * np.angle(psi[k:k + w]).mean(axis=0))
        bad = _cmp(got, want, f"time_average(average_complex={cplx}, window {w} frames)")
        if bad:
            return bad
        CGm = importlib.import_module("PyMatterSim.utils.coarse_graining")
        ids_ref = CGm.time_average(S, psi, tp, dt)[1]
        if not np.array_equal(np.asarray(ids), np.asarray(ids_ref)):
            return f"middle-frame ids {np.asarray(ids).tolist()} differ from those of utils.time_average {np.asarray(ids_ref).tolist()}"
        if withfile:
            bad = _cmp(np.load(of + ".npy"), got, "saved average vs returned")
            if bad is None and T - w > 0:
                sid = np.loadtxt(of + ".snapshot_id.dat", skiprows=1, ndmin=1)
                if not np.array_equal(sid.astype(int), np.asarray(ids).astype(int)):
                    bad = "saved snapshot ids differ from the returned ones"
            return bad
        return None
    if which == "time_corr":
        dt = float(rng.choice([0.002, 0.01]))
        of = os.path.join(tmp, "tc.csv") if withfile else ""
        try:
            res = boo.time_corr(dt, of)
        except Exception as e:
            return f"time_corr raises {type(e).__name__}: {e}"
        c = np.zeros(T)
        for lag in range(T):
            c[lag] = np.mean([(psi[t + lag] * np.conj(psi[t])).sum().real for t in range(T - lag)])
        want = c / c[0]
        bad = _cmp(res["time_corr"].values, want, "time_corr (origin-averaged <sum psi(t) psi*(0)> / <sum |psi|^2>)")
        if bad is None:
            bad = _cmp(res["t"].values, np.arange(T) * 100 * dt, "time axis")
        if bad is None and withfile:
            import pandas as pd
            bad = _cmp(pd.read_csv(of)["time_corr"].values, np.round(res["time_corr"].values, 8), "csv vs returned")
        return bad
    if which == "spatial_corr":
        G = importlib.import_module("PyMatterSim.static.gr")
        rdelta = float(rng.choice([0.25, 0.5]))
        of = os.path.join(tmp, "gl.csv") if withfile else ""
        try:
            res = boo.spatial_corr(rdelta, of)
        except Exception as e:
            return f"spatial_corr raises {type(e).__name__}: {e}"
        acc = None
        for n in range(T):
            g = G.conditional_gr(S.snapshots[n], psi[n].copy(), None, np.array(sysd["ppp"]), rdelta)
            acc = g.values.astype(float) if acc is None else acc + g.values.astype(float)
        want = acc / T
        if list(res.columns) != GCOLS:
            return f"columns {list(res.columns)}"
        bad = _cmp(res.values.astype(float), want, "spatial_corr = frame average of conditional_gr(frame n, psi[n])")
        if bad is None and withfile:
            import pandas as pd
            bad = _cmp(pd.read_csv(of).values, np.round(res.values.astype(float), 8), "csv vs returned")
        return bad
    return None


FRAME_PHI = "frame:the-psi-values-held-by-the-object(ParticlePhi)-are-not-written"


def _with_object_frame(cls):
    """time_average, spatial_corr and time_corr are queries on the psi values computed at construction: they must not write them
    (later calls on the same object read them)"""
    cn, en = cls.clause_names, cls.ensures

    def clause_names(self, case):
        return list(cn(self, case)) + [FRAME_PHI]

    def ensures(self, ctx, case, inp, out):
        yield from en(self, ctx, case, inp, out)
        phi = inp.get("phi")
        if not isinstance(phi, A.Arr):
            yield FRAME_PHI, False
            return
        ev = [e for e in out.state.events if e[0] == "store" and e[1] == phi.sid]
        if not ev:
            yield FRAME_PHI, True
        for e in ev:
            yield FRAME_PHI, (z3.Not(z3.And(*e[3])) if e[3] else False)
    cls.clause_names, cls.ensures = clause_names, ensures
    return cls


for _c in (TimeAverage, TimeCorr, SpatialCorr):
    _with_object_frame(_c)
UNITS = [LthOrder(), TimeAverage(), TimeCorr(), SpatialCorr(), Init()]
# callee contracts of other properties used at call sites: their units are re-verified with this check
from contracts.common import callee_units as _callee_units   # noqa: E402
UNITS = UNITS + _callee_units([('C02', None), ('C05', {'read_neighbors'}), ('C14', None), ('C13', {'conditional_gr'}), ('C16', {'time_average'})], UNITS)


# ---------------------------------------------------------------------------------------------------------------
# lemmas on the definition (the code is proved equal to it above): modulus bound, rotation covariance


def _sq(x):
    return sv.mul(x, x)


def bound_lemmas():
    """|sum_t a_t u_t| <= sum_t |a_t| for unit complex numbers u_t = exp(i theta_t), any real a_t, any number k of terms, by induction
    on k (base + step obligations over the Σ-terms; the induction principle itself is the trusted rule), and the two conclusions
    |psi| <= 1 (a_t = 1, normaliser cn;  a_t = w_t / S with S = sum |w_t| > 0)."""
    I, R = z3.IntSort(), z3.RealSort()
    a_, th_, w_ = z3.Function("a_seq", I, R), z3.Function("theta_seq", I, R), z3.Function("w_seq", I, R)
    k = sv.integer("k")
    S = sv.real("S")

    def a(t):
        return sv.SV(a_(sv.znum(t)))

    def th(t):
        return sv.SV(th_(sv.znum(t)))

    def w(t):
        return sv.SV(w_(sv.znum(t)))

    def P(n):
        sr = Sum(0, n, lambda t: sv.mul(a(t), sv.cos(th(t))))
        si = Sum(0, n, lambda t: sv.mul(a(t), sv.sin(th(t))))
        sa = Sum(0, n, lambda t: sv.absv(a(t)))
        return sv.and_(sv.cmp(">=", sa, 0), sv.cmp("<=", sv.add(_sq(sr), _sq(si)), _sq(sa)))

    def Q(n):   # sum_t |w_t / S| * S = sum_t |w_t|   (S > 0)
        return sv.cmp("==", sv.mul(Sum(0, n, lambda t: sv.absv(sv.div(w(t), S))), S), Sum(0, n, lambda t: sv.absv(w(t))))

    def C1(n):  # sum_{t<n} 1 = n
        return sv.cmp("==", Sum(0, n, lambda t: sv.absv(sv.add(sv.mul(0, a(t)), 1))), n)
    k1 = A.simp(sv.add(k, 1))
    X, Y, Bd, n = sv.real("X"), sv.real("Y"), sv.real("Bd"), sv.integer("n")
    # induction steps with the Σ-terms unfolded by the Σ axiom  S(k+1) = S(k) + term(k)  and S(k) generalised to arbitrary reals
    sr, si, sa, ak, ck, sk = [sv.real(x) for x in ("S_re", "S_im", "S_abs", "a_k", "c_k", "s_k")]
    step_bound = sv.implies(sv.and_(sv.cmp("==", sv.add(_sq(ck), _sq(sk)), 1), sa >= 0, sv.cmp("<=", sv.add(_sq(sr), _sq(si)), _sq(sa))),
                            sv.and_(sv.cmp(">=", sv.add(sa, sv.absv(ak)), 0),
                                    sv.cmp("<=", sv.add(_sq(sv.add(sr, sv.mul(ak, ck))), _sq(sv.add(si, sv.mul(ak, sk)))), _sq(sv.add(sa, sv.absv(ak))))))
    return [
        ("lemma:bound:base:k=0", P(0)),
        ("lemma:bound:step:|S+a.u|<=sum|a|+|a|-for-unit-u", step_bound),
        ("lemma:bound:step:sums-unfold-to-that-form", _unfold_ok(P, k, a, th)),
        ("lemma:weights:base", sv.implies(S > 0, Q(0))),
        ("lemma:weights:step:sum|w/S|*S=sum|w|", sv.implies(sv.and_(k >= 0, S > 0, Q(k)), Q(k1))),
        ("lemma:count:base", C1(0)),
        ("lemma:count:step:sum_1=k", sv.implies(sv.and_(k >= 0, C1(k)), C1(k1))),
        # perfect l-fold environment: every bond has the same exp(i l phi) = (c0, s0)  =>  psi = (c0, s0), modulus exactly one (unweighted)
        ("lemma:lattice:base", sv.cmp("==", Sum(0, 0, lambda t: sv.add(sv.mul(0, a(t)), S)), 0)),
        ("lemma:lattice:step:sum-of-equal-terms=k*term", sv.implies(sv.and_(k >= 0, sv.cmp("==", Sum(0, k, lambda t: sv.add(sv.mul(0, a(t)), S)), sv.mul(k, S))),
                                                                     sv.cmp("==", Sum(0, k1, lambda t: sv.add(sv.mul(0, a(t)), S)), sv.mul(k1, S)))),
        ("lemma:lattice:|psi|=1-when-all-bonds-share-exp(i.l.phi)", sv.implies(sv.and_(n >= 1, sv.cmp("==", sv.add(_sq(X), _sq(Y)), 1)),
                                                                               sv.cmp("==", sv.add(_sq(sv.div(sv.mul(n, X), n)), _sq(sv.div(sv.mul(n, Y), n))), 1))),
        # conclusions (the Σ-terms generalised to arbitrary reals)
        ("lemma:|psi|<=1:unweighted", sv.implies(sv.and_(n >= 1, sv.cmp("<=", sv.add(_sq(X), _sq(Y)), _sq(n))),
                                                 sv.cmp("<=", sv.add(_sq(sv.div(X, n)), _sq(sv.div(Y, n))), 1))),
        ("lemma:|psi|<=1:weighted", sv.implies(sv.and_(S > 0, Bd >= 0, sv.cmp("==", sv.mul(Bd, S), S), sv.cmp("<=", sv.add(_sq(X), _sq(Y)), _sq(Bd))),
                                               sv.cmp("<=", sv.add(_sq(X), _sq(Y)), 1))),
    ]


def _unfold_ok(P, k, a, th):
    """the three Σ-terms of the bound lemma at k + 1 are those at k plus the k-th term (Σ unfold axiom instances, checked by SMT)"""
    k1 = A.simp(sv.add(k, 1))

    def parts(n):
        return (Sum(0, n, lambda t: sv.mul(a(t), sv.cos(th(t)))), Sum(0, n, lambda t: sv.mul(a(t), sv.sin(th(t)))), Sum(0, n, lambda t: sv.absv(a(t))))
    p0, p1 = parts(k), parts(k1)
    return sv.implies(k >= 0, sv.and_(sv.cmp("==", p1[0], sv.add(p0[0], sv.mul(a(k), sv.cos(th(k))))),
                                      sv.cmp("==", p1[1], sv.add(p0[1], sv.mul(a(k), sv.sin(th(k))))),
                                      sv.cmp("==", p1[2], sv.add(p0[2], sv.absv(a(k)))),
                                      sv.cmp("==", sv.add(_sq(sv.cos(th(k))), _sq(sv.sin(th(k)))), 1)))


def _cpow(z, l):
    r = sv.Cx(1, 0)
    for _ in range(l):
        r = sv.mul(r, z)
    return r


def rotation_lemmas():
    """rotation by alpha (cos alpha, sin alpha) = ((1 - tau^2)/(1 + tau^2), 2 tau/(1 + tau^2)), tau = tan(alpha/2) (every alpha != pi;
    alpha = pi separately): positions r' = R r and cell H' = H R^T.
      (R1) the minimum-image vector (remove_pbc contract, C02) of the rotated system is the rotated minimum-image vector — including
           the rint terms, whose arguments (fractional coordinates) are unchanged: ring identity;
      (R2) ((c + i s)(C + i S))^l = (c + i s)^l (C + i S)^l for l = 1..12: with exp(i l phi) = (cos phi + i sin phi)^l (de Moivre) and
           cos phi = x/r, sin phi = y/r (atan2 axiom) this is  exp(i l phi') = exp(i l alpha) exp(i l phi)  for every bond;
      (R3) sum_t (A x_t - B y_t) = A sum_t x_t - B sum_t y_t  (induction step; base trivial): the factor exp(i l alpha) leaves the sum."""
    from contracts.C02 import _inv_spec, pbc_spec_row
    out_ring, out_smt = [], []
    tau = sv.real("tau")
    for tag, (c, s) in (("tau", (sv.div(sv.sub(1, _sq(tau)), sv.add(1, _sq(tau))), sv.div(sv.mul(2, tau), sv.add(1, _sq(tau))))), ("alpha=pi", (-1, 0))):
        H = [[sv.real(f"H_{a}{b}") for b in range(2)] for a in range(2)]
        row = [sv.real("r_0"), sv.real("r_1")]
        p = [sv.integer("p_0"), sv.integer("p_1")]

        def rot(v):
            return [sv.sub(sv.mul(c, v[0]), sv.mul(s, v[1])), sv.add(sv.mul(s, v[0]), sv.mul(c, v[1]))]
        H2 = [rot(H[0]), rot(H[1])]
        row2 = rot(row)
        det, G = _inv_spec(H, 2)
        det2, G2 = _inv_spec(H2, 2)
        D = pbc_spec_row(row, H, G, p, 2)
        D2 = pbc_spec_row(row2, H2, G2, p, 2)
        want = rot(D)
        out_ring.append((f"lemma:rotation:R1:min-image-vector-rotates-with-the-system[{tag}]",
                         sv.and_(sv.cmp("==", D2[0], want[0]), sv.cmp("==", D2[1], want[1]), sv.cmp("==", det2, det))))
    c, s, C_, S_ = sv.real("c"), sv.real("s"), sv.real("C"), sv.real("S")
    for l in range(1, 13):
        lhs = _cpow(sv.mul(sv.Cx(c, s), sv.Cx(C_, S_)), l)
        rhs = sv.mul(_cpow(sv.Cx(c, s), l), _cpow(sv.Cx(C_, S_), l))
        out_ring.append((f"lemma:rotation:R2:l={l}:power-of-rotated-unit-bond", sv.and_(sv.cmp("==", lhs.re, rhs.re), sv.cmp("==", lhs.im, rhs.im))))
    I, R = z3.IntSort(), z3.RealSort()
    x_, y_ = z3.Function("x_seq", I, R), z3.Function("y_seq", I, R)
    Aa, Bb, k = sv.real("A"), sv.real("B"), sv.integer("k")

    def L(n):
        return sv.cmp("==", Sum(0, n, lambda t: sv.sub(sv.mul(Aa, sv.SV(x_(sv.znum(t)))), sv.mul(Bb, sv.SV(y_(sv.znum(t)))))),
                      sv.sub(sv.mul(Aa, Sum(0, n, lambda t: sv.SV(x_(sv.znum(t))))), sv.mul(Bb, Sum(0, n, lambda t: sv.SV(y_(sv.znum(t)))))))
    out_smt.append(("lemma:rotation:R3:base", L(0)))
    SA, SX, SY, xk, yk = [sv.real(n_) for n_ in ("S_A", "S_X", "S_Y", "x_k", "y_k")]
    out_ring.append(("lemma:rotation:R3:step:factor-leaves-the-sum(sums-unfolded)",
                     sv.cmp("==", sv.add(sv.sub(sv.mul(Aa, SX), sv.mul(Bb, SY)), sv.sub(sv.mul(Aa, xk), sv.mul(Bb, yk))),
                            sv.sub(sv.mul(Aa, sv.add(SX, xk)), sv.mul(Bb, sv.add(SY, yk))))))
    return out_ring, out_smt


def instance_checks(seed=0):
    """runs under /venv/bin/python: the real boo_2d on perfect triangular (l=6) and square (l=4) lattices (|psi| = 1) and on rotated
    copies of seeded periodic/non-periodic systems (psi' = exp(i l alpha) psi).  Instances, not proofs."""
    import tempfile

    import numpy as np
    out = []
    rng = np.random.default_rng(seed + 7)
    with tempfile.TemporaryDirectory(prefix="pyvc-c10i-") as tmp:
        for kind in ("triangular", "square"):
            sysd, l = _lattice_system(kind)
            for weighted in (False, True):
                boo, _ = _make_boo(sysd, l, weighted, tmp)
                mod = np.abs(np.asarray(boo.ParticlePhi))
                out.append({"instance": f"perfect {kind} lattice, l={l}, {'positive weights' if weighted else 'unweighted'}: |psi| = 1",
                            "max_deviation": float(np.abs(mod - 1).max()), "ok": bool(np.abs(mod - 1).max() < 1e-9)})
        for trial in range(6):
            sysd = _gen_system(rng, trial)
            l = int(rng.integers(1, 13))
            alpha = float(rng.uniform(-3.1, 3.1))
            R = np.array([[np.cos(alpha), -np.sin(alpha)], [np.sin(alpha), np.cos(alpha)]])
            rot = dict(sysd)
            rot["pos"] = [np.array(p) @ R.T for p in sysd["pos"]]
            rot["H"] = np.array(sysd["H"]) @ R.T
            for weighted in (False, True):
                b0, _ = _make_boo(sysd, l, weighted, tmp)
                b1, _ = _make_boo(rot, l, weighted, tmp)
                dev = float(np.abs(np.asarray(b1.ParticlePhi) - np.exp(1j * l * alpha) * np.asarray(b0.ParticlePhi)).max())
                out.append({"instance": f"rotation by {alpha:.4f}, l={l}, ppp={np.array(sysd['ppp']).tolist()}, {'weighted' if weighted else 'unweighted'}: psi' = exp(i l alpha) psi",
                            "max_deviation": dev, "ok": bool(dev < 1e-9)})
    return out


def _run_instances(repo, seed):
    import json
    import os
    import subprocess
    here = os.path.dirname(os.path.dirname(os.path.abspath(__file__)))
    code = ("import sys, json, logging; logging.disable(logging.CRITICAL); sys.path.insert(0, %r); sys.path.insert(0, %r); "
            "sys.path.append('/opt/veriftools/pyvenv/lib/python3.11/site-packages'); import contracts.C10 as C; "
            "print('INSTANCES ' + json.dumps(C.instance_checks(%d)))" % (repo, here, seed))
    try:
        r = subprocess.run([os.environ.get("PYVC_REPLAY_PYTHON", "/venv/bin/python"), "-c", code], capture_output=True, text=True, timeout=120)
    except subprocess.TimeoutExpired:
        return None, "timeout"
    for line in r.stdout.splitlines():
        if line.startswith("INSTANCES "):
            return json.loads(line[len("INSTANCES "):]), None
    return None, (r.stderr or r.stdout)[-400:]


def extra_checks(tier, seed, repo):
    from pyvc.vc import prove_lemmas
    ring, smt = rotation_lemmas()
    obs = prove_lemmas("C10", bound_lemmas() + smt, timeout=10)
    obs += prove_lemmas("C10", ring, timeout=10, opts={"ring_only": True})
    inst, err = _run_instances(repo, seed)
    extra = {"obligations": obs, "instance_checks": inst if inst is not None else {"error": err}}
    for rec in inst or []:
        if not rec["ok"]:   # an instance that fails on the real code is a violation of the statement (replayed by replay_extra)
            obs.append({"name": "C10:instance:" + rec["instance"], "status": "REFUTED", "ms": 0, "backends": ["instance-run"], "queries": 1,
                        "replayable": True, "failed": [{"status": "REFUTED", "reason": f"max deviation {rec['max_deviation']}", "model": None}]})
    return extra


def replay_extra(rec):
    name = rec.get("obligation", "")
    if name.startswith("C10:instance:"):
        res = [r for r in instance_checks(int(rec.get("seed") or 0)) if not r["ok"]]
        return {"ran": True, "failed": bool(res), "detail": json_dumps(res[:3]), "searched": 1}
    return {"ran": False, "failed": False, "error": "lemma obligations have no concrete replay"}


def json_dumps(x):
    import json
    return json.dumps(x)

NOT_DECIDED = [
    "'exactly one on a perfect l-fold lattice' as a statement about lattices: proved only in the form 'all bonds of a particle share exp(i l phi) "
    "=> |psi| = 1' (lemma, unweighted); the triangular (l=6) and square (l=4) lattices are instance runs of the real code (instance_checks), not proofs",
    "rotation covariance is proved on the definition (lemmas R1-R3 + de Moivre + atan2 axiom), to which the code is proved equal; it is not a "
    "second symbolic run of lthorder; rotated systems are additionally run as instances on the real code",
    "particles with more neighbours than Nmax: read_neighbors delivers the first Nmax entries (documented cap); the contract is stated on the delivered lists",
    "floating-point effects (A1): atan2 at the branch cut, |psi| <= 1 up to rounding",
    "the values of conditional_gr, time_correlation and utils.time_average themselves (C13, C14, C16): only their call sites are under contract here",
]
TRUSTED = [
    "callee contract of read_neighbors (verified under C05): returns the next frame of the file as an array (N, 1 + max cn): column 0 = coordination "
    "number in 1..Nmax, columns 1..cn = zero-based neighbour ids in [0, N) (ints) or weights (floats); consecutive calls on one handle deliver consecutive frames",
    "precondition taken from the documentation: the weights file is consistent with the neighbour file (same coordination numbers / column count); "
    "every particle has at least one neighbour; sum |w| != 0; cells invertible; ppp in {0,1}^2",
    "callee contract of remove_pbc (proved under C02)",
    "callee contracts of utils.coarse_graining.time_average (window mean over w frames, result (T - w, N) complex, ids of middle frames: C16), "
    "conditional_gr (frame r/gr/gA with maxbin rows: C13), time_correlation (C14): relational summaries, their values are not re-derived here",
    "assumed library contracts in pyvc/libext/C10.py: np.arctan2 (atan2 axiom of pyvc/axioms.py), np.angle = atan2(Im, Re), open()/close() as an opaque handle "
    "with a frame counter, element-wise DataFrame arithmetic, len(set(...)) == 1 for index-independent elements",
    "lemmas: the induction principle over the number of neighbours (base + step obligations are proved, the principle is the rule), de Moivre's formula "
    "exp(i l phi) = (cos phi + i sin phi)^l and the atan2 axiom connect lemma R2 to the definition; rotations are parametrised by tau = tan(alpha/2) (alpha = pi separately)",
    "the object invariant established by boo_2d.__init__ (unit Init: attributes = arguments, ParticlePhi = lthorder(output_phi)) is the precondition of the other methods, "
    "with ParticlePhi an arbitrary complex (T, N) array there",
]

MANIFEST = {
    "text": "boo_2d.lthorder (real AST, re-read every run; symbolic frame number T, particle number N, coordination numbers, l in 1..12, cell matrices, "
            "periodicity masks, Nmax; with/without weights file, with/without output file): at an arbitrary frame s and particle i the returned complex value "
            "equals the definition — unweighted (1/cn) sum over the delivered neighbour list of exp(i l atan2(D_y, D_x)) with D the minimum-image vector "
            "(remove_pbc contract) of r_j - r_i; weighted sum_j (w_j / sum_k |w_k|) exp(i l phi_j) with the weights row aligned with the neighbour row — split "
            "into (sum) the Sigma-term accumulated by the real loops equals the Sigma-term of the definition (syntactic / SMT with Sigma-extensionality) and "
            "(normalisation) the stored value is that sum over cn (ring/SMT); frame n of the result is computed from the n-th frame of both files "
            "(handle positions advance once per frame), files are opened for reading and closed, np.save receives the returned array. "
            "boo_2d.__init__ stores its arguments and sets ParticlePhi = lthorder(output_phi). boo_2d.time_average: both branches call the window-average "
            "contract with the right arrays and return the complex window mean, resp. <|psi|> exp(i <arg psi>), with the callee's middle-frame ids, files = returned. "
            "boo_2d.spatial_corr: for symbolic T the returned frame is (1/T) sum_n conditional_gr(frame n, psi[n], None, ppp, rdelta) (written loop invariant, "
            "init/step proved). boo_2d.time_corr returns time_correlation(trajectory, psi, dt, outputfile). Lemmas on the definition: |psi| <= 1 for both "
            "normalisations (induction over the neighbour count), |psi| = 1 when all bonds share exp(i l phi), rotation covariance psi' = exp(i l alpha) psi "
            "(minimum-image vector rotates with positions and cell, incl. rint terms; l = 1..12). Extension round: time_average, spatial_corr and time_corr do not write the psi values held by the object (frame clause).",
    "note": "floats as reals (A1); read_neighbors / remove_pbc / utils.time_average / conditional_gr / time_correlation enter through their callee contracts; "
            "documented preconditions: consistent weights file, >= 1 neighbour per particle, sum |w| != 0, cn <= Nmax (otherwise the documented truncation); "
            "perfect-lattice values and rotated systems are also run on the real code as instances (reported separately, not counted as proofs)",
}
