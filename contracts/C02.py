"""C02 — minimum-image displacements: lattice translations only, into the half-cell.

Function under contract: PyMatterSim.utils.pbc.remove_pbc (real AST, re-read every run).

Contract (d in {2,3}; RIJ of shape (n,d) with symbolic n, or (d,); H any matrix with det H != 0 — general,
LAMMPS lower-triangular and diagonal are instances; ppp_k in {0,1}):
  with m = r H^-1 (fractional coordinates of a row r) and z_k = rint(m_k):
  (a) lattice:       result - r = - sum_k z_k ppp_k H[k,:]          (z_k integer)
  (b) half-cell:     (result H^-1)_k = m_k - z_k ppp_k, in [-1/2, 1/2] when ppp_k = 1, = m_k when ppp_k = 0
  (c) shift-inv:     remove_pbc(r + sum_k t_k ppp_k H[k,:]) = remove_pbc(r) for integer t, away from half-cell ties
  (d) idempotent:    remove_pbc(remove_pbc(r)) = remove_pbc(r)
  (e) odd:           remove_pbc(-r) = -remove_pbc(r)              (used by C05 / C11 symmetry lemmas)
  (f) shortest:      diagonal H, positive edges, all axes periodic: |result|^2 <= |result + sum_k t_k L_k e_k|^2
  (g) frame:         no store into RIJ, hmatrix, ppp
Clauses (c)-(e) are two-run clauses: the real AST is executed a second time on the transformed input
(relational execution) and the two result terms are compared.
The proofs use universal generalisation (a sub-term is replaced by a fresh constant) to keep each query
inside linear mixed integer/real arithmetic or pure polynomial arithmetic; lemma obligations carry the
polynomial identities (m H = r, (x H) H^-1 = x, (r + t H) H^-1 = m + t).
"""
import z3

from pyvc import arr as A
from pyvc import sv
from pyvc.interp import FuncVal, load_module
from pyvc.vc import Unit

MOD = "PyMatterSim.utils.pbc"

NOT_DECIDED = [
    "accuracy of the floating-point inverse for ill-conditioned cells (A1: floats are reals)",
    "behaviour exactly at half-cell ties under lattice shifts (excluded by the statement: 'away from exact half-cell ties')",
]
TRUSTED = [
    "assumed contract of np.linalg.inv for d <= 3: requires det != 0, returns adjugate/det",
    "assumed contract of np.rint: round half to even; np.dot: sum over the contracted axis; np.array(x) copies",
]


def _mat(ctx, name, d, kind):
    """d x d matrix of named real constants (so that solver models give concrete cells)"""
    M = [[ctx.real(f"{name}_{i}{j}") for j in range(d)] for i in range(d)]
    if kind == "tri":
        for i in range(d):
            for j in range(i + 1, d):
                M[i][j] = sv.to_frac(0.0)
    if kind == "diag":
        for i in range(d):
            for j in range(d):
                if i != j:
                    M[i][j] = sv.to_frac(0.0)
    return M


def _inv_spec(M, d):
    det = A.det_small(M, d)
    if d == 2:
        G = [[sv.div(M[1][1], det), sv.div(sv.neg(M[0][1]), det)], [sv.div(sv.neg(M[1][0]), det), sv.div(M[0][0], det)]]
    else:
        def cof(i, j):
            r = [x for x in range(3) if x != i]
            c = [x for x in range(3) if x != j]
            m = sv.sub(sv.mul(M[r[0]][c[0]], M[r[1]][c[1]]), sv.mul(M[r[0]][c[1]], M[r[1]][c[0]]))
            return m if (i + j) % 2 == 0 else sv.neg(m)
        G = [[sv.div(cof(j, i), det) for j in range(3)] for i in range(3)]
    return det, G


def _vecmat(v, M, d):
    return [_sum([sv.mul(v[j], M[j][k]) for j in range(d)]) for k in range(d)]


def _sum(xs):
    acc = 0
    for x in xs:
        acc = sv.add(acc, x)
    return acc


class RemovePbc(Unit):
    module = MOD
    qualname = "remove_pbc"
    prop = "C02"
    timeout = 20

    def cases(self):
        import itertools
        out = []
        for d in (2, 3):
            for shape in ("(n,d)", "(d,)"):
                for kind in ("general", "diag"):
                    for pm in itertools.product((0, 1), repeat=d):
                        out.append(f"d={d}/{shape}/{kind}/ppp={''.join(map(str, pm))}")
        return out

    def setup(self, ctx, case):
        d = int(case[2])
        _, shape, kind, pm = case.split("/")
        Hm = _mat(ctx, "H", d, kind)
        H = A.from_nested(Hm, "float")
        ctx.state.origin[H.sid] = "argument hmatrix"
        p = [int(ch) for ch in pm[4:]]           # the periodicity mask is enumerated: {0,1}^d
        ppp = A.from_nested(p, "int")
        ctx.state.origin[ppp.sid] = "argument ppp"
        det, G = _inv_spec(Hm, d)
        ctx.assume(sv.cmp("!=", det, 0))
        if kind == "diag":
            for k in range(d):
                ctx.assume(Hm[k][k] > 0)
        if shape == "(n,d)":
            n = ctx.int("n")
            ctx.assume(n >= 1)
            R = ctx.array("R", (n, d), "float", origin="argument RIJ")
            i = ctx.int("i")
            row = [R.get((i, c)) for c in range(d)]
        else:
            n, i = 1, 0
            rv = [ctx.real(f"r_{c}") for c in range(d)]
            R = A.from_nested(rv, "float")
            ctx.state.origin[R.sid] = "argument RIJ"
            row = rv
        inp = dict(d=d, H=H, Hm=Hm, G=G, det=det, p=p, ppp=ppp, R=R, n=n, i=i, row=row, shape=shape, kind=kind,
                   watch=[R.sid, H.sid, ppp.sid])
        return [R, H, ppp], {}, inp

    def clause_names(self, case):
        # the rint lemmas used as rewrites in (c), (d), (e) and the per-axis inequality of (f) are proved once: extra_checks
        names = ["shape", "lemma:mH=r", "lemma:(xH)Hinv=x", "lemma:(r+tH)Hinv=m+t",                  "a:lattice-translation-of-periodic-axes-only",
                 "b:fractional-in-half-cell/untouched", "c:shift-invariance-away-from-ties", "d:idempotent", "e:odd", "g:frame-inputs-not-written"]
        if "/diag/" in case:
            names += ["f:shortest-image-orthogonal"]
        return names

    # ------------------------------------------------------------------------------------------
    def _call_again(self, ctx, inp, rows):
        """second run of the REAL body on a transformed input row (relational execution)"""
        m = load_module(MOD)
        fv = FuncVal(m, m.defs["remove_pbc"])
        R2 = A.from_nested([rows], "float")
        interp = ctx.interp
        interp.depth += 1
        try:
            res = interp.call_function(fv, [R2, inp["H"], inp["ppp"]], {})
        finally:
            interp.depth -= 1
        return [res.get((0, c)) for c in range(inp["d"])]

    def ensures(self, ctx, case, inp, out):
        d, Hm, G, p, row, i, n = inp["d"], inp["Hm"], inp["G"], inp["p"], inp["row"], inp["i"], inp["n"]
        res = out.value
        ok_shape = isinstance(res, A.Arr) and res.ndim == 2 and A.dim_eq_syntactic(res.shape[1], d) and A.dim_eq_syntactic(res.shape[0], n)
        yield "shape", bool(ok_shape)
        if not ok_shape:
            return
        half = sv.to_frac(0.5)
        RO = {"ring_only": True}     # these clauses are rational-function identities: decided by normal form / exact evaluation
        inr = sv.and_(sv.cmp(">=", i, 0), sv.cmp("<", i, n)) if inp["shape"] == "(n,d)" else True
        out_row = [res.get((i, c)) for c in range(d)]
        m = _vecmat(row, G, d)                        # fractional coordinates  m = r H^-1   (spec side)
        zk = [sv.rint(m[k]) for k in range(d)]
        # ---- algebraic lemmas (rational-function identities, denominators = det H != 0)
        mH = _vecmat(m, Hm, d)
        yield "lemma:mH=r", sv.and_(*[sv.cmp("==", mH[c], row[c]) for c in range(d)]), RO
        x = [sv.real(f"x_{k}") for k in range(d)]
        xHG = _vecmat(_vecmat(x, Hm, d), G, d)
        yield "lemma:(xH)Hinv=x", sv.and_(*[sv.cmp("==", xHG[k], x[k]) for k in range(d)]), RO
        t = [sv.integer(f"t_{k}") for k in range(d)]
        shifted = [sv.add(row[c], _sum([sv.mul(sv.mul(t[k], p[k]), Hm[k][c]) for k in range(d)])) for c in range(d)]
        m2 = _vecmat(shifted, G, d)
        yield "lemma:(r+tH)Hinv=m+t", sv.and_(*[sv.cmp("==", m2[k], sv.add(m[k], sv.mul(t[k], p[k]))) for k in range(d)]), RO
        # ---- (a) result - r = - sum_k z_k p_k H[k,:],  z_k = rint(m_k) integer (lemma above)
        yield "a:lattice-translation-of-periodic-axes-only", sv.implies(inr, sv.and_(*[
            sv.cmp("==", sv.sub(out_row[c], row[c]), sv.neg(_sum([sv.mul(sv.mul(zk[k], p[k]), Hm[k][c]) for k in range(d)]))) for c in range(d)])), RO
        # ---- (b) fractional coordinates of the result: (result H^-1)_k = m_k - z_k p_k; with the rint lemma this is
        #          in [-1/2, 1/2] for p_k = 1 and equal to m_k for p_k = 0
        xk = [sv.sub(m[k], sv.mul(zk[k], p[k])) for k in range(d)]
        frac = _vecmat(out_row, G, d)
        yield "b:fractional-in-half-cell/untouched", sv.implies(inr, sv.and_(*[sv.cmp("==", frac[k], xk[k]) for k in range(d)])), RO
        # ---- (c) shift invariance: second run of the real body on r + sum_k t_k p_k H[k,:]
        out2 = self._call_again(ctx, inp, shifted)
        rw = [(sv.rint(sv.add(m[k], t[k])), sv.add(zk[k], t[k])) for k in range(d) if p[k] == 1]   # instances of the shift lemma
        notie = sv.and_(*[sv.and_(sv.cmp("!=", sv.sub(m[k], zk[k]), half), sv.cmp("!=", sv.sub(zk[k], m[k]), half)) for k in range(d) if p[k] == 1])
        yield ("c:shift-invariance-away-from-ties", sv.implies(sv.and_(inr, notie), sv.and_(*[sv.cmp("==", out2[c], out_row[c]) for c in range(d)])),
               {"rewrites": rw, "ring_only": True})
        # ---- (d) idempotence: run again on the result
        out3 = self._call_again(ctx, inp, out_row)
        rw = [(sv.rint(sv.sub(m[k], zk[k])), 0) for k in range(d) if p[k] == 1]
        yield ("d:idempotent", sv.implies(inr, sv.and_(*[sv.cmp("==", out3[c], out_row[c]) for c in range(d)])), {"rewrites": rw, "ring_only": True})
        # ---- (e) oddness
        out4 = self._call_again(ctx, inp, [sv.neg(v) for v in row])
        rw = [(sv.rint(sv.neg(m[k])), sv.neg(zk[k])) for k in range(d)]
        yield ("e:odd", sv.implies(inr, sv.and_(*[sv.cmp("==", out4[c], sv.neg(out_row[c])) for c in range(d)])), {"rewrites": rw, "ring_only": True})
        # ---- (g) frame
        stores = [e for e in out.state.events if e[0] == "store" and e[1] in inp["watch"]]
        yield "g:frame-inputs-not-written", len(stores) == 0
        # ---- (f) shortest image, orthogonal cell, all axes periodic: |x|^2 <= |x + t L|^2
        if inp["kind"] == "diag":
            if all(pk == 1 for pk in p):
                # |x + tL|^2 - |x|^2 = sum_k t_k L_k (2 x_k + t_k L_k)   (ring identity), each term >= 0 by the lemma with
                # x_k / L_k = m_k - z_k in [-1/2, 1/2] (clause b)
                n2 = _sum([sv.mul(out_row[k], out_row[k]) for k in range(d)])
                n2s = _sum([sv.mul(sv.add(out_row[k], sv.mul(t[k], Hm[k][k])), sv.add(out_row[k], sv.mul(t[k], Hm[k][k]))) for k in range(d)])
                terms = [sv.mul(sv.mul(t[k], Hm[k][k]), sv.add(sv.mul(2, out_row[k]), sv.mul(t[k], Hm[k][k]))) for k in range(d)]
                ident = sv.cmp("==", sv.sub(n2s, n2), _sum(terms))
                coord = sv.and_(*[sv.cmp("==", out_row[k], sv.mul(sv.sub(m[k], zk[k]), Hm[k][k])) for k in range(d)])
                yield "f:shortest-image-orthogonal", sv.implies(inr, sv.and_(ident, coord)), RO
            else:
                yield "f:shortest-image-orthogonal", True

    def raises(self, ctx, case, inp, out):
        return None

    def replay(self, case, clause, model, seed):
        return _replay(case, clause, model, seed)


def _fr(x, default=None):
    if isinstance(x, bool):
        return float(x)
    if isinstance(x, (int, float)):
        return float(x)
    if isinstance(x, str):
        try:
            if "/" in x:
                a, b = x.split("/")
                return int(a) / int(b)
            return float(x)
        except ValueError:
            return default
    return default


def _replay(case, clause, model, seed):
    """concrete replay against the real remove_pbc under CPython/numpy: the model's cell, mask, row and shift
    first, then seeded inputs; every clause of the contract is evaluated with an independent implementation"""
    import importlib
    import itertools
    import math
    import random

    import numpy as np
    P = importlib.import_module(MOD)
    d = int(case[2])
    shape, kind = case.split("/")[1:3]
    rng = random.Random(seed)

    def sample(first):
        H = np.zeros((d, d))
        for a in range(d):
            for b in range(d):
                v = _fr(model.get(f"H_{a}{b}")) if first else None
                if v is None:
                    v = rng.uniform(-3, 3) if a != b else rng.uniform(0.5, 6) * rng.choice([1, 1, 1, -1] if kind != "diag" else [1])
                H[a, b] = v
        if kind in ("tri", "diag"):
            for a in range(d):
                for b in range(a + 1, d):
                    H[a, b] = 0.0
        if kind == "diag":
            H = np.diag(np.abs(np.diag(H)) + 0.1)
        p = np.array([int(_fr(model.get(f"ppp_{k}"), rng.randint(0, 1))) if first else rng.randint(0, 1) for k in range(d)])
        p = np.clip(p, 0, 1)
        r = None
        if first:
            ents = (model.get("R") or {}).get("__func__") if isinstance(model.get("R"), dict) else None
            iv = model.get("i")
            if ents and iv is not None:
                r = np.array([next((_fr(e[2]) for e in ents if e[0] == iv and e[1] == c and _fr(e[2]) is not None), rng.uniform(-9, 9)) for c in range(d)])
            elif all(_fr(model.get(f"r_{c}")) is not None for c in range(d)):
                r = np.array([_fr(model.get(f"r_{c}")) for c in range(d)])
        if r is None:
            r = np.array([rng.uniform(-9, 9) for _ in range(d)])
        t = np.array([int(_fr(model.get(f"t_{k}"), rng.randint(-3, 3))) if first else rng.randint(-3, 3) for k in range(d)])
        return H, p, r, t

    def call(rows, H, p):
        Rm = np.array(rows, dtype=float)
        if shape == "(d,)" and Rm.ndim == 2 and Rm.shape[0] == 1:
            arg = Rm[0].copy()
        else:
            arg = Rm.copy()
        keep = (arg.copy(), H.copy(), p.copy())
        out = np.asarray(P.remove_pbc(arg, H, p), dtype=float)
        mutated = not (np.array_equal(keep[0], arg) and np.array_equal(keep[1], H) and np.array_equal(keep[2], p))
        return out.reshape(-1, d), mutated

    tried = 0
    for k in range(400):
        H, p, r, t = sample(k == 0)
        if abs(np.linalg.det(H)) < 1e-3:
            continue
        tried += 1
        G = np.linalg.inv(H)
        rows = [r] if shape == "(d,)" else [r + 0.37 * j for j in range(3)]
        try:
            out, mutated = call(rows, H, p)
        except Exception as e:
            return {"ran": True, "failed": True, "inputs": {"H": H.tolist(), "ppp": p.tolist(), "r": r.tolist()}, "detail": f"raises {type(e).__name__}: {e}"}
        tol = 1e-8 * (1 + np.abs(H).max() + np.abs(r).max())
        bad = None
        # (h) no hidden state: the same call repeated after a call with another cell of equal diagonal gives the same result
        if not mutated:
            H2 = H.copy()
            if kind != "diag":
                H2[d - 1, 0] += 0.75
            else:
                H2 = H2 * 1.0
            try:
                o2, _ = call(rows, H2, p)
                G2 = np.linalg.inv(H2)
                for j, rr in enumerate(rows):
                    coef2 = (rr - o2[j]) @ G2
                    if np.any(np.abs(coef2 - np.round(coef2)) > 1e-6) or np.any(np.abs(coef2[p == 0]) > 1e-6):
                        bad = (f"(h) after a call with cell {H.tolist()}, the call with cell {H2.tolist()} (same box lengths, different tilt) returns "
                               f"result - r = {(-coef2).tolist()} cell vectors: not an integer combination of periodic axes (hidden state)")
                        break
                again, _ = call(rows, H, p)
                if bad is None and not np.array_equal(again, out):
                    bad = "(h) repeating the same call after a call with another cell (same box lengths, different tilt) gives a different result: hidden state"
            except Exception as e:  # noqa
                bad = f"(h) repeated call raises {type(e).__name__}: {e}"
        if mutated:
            bad = "an input array was modified"
        for j, rr in enumerate(rows):
            if bad:
                break
            o = out[j]
            m = rr @ G
            near_tie = np.any(np.abs((m + 0.5) - np.round(m + 0.5)) < 1e-6)
            # (a) difference is an integer combination of periodic cell vectors
            coef = (rr - o) @ G
            if np.any(np.abs(coef - np.round(coef)) > 1e-6) or np.any(np.abs(coef[p == 0]) > 1e-6):
                bad = f"(a) result - r = {(-coef).tolist()} (in cell vectors) is not an integer combination of periodic axes"
                break
            fo = o @ G
            if np.any(np.abs(fo[p == 1]) > 0.5 + 1e-6) or np.any(np.abs(fo[p == 0] - m[p == 0]) > 1e-6):
                bad = f"(b) fractional coordinates of the result {fo.tolist()} (mask {p.tolist()}, input fractional {m.tolist()})"
                break
            if not near_tie:
                o2, _ = call([rr + (t * p) @ H], H, p)
                if np.any(np.abs(o2[0] - o) > tol * 10):
                    bad = f"(c) shift by {t.tolist()} cell vectors changes the result: {o2[0].tolist()} vs {o.tolist()}"
                    break
                o4, _ = call([-rr], H, p)
                if np.any(np.abs(o4[0] + o) > tol * 10):
                    bad = f"(e) remove_pbc(-r) = {o4[0].tolist()} != -remove_pbc(r) = {(-o).tolist()}"
                    break
            near_tie_out = np.any(np.abs(np.abs(fo) - 0.5) < 1e-6)
            if not near_tie_out:
                o3, _ = call([o], H, p)
                if np.any(np.abs(o3[0] - o) > tol * 10):
                    bad = f"(d) not idempotent: {o3[0].tolist()} vs {o.tolist()}"
                    break
            if kind == "diag" and np.all(p == 1):
                L = np.diag(H)
                for tt in itertools.product((-1, 0, 1), repeat=d):
                    if np.dot(o, o) > np.dot(o + np.array(tt) * L, o + np.array(tt) * L) + 1e-7:
                        bad = f"(f) image {tt} is shorter than the result"
                        break
        if bad:
            return {"ran": True, "failed": True, "from_model": k == 0, "searched": tried,
                    "inputs": {"hmatrix": H.tolist(), "ppp": p.tolist(), "r": r.tolist(), "t": t.tolist()}, "detail": bad}
    return {"ran": True, "failed": False, "searched": tried, "detail": "real code satisfies every clause on the model inputs and the seeded inputs"}


UNITS = [RemovePbc()]


def lemmas():
    """generic lemmas (fresh variables) used as rewrite rules / combination steps by the clauses above"""
    half = sv.to_frac(0.5)
    a, s = sv.real("a"), sv.integer("s")
    notie = sv.and_(sv.cmp("!=", sv.sub(a, sv.rint(a)), half), sv.cmp("!=", sv.sub(sv.rint(a), a), half))
    L_, x_, t_ = sv.real("L"), sv.real("x"), sv.real("t")
    w = [sv.real(f"w_{k}") for k in range(3)]
    return [
        ("lemma:rint(a+s)=rint(a)+s-for-integer-s-away-from-ties", sv.implies(notie, sv.cmp("==", sv.rint(sv.add(a, s)), sv.add(sv.rint(a), s)))),
        ("lemma:rint(a-rint(a))=0", sv.cmp("==", sv.rint(sv.sub(a, sv.rint(a))), 0)),
        ("lemma:rint(-a)=-rint(a)", sv.cmp("==", sv.rint(sv.neg(a)), sv.neg(sv.rint(a)))),
        ("lemma:|a-rint(a)|<=1/2-and-rint-is-an-integer", sv.and_(sv.cmp("<=", sv.sub(a, sv.rint(a)), half), sv.cmp(">=", sv.sub(a, sv.rint(a)), sv.neg(half)),
                                                                  sv.cmp("==", sv.rint(a), sv.to_real(sv.rint_int(a))))),
        # per axis of an orthogonal cell: |x| <= L/2 and (|t| >= 1 or t = 0; generalises the integers) => t L (2x + t L) >= 0
        ("lemma:tL(2x+tL)>=0-for-|x|<=L/2", sv.implies(
            sv.and_(L_ > 0, sv.cmp("<=", x_, sv.div(L_, 2)), sv.cmp(">=", x_, sv.neg(sv.div(L_, 2))), sv.or_(t_ >= 1, t_ <= -1, sv.cmp("==", t_, 0))),
            sv.cmp(">=", sv.mul(sv.mul(t_, L_), sv.add(sv.mul(2, x_), sv.mul(t_, L_))), 0))),
        ("lemma:sum-of-nonnegatives-is-nonnegative", sv.implies(sv.and_(*[x >= 0 for x in w]), sv.cmp(">=", _sum(w), 0))),
    ]


def extra_checks(tier, seed, repo):
    from pyvc.vc import prove_lemmas
    return {"obligations": prove_lemmas("C02", lemmas())}


def pbc_spec_row(row, Hm, G, p, d):
    """spec of one row of remove_pbc as a term: sum_k (m_k - rint(m_k) p_k) H[k,:],  m = row . G  (used as callee contract)"""
    m = _vecmat(row, G, d)
    x = [sv.sub(m[k], sv.mul(sv.rint(m[k]), p[k])) for k in range(d)]
    return _vecmat(x, Hm, d)


MANIFEST = {
    "text": 'remove_pbc (real AST, re-read every run), for d in {2,3}, input shape (n,d) with symbolic n (at a symbolic row) or (d,), every cell matrix with det != 0 (general and diagonal), every periodicity mask in {0,1}^d (enumerated): result - r is minus the sum of rint(m_k) ppp_k H[k,:] with m = r H^-1 (integer multiples of periodic cell vectors only); the fractional coordinates of the result are m_k - rint(m_k) ppp_k (in [-1/2,1/2] for periodic axes by the rint lemma, untouched otherwise); shift invariance away from ties, idempotence and oddness by a second symbolic run of the real body on the transformed input; shortest image for diagonal cells; inputs not written. Rational-function identities are decided by the ring normaliser (normal form), rounding lemmas by SMT (linear integer/real arithmetic).',
    "note": 'floats as reals (A1); assumed contracts of np.linalg.inv (adjugate/det, requires det != 0), np.rint (round half to even), np.dot, np.array; the ring normaliser pyvc/ring.py and the rewrite step (a proved lemma instance applied to a matching atom) are trusted; refutations are exact rational assignments replayed on the real function',
}
