"""C20 — Voronoi neighbour output is a consistent tessellation in the library format.

Functions under contract (real ASTs, re-read every run):
  PyMatterSim.neighbors.freud_neighbors.convert_configuration / cal_neighbors / VolumeMatrix
  PyMatterSim.neighbors.read_neighbors.read_neighbors (contracts/C05.ReadNeighbors, re-verified with this property)

Postconditions (from the property statement and docs/neighbors.md III, not from the code's formulas):
  convert_configuration   one box and one point set per frame, in frame order; at an arbitrary frame s
                          points[i, c] = positions[i, c] - (lo_c + L_c / 2)  (coordinates in [-L/2, L/2]) for ANY box origin,
                          a zero z column in 2-D, shape (N, 3); box lengths = the frame's box lengths;
                          the returned point sets do not alias the caller's positions.
  cal_neighbors           three closed files <out>.neighbor.dat, <out>.edgelength.dat|.facearea.dat, <out>.overall.dat;
                          per frame: header line, then one row per particle in id order `id cn v_1 .. v_cn`, id = i + 1,
                          cn = number of listed neighbours = number of listed weights = the count of the overall file;
                          listed ids = tessellation neighbours + 1; weights/volumes = the tessellation's (6 decimals);
                          hence (assumed freud contract) the written relation is symmetric with equal positive weights;
                          the neighbour and weight files satisfy the precondition of read_neighbors (C05).
  VolumeMatrix            uses frame nconfig; N = particle number of that frame; off-diagonal blocks = central differences
                          of the cell volumes / original volume; rows sum to zero over each displaced coordinate;
                          return / np.save paths; the caller's positions are not written.
"""
import z3

from contracts.common import RU, Traj
from pyvc import arr as A
from pyvc import sv
from pyvc.interp import Fork, Ref
from pyvc.state import Content, cur, use_state
from pyvc.vc import Unit

FN = "PyMatterSim.neighbors.freud_neighbors"

NOT_DECIDED = [
    "geometric correctness of freud's tessellation itself (which particles are Voronoi neighbours, the edge lengths / face areas, the cell "
    "volumes): properties of freud, not of /repo — ASSUMED as the relational contract of pyvc/libext/C20.py (rows sorted by particle, every "
    "particle present, symmetric with multiplicity, weights > 0 and equal in both directions, volumes > 0 summing to the box volume); "
    "a BOUNDED numerical confirmation on seeded configurations is reported under `bounded`",
    "'cell volumes sum to the box volume' for the WRITTEN numbers: the file holds each volume rounded to 6 decimals; the sum of the rounded values "
    "equals the box volume only up to N/2 * 1e-6 (A1, rounding not modelled beyond the token value round6(VOL))",
    "readability of <out>.overall.dat by read_neighbors: the overall table `id cn area_or_volume` has ONE header for all frames and one value "
    "per row whatever cn is, i.e. it is not in the `id cn v_1..v_cn` format; the hand-off clause is decided for the neighbour and weight files",
    "VolumeMatrix(transform_matrix=True): the transformed matrix A^T (A A^T)^-1 A — the statement says nothing about it and the inverse of an "
    "N x N matrix with symbolic N has no closed contract (opaque function of the proved local matrix); only shape, return/save path are decided. "
    "(Observation, not a clause of the statement: Σ_i V_i A[i,:] = 0 because the cell volumes sum to the constant box volume, so A A^T is singular "
    "in exact arithmetic and the transformed matrix is numerically meaningless.)",
    "character-level layout of the written files beyond tokens; float formatting beyond `%.6f` = rounding to 6 decimals",
    "bit-for-bit restoration of the perturbed coordinate in VolumeMatrix (x += d; x -= 2d; x += d): equal in the reals (A1), the frame clause "
    "is write-set based instead (no store into the caller's arrays)",
]
TRUSTED = [
    "assumed relational contract of freud.locality.Voronoi.compute / freud.box.Box.from_box (pyvc/libext/C20.py, see NOT_DECIDED): the result "
    "is a function of the system (box, points) only; compute() returns the object; points must be (N,3) with z = 0 in a 2-D box",
    "assumed: np.unique(return_counts=True) of the first column of a freud neighbour list (non-decreasing, every particle present) returns the "
    "ids in order and the row lengths (composition of the assumed list layout with numpy's sorted-distinct-values contract; the counting "
    "argument is an induction the SMT layer does not do)",
    "token/file model of pyvc/text.py (open/write/close, %-formatting: %d = integer token, %.6f = round-to-6-decimals float token)",
    "assumed: np.save(file, arr) raises TypeError when `file` is an ndarray, otherwise a file-write event (path, array); np.hstack of two 2-D "
    "arrays with equal row counts = column concatenation (fresh array); arithmetic results are fresh arrays, attribute reads are aliases",
    "np.linalg.inv of a matrix of symbolic size: uninterpreted function of the matrix (transform_matrix=True only)",
    "loop rule extensions of pyvc/loops.py (each closed form is checked by the same init/step obligations): map-append loops evaluated per "
    "element, constant increments, carried counters substituted into written texts, scatter stores with a strided writer (i = column div c), "
    "closed forms guessed from the pre-state run",
    "callee contract of convert_configuration used at its call sites in cal_neighbors / VolumeMatrix (= the clauses its own unit proves "
    "against the real body: fresh centred (N,3) point sets, boxes with the frame's lengths)",
]


# =====================================================================================================
# helpers


def explore(state, thunk, max_paths=16):
    """evaluate thunk() in forks of `state`, splitting on every undecided branch -> [(guard, value, state)]"""
    out = []

    def rec(st, guard):
        if len(out) > max_paths:
            raise sv.EngineError("explore: too many paths")
        st2 = st.fork()
        try:
            with use_state(st2):
                v = thunk()
            out.append((guard, v, st2))
            return
        except Fork as f:
            cond = f.cond
        for val in (True, False):
            s3 = st.fork()
            lit = cond if val else z3.Not(cond)
            s3.decisions[cond.get_id()] = (val, cond)
            s3.pc.append(lit)
            sol = z3.Solver()
            sol.set("timeout", 3000)
            for a in s3.all_assumptions():
                sol.add(a)
            if sol.check() == z3.unsat:
                continue
            rec(s3, guard + [lit])
    rec(state, [])
    return out


def _conj(goals):
    goals = [g for g in goals]
    if not goals:
        return True
    return sv.and_(*goals)


def _guarded(guard, goal):
    if not guard:
        return goal
    g = sv.wrap(z3.And(*guard)) if len(guard) > 1 else sv.wrap(guard[0])
    return sv.implies(g, goal)


def centred(tr, s, i, c):
    """documented: coordinates moved to [-L/2, L/2]: r - (lo + L/2)"""
    lo = sv.SV(tr.BB(sv.znum(s), sv.znum(c), sv.znum(0)))
    return sv.sub(tr.pos(s, i, c), sv.add(lo, sv.div(tr.bl(s, c), 2)))


# =====================================================================================================
# convert_configuration


class ConvertConfiguration(Unit):
    module = FN
    qualname = "convert_configuration"
    prop = "C20"
    timeout = 20

    @property
    def loop_hints(self):
        from pyvc.loops import map_append_rule
        return {(f"{FN}.convert_configuration", "for", "*"): map_append_rule}

    def cases(self):
        return ["d=2", "d=3"]

    def setup(self, ctx, case):
        d = int(case[2])
        tr = Traj(ctx, d)
        # an orthogonal periodic box with ANY origin: boxlength = upper - lower bound > 0 (what every reader delivers)
        ctx.array_fact("BL", lambda s, c: z3.And(tr.BL(s, c) > 0, tr.BL(s, c) == tr.BB(s, c, 1) - tr.BB(s, c, 0)))
        snaps = tr.snapshots()
        inp = dict(tr=tr, d=d, s=ctx.int("s"), i=ctx.int("i"))
        return [snaps], {}, inp

    def clause_names(self, case):
        return ["returns-(boxes,points)-one-per-frame-in-frame-order", "points:shape-(N,3)", "points:centred-for-any-origin",
                "points:z-padding-in-2D", "points:do-not-alias-the-caller's-positions", "box:lengths-of-the-frame", "frame:inputs-not-written"]

    def ensures(self, ctx, case, inp, out):
        tr, d, s, i = inp["tr"], inp["d"], inp["s"], inp["i"]
        T, N = tr.T, tr.N
        names = self.clause_names(case)
        v = out.value
        ok = isinstance(v, tuple) and len(v) == 2 and all(isinstance(x, Ref) and x.kind == "list" for x in v)
        if ok:
            cb, cp = out.state.heap[v[0].sid].data, out.state.heap[v[1].sid].data
            ok = isinstance(cb, A.SeqVal) and isinstance(cp, A.SeqVal) and A.dim_eq_syntactic(cb.length, T) and A.dim_eq_syntactic(cp.length, T)
        yield names[0], bool(ok)
        if not ok:
            return
        ins = sv.and_(sv.cmp(">=", s, 0), sv.cmp("<", s, T))
        ini = sv.and_(sv.cmp(">=", i, 0), sv.cmp("<", i, N))
        base = out.state.fork()
        base.pc.append(sv.zb(ins))
        paths = explore(base, lambda: (cb.fn(s), cp.fn(s)))
        shape_g, cen_g, pad_g, alias_g, box_g = [], [], [], [], []
        from pyvc.libext.C20 import FreudBox
        for guard, (box, pts), st in paths:
            with use_state(st):
                okp = isinstance(pts, A.Arr) and pts.ndim == 2 and A.dim_eq_syntactic(pts.shape[0], N) and A.dim_eq_syntactic(pts.shape[1], 3)
                shape_g.append(_guarded(guard, bool(okp)))
                if okp:
                    cen_g.append(_guarded(guard, sv.implies(ini, _conj([sv.cmp("==", pts.get((i, c)), centred(tr, s, i, c)) for c in range(d)]))))
                    pad_g.append(_guarded(guard, sv.implies(ini, sv.cmp("==", pts.get((i, 2)), 0))) if d == 2 else True)
                    meta = st.heap[pts.sid].meta
                    fresh = "input" not in meta and pts.sid not in st.origin
                    alias_g.append(_guarded(guard, bool(fresh)))
                okb = isinstance(box, FreudBox) and box.dims == d
                box_g.append(_guarded(guard, _conj([sv.cmp("==", box.L[c], tr.bl(s, c)) for c in range(d)]) if okb else False))
        A_ = {"assume": [ins]}
        yield names[1], _conj(shape_g), A_
        yield names[2], _conj(cen_g) if cen_g else False, A_
        yield names[3], _conj(pad_g) if pad_g else False, A_
        yield names[4], _conj(alias_g) if alias_g else False, A_
        yield names[5], _conj(box_g), A_
        stores = [e for e in out.state.events if e[0] == "store" and (e[1] in out.state.origin or "input" in out.state.heap[e[1]].meta)]
        yield names[6], not stores

    def replay(self, case, clause, model, seed):
        return _replay_convert(int(case[2]), clause, model, seed)


def _mk_snapshots(np, RUm, rng, N, d, T, origin_kind):
    snaps = []
    for s in range(T):
        L = rng.uniform(3.0, 9.0, size=d)
        if origin_kind == "zero":
            lo = np.zeros(d)
        elif origin_kind == "centred":
            lo = -L / 2
        elif origin_kind == "sum-zero":
            # bounds whose entries sum to zero although the box is not centred, e.g. [[0, L], [-L, 0]]
            L[:] = L[0]
            lo = np.zeros(d)
            lo[1] = -L[1]
            if d == 3:
                lo[2] = -L[2] / 2
        else:
            lo = rng.uniform(-7.0, 7.0, size=d)
        pos = lo + rng.uniform(0.02, 0.98, size=(N, d)) * L
        bb = np.column_stack([lo, lo + L])
        snaps.append(RUm.SingleSnapshot(timestep=s, nparticle=N, particle_type=np.ones(N, dtype=int), positions=pos, boxlength=L.copy(),
                                        boxbounds=bb, realbounds=bb.copy(), hmatrix=np.diag(L)))
    return RUm.Snapshots(nsnapshots=T, snapshots=snaps)


def _replay_convert(d, clause, model, seed):
    import importlib

    import numpy as np
    M = importlib.import_module(FN)
    RUm = importlib.import_module(RU)
    rng = np.random.default_rng(seed + d)
    n = 0
    for kind in ["sum-zero", "centred", "zero", "any", "any", "sum-zero", "centred"]:
        for N, T in ((1, 1), (4, 2), (7, 3)):
            n += 1
            S = _mk_snapshots(np, RUm, rng, N, d, T, kind)
            before = [x.positions.copy() for x in S.snapshots]
            try:
                lb, lp = M.convert_configuration(S)
            except Exception as e:
                return {"ran": True, "failed": True, "detail": f"raises {type(e).__name__}: {e}", "inputs": {"d": d, "N": N, "T": T, "origin": kind}}
            inputs = {"d": d, "N": N, "T": T, "origin": kind, "boxbounds[0]": S.snapshots[0].boxbounds.tolist(), "positions[0]": before[0].tolist()}
            if len(lb) != T or len(lp) != T:
                return {"ran": True, "failed": True, "detail": f"{len(lb)} boxes / {len(lp)} point sets for {T} frames", "inputs": inputs, "searched": n}
            for s in range(T):
                sn = S.snapshots[s]
                want = np.zeros((N, 3))
                want[:, :d] = before[s] - (sn.boxbounds[:, 0] + sn.boxlength / 2)
                got = np.asarray(lp[s])
                if got.shape != (N, 3):
                    return {"ran": True, "failed": True, "detail": f"frame {s}: points shape {got.shape}, expected {(N, 3)}", "inputs": inputs, "searched": n}
                if not np.allclose(got, want, rtol=1e-9, atol=1e-9):
                    return {"ran": True, "failed": True, "searched": n, "inputs": inputs,
                            "detail": f"frame {s} (origin {kind}): returned coordinates span [{got[:, :d].min(0).tolist()}, {got[:, :d].max(0).tolist()}], "
                                      f"expected positions - (lo + L/2) within [-L/2, L/2] = +-{(sn.boxlength / 2).tolist()}; first row {got[0].tolist()} vs {want[0].tolist()}"}
                if np.shares_memory(got, sn.positions):
                    # consequence: VolumeMatrix perturbs `points` in place, i.e. the caller's positions
                    detail = f"frame {s} (origin {kind}): the returned point set shares memory with snapshot.positions"
                    try:
                        M.VolumeMatrix(S, ndim=d, nconfig=s, transform_matrix=False)
                        if not np.array_equal(sn.positions, before[s]):
                            detail += f"; after VolumeMatrix the caller's positions differ bitwise (max |diff| {np.abs(sn.positions - before[s]).max():.3g})"
                    except Exception as e:   # other defects of VolumeMatrix
                        detail += f" (VolumeMatrix raised {type(e).__name__})"
                    return {"ran": True, "failed": True, "searched": n, "inputs": inputs, "detail": detail}
                L = np.asarray([lb[s].Lx, lb[s].Ly, lb[s].Lz][:d])
                if not np.allclose(L, sn.boxlength) or bool(lb[s].is2D) != (d == 2):
                    return {"ran": True, "failed": True, "searched": n, "inputs": inputs, "detail": f"frame {s}: box {lb[s]} for lengths {sn.boxlength.tolist()}"}
                if not np.array_equal(sn.positions, before[s]):
                    return {"ran": True, "failed": True, "searched": n, "inputs": inputs, "detail": f"frame {s}: the caller's positions were modified"}
    return {"ran": True, "failed": False, "searched": n}


UNITS = [ConvertConfiguration()]

MANIFEST = {
    "text": "TBD",
    "note": "TBD",
}
