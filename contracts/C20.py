"""C20 — Voronoi neighbour output is a consistent tessellation in the library format.

Functions under contract (real ASTs, re-read every run):
  PyMatterSim.neighbors.freud_neighbors.convert_configuration / cal_neighbors / VolumeMatrix
  PyMatterSim.neighbors.read_neighbors.read_neighbors (contracts/C05.ReadNeighbors, re-verified with this property)

Postconditions (from the property statement and docs/neighbors.md III, not from the code's formulas):
  convert_configuration   one box and one point set per frame, in frame order; at an arbitrary frame s
                          points[i, c] = positions[i, c] - (lo_c + L_c / 2)  (coordinates in [-L/2, L/2]) for ANY box origin,
                          a zero z column in 2-D, shape (N, 3); box lengths = the frame's box lengths;
                          the returned point sets do not alias the caller's positions.
  cal_neighbors           three closed files <out>.neighbor.dat, <out>.edgelength.dat|.facearea.dat, <out>.overall.dat;
                          per frame: header line, then one row per particle in id order `id cn v_1 .. v_cn`, id = i + 1,
                          cn = number of listed neighbours = number of listed weights = the count of the overall file;
                          listed ids = tessellation neighbours + 1; weights/volumes = the tessellation's (6 decimals);
                          hence (assumed freud contract) the written relation is symmetric with equal positive weights;
                          the neighbour and weight files satisfy the precondition of read_neighbors (C05).
  VolumeMatrix            uses frame nconfig; N = particle number of that frame; off-diagonal blocks = central differences
                          of the cell volumes / original volume; rows sum to zero over each displaced coordinate;
                          return / np.save paths; the caller's positions are not written.
"""
import z3

from contracts.common import RU, Traj
from pyvc import arr as A
from pyvc import sv
from pyvc.interp import Fork, Ref
from pyvc.state import Content, cur, use_state
from pyvc.vc import Unit

FN = "PyMatterSim.neighbors.freud_neighbors"

NOT_DECIDED = [
    "geometric correctness of freud's tessellation itself (which particles are Voronoi neighbours, the edge lengths / face areas, the cell "
    "volumes): properties of freud, not of /repo — ASSUMED as the relational contract of pyvc/libext/C20.py (rows sorted by particle, every "
    "particle present, symmetric with multiplicity, weights > 0 and equal in both directions, volumes > 0 summing to the box volume); "
    "a BOUNDED numerical confirmation on seeded configurations is reported under `bounded`",
    "'cell volumes sum to the box volume' for the WRITTEN numbers: the file holds each volume rounded to 6 decimals; the sum of the rounded values "
    "equals the box volume only up to N/2 * 1e-6 (A1, rounding not modelled beyond the token value round6(VOL))",
    "readability of <out>.overall.dat by read_neighbors: the overall table `id cn area_or_volume` has ONE header for all frames and one value "
    "per row whatever cn is, i.e. it is not in the `id cn v_1..v_cn` format; the hand-off clause is decided for the neighbour and weight files",
    "VolumeMatrix(transform_matrix=True): the transformed matrix A^T (A A^T)^-1 A — the statement says nothing about it and the inverse of an "
    "N x N matrix with symbolic N has no closed contract (opaque function of the proved local matrix); only shape, return/save path are decided. "
    "(Observation, not a clause of the statement: Σ_i V_i A[i,:] = 0 because the cell volumes sum to the constant box volume, so A A^T is singular "
    "in exact arithmetic and the transformed matrix is numerically meaningless.)",
    "character-level layout of the written files beyond tokens; float formatting beyond `%.6f` = rounding to 6 decimals",
    "bit-for-bit restoration of the perturbed coordinate in VolumeMatrix (x += d; x -= 2d; x += d): equal in the reals (A1), the frame clause "
    "is write-set based instead (no store into the caller's arrays)",
]
TRUSTED = [
    "assumed relational contract of freud.locality.Voronoi.compute / freud.box.Box.from_box (pyvc/libext/C20.py, see NOT_DECIDED): the result "
    "is a function of the system (box, points) only; compute() returns the object; points must be (N,3) with z = 0 in a 2-D box",
    "assumed: np.unique(return_counts=True) of the first column of a freud neighbour list (non-decreasing, every particle present) returns the "
    "ids in order and the row lengths (composition of the assumed list layout with numpy's sorted-distinct-values contract; the counting "
    "argument is an induction the SMT layer does not do)",
    "token/file model of pyvc/text.py (open/write/close, %-formatting: %d = integer token, %.6f = round-to-6-decimals float token)",
    "assumed: np.save(file, arr) raises TypeError when `file` is an ndarray, otherwise a file-write event (path, array); np.hstack of two 2-D "
    "arrays with equal row counts = column concatenation (fresh array); arithmetic results are fresh arrays, attribute reads are aliases",
    "np.linalg.inv of a matrix of symbolic size: uninterpreted function of the matrix (transform_matrix=True only)",
    "loop rule extensions of pyvc/loops.py (each closed form is checked by the same init/step obligations): map-append loops evaluated per "
    "element, constant increments, carried counters substituted into written texts, scatter stores with a strided writer (i = column div c), "
    "closed forms guessed from the pre-state run",
    "callee contract of convert_configuration used at its call sites in cal_neighbors / VolumeMatrix (= the clauses its own unit proves "
    "against the real body: fresh centred (N,3) point sets, boxes with the frame's lengths)",
]


# =====================================================================================================
# helpers


def explore(state, thunk, max_paths=16):
    """evaluate thunk() in forks of `state`, splitting on every undecided branch -> [(guard, value, state)]"""
    out = []

    def rec(st, guard):
        if len(out) > max_paths:
            raise sv.EngineError("explore: too many paths")
        st2 = st.fork()
        try:
            with use_state(st2):
                v = thunk()
            out.append((guard, v, st2))
            return
        except Fork as f:
            cond = f.cond
        for val in (True, False):
            s3 = st.fork()
            lit = cond if val else z3.Not(cond)
            s3.decisions[cond.get_id()] = (val, cond)
            s3.pc.append(lit)
            sol = z3.Solver()
            sol.set("timeout", 3000)
            for a in s3.all_assumptions():
                sol.add(a)
            if sol.check() == z3.unsat:
                continue
            rec(s3, guard + [lit])
    rec(state, [])
    return out


def _conj(goals):
    goals = [g for g in goals]
    if not goals:
        return True
    return sv.and_(*goals)


def _guarded(guard, goal):
    if not guard:
        return goal
    g = sv.wrap(z3.And(*guard)) if len(guard) > 1 else sv.wrap(guard[0])
    return sv.implies(g, goal)


def centred(tr, s, i, c):
    """documented: coordinates moved to [-L/2, L/2]: r - (lo + L/2)"""
    lo = sv.SV(tr.BB(sv.znum(s), sv.znum(c), sv.znum(0)))
    return sv.sub(tr.pos(s, i, c), sv.add(lo, sv.div(tr.bl(s, c), 2)))


# =====================================================================================================
# convert_configuration


class ConvertConfiguration(Unit):
    loop_opts = {"const_sum_closed": True}      # constant increments of carried counters are summed in closed form c (k - lo)
    module = FN
    qualname = "convert_configuration"
    prop = "C20"
    timeout = 20

    @property
    def loop_hints(self):
        from pyvc.loops import map_append_rule
        return {(f"{FN}.convert_configuration", "for", "*"): map_append_rule}

    def cases(self):
        return ["d=2", "d=3"]

    def setup(self, ctx, case):
        d = int(case[2])
        tr = Traj(ctx, d)
        # an orthogonal periodic box with ANY origin: boxlength = upper - lower bound > 0 (what every reader delivers)
        ctx.array_fact("BL", lambda s, c: z3.And(tr.BL(s, c) > 0, tr.BL(s, c) == tr.BB(s, c, 1) - tr.BB(s, c, 0)))
        snaps = tr.snapshots()
        inp = dict(tr=tr, d=d, s=ctx.int("s"), i=ctx.int("i"))
        return [snaps], {}, inp

    def clause_names(self, case):
        return ["returns-(boxes,points)-one-per-frame-in-frame-order", "points:shape-(N,3)", "points:centred-for-any-origin",
                "points:z-padding-in-2D", "points:do-not-alias-the-caller's-positions", "box:lengths-of-the-frame", "frame:inputs-not-written"]

    def ensures(self, ctx, case, inp, out):
        tr, d, s, i = inp["tr"], inp["d"], inp["s"], inp["i"]
        T, N = tr.T, tr.N
        names = self.clause_names(case)
        v = out.value
        ok = isinstance(v, tuple) and len(v) == 2 and all(isinstance(x, Ref) and x.kind == "list" for x in v)
        if ok:
            cb, cp = out.state.heap[v[0].sid].data, out.state.heap[v[1].sid].data
            ok = isinstance(cb, A.SeqVal) and isinstance(cp, A.SeqVal) and A.dim_eq_syntactic(cb.length, T) and A.dim_eq_syntactic(cp.length, T)
        yield names[0], bool(ok)
        if not ok:
            return
        ins = sv.and_(sv.cmp(">=", s, 0), sv.cmp("<", s, T))
        ini = sv.and_(sv.cmp(">=", i, 0), sv.cmp("<", i, N))
        base = out.state.fork()
        base.pc.append(sv.zb(ins))
        paths = explore(base, lambda: (cb.fn(s), cp.fn(s)))
        shape_g, cen_g, pad_g, alias_g, box_g = [], [], [], [], []
        from pyvc.libext.C20 import FreudBox
        for guard, (box, pts), st in paths:
            with use_state(st):
                okp = isinstance(pts, A.Arr) and pts.ndim == 2 and A.dim_eq_syntactic(pts.shape[0], N) and A.dim_eq_syntactic(pts.shape[1], 3)
                shape_g.append(_guarded(guard, bool(okp)))
                if okp:
                    cen_g.append(_guarded(guard, sv.implies(ini, _conj([sv.cmp("==", pts.get((i, c)), centred(tr, s, i, c)) for c in range(d)]))))
                    pad_g.append(_guarded(guard, sv.implies(ini, sv.cmp("==", pts.get((i, 2)), 0))) if d == 2 else True)
                    meta = st.heap[pts.sid].meta
                    fresh = "input" not in meta and pts.sid not in st.origin
                    alias_g.append(_guarded(guard, bool(fresh)))
                okb = isinstance(box, FreudBox) and box.dims == d
                box_g.append(_guarded(guard, _conj([sv.cmp("==", box.L[c], tr.bl(s, c)) for c in range(d)]) if okb else False))
        A_ = {"assume": [ins]}
        yield names[1], _conj(shape_g), A_
        yield names[2], _conj(cen_g) if cen_g else False, A_
        yield names[3], _conj(pad_g) if pad_g else False, A_
        yield names[4], _conj(alias_g) if alias_g else False, A_
        yield names[5], _conj(box_g), A_
        stores = [e for e in out.state.events if e[0] == "store" and (e[1] in out.state.origin or "input" in out.state.heap[e[1]].meta)]
        yield names[6], not stores

    def replay(self, case, clause, model, seed):
        return _replay_convert(int(case[2]), clause, model, seed)


def _mk_snapshots(np, RUm, rng, N, d, T, origin_kind):
    snaps = []
    for s in range(T):
        L = rng.uniform(3.0, 9.0, size=d)
        if origin_kind == "zero":
            lo = np.zeros(d)
        elif origin_kind == "centred":
            lo = -L / 2
        elif origin_kind == "sum-zero":
            # bounds whose entries sum to zero although the box is not centred, e.g. [[0, L], [-L, 0]]
            L[:] = L[0]
            lo = np.zeros(d)
            lo[1] = -L[1]
            if d == 3:
                lo[2] = -L[2] / 2
        else:
            lo = rng.uniform(-7.0, 7.0, size=d)
        pos = lo + rng.uniform(0.02, 0.98, size=(N, d)) * L
        bb = np.column_stack([lo, lo + L])
        snaps.append(RUm.SingleSnapshot(timestep=s, nparticle=N, particle_type=np.ones(N, dtype=int), positions=pos, boxlength=L.copy(),
                                        boxbounds=bb, realbounds=bb.copy(), hmatrix=np.diag(L)))
    return RUm.Snapshots(nsnapshots=T, snapshots=snaps)


def _replay_convert(d, clause, model, seed):
    import importlib

    import numpy as np
    M = importlib.import_module(FN)
    RUm = importlib.import_module(RU)
    rng = np.random.default_rng(seed + d)
    n = 0
    for kind in ["sum-zero", "centred", "zero", "any", "any", "sum-zero", "centred"]:
        for N, T in ((1, 1), (4, 2), (7, 3)):
            n += 1
            S = _mk_snapshots(np, RUm, rng, N, d, T, kind)
            before = [x.positions.copy() for x in S.snapshots]
            try:
                lb, lp = M.convert_configuration(S)
            except Exception as e:
                return {"ran": True, "failed": True, "detail": f"raises {type(e).__name__}: {e}", "inputs": {"d": d, "N": N, "T": T, "origin": kind}}
            inputs = {"d": d, "N": N, "T": T, "origin": kind, "boxbounds[0]": S.snapshots[0].boxbounds.tolist(), "positions[0]": before[0].tolist()}
            if len(lb) != T or len(lp) != T:
                return {"ran": True, "failed": True, "detail": f"{len(lb)} boxes / {len(lp)} point sets for {T} frames", "inputs": inputs, "searched": n}
            for s in range(T):
                sn = S.snapshots[s]
                want = np.zeros((N, 3))
                want[:, :d] = before[s] - (sn.boxbounds[:, 0] + sn.boxlength / 2)
                got = np.asarray(lp[s])
                if got.shape != (N, 3):
                    return {"ran": True, "failed": True, "detail": f"frame {s}: points shape {got.shape}, expected {(N, 3)}", "inputs": inputs, "searched": n}
                if not np.allclose(got, want, rtol=1e-9, atol=1e-9):
                    return {"ran": True, "failed": True, "searched": n, "inputs": inputs,
                            "detail": f"frame {s} (origin {kind}): returned coordinates span [{got[:, :d].min(0).tolist()}, {got[:, :d].max(0).tolist()}], "
                                      f"expected positions - (lo + L/2) within [-L/2, L/2] = +-{(sn.boxlength / 2).tolist()}; first row {got[0].tolist()} vs {want[0].tolist()}"}
                if np.shares_memory(got, sn.positions):
                    # consequence: VolumeMatrix perturbs `points` in place, i.e. the caller's positions
                    detail = f"frame {s} (origin {kind}): the returned point set shares memory with snapshot.positions"
                    try:
                        M.VolumeMatrix(S, ndim=d, nconfig=s, transform_matrix=False)
                        if not np.array_equal(sn.positions, before[s]):
                            detail += f"; after VolumeMatrix the caller's positions differ bitwise (max |diff| {np.abs(sn.positions - before[s]).max():.3g})"
                    except Exception as e:   # other defects of VolumeMatrix
                        detail += f" (VolumeMatrix raised {type(e).__name__})"
                    return {"ran": True, "failed": True, "searched": n, "inputs": inputs, "detail": detail}
                L = np.asarray([lb[s].Lx, lb[s].Ly, lb[s].Lz][:d])
                if not np.allclose(L, sn.boxlength) or bool(lb[s].is2D) != (d == 2):
                    return {"ran": True, "failed": True, "searched": n, "inputs": inputs, "detail": f"frame {s}: box {lb[s]} for lengths {sn.boxlength.tolist()}"}
                if not np.array_equal(sn.positions, before[s]):
                    return {"ran": True, "failed": True, "searched": n, "inputs": inputs, "detail": f"frame {s}: the caller's positions were modified"}
    return {"ran": True, "failed": False, "searched": n}




# =====================================================================================================
# callee contract of convert_configuration (what ConvertConfiguration proves against the real body)


def convert_summary(interp, args, kwargs):
    """ensures: (boxes, points), one entry per frame in frame order; points_s = FRESH (N,3) array with
    points_s[i,c] = positions_s[i,c] - (boxbounds_s[c,0] + boxlength_s[c]/2) for c < d and 0 for the padded z column;
    box_s = freud box with the lengths boxlength_s"""
    from pyvc.libext.C20 import FreudBox
    snaps = args[0] if args else kwargs["snapshots"]
    lst = interp.getattr(snaps, "snapshots")
    c = lst.content
    if isinstance(c, A.SeqVal):
        T, item = c.length, c.fn
    else:
        T, item = len(c), (lambda s, c=c: c[int(s)])

    def parts(s):
        snap = item(s)
        pos = interp.getattr(snap, "positions")
        bb = interp.getattr(snap, "boxbounds")
        bl = interp.getattr(snap, "boxlength")
        d = A.conc_dim(pos.shape[1], "space dimension")
        if d not in (2, 3):
            raise sv.EngineError("convert_configuration contract: d must be 2 or 3")
        return pos, bb, bl, d

    def points(s):
        pos, bb, bl, d = parts(s)
        rp, rb, rl = pos.reader(), bb.reader(), bl.reader()

        def fn(idx):
            cols = [sv.sub(rp((idx[0], c)), sv.add(rb((c, 0)), sv.div(rl((c,)), 2))) for c in range(d)] + ([sv.to_frac(0.0)] if d == 2 else [])
            return A._pick([sv.to_real(x) for x in cols], idx[1])
        return A.new_arr((pos.shape[0], 3), fn, "float")

    def box(s):
        pos, bb, bl, d = parts(s)
        return FreudBox([bl.get((c,)) for c in range(d)])
    if sv.is_conc(T):
        from pyvc.interp import new_list
        return (new_list([box(s) for s in range(int(T))]), new_list([points(s) for s in range(int(T))]))
    lb = Ref(cur().alloc(Content("list", A.SeqVal(T, box))), "list")
    lp = Ref(cur().alloc(Content("list", A.SeqVal(T, points))), "list")
    return (lb, lp)


CONVERT = {f"{FN}.convert_configuration": convert_summary}


def _written_files(state):
    return {c.data["path"]: c.data for c in state.heap.values() if c.kind == "file" and c.data.get("mode") == "w"}


def spec_system(tr, s, d):
    """the tessellated system of frame s as the statement describes it: box lengths L_s, points = centred coordinates, z = 0 in 2-D"""
    from pyvc.libext.C20 import FreudBox, voro_system

    def rd(idx):
        c = idx[1]
        return centred(tr, s, idx[0], c) if c < d else sv.to_frac(0.0)
    return voro_system(FreudBox([tr.bl(s, c) for c in range(d)]), rd, tr.N)


BOND = {2: ("edgelength", "edgelengthlist"), 3: ("facearea", "facearealist")}


def _row_parts(row_items):
    """items written for one particle: Text(id cn) Block(one token per listed value) Text(newline) -> (idtok, cntok, block, valuetok)"""
    from pyvc.text import Block, Text, Tok, text_lines
    if len(row_items) != 3 or not isinstance(row_items[0], Text) or not isinstance(row_items[1], Block) or not isinstance(row_items[2], Text):
        return None
    head = text_lines([row_items[0]])
    tail = text_lines([row_items[2]])
    if len(head) != 1 or len(head[0]) != 2 or not all(isinstance(t, Tok) and t.kind == "int" for t in head[0]):
        return None
    if not isinstance(row_items[0].pieces[-1], str) or not row_items[0].pieces[-1].endswith(" "):
        return None        # the count must be separated from the first value
    if tail != [[], []]:
        return None        # exactly the line terminator
    blk = row_items[1]
    if len(blk.items) != 1:
        return None
    one = text_lines([blk.items[0]])
    if len(one) != 1 or len(one[0]) != 1 or not isinstance(one[0][0], Tok):
        return None
    last = blk.items[0].pieces[-1]
    if not isinstance(last, str) or not last.endswith(" "):
        return None        # values are blank separated
    return head[0][0], head[0][1], blk, one[0][0]


class CalNeighbors(Unit):
    loop_opts = {"const_sum_closed": True}      # constant increments of carried counters are summed in closed form c (k - lo)
    module = FN
    qualname = "cal_neighbors"
    prop = "C20"
    timeout = 30
    summaries = CONVERT

    def cases(self):
        return ["d=2", "d=3"]

    def setup(self, ctx, case):
        d = int(case[2])
        tr = Traj(ctx, d)
        ctx.array_fact("BL", lambda s, c: z3.And(tr.BL(s, c) > 0, tr.BL(s, c) == tr.BB(s, c, 1) - tr.BB(s, c, 0)))
        snaps = tr.snapshots()
        inp = dict(tr=tr, d=d, s=ctx.int("s"), i=ctx.int("i"), r=ctx.int("r"))
        return [snaps, "out"], {}, inp

    def clause_names(self, case):
        return ["files:three-closed-files-with-the-documented-names",
                "structure:per-frame-header-then-one-row-per-particle-in-id-order",
                "row:id=i+1-and-cn=number-of-listed-neighbours=number-of-listed-weights=overall-count",
                "row:listed-ids=tessellation-neighbours+1,weights-and-volumes-of-the-tessellation-of-the-centred-frame",
                "relation:symmetric-with-equal-weights-in-the-files(given-the-assumed-freud-contract)",
                "overall:one-header-then-per-frame-one-row-per-particle:id-cn-volume",
                "reader-precondition(C05):header-words,id-bijection,cn>=0,exactly-cn-values,1+N-lines-per-frame"]

    def _file_rows(self, f, T, N, header_words, s, i):
        """-> (outer, inner, row parts at frame s / particle i) for a neighbour-format file"""
        from pyvc.text import Block, Text, text_lines
        items = f["items"]
        if not f.get("closed") or len(items) != 1 or not isinstance(items[0], Block):
            return None
        outer = items[0]
        if not (sv.is_conc(outer.lo) and outer.lo == 0 and A.dim_eq_syntactic(outer.hi, T)):
            return None
        fi = outer.at(s)
        if len(fi) != 2 or not isinstance(fi[0], Text) or not isinstance(fi[1], Block):
            return None
        if text_lines([fi[0]]) != [header_words, []]:
            return None
        inner = fi[1]
        if not (sv.is_conc(inner.lo) and inner.lo == 0 and A.dim_eq_syntactic(inner.hi, N)):
            return None
        parts = _row_parts(inner.at(i))
        if parts is None:
            return None
        return outer, inner, parts

    def ensures(self, ctx, case, inp, out):
        from pyvc.text import Block, Text, Tok, text_lines
        tr, d, s, i, r = inp["tr"], inp["d"], inp["s"], inp["i"], inp["r"]
        T, N = tr.T, tr.N
        names = self.clause_names(case)
        files = _written_files(out.state)
        bond_ext, bond_word = BOND[d]
        want = {"out.overall.dat", "out.neighbor.dat", f"out.{bond_ext}.dat"}
        ok = set(files) == want and all(f.get("closed") for f in files.values()) and len(files) == 3
        yield names[0], bool(ok)
        if not ok:
            return
        fn_, fb_, fo_ = files["out.neighbor.dat"], files[f"out.{bond_ext}.dat"], files["out.overall.dat"]
        nb = self._file_rows(fn_, T, N, ["id", "cn", "neighborlist"], s, i)
        bd = self._file_rows(fb_, T, N, ["id", "cn", bond_word], s, i)
        ok = nb is not None and bd is not None and nb[2][3].kind == "int" and bd[2][3].kind == "float"
        yield names[1], bool(ok)
        if not ok:
            return
        # overall file
        oi = fo_["items"]
        oko = len(oi) == 2 and isinstance(oi[0], Text) and text_lines([oi[0]]) == [["id", "cn", "area_or_volume"], []] and isinstance(oi[1], Block)
        orow = None
        if oko:
            oo = oi[1]
            oko = sv.is_conc(oo.lo) and oo.lo == 0 and A.dim_eq_syntactic(oo.hi, T) and len(oo.items) == 1 and isinstance(oo.items[0], Block)
        if oko:
            ob = oo.at(s)[0]
            oko = sv.is_conc(ob.lo) and ob.lo == 0 and A.dim_eq_syntactic(ob.hi, N) and len(ob.items) == 1 and isinstance(ob.items[0], Text)
        if oko:
            ol = text_lines(ob.at(i))
            oko = len(ol) == 2 and ol[1] == [] and len(ol[0]) == 3 and all(isinstance(t, Tok) for t in ol[0]) \
                and [t.kind for t in ol[0]] == ["int", "int", "float"]
            orow = ol[0] if oko else None
        ins = sv.and_(sv.cmp(">=", s, 0), sv.cmp("<", s, T), sv.cmp(">=", i, 0), sv.cmp("<", i, N))
        sysm = spec_system(tr, s, d)
        (n_id, n_cn, n_blk, n_val), (b_id, b_cn, b_blk, b_val) = nb[2], bd[2]
        cn = sysm.CN(i)
        g = [sv.cmp("==", n_id.value, sv.add(i, 1)), sv.cmp("==", b_id.value, sv.add(i, 1)),
             sv.cmp("==", n_cn.value, n_blk.hi), sv.cmp("==", b_cn.value, b_blk.hi), sv.cmp("==", n_cn.value, b_cn.value),
             sv.cmp("==", n_blk.lo, 0), sv.cmp("==", b_blk.lo, 0), sv.cmp(">=", n_cn.value, 1), sv.cmp("==", n_cn.value, cn)]
        if orow is not None:
            g += [sv.cmp("==", orow[0].value, sv.add(i, 1)), sv.cmp("==", orow[1].value, n_cn.value)]
        yield names[2], sv.implies(ins, _conj(g)) if orow is not None else False
        inr = sv.and_(ins, sv.cmp(">=", r, 0), sv.cmp("<", r, cn))

        def val_at(blk, rr):
            return text_lines([blk.at(rr)[0]])[0][0].value
        nv, bv = val_at(n_blk, r), val_at(b_blk, r)
        g = [sv.cmp("==", nv, sv.add(sysm.NBR(i, r), 1)), sv.cmp(">=", nv, 1), sv.cmp("<=", nv, N),
             sv.cmp("==", bv, sv.round_dec(sysm.WGT(i, r), 6)), sv.cmp(">", sysm.WGT(i, r), 0)]
        if orow is not None:
            g += [sv.cmp("==", orow[2].value, sv.round_dec(sysm.VOL(i), 6)), sv.cmp(">", sysm.VOL(i), 0)]
        yield names[3], sv.implies(inr, _conj(g)) if orow is not None else False
        # symmetry: the particle listed at position r of row i lists i at position q = REV(i, r) of its own row, with the same weight
        j = sv.sub(nv, 1)
        q = sysm.REV(i, r)
        nbj = self._file_rows(fn_, T, N, ["id", "cn", "neighborlist"], s, j)
        bdj = self._file_rows(fb_, T, N, ["id", "cn", bond_word], s, j)
        if nbj is None or bdj is None:
            yield names[4], False
        else:
            cnj = nbj[2][1].value
            yield names[4], sv.implies(inr, sv.and_(sv.cmp(">=", j, 0), sv.cmp("<", j, N), sv.cmp(">=", q, 0), sv.cmp("<", q, cnj),
                                                    sv.cmp("==", val_at(nbj[2][2], q), sv.add(i, 1)),
                                                    sv.cmp("==", val_at(bdj[2][2], q), bv)))
        yield names[5], bool(oko)
        # hand-off to read_neighbors (contracts/C05.ReadNeighbors.setup): a header line whose words contain `neighborlist` exactly for
        # the neighbour file, then N rows `id cn v_1 .. v_cn`: ids a bijection of the rows onto 1..N (here the identity), cn >= 0, exactly cn
        # value tokens (int ids / float weights); frames follow each other without a gap (the structure clause: 1 + N lines per frame)
        yield names[6], sv.implies(ins, sv.and_("neighborlist" not in [bond_word], sv.cmp(">=", n_id.value, 1), sv.cmp("<=", n_id.value, N),
                                                sv.cmp("==", sv.sub(n_id.value, 1), i), sv.cmp(">=", n_cn.value, 0), sv.cmp("==", n_blk.hi, n_cn.value),
                                                sv.cmp("==", b_blk.hi, b_cn.value), sv.cmp("==", sv.sub(b_id.value, 1), i), sv.cmp(">=", b_cn.value, 0)))

    def replay(self, case, clause, model, seed):
        return _replay_cal(int(case[2]), clause, seed)


def _replay_cal(d, clause, seed):
    import importlib
    import os
    import shutil
    import tempfile

    import freud
    import numpy as np
    M = importlib.import_module(FN)
    RUm = importlib.import_module(RU)
    RD = importlib.import_module("PyMatterSim.neighbors.read_neighbors")
    rng = np.random.default_rng(seed + 10 * d)
    tmp = tempfile.mkdtemp(prefix="pyvc-replay-")
    n = 0
    try:
        for kind in ["any", "zero", "centred", "sum-zero", "any"]:
            for N, T in ((6, 1), (9, 2), (14, 3)):
                n += 1
                S = _mk_snapshots(np, RUm, rng, N, d, T, kind)
                out = os.path.join(tmp, f"o{n}")
                inputs = {"d": d, "N": N, "T": T, "origin": kind, "boxbounds[0]": S.snapshots[0].boxbounds.tolist(), "positions[0]": S.snapshots[0].positions.tolist()}
                try:
                    M.cal_neighbors(S, out)
                except Exception as e:
                    return {"ran": True, "failed": True, "searched": n, "inputs": inputs, "detail": f"raises {type(e).__name__}: {e}"}
                bond = out + (".edgelength.dat" if d == 2 else ".facearea.dat")
                for pth in (out + ".neighbor.dat", bond, out + ".overall.dat"):
                    if not os.path.exists(pth):
                        return {"ran": True, "failed": True, "searched": n, "inputs": inputs, "detail": f"file {os.path.basename(pth)} not written"}
                lines = {k: open(pth).read().split("\n") for k, pth in (("n", out + ".neighbor.dat"), ("b", bond), ("o", out + ".overall.dat"))}
                if lines["o"][0].split() != ["id", "cn", "area_or_volume"]:
                    return {"ran": True, "failed": True, "searched": n, "inputs": inputs, "detail": f"overall header {lines['o'][0]!r}"}
                for s in range(T):
                    sn = S.snapshots[s]
                    # independent tessellation of the centred, padded frame
                    pts = np.zeros((N, 3))
                    pts[:, :d] = sn.positions - (sn.boxbounds[:, 0] + sn.boxlength / 2)
                    v = freud.locality.Voronoi()
                    v.compute((freud.box.Box.from_box(sn.boxlength), pts))
                    nl = np.array(v.nlist)
                    w = np.array(v.nlist.weights)
                    vol = np.array(v.volumes)
                    hn, hb = lines["n"][s * (N + 1)].split(), lines["b"][s * (N + 1)].split()
                    if hn != ["id", "cn", "neighborlist"] or hb != ["id", "cn", "edgelengthlist" if d == 2 else "facearealist"]:
                        return {"ran": True, "failed": True, "searched": n, "inputs": inputs, "detail": f"frame {s}: headers {hn} / {hb}"}
                    rows = {}
                    for i in range(N):
                        tn = lines["n"][s * (N + 1) + 1 + i].split()
                        tb = lines["b"][s * (N + 1) + 1 + i].split()
                        to = lines["o"][1 + s * N + i].split()
                        mine = nl[nl[:, 0] == i]
                        wi = w[nl[:, 0] == i]
                        bad = None
                        if int(tn[0]) != i + 1 or int(tb[0]) != i + 1 or int(to[0]) != i + 1:
                            bad = f"ids {tn[0]}/{tb[0]}/{to[0]} in the row of particle {i + 1}"
                        elif not (int(tn[1]) == len(tn) - 2 == int(tb[1]) == len(tb) - 2 == int(to[1]) == len(mine)):
                            bad = f"cn {tn[1]} / listed neighbours {len(tn) - 2} / cn {tb[1]} / listed weights {len(tb) - 2} / overall cn {to[1]} / tessellation {len(mine)}"
                        elif [int(x) for x in tn[2:]] != [int(x) + 1 for x in mine[:, 1]]:
                            bad = f"listed {tn[2:]}, tessellation neighbours + 1 = {[int(x) + 1 for x in mine[:, 1]]}"
                        elif not np.allclose([float(x) for x in tb[2:]], wi, atol=2e-6, rtol=1e-5):
                            bad = f"weights {tb[2:]} vs {wi.tolist()}"
                        elif abs(float(to[2]) - vol[i]) > 2e-6 + 1e-5 * abs(vol[i]):
                            bad = f"volume {to[2]} vs {vol[i]}"
                        if bad:
                            return {"ran": True, "failed": True, "searched": n, "inputs": dict(inputs, frame=s, particle=i), "detail": f"frame {s}, particle {i}: {bad}"}
                        rows[i] = ([int(x) - 1 for x in tn[2:]], [float(x) for x in tb[2:]])
                    from collections import Counter
                    fw = Counter((i, j, wt) for i, (js, ws) in rows.items() for j, wt in zip(js, ws))
                    bw = Counter((j, i, wt) for i, (js, ws) in rows.items() for j, wt in zip(js, ws))
                    if Counter((a, b) for a, b, _ in fw.elements()) != Counter((a, b) for a, b, _ in bw.elements()):
                        return {"ran": True, "failed": True, "searched": n, "inputs": dict(inputs, frame=s), "detail": f"frame {s}: the written neighbour relation is not symmetric"}
                # hand-off: the neighbour-file reader delivers zero-based lists, frame by frame, from one handle
                with open(out + ".neighbor.dat") as fa, open(bond) as fb:
                    for s in range(T):
                        try:
                            ga = RD.read_neighbors(fa, N, 200)
                            gb = RD.read_neighbors(fb, N, 200)
                        except Exception as e:
                            return {"ran": True, "failed": True, "searched": n, "inputs": dict(inputs, frame=s), "detail": f"read_neighbors raises {type(e).__name__}: {e}"}
                        for i in range(N):
                            tn = lines["n"][s * (N + 1) + 1 + i].split()
                            tb = lines["b"][s * (N + 1) + 1 + i].split()
                            cn = int(tn[1])
                            if int(ga[i, 0]) != cn or [int(x) for x in ga[i, 1:1 + cn]] != [int(x) - 1 for x in tn[2:]] \
                                    or not np.allclose(gb[i, 1:1 + cn], [float(x) for x in tb[2:]]):
                                return {"ran": True, "failed": True, "searched": n, "inputs": dict(inputs, frame=s, particle=i),
                                        "detail": f"frame {s}, particle {i}: read_neighbors returns {ga[i].tolist()} / {gb[i].tolist()} for rows {tn} / {tb}"}
        return {"ran": True, "failed": False, "searched": n}
    finally:
        shutil.rmtree(tmp, ignore_errors=True)


# =====================================================================================================
# VolumeMatrix


class VMWorld:
    """the statement's objects for VolumeMatrix at frame s = nconfig: the centred points P, the tessellated systems of the
    unperturbed frame and of the frame with coordinate (i, j) displaced by +-deltar (built by the SAME array operations the
    statement describes — x += d; x -= 2 d — so that the lifted systems carry the canonical names of pyvc/libext/C20.py)"""

    def __init__(self, tr, d, s, dr):
        from pyvc.libext.C20 import FreudBox
        self.tr, self.d, self.s, self.dr = tr, d, s, dr
        self.N = tr.N
        self.box = FreudBox([tr.bl(s, c) for c in range(d)])
        self._memo = {}

    def P(self, idx):
        c = idx[1]
        if not sv.is_conc(c):
            return A._pick([self.P((idx[0], k)) for k in range(3)], c)
        return sv.to_real(centred(self.tr, self.s, idx[0], int(c))) if int(c) < self.d else sv.to_frac(0.0)

    def sys0(self):
        from pyvc.libext.C20 import voro_system
        if "0" not in self._memo:
            self._memo["0"] = voro_system(self.box, self.P, self.N)
        return self._memo["0"]

    def sys_pm(self, i, j, sign):
        """system with coordinate (i, j) at P + deltar (sign=+1) / P - deltar (sign=-1)"""
        from pyvc.libext.C20 import voro_system
        st0 = cur()
        mark = len(st0.side)
        st = st0.fork()
        try:
            with use_state(st):
                pts = A.new_arr((self.N, 3), self.P, "float")
                A.setitem(pts, (i, j), self.dr, aug="+")
                if sign < 0:
                    A.setitem(pts, (i, j), sv.mul(2, self.dr), aug="-")
                rd = pts.reader()
                return voro_system(self.box, rd, self.N)
        finally:
            del st0.side[mark:]        # the spec's own array operations leave no obligations behind

    def raw(self, r, i, j):
        """central difference of the volume of cell r with respect to coordinate j of particle i.
        The two displaced systems are built for a SYMBOL standing for the displaced particle (the lifted system functions are
        named by the canonical form of the system over its free symbols) and then instantiated at the term i."""
        key = ("raw", int(j))
        if key not in self._memo:
            I0, R0 = sv.fresh_int("vmI"), sv.fresh_int("vmR")
            vp, vm = self.sys_pm(I0, j, +1).VOL(R0), self.sys_pm(I0, j, -1).VOL(R0)
            self._memo[key] = (I0, R0, sv.div(sv.div(sv.sub(vp, vm), 2), self.dr))
        I0, R0, t = self._memo[key]
        return sv.wrap(z3.substitute(sv.zr(t), (I0.t, sv.znum(i)), (R0.t, sv.znum(r))))

    def offdiag_sum(self, r, j, upto=None):
        """sum over the displaced particles m != r of raw(r, m, j)"""
        from pyvc.sigma import Sum
        return Sum(0, self.N if upto is None else upto, lambda m: sv.ite(sv.cmp("!=", m, r), lambda: self.raw(r, m, j), sv.to_frac(0.0)))

    def entry_raw(self, r, c, diag_done=True):
        """the un-normalised matrix: column c = d * i + j"""
        d = self.d
        i = sv.floordiv(c, d)
        alts = []
        for j in range(d):
            off = self.raw(r, i, j)
            dg = sv.neg(self.offdiag_sum(r, j)) if diag_done else sv.to_frac(0.0)
            alts.append(sv.ite(sv.cmp("==", i, r), dg, off))
        return A._pick(alts, sv.mod(c, d))

    def entry(self, r, c):
        return sv.div(self.entry_raw(r, c), self.sys0().VOL(r))


def rowsum_lhs(n, k, f, S, w):
    """sum over the displaced particles i < n of the matrix entries of one row and one displaced coordinate:
    the self term -S/w at i = k, the off-diagonal entry f(i)/w elsewhere"""
    from pyvc.sigma import Sum
    return Sum(0, n, lambda i: sv.ite(sv.cmp("==", i, k), sv.div(sv.neg(S), w), lambda: sv.div(f(i), w)))


def rowsum_rhs(n, k, f, S, w):
    from pyvc.sigma import Sum
    others = Sum(0, n, lambda i: sv.ite(sv.cmp("==", i, k), sv.to_frac(0.0), lambda: f(i)))
    return sv.add(sv.ite(sv.and_(sv.cmp(">=", k, 0), sv.cmp("<", k, n)), sv.div(sv.neg(S), w), sv.to_frac(0.0)), sv.div(others, w))


def rowsum_lemmas():
    """induction over the number n of displaced particles, for an uninterpreted off-diagonal function f, any self term S,
    any w != 0:  rowsum_lhs(n) = rowsum_rhs(n)"""
    n, k = sv.integer("n_l"), sv.integer("k_l")
    S, w = sv.real("S_l"), sv.real("w_l")
    F = z3.Function("f_l", z3.IntSort(), z3.RealSort())

    def f(i):
        return sv.SV(F(sv.znum(i)))
    n1 = sv.add(n, 1)
    nz = sv.cmp("!=", w, 0)
    return [("lemma:row-sum-split:base(n=0)", sv.implies(nz, sv.cmp("==", rowsum_lhs(0, k, f, S, w), rowsum_rhs(0, k, f, S, w)))),
            ("lemma:row-sum-split:step(n->n+1)", sv.implies(sv.and_(nz, sv.cmp(">=", n, 0), sv.cmp("==", rowsum_lhs(n, k, f, S, w), rowsum_rhs(n, k, f, S, w))),
                                                              sv.cmp("==", rowsum_lhs(n1, k, f, S, w), rowsum_rhs(n1, k, f, S, w))))]


def extra_checks(tier, seed, repo):
    from pyvc.vc import prove_lemmas
    return {"obligations": prove_lemmas("C20", rowsum_lemmas())}


class VolumeMatrixUnit(Unit):
    """VolumeMatrix(snapshots, ndim, nconfig, deltar, transform_matrix, outputfile) at symbolic T, N, nconfig, deltar.
    Callee contract of convert_configuration (proved by ConvertConfiguration); freud's Voronoi is the assumed relational contract.
    The particle loop that fills the off-diagonal blocks is verified with a written summary (init/step obligations)."""
    module = FN
    qualname = "VolumeMatrix"
    prop = "C20"
    timeout = 90        # the d = 3 self-term / row-sum goals are decided by cvc5 in ~15 s on an idle core (z3 gives up): budget for a loaded machine
    summaries = CONVERT
    loop_opts = {"const_sum_closed": True}

    def cases(self):
        return [f"d={d}/{m}/{f}" for d in (2, 3) for m in ("raw", "transformed") for f in ("nofile", "file")]

    def _hints(self, W):
        from pyvc.loops import written_summary
        fname = f"{FN}.VolumeMatrix"
        d = W.d

        def rule(interp, s, frame, st, lo, hi, item_fn):
            import ast
            txt = ast.unparse(s)
            if "Voronoi" not in txt or "matrixA" not in txt:
                return NotImplemented
            mA, pts = frame.env.get("matrixA"), frame.env.get("points")
            if not (isinstance(mA, A.Arr) and isinstance(pts, A.Arr)):
                raise sv.EngineError("the perturbation loop no longer works on local arrays `matrixA` / `points`")
            pre_pts = st.heap[pts.sid].data

            def at_matrix(k):
                def fn(idx):
                    r, c = idx
                    i = sv.floordiv(c, d)
                    return sv.ite(sv.and_(sv.cmp("<", i, k), sv.cmp("!=", i, r)), lambda: W.entry_raw(r, c, diag_done=False), sv.to_frac(0.0))
                return fn

            def at_points(k):
                return lambda idx: pre_pts(idx)        # every displaced coordinate is moved back (in the reals, A1)
            written_summary(interp, s, frame, st, lo, hi, item_fn, {mA.sid: at_matrix, pts.sid: at_points}, label="perturbation-loop")
            return None
        return {(fname, "for", "*"): rule}

    def setup(self, ctx, case):
        d = int(case[2])
        mode, fil = case.split("/")[1], case.split("/")[2]
        tr = Traj(ctx, d)
        ctx.array_fact("BL", lambda s, c: z3.And(tr.BL(s, c) > 0, tr.BL(s, c) == tr.BB(s, c, 1) - tr.BB(s, c, 0)))
        nconfig = ctx.int("nconfig")
        ctx.assume(nconfig >= 0)
        ctx.assume(nconfig < tr.T)
        dr = ctx.real("deltar")
        ctx.assume(dr > 0)
        W = VMWorld(tr, d, nconfig, dr)
        ctx.interp.loop_hints.update(self._hints(W))
        snaps = tr.snapshots()
        out = "vm.npy" if fil == "file" else ""
        inp = dict(tr=tr, d=d, W=W, mode=mode, out=out, r=ctx.int("r"), c=ctx.int("c"), j=ctx.int("j"))
        return [snaps], dict(ndim=d, nconfig=nconfig, deltar=dr, transform_matrix=(mode == "transformed"), outputfile=out), inp

    def clause_names(self, case):
        names = ["result:array-of-the-documented-shape", "file:saved-iff-requested-and-holds-the-returned-array", "frame:inputs-not-written"]
        if "/raw/" in case:
            names += ["matrix:off-diagonal=central-difference-of-cell-volume/original-volume(frame-nconfig)",
                      "matrix:self-term=-(sum-over-the-other-displaced-particles)/original-volume",
                      "matrix:entry(r,d*i+j)-is-the-(i,j)-entry", "matrix:rows-sum-to-zero-over-each-displaced-coordinate(lemma-over-the-contract)"]
        return names

    def ensures(self, ctx, case, inp, out):
        tr, d, W, mode = inp["tr"], inp["d"], inp["W"], inp["mode"]
        r, c = inp["r"], inp["c"]
        N = tr.N
        v = out.value
        width = sv.mul(N, d)
        want_shape = (N, width) if mode == "raw" else (width, width)
        ok = isinstance(v, A.Arr) and v.ndim == 2
        shape_goal = sv.and_(*[sv.cmp("==", x, y) for x, y in zip(v.shape, want_shape)]) if ok else False
        yield "result:array-of-the-documented-shape", shape_goal
        saves = [e for e in out.state.trace if e and e[0] == "np.save"]
        if not inp["out"]:
            yield "file:saved-iff-requested-and-holds-the-returned-array", len(saves) == 0
        else:
            okf = len(saves) == 1 and saves[0][1] == inp["out"] and isinstance(saves[0][2], A.Arr) and ok and saves[0][2].ndim == 2
            if okf:
                a = saves[0][2]
                ix = (sv.fresh_int("fr"), sv.fresh_int("fc"))
                inr = sv.and_(*[sv.and_(sv.cmp(">=", i, 0), sv.cmp("<", i, dd)) for i, dd in zip(ix, a.shape)])
                yield ("file:saved-iff-requested-and-holds-the-returned-array",
                       sv.and_(*[sv.cmp("==", x, y) for x, y in zip(a.shape, v.shape)], sv.implies(inr, sv.cmp("==", a.get(ix), v.get(ix)))))
            else:
                yield "file:saved-iff-requested-and-holds-the-returned-array", False
        stores = [e for e in out.state.events if e[0] == "store" and (e[1] in out.state.origin or "input" in out.state.heap[e[1]].meta)]
        yield "frame:inputs-not-written", not stores
        if mode != "raw" or not ok:
            return
        inr = sv.and_(sv.cmp(">=", r, 0), sv.cmp("<", r, N), sv.cmp(">=", c, 0), sv.cmp("<", c, width))
        i = sv.floordiv(c, d)
        got = v.get((r, c))
        yield ("matrix:off-diagonal=central-difference-of-cell-volume/original-volume(frame-nconfig)",
               sv.implies(sv.and_(inr, sv.cmp("!=", i, r)), sv.cmp("==", got, W.entry(r, c))))
        yield ("matrix:self-term=-(sum-over-the-other-displaced-particles)/original-volume",
               sv.implies(sv.and_(inr, sv.cmp("==", i, r)), sv.cmp("==", got, W.entry(r, c))))
        # rows sum to zero over each displaced coordinate j: sum_i A[r, d i + j] = 0 — on the contract's entries
        vol = W.sys0().VOL(r)
        ii = sv.integer("i_rs")
        bridge, sums = [], []
        for j in range(d):
            S = W.offdiag_sum(r, j)
            f = (lambda j: (lambda m: W.raw(r, m, j)))(j)
            e_ij = sv.ite(sv.cmp("==", ii, r), sv.div(sv.neg(S), vol), sv.div(f(ii), vol))
            bridge.append(sv.implies(sv.and_(sv.cmp(">=", ii, 0), sv.cmp("<", ii, N), sv.cmp(">=", r, 0), sv.cmp("<", r, N)),
                                     sv.cmp("==", W.entry(r, sv.add(sv.mul(d, ii), j)), e_ij)))
            inst = sv.cmp("==", rowsum_lhs(N, r, f, S, vol), rowsum_rhs(N, r, f, S, vol))     # instance of the lemma (n = N, k = r, w = VOL_r)
            sums.append((inst, sv.implies(sv.and_(sv.cmp(">=", r, 0), sv.cmp("<", r, N), sv.cmp("!=", vol, 0)), sv.cmp("==", rowsum_lhs(N, r, f, S, vol), 0))))
        yield "matrix:entry(r,d*i+j)-is-the-(i,j)-entry", sv.and_(*bridge)
        yield ("matrix:rows-sum-to-zero-over-each-displaced-coordinate(lemma-over-the-contract)", sv.and_(*[g for _, g in sums]),
               {"assume": [x for x, _ in sums]})

    def replay(self, case, clause, model, seed):
        return _replay_volume_matrix(case, clause, model, seed)


def _replay_volume_matrix(case, clause, model, seed):
    """real VolumeMatrix against an independent computation with freud itself: frame nconfig, off-diagonal central differences,
    self term, rows summing to zero per displaced coordinate, file = returned, inputs untouched"""
    import importlib
    import os
    import shutil
    import tempfile

    import numpy as np
    M = importlib.import_module(FN)
    RUm = importlib.import_module(RU)
    import freud
    d = int(case[2])
    mode, fil = case.split("/")[1], case.split("/")[2]
    rng = np.random.default_rng(seed + 17 * d)
    tmp = tempfile.mkdtemp(prefix="pyvc-c20vm.")
    n = 0
    try:
        for kind, N, T, nconfig in (("zero", 5, 3, 1), ("any", 6, 3, 2), ("centred", 5, 1, 0), ("sum-zero", 5, 2, 1), ("any", 7, 2, 0)):
            n += 1
            S = _mk_snapshots(np, RUm, rng, N, d, T, kind)
            before = [x.positions.copy() for x in S.snapshots]
            out = os.path.join(tmp, f"vm{n}.npy") if fil == "file" else ""
            dr = 0.01
            inputs = {"d": d, "N": N, "T": T, "nconfig": nconfig, "origin": kind, "transform_matrix": mode == "transformed", "outputfile": bool(out)}
            try:
                res = M.VolumeMatrix(S, ndim=d, nconfig=nconfig, deltar=dr, transform_matrix=(mode == "transformed"), outputfile=out)
            except Exception as e:
                return {"ran": True, "failed": True, "searched": n, "inputs": inputs, "detail": f"raises {type(e).__name__}: {e}"}
            for s in range(T):
                if not np.array_equal(S.snapshots[s].positions, before[s]):
                    return {"ran": True, "failed": True, "searched": n, "inputs": inputs, "detail": f"the caller's positions of frame {s} were modified"}
            want_shape = (N, N * d) if mode == "raw" else (N * d, N * d)
            if np.asarray(res).shape != want_shape:
                return {"ran": True, "failed": True, "searched": n, "inputs": inputs, "detail": f"result shape {np.asarray(res).shape}, expected {want_shape}"}
            if out:
                if not os.path.exists(out):
                    return {"ran": True, "failed": True, "searched": n, "inputs": inputs, "detail": "no file written"}
                if not np.array_equal(np.load(out), res):
                    return {"ran": True, "failed": True, "searched": n, "inputs": inputs, "detail": "saved file differs from the returned array"}
            if mode != "raw":
                continue
            sn = S.snapshots[nconfig]
            pts = np.zeros((N, 3))
            pts[:, :d] = before[nconfig] - (sn.boxbounds[:, 0] + sn.boxlength / 2)
            box = freud.box.Box.from_box(sn.boxlength)
            vol0 = freud.locality.Voronoi().compute((box, pts)).volumes.copy()
            want = np.zeros((N, N * d))
            for i in range(N):
                for j in range(d):
                    p1 = pts.copy(); p1[i, j] += dr
                    p2 = pts.copy(); p2[i, j] -= dr
                    v1 = freud.locality.Voronoi().compute((box, p1)).volumes
                    v2 = freud.locality.Voronoi().compute((box, p2)).volumes
                    col = (v1 - v2) / 2 / dr
                    col[i] = 0.0
                    want[:, d * i + j] = col
            for i in range(N):
                for j in range(d):
                    want[i, d * i + j] = -sum(want[i, d * m + j] for m in range(N) if m != i)
            want /= vol0[:, None]
            if not np.allclose(res, want, rtol=1e-6, atol=1e-8):
                bad = np.argwhere(~np.isclose(res, want, rtol=1e-6, atol=1e-8))[0]
                return {"ran": True, "failed": True, "searched": n, "inputs": inputs,
                        "detail": f"entry {bad.tolist()}: {res[tuple(bad)]} vs independent computation on frame {nconfig}: {want[tuple(bad)]}"}
            sums = np.array([[res[r, j::d].sum() for j in range(d)] for r in range(N)])
            if not np.allclose(sums, 0.0, atol=1e-8):
                return {"ran": True, "failed": True, "searched": n, "inputs": inputs, "detail": f"rows do not sum to zero over a displaced coordinate: max |sum| = {np.abs(sums).max()}"}
        return {"ran": True, "failed": False, "searched": n}
    finally:
        shutil.rmtree(tmp, ignore_errors=True)


UNITS = [ConvertConfiguration(), CalNeighbors(), VolumeMatrixUnit()]

MANIFEST = {
    "text": "convert_configuration, cal_neighbors and VolumeMatrix (real ASTs, re-read every run) at symbolic frame number T, particle number N, box "
            "origin and lengths, d in {2,3}. convert_configuration: one box and one FRESH (N,3) point set per frame in frame order, coordinates "
            "positions - (lo + L/2) for any origin, zero z column in 2-D, box lengths of the frame, inputs not written. cal_neighbors (callee contract of "
            "convert_configuration, assumed relational contract of freud's Voronoi): three closed files with the documented names; per frame a header "
            "and one row per particle in id order `id cn v_1..v_cn` with id = i+1, cn = number of listed neighbours = number of listed weights = the "
            "count of the overall file; listed ids = tessellation neighbours + 1, weights and volumes of the tessellation of the centred frame "
            "(6 decimals); the written relation is symmetric with equal weights; the neighbour and weight files satisfy the precondition of "
            "read_neighbors (C05). VolumeMatrix at symbolic nconfig and deltar > 0: uses frame nconfig, N = its particle number, result shape, "
            "off-diagonal entries = central differences of the cell volumes / original volume, self terms = -(sum over the other displaced "
            "particles) / original volume (written loop summary with init/step obligations), rows sum to zero over each displaced coordinate (induction "
            "lemma over the contract), file saved iff requested and equal to the returned array, inputs not written.",
    "note": "floats as reals (A1); freud's tessellation is an ASSUMED relational contract (pyvc/libext/C20.py): uninterpreted CN/NBR/WGT/REV/VOL "
            "functions of the system named by the canonical piecewise form of its coordinates, with layout, symmetry, positivity and volume-sum "
            "facts; np.unique on the first column of a freud neighbour list assumed in closed form; token/file model of pyvc/text.py; np.linalg.inv "
            "of a symbolic-size matrix opaque (transformed matrix: shape and file clause only); bounded numerical confirmation of the assumed "
            "freud facts on seeded configurations is reported separately and not counted.",
}
