"""C04 — S(q): every total and partial column equals the density-mode definition.

Functions under contract: sq.unary / binary / ternary / quarternary / quinary, sq.getresults (dispatch), sq.__init__ (object
invariant: wave vectors q = 2 pi n / L, |q|, species counts), utils.wavevector.choosewavevector (default wave-vector set).

Spec (statement of C04, docs/sq.md).  N particles, T frames, K species with type ids 1..K, M supplied integer wave vectors n_m,
orthogonal cell with edge lengths L_c:
  q_m       = (2 pi n_{m,c} / L_c)_c                                   theta(s,i,m) = q_m . r_{s,i}
  rho_a(s,m) = sum_{i<N} [type_{s,i} = a] exp(-i theta(s,i,m))          (total: all particles)
  raw_ab(m) = sum_{s<T} Re[ rho_a(s,m) conj(rho_b(s,m)) ]
  S_ab(m)   = raw_ab(m) / (T sqrt(N_a N_b))      (a = b: T N_a;  total: T N)          -- per-vector value
  returned row g (one per distinct key_g of round6(|q_m|), ascending):
  S_ab[g]   = mean over { m : round6(|q_m|) = key_g } of round6(S_ab(m)).
Every column obligation is split (as for C03) into
  modes:          the Sigma-term accumulated by the real frame loop / particle loop equals raw_ab(m) at an arbitrary vector m
                  (SMT with Sigma-extensionality; the code's if/elif routing is compared with [type = a] under 1 <= type <= K);
  normalisation:  the per-vector value is raw/(T sqrt(N_a N_b)) for any value of raw (ring normal form);
  rounded:        the value that enters the |q|-average is round6 of that per-vector value;
  group-mean:     the returned column is the mean of those rounded values over the vectors with the row's key.
Default wave-vector set (choosewavevector, symbolic numofq): see ChooseWaveVectorSym / LexEnum below.
"""
import z3

from contracts.common import Traj
from pyvc import arr as A
from pyvc import sigma, sv
from pyvc.sigma import Sum
from pyvc.vc import Unit

MOD = "PyMatterSim.static.sq"
WV = "PyMatterSim.utils.wavevector"
METHODS = {1: "unary", 2: "binary", 3: "ternary", 4: "quarternary", 5: "quinary"}

NOT_DECIDED = [
    "which wave vectors share a rounded |q| for incommensurate box edges (the 1e-6 rounding is the uninterpreted round6 of the pandas contract)",
    "floating-point accuracy of exp/cos/sin and of the accumulated sums (A1: floats are reals)",
    "group means: non-emptiness of every returned group is part of the assumed groupby contract",
    "default wave-vector set: the float test `modf(sqrt(k))[0] == 0` is taken as 'k is a perfect square' (exact for k < 2**52; assumed, see "
    "TRUSTED); onlypositive='z' with ndim=2 and non-bool/str options are not specified by the documentation and not checked",
    "sum rule as an exact equality on the returned table: false in general (every per-vector value is rounded to 1e-6 before the |q|-average); "
    "proved instead: exact for the unrounded per-vector values (sum-rule:*), and |N S - sum_a N_a S_aa - 2 sum_{a<b} sqrt(N_a N_b) S_ab| <= "
    "(N + sum_{a<b} sqrt(N_a N_b)) 1e-6 on every row of the returned table (sum-rule:rounded:*)",
    "AssertionError of sq.__init__ when particle number or box change between frames (the symbolic trajectory has them constant)",
]
TRUSTED = [
    "assumed pandas contracts (pyvc/pandas_model.py): DataFrame(0, index=df.index, columns=...), column get/set, `df[c] += v`, `df[c] /= x`, "
    "join, round(6) = element-wise round6, groupby(key).mean().reset_index() = one row per distinct key with the group mean of every other "
    "column (every group non-empty), to_csv = write event",
    "exp(-i x) = cos x - i sin x with the parity normal forms cos(-x) = cos x, sin(-x) = -sin x (pyvc/sv.py), np.linalg.norm, math.sqrt",
    "Sigma unfold/extensionality axioms (pyvc/axioms.py); induction over the frame / particle number for the sum-rule and sign clauses "
    "is by explicit step obligations on the real terms (base: empty sums), the induction principle itself is trusted; the ring normaliser "
    "applies the conclusions (rho = sum_a rho_a, raw_S = sum raw_aa + 2 sum raw_ab) as rewrites",
    "loop rule of pyvc/loops.py: joined body branches (if/elif routing by type) and numeric accumulators promoted to arrays by the first "
    "iteration are summarised as sums, checked by loop-init (after the first iteration) and loop-step obligations",
    "the object invariant established by sq.__init__ (own unit) is the methods' precondition",
    "sign of the returned diagonal / total columns: proved as induction-step obligations on the real terms (frames: raw_k >= 0 -> raw_{k+1} >= 0; "
    "vectors of a group: num_k >= 0, rv_k >= 0 -> num_{k+1} >= 0) and the final step mean = num/den >= 0; trusted: the induction principle "
    "over k, and den >= 1 (every key returned by groupby().mean() is the key of at least one row: part of the assumed groupby contract)",
    "choosewavevector: math.modf(math.sqrt(k))[0] == 0  <=>  PSQ(k) ('k is a perfect square') for an integer k >= 0 (pyvc/libext/C04.py; a theorem "
    "over the reals, for floats the assumption that the correctly rounded root of a non-square below 2**52 is not an integer)",
    "choosewavevector: the ghost enumeration S of the finite set D = {p in [-h,h)^d : PSQ(p.p)} in lexicographic order with its inverse "
    "rank(p) = number of members of D before p (closed form, nested counting sums): facts (a) S(r) in D and rank(S(r)) = r for r < |D|, "
    "(b) rank(p) < |D| and S(rank(p)) = p for p in D, (c) S strictly increasing (contracts/C04.py: LexEnum) — the d-dimensional form of the "
    "engine's boolean-mask selection contract SEL/RANK (pyvc/relops.py).  (a)-(c) are derived from the closed form of rank by the lemma "
    "obligations cwv:enum:* (base / step per axis: partial sums non-negative and monotone, rank monotone and strict at members, every rank "
    "below |D| attained by a member; then (a), (b), (c) by pure logic); trusted: induction over one axis coordinate, choice of the witness "
    "function S, and that the unit's facts are instances of the lemmas' conclusions",
    "choosewavevector: the boolean-mask selections after the loops use the assumed numpy contract of a[mask] (pyvc/relops.py: SEL/RANK, "
    "increasing); the induction principle over one axis for the count-bound lemmas (|D| <= numofq^d: base and step obligations per axis)",
]


def _sum(xs):
    acc = 0
    for x in xs:
        acc = sv.add(acc, x)
    return acc


def outer_sigmas(t):
    """outermost Σ-applications of a z3 term"""
    out, seen = [], set()

    def walk(e):
        if e.get_id() in seen:
            return
        seen.add(e.get_id())
        if sigma.sigma_def_of(e) is not None:
            out.append(e)
            return
        for c in e.children():
            walk(c)
    walk(t)
    return out


# ---- specification ----------------------------------------------------------------------------------------------


class Spec:
    """the definitions of the statement over a symbolic trajectory and a symbolic integer wave-vector list"""

    def __init__(self, tr, d, K, L, nq, N, T, Na):
        self.tr, self.d, self.K, self.L, self.nq, self.N, self.T, self.Na = tr, d, K, L, nq, N, T, Na

    def qv(self, m, c):
        """component c of q_m = 2 pi n_m / L"""
        return sv.mul(sv.to_real(self.nq(m, c)), sv.div(sv.mul(2, sv.PI), self.L[c]))

    def qnorm(self, m):
        return sv.sqrt(_sum([sv.mul(self.qv(m, c), self.qv(m, c)) for c in range(self.d)]))

    def theta(self, s, i, m):
        return _sum([sv.mul(self.qv(m, c), self.tr.pos(s, i, c)) for c in range(self.d)])

    def mode(self, s, i, m):
        """exp(-i q.r)"""
        return sv.exp(sv.Cx(0, sv.neg(self.theta(s, i, m))))

    def rho(self, a, s, m, n=None):
        """density mode of species a (None: all particles) of frame s at vector m, over the first n particles (default all)"""
        n = self.N if n is None else n
        if a is None:
            return sv.as_cx(Sum(0, n, lambda i: self.mode(s, i, m)))
        return sv.as_cx(Sum(0, n, lambda i: sv.ite(sv.cmp("==", self.tr.typ(s, i), a), self.mode(s, i, m), sv.Cx(0, 0))))

    def frame_term(self, ab, s, m):
        """Re[rho_a conj(rho_b)]"""
        ra = self.rho(None if ab is None else ab[0], s, m)
        rb = self.rho(None if ab is None else ab[1], s, m)
        return sv.add(sv.mul(ra.re, rb.re), sv.mul(ra.im, rb.im))

    def raw(self, ab, m, t=None):
        t = self.T if t is None else t
        return Sum(0, t, lambda s: self.frame_term(ab, s, m))

    def norm(self, ab):
        if ab is None:
            return self.N
        a, b = ab
        if a == b:
            return self.Na[a - 1]                      # sqrt(N_a N_a) = N_a
        return sv.sqrt(sv.mul(self.Na[a - 1], self.Na[b - 1]))

    def S(self, ab, raw):
        return sv.div(raw, sv.mul(self.T, self.norm(ab)))


def columns(K):
    cols = [("Sq", None)]
    if K >= 2:
        cols += [(f"Sq{a}{a}", (a, a)) for a in range(1, K + 1)]
        cols += [(f"Sq{a}{b}", (a, b)) for a in range(1, K + 1) for b in range(a + 1, K + 1)]
    return cols


def _setup_self(ctx, d, K, outputfile, saveq, nspecies=None):
    nspecies = nspecies or K
    tr = Traj(ctx, d, same_cell=True)
    T, N = tr.T, tr.N
    M = ctx.int("M")
    ctx.assume(M >= 1)
    # "type ids are exactly 1..K"
    ctx.array_fact("TYPE", lambda s, i: z3.And(tr.TYPE(s, i) >= 1, tr.TYPE(s, i) <= nspecies))
    Na = [ctx.int(f"N_{a+1}") for a in range(nspecies)]
    for x in Na:
        ctx.assume(x >= 1)
    ctx.assume(sv.cmp("==", _sum(Na), N))          # asserted by sq.__init__
    L = [tr.bl(0, c) for c in range(d)]
    for x in L:
        ctx.assume(x > 0)
    NQ = z3.Function("NQ", z3.IntSort(), z3.IntSort(), z3.IntSort())

    def nq(m, c):
        return sv.SV(NQ(sv.znum(m), sv.znum(c)))
    sp = Spec(tr, d, K, L, nq, N, T, Na)
    snaps = tr.snapshots()
    # object invariant of sq.__init__ (SqInit unit): qvector = n * 2 pi / L (float), qvalue = |qvector|, df_qvector = the integer vectors
    qvector = ctx.array_of((M, d), lambda idx: sp.qv(idx[0], idx[1]), "float", name="qvector")
    qvalue = ctx.array_of((M,), lambda idx: sp.qnorm(idx[0]), "float", name="qvalue")
    from pyvc.pandas_model import new_df
    dfq = new_df({f"q{c}": A.new_arr((M,), lambda idx, c=c: nq(idx[0], c), "int") for c in range(d)}, [f"q{c}" for c in range(d)], M)
    typecount = A.from_nested(Na, "int")
    typenumber = A.from_nested(list(range(1, nspecies + 1)), "int")
    attrs = dict(snapshots=snaps, outputfile=outputfile, saveqvectors=saveq, nsnapshots=T, nparticle=N,
                 typenumber=typenumber, typecount=typecount, qvector=qvector, df_qvector=dfq, qvalue=qvalue)
    o = ctx.obj(MOD, "sq", attrs)
    return o, dict(tr=tr, T=T, N=N, M=M, Na=Na, L=L, d=d, K=K, nq=nq, sp=sp, nspecies=nspecies)


class Method(Unit):
    module = MOD
    prop = "C04"
    timeout = 30

    def __init__(self, K):
        self.K = K
        self.qualname = f"sq.{METHODS[K]}"

    def cases(self):
        # unary() also serves systems of more than five species (dispatch): species count 6 stands for "> 5"
        sp = ("/species=1", "/species=6") if self.K == 1 else ("",)
        return [f"d={d}/{o}{x}" for d, o in ((2, "nofile"), (3, "nofile"), (2, "file"), (3, "file+qvectors")) for x in sp]

    def setup(self, ctx, case):
        d = int(case[2])
        of = "out.csv" if "/file" in case else None
        saveq = "+qvectors" in case
        o, inp = _setup_self(ctx, d, self.K, of, saveq, nspecies=6 if case.endswith("species=6") else self.K)
        inp["outputfile"], inp["saveq"] = of, saveq
        inp["g"] = ctx.int("g")
        inp["m"] = ctx.int("m")
        inp["s0"] = ctx.int("s0")
        inp["kf"] = ctx.int("kf")
        inp["kv"] = ctx.int("kv")
        inp["kp"] = ctx.int("kp")
        return [o], {}, inp

    SUMRULE = ["sum-rule:rho=sum_a-rho_a:induction-step(particles)", "sum-rule:per-frame-identity", "sum-rule:raw:induction-step(frames)",
               "sum-rule:per-vector-values(unrounded)"]

    SUMRULE_ROUNDED = ["sum-rule:rounded:per-vector-defect<=bound", "sum-rule:rounded:group:induction-step(vectors)",
                       "sum-rule:rounded:group:linearity:unfold", "sum-rule:rounded:group:linearity:step(member)",
                       "sum-rule:rounded:group:linearity:step(non-member)", "sum-rule:rounded:returned-table:mean-of-combination",
                       "sum-rule:rounded:returned-table:|N.S-sum_a.N_a.S_aa-2.sum_ab.sqrt(N_a.N_b).S_ab|<=(N+sum_ab.sqrt(N_a.N_b)).1e-6"]

    def clause_names(self, case):
        names = ["columns", "q:key=round6|2pi n/L|", "q:returned=key", "file=returned", "qvectors-file=per-vector-values"]
        for name, ab in columns(self.K):
            names += [f"{name}:modes", f"{name}:normalisation", f"{name}:rounded", f"{name}:group-mean"]
            if ab is None or ab[0] == ab[1]:
                names += [f"{name}:per-vector-value>=0", f"{name}:raw>=0:induction-step(frames)", f"{name}:returned>=0:induction-step(vectors)",
                          f"{name}:returned>=0"]
        if self.K >= 2:
            names += self.SUMRULE + self.SUMRULE_ROUNDED
        return names

    def ensures(self, ctx, case, inp, out):
        from pyvc.interp import Ref
        from pyvc.pandas_model import df_content
        from pyvc.state import cur
        res = out.value
        K, g, m, M, sp, d = self.K, inp["g"], inp["m"], inp["M"], inp["sp"], inp["d"]
        cols = columns(K)
        want_order = ["q"] + [c for c, _ in cols]
        ok = isinstance(res, Ref) and res.kind == "df" and df_content(res)["order"] == want_order
        gb = cur().heap[res.sid].meta.get("groupby") if ok else None
        ok = bool(ok and gb is not None and A.dim_eq_syntactic(gb["n"], M) and sorted(gb["values"]) == sorted(c for c, _ in cols))
        yield "columns", ok
        if not ok:
            return
        c = df_content(res)["cols"]
        G, Kf, keys = gb["G"], gb["K"], gb["keys"]
        inm = sv.and_(sv.cmp(">=", m, 0), sv.cmp("<", m, M))
        ing = sv.and_(sv.cmp(">=", g, 0), sv.cmp("<", g, G))
        yield "q:key=round6|2pi n/L|", sv.implies(inm, sv.cmp("==", keys((m,)), sv.round_dec(sp.qnorm(m), 6))), {"ring_only": True}
        yield "q:returned=key", sv.implies(ing, sv.cmp("==", c["q"].get((g,)), Kf(g))), {"ring_only": True}
        pervec, nums, den_g = {}, {}, None
        for name, ab in cols:
            rv = gb["values"][name]((m,))
            t = sv.zr(rv)
            is_round = z3.is_app(t) and t.decl().name() == "round6"
            yield f"{name}:rounded", bool(is_round)
            v = sv.SV(t.arg(0)) if is_round else None
            sig = outer_sigmas(sv.zr(v)) if is_round else []
            if len(sig) != 1:
                yield f"{name}:modes", False
                yield f"{name}:normalisation", False
            else:
                raw = sv.SV(sig[0])
                pervec[name] = (v, raw)
                for goal in self.modes_goals(inp, ab, raw):
                    yield (f"{name}:modes",) + goal
                gn, _ = sv.generalize(sv.implies(inm, sv.cmp("==", v, sp.S(ab, raw))), [raw], "raw")
                yield f"{name}:normalisation", gn, {"ring_only": True}
                if ab is None or ab[0] == ab[1]:
                    # diagonal terms: raw = sum_s |rho_a|^2 >= 0 (modes clause + lemmas |rho|^2 >= 0, sum of non-negative terms), hence the
                    # per-vector value and its round6 are >= 0
                    gp, _ = sv.generalize(sv.implies(sv.and_(inm, sv.cmp(">=", raw, 0)), sv.cmp(">=", rv, 0)), [raw], "raw")
                    yield f"{name}:per-vector-value>=0", gp
            # the returned value: mean of the rounded per-vector values over the vectors whose key is the row's key
            kg = Kf(g)
            num = Sum(0, M, lambda t_: sv.ite(sv.cmp("==", keys((t_,)), kg), gb["values"][name]((t_,)), 0))
            den = Sum(0, M, lambda t_: sv.ite(sv.cmp("==", keys((t_,)), kg), 1, 0))
            yield f"{name}:group-mean", sv.implies(ing, sv.cmp("==", c[name].get((g,)), sv.div(num, den))), {"ring_only": True}
            nums[name], den_g = num, den
            if ab is None or ab[0] == ab[1]:
                yield from self.sign_goals(inp, name, ab, gb, kg, num, den, c[name].get((g,)), ing, inm)
        if K >= 2:
            if all(nm in pervec for nm, _ in cols):
                yield from self.sumrule_goals(inp, cols, pervec, inm)
                yield from self.sumrule_rounded_goals(inp, cols, pervec, gb, c, Kf(g), ing, inm, nums, den_g)
            else:
                for nm in self.SUMRULE + self.SUMRULE_ROUNDED:
                    yield nm, False
        # files
        writes = [e for e in out.state.trace if e[0] == "to_csv"]
        wq = [e for e in writes if e[1] == "out_qvectors.csv"]
        wr = [e for e in writes if e[1] != "out_qvectors.csv"]
        if inp["outputfile"] is None:
            yield "file=returned", len(writes) == 0
            yield "qvectors-file=per-vector-values", len(writes) == 0
            return
        good = len(wr) == 1 and wr[0][1] == inp["outputfile"] and wr[0][3] == want_order and A.dim_eq_syntactic(wr[0][5], G)
        if good:
            eqs = [sv.cmp("==", wr[0][2][nm].get((g,)), c[nm].get((g,))) for nm in want_order]
            yield "file=returned", sv.implies(ing, sv.and_(*eqs)), {"ring_only": True}
        else:
            yield "file=returned", False
        if not inp["saveq"]:
            yield "qvectors-file=per-vector-values", len(wq) == 0
        else:
            qorder = [f"q{k}" for k in range(d)] + want_order
            good = len(wq) == 1 and wq[0][3] == qorder and A.dim_eq_syntactic(wq[0][5], M) and all(nm in pervec for nm, _ in cols)
            if good:
                eqs = [sv.cmp("==", wq[0][2][f"q{k}"].get((m,)), inp["nq"](m, k)) for k in range(d)]
                eqs.append(sv.cmp("==", wq[0][2]["q"].get((m,)), sp.qnorm(m)))
                eqs += [sv.cmp("==", wq[0][2][nm].get((m,)), pervec[nm][0]) for nm, _ in cols]
                yield "qvectors-file=per-vector-values", sv.implies(inm, sv.and_(*eqs)), {"ring_only": True}
            else:
                yield "qvectors-file=per-vector-values", False

    def sign_goals(self, inp, name, ab, gb, kg, num, den, returned, ing, inm):
        """diagonal and total columns are non-negative ON THE RETURNED NUMBERS, by two inductions stated as obligations on the real terms:
        (1) frames: raw_k(m) = sum_{s<k} |rho_a(s,m)|^2 >= 0  -- base raw_0 = 0 (empty sum), step raw_k >= 0 -> raw_{k+1} >= 0; with the
            modes clause (the code's sum is raw_T(m)) and the per-vector clause (raw >= 0 -> round6(v) >= 0) every value that enters
            the |q|-average is >= 0;
        (2) vectors: num_k = sum_{t<k} [key_t = key_g] rv_t >= 0  -- base num_0 = 0, step num_k >= 0, rv_k >= 0 -> num_{k+1} >= 0;
        (3) the returned mean num_M / den is >= 0 for den >= 1 (every returned group has a member: assumed groupby contract).
        The induction principle over k is trusted (TRUSTED)."""
        sp, m, T, M, kf, kv = inp["sp"], inp["m"], inp["T"], inp["M"], inp["kf"], inp["kv"]
        keys, vals = gb["keys"], gb["values"][name]
        rk, rk1 = sp.raw(ab, m, t=kf), sp.raw(ab, m, t=sv.add(kf, 1))
        yield f"{name}:raw>=0:induction-step(frames)", \
            sv.implies(sv.and_(inm, sv.cmp(">=", kf, 0), sv.cmp("<", kf, T), sv.cmp(">=", rk, 0)), sv.cmp(">=", rk1, 0)), {"solver_opts": {"ext": False}}

        def numk(k):
            return Sum(0, k, lambda t_: sv.ite(sv.cmp("==", keys((t_,)), kg), vals((t_,)), 0))
        yield f"{name}:returned>=0:induction-step(vectors)", \
            sv.implies(sv.and_(ing, sv.cmp(">=", kv, 0), sv.cmp("<", kv, M), sv.cmp(">=", numk(kv), 0), sv.cmp(">=", vals((kv,)), 0)),
                       sv.cmp(">=", numk(sv.add(kv, 1)), 0)), {"solver_opts": {"ext": False}}
        gm, _ = sv.generalize(sv.implies(sv.and_(ing, sv.cmp(">=", num, 0), sv.cmp(">=", den, 1)), sv.cmp(">=", returned, 0)), [num, den], "nd")
        yield f"{name}:returned>=0", gm

    def sumrule_goals(self, inp, cols, pervec, inm):
        """N S = sum_a N_a S_aa + 2 sum_{a<b} sqrt(N_a N_b) S_ab on the UNROUNDED per-vector values the code computes (the values written,
        formatted %.6f, to `_qvectors.csv`), chained to the code's own terms:
        (A) rho(s,m) = sum_a rho_a(s,m) by induction over the particles (step obligation; base: empty sums; a particle of type t in 1..K
            contributes to exactly one species mode);
        (B) per frame |rho|^2 = sum_a |rho_a|^2 + 2 sum_{a<b} Re[rho_a conj rho_b]  (ring identity after rewriting rho by (A));
        (C) raw_S = sum_a raw_aa + 2 sum_{a<b} raw_ab by induction over the frames (step obligation with (B) at the new frame);
        (D) with the modes clauses (the code's sums are the raw_X) and the code's normalisations: the sum rule on the per-vector values
            (ring identity after rewriting the code's total sum by (C)).
        The induction principle over the particle / frame number is trusted."""
        sp, m, T, N, K, s0, kf, kp = inp["sp"], inp["m"], inp["T"], inp["N"], self.K, inp["s0"], inp["kf"], inp["kp"]
        ins = sv.and_(inm, sv.cmp(">=", s0, 0), sv.cmp("<", s0, T))
        sp_ab = [(a, a) for a in range(1, K + 1)] + [(a, b) for a in range(1, K + 1) for b in range(a + 1, K + 1)]
        w = lambda ab: 1 if ab[0] == ab[1] else 2

        def split(n):
            tot = sp.rho(None, s0, m, n=n)
            parts = [sp.rho(a, s0, m, n=n) for a in range(1, K + 1)]
            return sv.and_(sv.cmp("==", tot.re, _sum([p_.re for p_ in parts])), sv.cmp("==", tot.im, _sum([p_.im for p_ in parts])))
        yield self.SUMRULE[0], sv.implies(sv.and_(ins, sv.cmp(">=", kp, 0), sv.cmp("<", kp, N), split(kp)), split(sv.add(kp, 1))), \
            {"solver_opts": {"ext": False}}
        tot = sp.rho(None, s0, m)
        parts = [sp.rho(a, s0, m) for a in range(1, K + 1)]
        ident = sv.cmp("==", sp.frame_term(None, s0, m), _sum([sv.mul(w(ab), sp.frame_term(ab, s0, m)) for ab in sp_ab]))
        yield self.SUMRULE[1], sv.implies(ins, ident), {"ring_only": True, "rewrites": [(tot.re, _sum([p_.re for p_ in parts])), (tot.im, _sum([p_.im for p_ in parts]))]}

        def D(k):
            return sv.sub(sp.raw(None, m, t=k), _sum([sv.mul(w(ab), sp.raw(ab, m, t=k)) for ab in sp_ab]))
        h2 = sv.cmp("==", sp.frame_term(None, kf, m), _sum([sv.mul(w(ab), sp.frame_term(ab, kf, m)) for ab in sp_ab]))
        yield self.SUMRULE[2], sv.implies(sv.and_(inm, sv.cmp(">=", kf, 0), sv.cmp("<", kf, T), sv.cmp("==", D(kf), 0), h2), sv.cmp("==", D(sv.add(kf, 1)), 0)), \
            {"solver_opts": {"ext": False}, "abstract_nl": True}
        name_of = {ab: nm for nm, ab in cols}
        rawS = pervec[name_of[None]][1]
        rw = [(rawS, _sum([sv.mul(w(ab), pervec[name_of[ab]][1]) for ab in sp_ab]))]
        yield self.SUMRULE[3], sv.implies(inm, sv.cmp("==", self._comb(inp, lambda X: pervec[name_of[X]][0]), 0)), {"ring_only": True, "rewrites": rw}

    def _coef(self, inp):
        """columns X in the order total, diagonal, off-diagonal with sign and coefficient: + N, - N_a, - 2 sqrt(N_a N_b)"""
        sp, K = inp["sp"], self.K
        out = [(None, 1, inp["N"])]
        out += [((a, a), -1, inp["Na"][a - 1]) for a in range(1, K + 1)]
        out += [((a, b), -1, sv.mul(2, sp.norm((a, b)))) for a in range(1, K + 1) for b in range(a + 1, K + 1)]
        return out

    def _comb(self, inp, f):
        """N f(S) - sum_a N_a f(S_aa) - 2 sum_{a<b} sqrt(N_a N_b) f(S_ab)"""
        return _sum([sv.mul(sg, sv.mul(cf, f(X))) for X, sg, cf in self._coef(inp)])

    def sumrule_rounded_goals(self, inp, cols, pervec, gb, c, kg, ing, inm, nums, den):
        """the sum rule ON THE RETURNED TABLE, up to the rounding of the per-vector values: with eps = 1/2 1e-6,
        B = (N + sum_a N_a + 2 sum_{a<b} sqrt(N_a N_b)) eps = (N + sum_{a<b} sqrt(N_a N_b)) 1e-6  and
        Delta(t) = N rv_S(t) - sum_a N_a rv_aa(t) - 2 sum_{a<b} sqrt(N_a N_b) rv_ab(t)  (rv = the rounded per-vector values):
        (R1) |Delta(m)| <= B at every vector (exact sum rule of the unrounded values, |rv - v| <= eps, scaled by the coefficients >= 0);
        (R2) U_k = sum_{t<k} [key_t = key_g] Delta(t),  BD_k = sum_{t<k} [key_t = key_g] B:  |U_k| <= BD_k -> |U_{k+1}| <= BD_{k+1};
        (R3) U_k = N num_S,k - sum_a N_a num_aa,k - ...  and BD_k = B den_k  (linearity of the group sums): unfold + ring steps for a member /
             a non-member of the group;
        (R4) the returned means c_X = num_X / den:  N c_S - ... = (N num_S - ...)/den (ring), hence |N c_S - ...| <= B for den >= 1.
        Induction principle over k trusted; den >= 1 is part of the assumed groupby contract."""
        from fractions import Fraction
        sp, m, M, kv = inp["sp"], inp["m"], inp["M"], inp["kv"]
        names = self.SUMRULE_ROUNDED
        name_of = {ab: nm for nm, ab in cols}
        coef = self._coef(inp)
        EPS = Fraction(1, 2000000)
        B = sv.mul(_sum([cf for _, _, cf in coef]), EPS)
        keys = gb["keys"]
        rv = lambda X, t: gb["values"][name_of[X]]((t,))
        v = lambda X: pervec[name_of[X]][0]
        delta = lambda t: self._comb(inp, lambda X: rv(X, t))
        absle = lambda x, y: sv.and_(sv.cmp("<=", x, y), sv.cmp("<=", sv.neg(y), x))
        so = {"solver_opts": {"ext": False}, "abstract_nl": True}
        # (R1)
        exact = sv.cmp("==", self._comb(inp, v), 0)                       # clause sum-rule:per-vector-values(unrounded)
        scaled = [sv.implies(sv.and_(sv.cmp(">=", cf, 0), absle(sv.sub(rv(X, m), v(X)), EPS)),
                             absle(sv.sub(sv.mul(cf, rv(X, m)), sv.mul(cf, v(X))), sv.mul(cf, EPS))) for X, _, cf in coef]    # lemma:scaled-rounding-error
        yield names[0], sv.implies(inm, absle(delta(m), B)), dict(so, assume=[sv.implies(inm, exact)] + scaled)
        # (R2)
        member = lambda t: sv.cmp("==", keys((t,)), kg)
        U = lambda k: Sum(0, k, lambda t_: sv.ite(member(t_), delta(t_), 0))
        BD = lambda k: Sum(0, k, lambda t_: sv.ite(member(t_), B, 0))
        numk = lambda X, k: Sum(0, k, lambda t_: sv.ite(member(t_), rv(X, t_), 0))
        denk = lambda k: Sum(0, k, lambda t_: sv.ite(member(t_), 1, 0))
        ink = sv.and_(ing, sv.cmp(">=", kv, 0), sv.cmp("<", kv, M))
        k1 = sv.add(kv, 1)
        yield names[1], sv.implies(sv.and_(ink, absle(U(kv), BD(kv)), absle(delta(kv), B)), absle(U(k1), BD(k1))), so
        # (R3)
        xs = [X for X, _, _ in coef]
        grow = [sv.cmp("==", numk(X, k1), sv.add(numk(X, kv), rv(X, kv))) for X in xs] + \
               [sv.cmp("==", denk(k1), sv.add(denk(kv), 1)), sv.cmp("==", U(k1), sv.add(U(kv), delta(kv))), sv.cmp("==", BD(k1), sv.add(BD(kv), B))]
        stay = [sv.cmp("==", numk(X, k1), numk(X, kv)) for X in xs] + \
               [sv.cmp("==", denk(k1), denk(kv)), sv.cmp("==", U(k1), U(kv)), sv.cmp("==", BD(k1), BD(kv))]
        yield names[2], sv.implies(ink, sv.and_(sv.implies(member(kv), sv.and_(*grow)), sv.implies(sv.not_(member(kv)), sv.and_(*stay)))), so
        Lk = lambda k: sv.and_(sv.cmp("==", U(k), self._comb(inp, lambda X: numk(X, k))), sv.cmp("==", BD(k), sv.mul(B, denk(k))))
        ih = [(U(kv), self._comb(inp, lambda X: numk(X, kv))), (BD(kv), sv.mul(B, denk(kv)))]
        rw_grow = [(numk(X, k1), sv.add(numk(X, kv), rv(X, kv))) for X in xs] + \
                  [(denk(k1), sv.add(denk(kv), 1)), (U(k1), sv.add(U(kv), delta(kv))), (BD(k1), sv.add(BD(kv), B))]
        rw_stay = [(numk(X, k1), numk(X, kv)) for X in xs] + [(denk(k1), denk(kv)), (U(k1), U(kv)), (BD(k1), BD(kv))]
        yield names[3], Lk(k1), {"ring_only": True, "rewrites": rw_grow + ih}
        yield names[4], Lk(k1), {"ring_only": True, "rewrites": rw_stay + ih}
        # (R4)
        g = inp["g"]
        ret = lambda X: c[name_of[X]].get((g,))
        u = self._comb(inp, lambda X: nums[name_of[X]])
        mean_eq = sv.cmp("==", self._comb(inp, ret), sv.div(u, den))
        yield names[5], sv.implies(ing, mean_eq), {"ring_only": True}
        UM, BDM = Sum(0, M, lambda t_: sv.ite(member(t_), delta(t_), 0)), Sum(0, M, lambda t_: sv.ite(member(t_), B, 0))
        hyps = [absle(UM, BDM), sv.cmp("==", UM, u), sv.cmp("==", BDM, sv.mul(B, den)), sv.cmp(">=", den, 1)]      # (R2), (R3) at k = M; groupby
        quot = sv.implies(sv.and_(absle(u, sv.mul(B, den)), sv.cmp(">=", den, 1)), absle(sv.div(u, den), B))          # lemma:|u|<=B.d,d>=1=>|u/d|<=B
        gq, _ = sv.generalize(sv.implies(sv.and_(ing, mean_eq, quot, *hyps), absle(self._comb(inp, ret), B)), [sv.div(u, den), u, den, UM, BDM, B], "q")
        yield names[6], gq, so

    def modes_goals(self, inp, ab, raw):
        """raw (the Σ over frames accumulated by the code, at vector m) == sum_s Re[rho_a conj rho_b], in three small steps:
        (A) every particle sum inside the code's frame term is the real or imaginary part of a density mode rho_x(s0, m) of the
            spec at an arbitrary frame s0 (Σ-extensionality over particles; routing conditions vs [type = x] under 1 <= type <= K);
        (B) with these, the code's frame term is Re[rho_a conj rho_b] (ring identity);
        (C) hence the sums over frames agree (Σ-extensionality over frames with the pointwise fact (A)+(B))."""
        sp, m, T, s0 = inp["sp"], inp["m"], inp["T"], inp["s0"]
        inm = sv.and_(sv.cmp(">=", m, 0), sv.cmp("<", m, inp["M"]))
        ins = sv.and_(inm, sv.cmp(">=", s0, 0), sv.cmp("<", s0, T))
        sd = sigma.sigma_def_of(raw.t)
        lo, hi = raw.t.arg(0), raw.t.arg(1)
        args = [raw.t.arg(i) for i in range(2, raw.t.num_args())]
        if not (z3.is_int_value(lo) and lo.as_long() == 0 and hi.eq(sv.znum(T))):
            yield (False,)
            return
        be = sd.body_at(s0.t, args)
        subs = []
        for e in outer_sigmas(be):
            cand = self._candidate(e, inp)
            if cand is None:
                yield (False,)
                return
            yield sv.implies(ins, sv.cmp("==", sv.SV(e), cand)), {"solver_opts": {"rounds": 2}}
            subs.append((e, sv.zr(cand)))
        be2 = z3.substitute(be, *subs) if subs else be
        yield sv.implies(ins, sv.cmp("==", sv.SV(be2), sp.frame_term(ab, s0, m))), {"ring_only": True}

        def pointwise(x):
            return z3.Implies(z3.And(x >= 0, x < sv.znum(T)), sd.body_at(x, args) == sv.zr(sp.frame_term(ab, sv.SV(x), m)))
        yield sv.implies(inm, sv.cmp("==", raw, sp.raw(ab, m))), {"solver_opts": {"rounds": 1, "pointwise": [pointwise]}}

    def _candidate(self, e, inp):
        """which density-mode component of the spec a particle sum of the code should be: found by evaluating the summand's routing
        condition for every type id (proof search only — the equality itself is an obligation)"""
        sp, tr, s0, m = inp["sp"], inp["tr"], inp["s0"], inp["m"]
        sdi = sigma.sigma_def_of(e)
        v = z3.Int("cand!i")
        body = sdi.body_at(v, [e.arg(i) for i in range(2, e.num_args())])
        tapps, fns, seen, stack = [], set(), set(), [body]
        while stack:
            x = stack.pop()
            if x.get_id() in seen:
                continue
            seen.add(x.get_id())
            if z3.is_app(x):
                nm = x.decl().name()
                if nm == "TYPE":
                    tapps.append(x)
                if nm in ("cos", "sin"):
                    fns.add(nm)
                stack.extend(x.children())
        if len(fns) != 1:
            return None
        nsp = inp["nspecies"]
        sel = []
        for t0 in range(1, nsp + 1):
            b = z3.simplify(z3.substitute(body, *[(ta, z3.IntVal(t0)) for ta in tapps])) if tapps else body
            zero = (z3.is_rational_value(b) and b.numerator_as_long() == 0) or (z3.is_int_value(b) and b.as_long() == 0)
            if not zero:
                sel.append(t0)
        if len(sel) == nsp:
            a = None
        elif len(sel) == 1 and sel[0] <= self.K:
            a = sel[0]
        else:
            return None
        r = sp.rho(a, s0, m)
        if "cos" in fns:
            return r.re
        # Re[rho_a conj(rho_b)] does not depend on the sign convention of the phase: a sum of sin(+theta) is -Im rho
        t0 = sel[0]
        b = z3.simplify(z3.substitute(body, *[(ta, z3.IntVal(t0)) for ta in tapps])) if tapps else body
        minus = z3.simplify(b + sv.zr(sp.mode(s0, sv.SV(v), m).im))
        if (z3.is_rational_value(minus) and minus.numerator_as_long() == 0):
            return sv.neg(r.im)
        return r.im

    def replay(self, case, clause, model, seed):
        return _replay_sq(self.K, int(case[2]), clause, model, seed, nspecies=6 if case.endswith("species=6") else self.K,
                          outfile="/file" in case, saveq="+qvectors" in case)


def brute_force_sq(np, positions, types, L, qint, K):
    """independent evaluation of the statement: per-vector S_ab(m), then round(6), group by round(|q|, 6), mean.
    positions: list over frames of (N, d) arrays; types: (N,) ids; L: (d,) edges; qint: (M, d) integer wave vectors.
    -> (keys ascending, {column: group means}, {column: per-vector values}, |q| per vector)"""
    types = np.asarray(types)
    tyf = types if types.ndim == 2 else np.stack([types] * len(positions))      # species membership frame by frame
    types = tyf[0]
    T, N = len(positions), tyf.shape[1]
    q = qint.astype(float) * (2 * np.pi / L)[None, :]
    qn = np.sqrt((q ** 2).sum(axis=1))
    per = {}
    rho = {}
    for a in [None] + list(range(1, K + 1)):
        r = np.zeros((T, len(q)), dtype=complex)
        for s in range(T):
            for i in range(N):
                if a is None or tyf[s][i] == a:
                    r[s] += np.exp(-1j * (q @ positions[s][i]))
        rho[a] = r
    for name, ab in columns(K):
        a, b = (None, None) if ab is None else ab
        na = N if a is None else int((types == a).sum())
        nb = N if b is None else int((types == b).sum())
        per[name] = (rho[a] * np.conj(rho[b])).real.sum(axis=0) / T / np.sqrt(float(na) * float(nb))
    kq = np.round(qn, 6)
    keys = np.unique(kq)
    out = {}
    for name in per:
        rv = np.round(per[name], 6)
        out[name] = np.array([rv[kq == k].mean() for k in keys])
    return keys, out, per, qn


def _replay_sq(K, d, clause, model, seed, nspecies=None, outfile=False, saveq=False, via_getresults=False):
    """real sq(...).<method>() / getresults() on seeded trajectories (K species, d dims, unequal box edges, explicit integer wave-vector
    lists with repeated |q| and negative components, and the default set from qrange) against brute_force_sq"""
    import importlib
    import os
    import tempfile

    import numpy as np
    S = importlib.import_module(MOD)
    RUm = importlib.import_module("PyMatterSim.reader.reader_utils")
    nspecies = nspecies or K
    rng = np.random.default_rng(seed + 31 * K + d)
    tried = 0
    tmp = tempfile.mkdtemp(prefix="pyvc-c04-")
    try:
        for trial in range(6):
            N = int(rng.integers(nspecies + 1, nspecies + 9))
            T = int(rng.integers(1, 4))
            L = rng.uniform(3.0, 7.0, size=d)
            if trial == 1:
                L[:] = L[0]                      # cubic cell: many equal |q|
            types = np.array([1 + (i % nspecies) for i in range(N)])
            rng.shuffle(types)
            if trial in (0, 3, 4):
                # the species of an atom id may change from frame to frame at constant composition (swap Monte Carlo,
                # per-frame reordering): rho_a(q) of a frame sums over that frame's a-particles
                T = max(T, 2)
                tyf = np.stack([types] + [rng.permutation(types) for _ in range(T - 1)])
            else:
                tyf = np.stack([types] * T)
            pos = [rng.uniform(0, 1, size=(N, d)) * L for _ in range(T)]
            snaps = [RUm.SingleSnapshot(timestep=s, nparticle=N, particle_type=tyf[s].copy(), positions=pos[s].copy(), boxlength=L.copy(),
                                        boxbounds=np.column_stack([np.zeros(d), L]), realbounds=np.column_stack([np.zeros(d), L]),
                                        hmatrix=np.diag(L)) for s in range(T)]
            SN = RUm.Snapshots(nsnapshots=T, snapshots=snaps)
            kw = {}
            if trial % 3 != 2:
                M = int(rng.integers(3, 9))
                qint = rng.integers(-3, 4, size=(M, d))
                qint[0] = 0
                qint[0, 0] = 1
                if M > 2:
                    qint[1] = -qint[0]           # same |q|
                    qint[2] = np.roll(qint[0], 1)
                kw["qvector"] = qint
            else:
                kw["qrange"] = float(rng.uniform(2.5, 4.5))
                kw["onlypositive"] = bool(trial == 5)
            of = os.path.join(tmp, f"out{trial}.csv") if outfile else None
            inputs = {"K": K, "d": d, "N": N, "T": T, "types": tyf.tolist(), "boxlength": L.tolist(),
                      "positions": [p.tolist() for p in pos], **{k: (v.tolist() if hasattr(v, "tolist") else v) for k, v in kw.items()}}
            try:
                obj = S.sq(SN, outputfile=of, saveqvectors=saveq, **kw)
                qint = np.asarray(obj.df_qvector.values)
                res = obj.getresults() if via_getresults else getattr(obj, METHODS[K])()
            except Exception as e:
                return {"ran": True, "failed": True, "detail": f"raises {type(e).__name__}: {e}", "inputs": inputs}
            tried += 1
            keys, want, per, qn = brute_force_sq(np, pos, tyf, L, qint, K)
            want_cols = ["q"] + [c for c, _ in columns(K)]
            if list(res.columns) != want_cols or len(res) != len(keys):
                return {"ran": True, "failed": True, "inputs": inputs,
                        "detail": f"columns {list(res.columns)} / {len(res)} rows, expected {want_cols} / {len(keys)} rows"}
            if not np.allclose(res["q"].values, keys, rtol=0, atol=1.5e-6):
                return {"ran": True, "failed": True, "inputs": inputs, "detail": "q column is not the ascending distinct round6(|2 pi n / L|)"}
            for name, _ in columns(K):
                got = res[name].values
                if not np.allclose(got, want[name], rtol=1e-9, atol=2.5e-6):
                    kb = int(np.argmax(np.abs(got - want[name])))
                    return {"ran": True, "failed": True, "searched": tried, "inputs": inputs,
                            "detail": f"column {name}, row {kb} (|q| = {keys[kb]}): got {got[kb]!r}, expected {want[name][kb]!r} "
                                      "(mean over equal |q| of round6(frame average of Re[rho_a conj rho_b]/sqrt(N_a N_b)))"}
            # diagonal and total columns are non-negative; sum rule within the rounding of the per-vector values (1e-6 each)
            Ncnt = {a: int((tyf[0] == a).sum()) for a in range(1, K + 1)}
            wsum = float(N) + sum(Ncnt.values()) + 2 * sum(np.sqrt(Ncnt[a] * Ncnt[b]) for a in range(1, K + 1) for b in range(a + 1, K + 1))

            def sumrule_defect(tab):
                rhs = sum(Ncnt[a] * tab[f"Sq{a}{a}"] for a in range(1, K + 1)) + \
                    2 * sum(np.sqrt(Ncnt[a] * Ncnt[b]) * tab[f"Sq{a}{b}"] for a in range(1, K + 1) for b in range(a + 1, K + 1))
                return np.abs(N * tab["Sq"] - rhs)
            for name, ab in columns(K):
                if (ab is None or ab[0] == ab[1]) and not (res[name].values >= 0).all():
                    return {"ran": True, "failed": True, "searched": tried, "inputs": inputs, "detail": f"column {name} of the returned table has a negative entry"}
            if K >= 2 and nspecies == K:
                dfc = sumrule_defect({c: res[c].values for c in res.columns})
                if (dfc > wsum * 0.5e-6 * (1 + 1e-6) + 1e-9).any():
                    return {"ran": True, "failed": True, "searched": tried, "inputs": inputs,
                            "detail": f"sum rule N S = sum N_a S_aa + 2 sum sqrt(N_a N_b) S_ab violated beyond the rounding bound on the returned table: defect {dfc.max()!r}"}
                dfp = sumrule_defect(per)
                if (dfp > 1e-9 * wsum).any():
                    return {"ran": True, "failed": True, "searched": tried, "inputs": inputs, "detail": "sum rule violated by the independent per-vector values (harness error)"}
            if outfile:
                import pandas as pd
                back = pd.read_csv(of)
                if list(back.columns) != want_cols or not np.allclose(back.values, res.values, rtol=0, atol=1e-6):
                    return {"ran": True, "failed": True, "inputs": inputs, "detail": "CSV file differs from the returned table"}
                qf = of[:-4] + "_qvectors.csv"
                if saveq:
                    bq = pd.read_csv(qf)
                    okq = list(bq.columns) == [f"q{k}" for k in range(d)] + want_cols and len(bq) == len(qint) \
                        and np.allclose(bq[[f"q{k}" for k in range(d)]].values, qint) and np.allclose(bq["q"].values, qn, atol=1e-6) \
                        and all(np.allclose(bq[nm].values, per[nm], rtol=0, atol=1e-6) for nm, _ in columns(K))
                    if not okq:
                        return {"ran": True, "failed": True, "inputs": inputs, "detail": "_qvectors.csv is not the table of per-vector values"}
                    if K >= 2 and nspecies == K and (sumrule_defect({c: bq[c].values for c in bq.columns}) > wsum * 0.5e-6 * (1 + 1e-6) + 1e-9).any():
                        return {"ran": True, "failed": True, "inputs": inputs, "detail": "sum rule violated by the per-vector values of _qvectors.csv (beyond the %.6f format)"}
                elif os.path.exists(qf):
                    return {"ran": True, "failed": True, "inputs": inputs, "detail": "_qvectors.csv written although saveqvectors is False"}
    finally:
        import shutil
        shutil.rmtree(tmp, ignore_errors=True)
    return {"ran": True, "failed": False, "searched": tried}


class Dispatch(Unit):
    """sq.getresults: a system of K distinct types is handled by the K-species method for K = 1..5 and by unary() (total only)
    for more than five species (callee contracts: each method is replaced by a marker of its name)"""
    module = MOD
    qualname = "sq.getresults"
    prop = "C04"
    summaries = {f"{MOD}.sq.{m}": (lambda interp, args, kwargs, m=m: "CALLED:" + m) for m in METHODS.values()}

    def cases(self):
        return [f"K={K}" for K in (1, 2, 3, 4, 5, 6, 9)]

    def setup(self, ctx, case):
        K = int(case[2:])
        o = ctx.obj(MOD, "sq", dict(typenumber=A.from_nested(list(range(1, K + 1)), "int")))
        return [o], {}, {"K": K}

    def clause_names(self, case):
        return ["dispatch-on-number-of-species"]

    def ensures(self, ctx, case, inp, out):
        K = inp["K"]
        yield "dispatch-on-number-of-species", out.value == "CALLED:" + METHODS[K if K <= 5 else 1]

    def replay(self, case, clause, model, seed):
        K = int(case[2:])
        return _replay_sq(K if K <= 5 else 1, 3, clause, model, seed, nspecies=K, via_getresults=True)


def _cwv_summary(interp, args, kwargs):
    """callee contract of choosewavevector used by sq.__init__: requires ndim in {2,3}; returns an integer array (Mq, ndim)
    (its content is specified by the ChooseWaveVectorSym unit); the call arguments are recorded for the caller's clause"""
    from pyvc.state import cur
    names = ["ndim", "numofq", "onlypositive"]
    a = dict(zip(names, args))
    a.update(kwargs)
    a.setdefault("onlypositive", False)
    ndim = a["ndim"]
    cur().require(sv.or_(sv.cmp("==", ndim, 2), sv.cmp("==", ndim, 3)), "call:choosewavevector:pre:ndim")
    Mq = sv.integer("Mq")
    cur().assume(sv.cmp(">=", Mq, 0))
    NQ = z3.Function("NQ", z3.IntSort(), z3.IntSort(), z3.IntSort())
    cur().trace.append(("call:choosewavevector", a["ndim"], a["numofq"], a["onlypositive"]))
    return A.new_arr((Mq, int(ndim)), lambda idx: sv.SV(NQ(sv.znum(idx[0]), sv.znum(idx[1]))), "int")


class SqInit(Unit):
    """sq.__init__ establishes the object invariant the methods rely on: q_m = 2 pi n_m / L component-wise (L = box of frame 0,
    equal in all frames), |q_m|, the integer vectors kept in df_qvector, species ids / counts from np.unique, counts summing to N;
    without an explicit list the vectors come from choosewavevector(ndim, int(2 qrange / min(2 pi / L)), onlypositive)."""
    module = MOD
    qualname = "sq.__init__"
    prop = "C04"
    timeout = 20
    summaries = {f"{WV}.choosewavevector": _cwv_summary}

    def cases(self):
        return [f"d={d}/{q}" for d in (2, 3) for q in ("explicit-qvector", "default-qvector")]

    def setup(self, ctx, case):
        d = int(case[2])
        tr = Traj(ctx, d, same_cell=True, same_types=False)
        L = [tr.bl(0, c) for c in range(d)]
        for x in L:
            ctx.assume(x > 0)
        snaps = tr.snapshots()
        o = ctx.obj(MOD, "sq", {})
        NQ = z3.Function("NQ", z3.IntSort(), z3.IntSort(), z3.IntSort())

        def nq(m, c):
            return sv.SV(NQ(sv.znum(m), sv.znum(c)))
        inp = dict(tr=tr, d=d, L=L, nq=nq, self=o, m=ctx.int("m"), k=ctx.int("k"))
        kwargs = {}
        if "explicit" in case:
            M = ctx.int("M")
            ctx.assume(M >= 0)
            kwargs["qvector"] = ctx.array_of((M, d), lambda idx: nq(idx[0], idx[1]), "int", name="qvector")
            inp["M"] = M
        else:
            inp["M"] = sv.integer("Mq")
            qr = ctx.real("qrange")
            ctx.assume(qr > 0)
            op = ctx.bool("onlypositive")
            kwargs["qrange"], kwargs["onlypositive"] = qr, op
            inp["qrange"], inp["onlypositive"] = qr, op
        kwargs["outputfile"] = "out.csv"
        return [o, snaps], kwargs, inp

    def clause_names(self, case):
        return ["q=2pi n/L", "|q|", "df_qvector=integer-vectors", "N,T", "typecount=species-counts", "attributes"] + \
            (["default-set=choosewavevector(ndim, int(2 qrange/min(2pi/L)), onlypositive)"] if "default" in case else [])

    def ensures(self, ctx, case, inp, out):
        from pyvc.interp import Ref
        from pyvc.pandas_model import df_content
        o, d, L, nq, m, k, M, tr = inp["self"], inp["d"], inp["L"], inp["nq"], inp["m"], inp["k"], inp["M"], inp["tr"]
        a = o.content
        sp = Spec(tr, d, None, L, nq, tr.N, tr.T, None)
        need = ["snapshots", "outputfile", "saveqvectors", "nsnapshots", "nparticle", "typenumber", "typecount", "qvector", "df_qvector", "qvalue"]
        ok = all(n in a for n in need) and isinstance(a["qvector"], A.Arr) and isinstance(a["qvalue"], A.Arr) \
            and isinstance(a["df_qvector"], Ref) and a["df_qvector"].kind == "df" and a["outputfile"] == "out.csv" and a["saveqvectors"] is False
        yield "attributes", bool(ok)
        if not ok:
            return
        inm = sv.and_(sv.cmp(">=", m, 0), sv.cmp("<", m, M))
        qv, qn = a["qvector"], a["qvalue"]
        shape_ok = qv.ndim == 2 and A.dim_eq_syntactic(qv.shape[0], M) and A.dim_eq_syntactic(qv.shape[1], d) and qv.dtype == "float" \
            and qn.ndim == 1 and A.dim_eq_syntactic(qn.shape[0], M)
        if shape_ok:
            yield "q=2pi n/L", sv.implies(inm, sv.and_(*[sv.cmp("==", qv.get((m, c)), sp.qv(m, c)) for c in range(d)])), {"ring_only": True}
            yield "|q|", sv.implies(inm, sv.cmp("==", qn.get((m,)), sp.qnorm(m))), {"ring_only": True}
        else:
            yield "q=2pi n/L", False
            yield "|q|", False
        dq = df_content(a["df_qvector"])
        if dq["order"] == [f"q{c}" for c in range(d)] and A.dim_eq_syntactic(dq["n"], M):
            yield "df_qvector=integer-vectors", sv.implies(inm, sv.and_(*[sv.cmp("==", dq["cols"][f"q{c}"].get((m,)), nq(m, c)) for c in range(d)])), {"ring_only": True}
        else:
            yield "df_qvector=integer-vectors", False
        yield "N,T", sv.and_(sv.cmp("==", a["nparticle"], tr.N), sv.cmp("==", a["nsnapshots"], tr.T))
        tn, tc = a["typenumber"], a["typecount"]
        if isinstance(tn, A.Arr) and isinstance(tc, A.Arr) and tn.ndim == 1 and tc.ndim == 1 and A.dim_eq_syntactic(tn.shape[0], tc.shape[0]):
            U = tn.shape[0]
            cnt = Sum(0, tr.N, lambda i: sv.ite(sv.cmp("==", tr.typ(0, i), tn.get((k,))), 1, 0))
            yield "typecount=species-counts", sv.implies(sv.and_(sv.cmp(">=", k, 0), sv.cmp("<", k, U)), sv.cmp("==", tc.get((k,)), cnt)), {"ring_only": True}
        else:
            yield "typecount=species-counts", False
        if "default" in case:
            calls = [e for e in out.state.trace if e[0] == "call:choosewavevector"]
            if len(calls) != 1:
                yield "default-set=choosewavevector(ndim, int(2 qrange/min(2pi/L)), onlypositive)", False
            else:
                _, ndim, numofq, onlypos = calls[0]
                tp = [sv.div(sv.mul(2, sv.PI), x) for x in L]
                mn = tp[0]
                for x in tp[1:]:
                    mn = sv.minv(mn, x)
                want = sv.trunc(sv.div(sv.mul(inp["qrange"], 2), mn))
                same_flag = isinstance(onlypos, sv.SV) and onlypos.t.eq(inp["onlypositive"].t)
                yield "default-set=choosewavevector(ndim, int(2 qrange/min(2pi/L)), onlypositive)", \
                    sv.and_(sv.cmp("==", ndim, d), sv.cmp("==", numofq, want), bool(same_flag))

    def replay(self, case, clause, model, seed):
        import importlib

        import numpy as np
        S = importlib.import_module(MOD)
        RUm = importlib.import_module("PyMatterSim.reader.reader_utils")
        W = importlib.import_module(WV)
        d = int(case[2])
        rng = np.random.default_rng(seed + d)
        for trial in range(8):
            N = int(rng.integers(2, 12))
            T = int(rng.integers(1, 4))
            L = rng.uniform(3.0, 9.0, size=d)
            K = int(rng.integers(1, 5))
            types = rng.integers(1, K + 1, size=N)
            snaps = [RUm.SingleSnapshot(timestep=s, nparticle=N, particle_type=types.copy(), positions=rng.uniform(0, 1, size=(N, d)) * L,
                                        boxlength=L.copy(), boxbounds=np.column_stack([np.zeros(d), L]), realbounds=np.column_stack([np.zeros(d), L]),
                                        hmatrix=np.diag(L)) for s in range(T)]
            SN = RUm.Snapshots(nsnapshots=T, snapshots=snaps)
            inputs = {"d": d, "N": N, "T": T, "boxlength": L.tolist(), "types": types.tolist()}
            try:
                if "explicit" in case:
                    qint = rng.integers(-4, 5, size=(int(rng.integers(1, 7)), d))
                    inputs["qvector"] = qint.tolist()
                    obj = S.sq(SN, qvector=qint, outputfile="out.csv")
                else:
                    qr = float(rng.uniform(2.0, 5.0))
                    op = bool(trial % 2)
                    inputs.update(qrange=qr, onlypositive=op)
                    obj = S.sq(SN, qrange=qr, onlypositive=op, outputfile="out.csv")
                    qint = W.choosewavevector(d, int(qr * 2.0 / (2 * np.pi / L).min()), op)
            except Exception as e:
                return {"ran": True, "failed": True, "inputs": inputs, "detail": f"raises {type(e).__name__}: {e}"}
            want_q = qint.astype(float) * (2 * np.pi / L)[None, :]
            vals, cnts = [], []
            for v in sorted(set(types.tolist())):
                vals.append(v)
                cnts.append(int((types == v).sum()))
            bad = None
            if obj.qvector.shape != want_q.shape or not np.allclose(obj.qvector, want_q, rtol=1e-12):
                bad = "qvector is not 2 pi n / L component-wise"
            elif not np.allclose(obj.qvalue, np.sqrt((want_q ** 2).sum(axis=1)), rtol=1e-12):
                bad = "qvalue is not |q|"
            elif list(obj.df_qvector.columns) != [f"q{c}" for c in range(d)] or not np.array_equal(np.asarray(obj.df_qvector.values), qint):
                bad = "df_qvector does not hold the integer wave vectors"
            elif obj.nparticle != N or obj.nsnapshots != T:
                bad = "nparticle / nsnapshots"
            elif list(obj.typenumber) != vals or list(obj.typecount) != cnts:
                bad = "typenumber / typecount are not the species ids and their counts"
            if bad:
                return {"ran": True, "failed": True, "inputs": inputs, "detail": bad}
        return {"ran": True, "failed": False, "searched": 8}


def cwv_spec(ndim, numofq, onlypositive):
    """the documented default set: every integer vector of [-floor(n/2), floor(n/2))^d (the n values per axis of the documented range)
    that is non-zero and has an integer norm, once; onlypositive=True keeps the vectors with all components >= 0; 'x'/'y'/'z' keeps
    the positive multiples of that axis vector.  Sorted list of tuples."""
    import itertools
    import math
    nh = int(numofq / 2)
    out = []
    for v in itertools.product(range(-nh, nh), repeat=ndim):
        k = sum(c * c for c in v)
        if k == 0 or math.isqrt(k) ** 2 != k:
            continue
        if onlypositive is True and min(v) < 0:
            continue
        if isinstance(onlypositive, str):
            ax = "xyz".index(onlypositive)
            if not (v[ax] > 0 and all(c == 0 for j, c in enumerate(v) if j != ax)):
                continue
        out.append(tuple(v))
    return sorted(out)


def cwv_spec_fast(np, ndim, numofq, onlypositive):
    """cwv_spec for large numofq with numpy integer arithmetic (same definition: exact integer square test), rows in lexicographic order"""
    nh = int(numofq / 2)
    ax = np.arange(-nh, nh, dtype=np.int64)
    grids = np.meshgrid(*([ax] * ndim), indexing="ij")
    v = np.stack([g.ravel() for g in grids], axis=1)                 # C order of "ij" grids = lexicographic order
    k = (v * v).sum(axis=1)
    r = np.floor(np.sqrt(k.astype(np.float64))).astype(np.int64)
    sq = ((r * r == k) | ((r + 1) * (r + 1) == k) | ((r - 1) * (r - 1) == k)) & (k > 0)
    if onlypositive is True:
        sq &= (v >= 0).all(axis=1)
    if isinstance(onlypositive, str):
        a = "xyz".index(onlypositive)
        others = [c for c in range(ndim) if c != a]
        sq &= (v[:, a] > 0) & (v[:, others] == 0).all(axis=1)
    return [tuple(int(x) for x in row) for row in v[sq]]


CWV_OPTS = {2: (False, True, "x", "y"), 3: (False, True, "x", "y", "z")}


def _replay_cwv(model=None, seed=0):
    """real choosewavevector against the documented set (independent implementation): the returned array must be a 2-D integer array whose
    rows are EXACTLY the list cwv_spec(...) - same vectors, same (lexicographic) order, no duplicates.  Inputs: the solver model's numofq
    first, every numofq <= 14 (2-D) / <= 10 (3-D), seeded larger ones, and one 2-D case large enough for a tolerance in the integer-norm
    test to matter (numofq = 1004: |(501, 1)| = 501.000998)."""
    import importlib
    import random

    import numpy as np
    W = importlib.import_module(WV)
    rng = random.Random(seed)
    todo = []
    try:
        mq = int((model or {}).get("numofq"))
        if 0 <= mq <= 60:
            todo += [(d, mq, o, True) for d in (2, 3) for o in CWV_OPTS[d] if d == 2 or mq <= 24]
    except (TypeError, ValueError):
        pass
    for d in (2, 3):
        todo += [(d, n, o, False) for n in range(0, 15 if d == 2 else 11) for o in CWV_OPTS[d]]
        todo += [(d, rng.randint(15, 60) if d == 2 else rng.randint(11, 20), rng.choice(CWV_OPTS[d]), False) for _ in range(4)]
    todo.append((2, 1004, False, False))
    n_checked = 0
    for d, n, o, from_model in todo:
        inputs = {"ndim": d, "numofq": n, "onlypositive": o}
        try:
            got = W.choosewavevector(d, n, o)
        except Exception as e:
            return {"ran": True, "failed": True, "inputs": inputs, "from_model": from_model, "detail": f"raises {type(e).__name__}: {e}"}
        want = cwv_spec(d, n, o) if n <= 40 else cwv_spec_fast(np, d, n, o)
        n_checked += 1
        got = np.asarray(got)
        if got.ndim != 2 or got.shape[1] != d or not np.issubdtype(got.dtype, np.integer):
            return {"ran": True, "failed": True, "inputs": inputs, "from_model": from_model,
                    "detail": f"result has shape {got.shape} and dtype {got.dtype}, expected an integer array (M, {d})"}
        rows = [tuple(int(x) for x in r) for r in got]
        if rows != want:
            sw = set(want)
            extra = [r for r in rows if r not in sw][:3]
            missing = [r for r in want if r not in set(rows)][:3]
            dup = len(rows) != len(set(rows))
            first = next((k for k, (a, b2) in enumerate(zip(rows, want)) if a != b2), min(len(rows), len(want)))
            return {"ran": True, "failed": True, "inputs": inputs, "from_model": from_model, "searched": n_checked,
                    "detail": f"{len(rows)} rows, expected {len(want)}; not in the documented set: {extra}; missing: {missing}; duplicates: {dup}; "
                              f"first difference at row {first}: got {rows[first] if first < len(rows) else None}, expected "
                              f"{want[first] if first < len(want) else None} (rows must be in the lexicographic order of the loops)"}
    return {"ran": True, "failed": False, "searched": n_checked}


# ---- choosewavevector for symbolic numofq ---------------------------------------------------------------------------


def _lex_lt(p, q):
    """p < q in lexicographic order (tuples of integer values)"""
    out = False
    for c in reversed(range(len(p))):
        out = sv.or_(sv.cmp("<", p[c], q[c]), sv.and_(sv.cmp("==", p[c], q[c]), out))
    return out


class LexEnum:
    """Ghost objects of the specification.  Box B = [-h, h)^d, documented set  D = {p in B : p.p is a perfect square}  (it contains 0).

      V(p)          p.p is a perfect square                                       (PSQ of pyvc/libext/C04.py, uninterpreted)
      below(L, pre) number of members of D whose first L+1 coordinates are `pre`   (nested counting sums, closed form)
      rank(p)       = sum_{L<d} sum_{t=-h}^{p_L-1} below(L, (p_0..p_{L-1}, t))      the number of members of D that precede p in
                    lexicographic order; defined for every p of [-h, h]^d (a coordinate h = one past the end of its axis)
      CNT           = rank(h, -h, .., -h) = |D|
      S(r, c)       coordinate c of the r-th member of D in lexicographic order, 0 <= r < CNT

    rank and CNT are closed forms (Sigma-terms, nothing assumed).  S is the increasing enumeration of the finite set D; its defining
    facts are the ones of the engine's boolean-mask selection (pyvc/relops.py: SEL/RANK) stated for d-dimensional positions:
      (a) 0 <= r < CNT           ->  S(r) in B, V(S(r)), RK(S(r)) = r
      (b) p in B, V(p)           ->  0 <= RK(p) < CNT, S(RK(p)) = p
      (c) 0 <= r < r' < CNT      ->  S(r) <lex S(r')
    with RK(p) = rank(p) (RK is the same closed form under a function symbol, so that the facts are instantiated per application).
    (a)-(c) are theorems about finite sets; they are DERIVED from the closed form `rank` by the lemma obligations of `cwv_enum_lemmas`
    (partial sums non-negative and monotone, rank monotone and strict at members, every rank below CNT attained: base / step obligations
    per axis, then (a), (b), (c) by pure logic with S := the witness function of the existence lemma).  What remains trusted is the
    induction principle over one axis coordinate and the choice of a witness function.  CNT <= numofq^d: `cwv_lemmas`."""

    def __init__(self, d, h):
        self.d, self.h = d, h
        I = z3.IntSort()
        self.RK = z3.Function(f"LEXRANK{d}", *([I] * d), I)
        self.SF = z3.Function(f"LEXSEL{d}", I, I, I)
        self.lo = sv.neg(h)
        # every closed form and fact is built ONCE over placeholder constants and instantiated by substitution (the Sigma-terms are
        # applications whose parameters are explicit arguments), so that the same sum is always the same term
        self._P = [z3.Int(f"lex!p{c}") for c in range(d)]
        self._R = [z3.Int("lex!r"), z3.Int("lex!r2")]
        P = [sv.SV(x) for x in self._P]
        self._partial_t = [sv.znum(self._partial_raw(P[:L], P[L])) for L in range(d)]
        self.CNT = self.partial([], h)
        self._fact_rank_t = self._fact_rank_raw(P)
        self._fact_sel_t = self._fact_sel_raw(sv.SV(self._R[0]))
        self._fact_inc_t = self._fact_increasing_raw(sv.SV(self._R[0]), sv.SV(self._R[1]))

    @staticmethod
    def _inst(template, consts, values):
        return z3.substitute(template, *[(c, sv.znum(v.t if isinstance(v, sv.SV) else v)) for c, v in zip(consts, values)])

    def valid(self, p):
        from pyvc.libext.C04 import is_perfect_square
        return is_perfect_square(_sum([sv.mul(x, x) for x in p]))

    def in_box(self, p):
        return sv.and_(*[sv.and_(sv.cmp(">=", x, self.lo), sv.cmp("<", x, self.h)) for x in p])

    def _below_raw(self, pre):
        if len(pre) == self.d:
            return sv.ite(self.valid(pre), 1, 0)
        return Sum(self.lo, self.h, lambda t: self._below_raw(list(pre) + [t]))

    def _partial_raw(self, pre, j):
        return Sum(self.lo, j, lambda t: self._below_raw(list(pre) + [t]))

    def partial(self, pre, j):
        """sum_{t=-h}^{j-1} below(pre + [t])"""
        L = len(pre)
        return sv.wrap(self._inst(self._partial_t[L], self._P[:L + 1], list(pre) + [j]))

    def below(self, pre):
        """number of members of D whose leading coordinates are `pre`"""
        if len(pre) == self.d:
            return sv.ite(self.valid(pre), 1, 0)
        return self.partial(pre, self.h)

    def rank_closed(self, p):
        return _sum([self.partial(list(p[:L]), p[L]) for L in range(self.d)])

    def rank(self, p):
        return sv.SV(self.RK(*[sv.znum(x) for x in p]))

    def S(self, r, c):
        return sv.SV(self.SF(sv.znum(r), sv.znum(c)))

    def row(self, r):
        return [self.S(r, c) for c in range(self.d)]

    # facts (z3 terms), for explicit instantiation and for per-application instantiation (ctx.array_fact)
    def _fact_rank_raw(self, p):
        rk = self.rank(p)
        b = sv.implies(sv.and_(self.in_box(p), self.valid(p)),
                       sv.and_(sv.cmp(">=", rk, 0), sv.cmp("<", rk, self.CNT), *[sv.cmp("==", self.S(rk, c), p[c]) for c in range(self.d)]))
        return sv.zb(sv.and_(sv.cmp("==", rk, self.rank_closed(p)), b))

    def _fact_sel_raw(self, r):
        row = self.row(r)
        return sv.zb(sv.implies(sv.and_(sv.cmp(">=", r, 0), sv.cmp("<", r, self.CNT)),
                                sv.and_(self.in_box(row), self.valid(row), sv.cmp("==", self.rank(row), r))))

    def _fact_increasing_raw(self, r, r2):
        return sv.zb(sv.implies(sv.and_(sv.cmp(">=", r, 0), sv.cmp("<", r, r2), sv.cmp("<", r2, self.CNT)), _lex_lt(self.row(r), self.row(r2))))

    def fact_rank(self, p):
        return self._inst(self._fact_rank_t, self._P, list(p))

    def fact_sel(self, r):
        return self._inst(self._fact_sel_t, self._R[:1], [r])

    def fact_increasing(self, r, r2):
        return self._inst(self._fact_inc_t, self._R, [r, r2])

    def register(self, ctx):
        ctx.array_fact(self.RK.name(), lambda *p: self.fact_rank(list(p)))
        ctx.array_fact(self.SF.name(), lambda r, c: self.fact_sel(r))


def _cwv_nest(s):
    """the chain of `for` statements of choosewavevector's real AST that encloses the loop statement s (outermost first, s last), the
    array and the counter of the compaction store `A[counter] = [...]` in the innermost body (found syntactically)"""
    import ast

    from pyvc.interp import load_module
    fn = load_module(WV).defs["choosewavevector"]
    chain = None

    def walk(node, anc):
        nonlocal chain
        for ch in ast.iter_child_nodes(node):
            if ch is s:
                chain = anc + [ch]
                return
            walk(ch, anc + [ch] if isinstance(ch, ast.For) else anc)
    walk(fn, [])
    if chain is None:
        return None
    inner = s
    depth = len(chain)
    while True:
        nxt = [b for b in inner.body if isinstance(b, ast.For)]
        if len(nxt) != 1:
            break
        inner = nxt[0]
        depth += 1
    store = None
    for n in ast.walk(inner):
        if isinstance(n, ast.Assign) and len(n.targets) == 1 and isinstance(n.targets[0], ast.Subscript) \
                and isinstance(n.targets[0].value, ast.Name) and isinstance(n.targets[0].slice, ast.Name):
            store = (n.targets[0].value.id, n.targets[0].slice.id)
    return chain, depth, store


class ChooseWaveVectorSym(Unit):
    """choosewavevector(ndim, numofq, onlypositive) for SYMBOLIC numofq >= 0, d in {2,3}, onlypositive in {False, True, 'x','y'(,'z')}.

    Statement (property text + docstring): the returned rows are exactly - each once, in the lexicographic order of the loops - the
    vectors n of [-h, h)^d, h = numofq // 2, with n != 0, n.n a perfect square, all components >= 0 (onlypositive=True) resp.
    positive along the chosen axis and zero along the others ('x','y','z').

    Written loop invariant (LexEnum; init/step obligations are generated from executions of the REAL loop bodies): with the loop
    variables of the enclosing loops at v and the loop's own variable at k,
        index = rank(v.., k, -h, .., -h),     qvectors[r] = S(r) for r < index,   = 0 for index <= r < numofq^d.
    Clauses on the returned array R of length M (t, u arbitrary row indices, n an arbitrary integer vector):
      soundness     0 <= t < M  ->  R[t] in the final set
      completeness  n in the final set  ->  R[w] = n for a row w, 0 <= w < M (w = the composed ranks)
      order         0 <= t < u < M  ->  R[t] <lex R[u]      (hence no duplicates)."""
    module = WV
    qualname = "choosewavevector"
    prop = "C04"
    timeout = 30
    solver_opts = {"ext": False}       # the proofs need Sigma unfold / empty-range instances only (fewer instances: only weaker for proving)
    OPTS = CWV_OPTS

    def cases(self):
        return [f"d={d}/numofq=symbolic/onlypositive={o}" for d in (2, 3) for o in self.OPTS[d]]

    @staticmethod
    def parse(case):
        p = dict(x.split("=") for x in case.split("/"))
        o = p["onlypositive"]
        return int(p["d"]), (True if o == "True" else False if o == "False" else o)

    def setup(self, ctx, case):
        d, o = self.parse(case)
        n = ctx.int("numofq")
        ctx.assume(n >= 0)
        h = sv.floordiv(n, 2)
        E = LexEnum(d, h)
        E.register(ctx)
        ctx.interp.loop_hints[(f"{WV}.choosewavevector", "for", "*")] = lambda *a: self._loop_rule(E, n, *a)
        inp = dict(d=d, o=o, n=n, h=h, E=E, t=ctx.int("t"), u=ctx.int("u"), nv=[ctx.int(f"n_{c}") for c in range(d)])
        return [d, n, o], {}, inp

    # ---- written loop invariant
    def _loop_rule(self, E, n, interp, s, frame, st, lo, hi, item_fn):
        from pyvc.loops import written_summary
        from pyvc.state import cur
        from pyvc.sv import EngineError
        info = _cwv_nest(s)
        if info is None:
            return NotImplemented
        chain, depth, store = info
        d = E.d
        if depth != d or store is None:
            raise EngineError("choosewavevector: the loop nest is not a nest of depth ndim around a compaction store `A[counter] = [...]`")
        aname, cname = store
        arr, idx0 = frame.env.get(aname), frame.env.get(cname)
        if not isinstance(arr, A.Arr) or arr.view is not None or idx0 is None:
            raise EngineError(f"choosewavevector: `{aname}` / `{cname}` are not a local array and its fill counter")
        L = len(chain) - 1
        import ast
        outer = []
        for f in chain[:-1]:
            if not isinstance(f.target, ast.Name) or f.target.id not in frame.env:
                raise EngineError("choosewavevector: loop target is not a plain name")
            outer.append(frame.env[f.target.id])
        # the range must not be reversed (the summary's post-state is state(hi)); proved from numofq >= 0
        cur().require(sv.cmp(">=", hi, lo), "loop:range-not-reversed")

        def pos(k):
            return list(outer) + [k] + [E.lo] * (d - 1 - L)

        def index_at(k):
            return E.rank(pos(k))

        def content_at(k):
            ik = index_at(k)

            def fn(idx):
                r, c = idx
                return sv.ite(sv.cmp("<", r, ik), lambda: E.S(r, c), 0)
            return fn

        def assume_at(k):
            k1 = A.simp(sv.add(k, 1))
            facts = [E.fact_rank(pos(k)), E.fact_rank(pos(k1))]
            if L < d - 1:
                facts.append(E.fact_rank(list(outer) + [k, E.h] + [E.lo] * (d - 2 - L)))
            facts.append(self._count_bound(E, n))
            return facts
        lbl = f"loop-level-{L}"
        mark = len(st.side)
        r = written_summary(interp, s, frame, st, lo, hi, item_fn, {arr.sid: content_at}, env_at={cname: index_at}, label=lbl,
                            assume_at=assume_at)
        for sg in st.side[mark:]:
            if getattr(sg, "explicit", False) and str(sg.kind).startswith(lbl) and not getattr(sg, "clause", None):
                sg.clause = self.INVARIANT
        return r

    @staticmethod
    def _count_bound(E, n):
        """|D| <= numofq^d: instance of the induction lemmas `cwv:count-bound:*` (extra_checks)"""
        return sv.zb(sv.cmp("<=", E.CNT, sv.power(n, E.d)))

    INVARIANT = "loop-invariant:index=rank(position);rows-below-index=lexicographic-enumeration;rows-from-index-on=0"

    def clause_names(self, case):
        return [self.INVARIANT, "result:2-D-int-array", "soundness:every-row-is-a-vector-of-the-documented-set", "completeness:every-vector-of-the-documented-set-is-a-row",
                "order:rows-strictly-increasing-in-loop-order(no-duplicates)"]

    @staticmethod
    def final_set(E, o, p):
        """membership of the integer vector p in the documented default set for the option o"""
        conds = [E.in_box(p), E.valid(p), sv.or_(*[sv.cmp("!=", x, 0) for x in p])]
        if o is True:
            conds += [sv.cmp(">=", x, 0) for x in p]
        elif isinstance(o, str):
            ax = "xyz".index(o)
            conds += [sv.cmp(">", x, 0) if c == ax else sv.cmp("==", x, 0) for c, x in enumerate(p)]
        return sv.and_(*conds)

    def ensures(self, ctx, case, inp, out):
        from pyvc import relops
        names = self.clause_names(case)
        d, o, n, E, t, u, nv = inp["d"], inp["o"], inp["n"], inp["E"], inp["t"], inp["u"], inp["nv"]
        R = out.value
        if isinstance(R, A.Masked):
            R = relops.masked_to_arr(R)          # assumed contract of a[mask]: rows of the selected positions in increasing order (SEL/RANK)
        ok = isinstance(R, A.Arr) and R.ndim == 2 and A.dim_eq_syntactic(R.shape[1], d) and R.dtype == "int"
        yield names[1], bool(ok)
        if not ok:
            for nm in names[2:]:
                yield nm, False
            return
        M = R.shape[0]
        # the boolean-mask selections the code applied after the loops, innermost (applied first) to outermost
        layers, seen = [], set()
        for q in out.state.qfacts:
            if q[0] == "select-increasing":
                key = q[2](0).t.decl().name()
                if key not in seen:
                    seen.add(key)
                    layers.append(q[1:])
        row_t, row_u = [R.get((t, c)) for c in range(d)], [R.get((u, c)) for c in range(d)]
        int_t = sv.and_(sv.cmp(">=", t, 0), sv.cmp("<", t, M))
        bound = self._count_bound(E, n)
        top = E.fact_rank([E.h] + [E.lo] * (d - 1))
        yield names[2], sv.implies(int_t, self.final_set(E, o, row_t)), {"assume": [bound, top]}
        # completeness: the row that holds n is found through the ranks: w = RANK_last(.. RANK_1(rank(n)))
        w = E.rank(nv)
        for cnt, SEL, RANK in layers:
            w = RANK(w)
        row_w = [R.get((w, c)) for c in range(d)]
        yield names[3], sv.implies(self.final_set(E, o, nv), sv.and_(sv.cmp(">=", w, 0), sv.cmp("<", w, M), *[sv.cmp("==", row_w[c], nv[c]) for c in range(d)])), \
            {"assume": [bound, top, E.fact_rank(nv)]}
        # order: every selection keeps the order of the rows (assumed: SEL increasing), the enumeration S is increasing (fact (c))
        mono, a, b = [], t, u
        for cnt, SEL, RANK in reversed(layers):
            mono.append(sv.zb(sv.implies(sv.and_(sv.cmp(">=", a, 0), sv.cmp("<", a, b), sv.cmp("<", b, cnt)), sv.cmp("<", SEL(a), SEL(b)))))
            a, b = SEL(a), SEL(b)
        mono.append(E.fact_increasing(a, b))
        yield names[4], sv.implies(sv.and_(int_t, sv.cmp("<", t, u), sv.cmp("<", u, M)), _lex_lt(row_t, row_u)), {"assume": [bound, top] + mono}

    def replay(self, case, clause, model, seed):
        return _replay_cwv(model, seed)


def cwv_lemmas():
    """|D| <= numofq^d (the compaction store never leaves the buffer) by induction over each axis, innermost first: with
    P_L(pre, j) = sum_{t=-h}^{j-1} below(pre, t) and W = 2h,   0 <= P_L(pre, j) <= (j + h) W^(d-1-L)   for -h <= j <= h.
    Every level has a base and a step obligation (the step of level L uses the claim of level L+1 at j = h, i.e.
    below(pre, j) <= W^(d-1-L)); the induction principle over j is trusted.  Last: CNT = P_0((), h) <= W^d <= numofq^d."""
    out = []
    for d in (2, 3):
        n = sv.integer("numofq")
        h = sv.floordiv(n, 2)
        E = LexEnum(d, h)
        pre_ok = sv.cmp(">=", n, 0)
        c = [1]
        for m in range(1, d + 1):
            c.append(sv.mul(2, sv.mul(h, c[m - 1])))

        def claim(L, pre, x):
            m = d - 1 - L
            P = E.partial(pre, x)
            return sv.and_(sv.cmp(">=", P, 0), sv.cmp("<=", P, sv.add(sv.mul(x, c[m]), sv.mul(h, c[m]))))
        for L in range(d - 1, -1, -1):
            pre = [sv.integer(f"a_{q}") for q in range(L)]
            j = sv.integer("j")
            out.append((f"cwv:count-bound:d={d}:axis-{L}:base", sv.implies(pre_ok, claim(L, pre, E.lo))))
            hyp = [pre_ok, sv.cmp(">=", j, E.lo), sv.cmp("<", j, h), claim(L, pre, j)]
            if L < d - 1:
                hyp.append(claim(L + 1, pre + [j], h))
            out.append((f"cwv:count-bound:d={d}:axis-{L}:step", sv.implies(sv.and_(*hyp), claim(L, pre, sv.add(j, 1)))))
        out.append((f"cwv:count-bound:d={d}:|D|<=numofq^d", sv.implies(sv.and_(pre_ok, claim(0, [], h)), sv.SV(ChooseWaveVectorSym._count_bound(E, n)))))
    return out


def cwv_enum_lemmas():
    """The facts (a), (b), (c) of LexEnum derived from the closed form `rank` by explicit induction obligations (induction over one
    axis coordinate at a time; the induction principle and the choice of a witness function are what remains trusted):

      NN_L    0 <= P_L(pre, j)                           (-h <= j <= h)           base / step over j
      MONO_L  P_L(pre, j) <= P_L(pre, j2)                (-h <= j <= j2 <= h)     step over j2 (base j2 = j trivial)
      T_L     R_L(p) + [V(p)] <= below(p[:L])            (p in B)   R_L(p) = sum_{L'>=L} P_L'(p[:L'], p_L'): the rank of p inside the
              sub-box of its prefix plus one if p is a member does not exceed the number of members of the sub-box  (T_0: rank(p) + [V(p)] <= CNT)
      M_L0    p[:L0] = q[:L0], p_L0 < q_L0  ->  rank(p) + [V(p)] <= rank(q)       (p, q in B)   monotonicity of rank, strict at members
      EX_L    base_L(pre) <= r < base_L(pre) + P_L(pre, j)  ->  a member p of D with prefix pre, p_L < j, rank(p) = r exists
              (witness function W_L(pre, j, r)); base / step over j, the step of level L uses EX_{L+1}(pre + [j], h)
      (a)     = EX_0((), h) with S(r) := W_0(h, r);   (b), (c): from (a), T_0, NN and M by pure logic (one obligation each)."""
    out = []
    for d in (2, 3):
        n = sv.integer("numofq")
        h = sv.floordiv(n, 2)
        E = LexEnum(d, h)
        lo = E.lo
        pre_ok = sv.cmp(">=", n, 0)
        tag = f"cwv:enum:d={d}"

        def inax(x):
            return sv.and_(sv.cmp(">=", x, lo), sv.cmp("<", x, h))

        def ind(p):
            return sv.ite(E.valid(p), 1, 0)

        def R(L, p):
            return _sum([E.partial(list(p[:q]), p[q]) for q in range(L, d)])

        def nn(pre, x):
            """NN at (pre, x): conclusion of the induction"""
            return sv.implies(sv.and_(sv.cmp(">=", x, lo), sv.cmp("<=", x, h)), sv.cmp(">=", E.partial(pre, x), 0))

        def mono(pre, x, y):
            return sv.implies(sv.and_(sv.cmp(">=", x, lo), sv.cmp("<=", x, y), sv.cmp("<=", y, h)), sv.cmp("<=", E.partial(pre, x), E.partial(pre, y)))

        def below_nonneg(pre_j):
            """below(pre + [j]) >= 0: by its form (an indicator) on the last axis, else NN_{L+1} at the full axis"""
            return True if len(pre_j) == d else nn(pre_j, h)
        # ---- NN, MONO
        for L in range(d - 1, -1, -1):
            pre = [sv.integer(f"a_{q}") for q in range(L)]
            j, j2 = sv.integer("j"), sv.integer("j2")
            out.append((f"{tag}:partial-sums-nonnegative:axis-{L}:base", sv.implies(pre_ok, sv.cmp(">=", E.partial(pre, lo), 0))))
            out.append((f"{tag}:partial-sums-nonnegative:axis-{L}:step",
                        sv.implies(sv.and_(pre_ok, inax(j), sv.cmp(">=", E.partial(pre, j), 0), below_nonneg(pre + [j])),
                                   sv.cmp(">=", E.partial(pre, sv.add(j, 1)), 0))))
            out.append((f"{tag}:partial-sums-monotone:axis-{L}:step",
                        sv.implies(sv.and_(pre_ok, sv.cmp(">=", j, lo), sv.cmp("<=", j, j2), sv.cmp("<", j2, h), sv.cmp("<=", E.partial(pre, j), E.partial(pre, j2)),
                                           below_nonneg(pre + [j2])),
                                   sv.cmp("<=", E.partial(pre, j), E.partial(pre, sv.add(j2, 1))))))
        # ---- T_L
        p = [sv.integer(f"p_{c}") for c in range(d)]
        q = [sv.integer(f"q_{c}") for c in range(d)]
        inB = lambda v: sv.and_(*[inax(x) for x in v])

        def T(L, v):
            return sv.cmp("<=", sv.add(R(L, v), ind(v)), E.below(list(v[:L])))
        for L in range(d - 1, -1, -1):
            hyp = [pre_ok, inB(p), mono(list(p[:L]), sv.add(p[L], 1), h)]
            if L + 1 < d:
                hyp.append(T(L + 1, p))
            out.append((f"{tag}:rank-in-sub-box+member<=size-of-sub-box:level-{L}", sv.implies(sv.and_(*hyp), T(L, p))))
        # ---- M_L0

        def M(L0, u, v):
            same = [sv.cmp("==", u[c], v[c]) for c in range(L0)]
            return sv.implies(sv.and_(inB(u), inB(v), *same, sv.cmp("<", u[L0], v[L0])), sv.cmp("<=", sv.add(E.rank_closed(u), ind(u)), E.rank_closed(v)))
        for L0 in range(d):
            hyp = [pre_ok, mono(list(p[:L0]), sv.add(p[L0], 1), q[L0])]
            if L0 + 1 < d:
                hyp.append(sv.implies(inB(p), T(L0 + 1, p)))
            hyp += [nn(list(q[:c]), q[c]) for c in range(L0 + 1, d)]
            out.append((f"{tag}:rank-monotone(strict-at-members):first-difference-at-axis-{L0}", sv.implies(sv.and_(*hyp), M(L0, p, q))))
        # ---- EX_L
        I = z3.IntSort()
        Wf = [z3.Function(f"LEXWIT{d}_{L}", *([I] * (L + 3)), I) for L in range(d)]      # (pre.., j, r, c)

        def W(L, pre, j, r):
            return [sv.SV(Wf[L](*[sv.znum(x) for x in list(pre) + [j, r, c]])) for c in range(d)]

        def base(L, pre):
            return _sum([E.partial(list(pre[:c]), pre[c]) for c in range(L)])

        def interval(L, pre, j, r):
            b = base(L, pre)
            return sv.and_(sv.cmp("<=", b, r), sv.cmp("<", r, sv.add(b, E.partial(pre, j))))

        def OK(L, pre, j, r, w):
            return sv.and_(inB(w), E.valid(w), *[sv.cmp("==", w[c], pre[c]) for c in range(L)], sv.cmp("<", w[L], j), sv.cmp("==", E.rank_closed(w), r))

        def EX(L, pre, j, r):
            return sv.implies(interval(L, pre, j, r), OK(L, pre, j, r, W(L, pre, j, r)))
        r = sv.integer("r")
        for L in range(d - 1, -1, -1):
            pre = [sv.integer(f"a_{c}") for c in range(L)]
            j = sv.integer("j")
            box_pre = sv.and_(*[inax(x) for x in pre]) if pre else True
            out.append((f"{tag}:every-rank-is-attained:axis-{L}:base", sv.implies(sv.and_(pre_ok, box_pre), sv.not_(interval(L, pre, lo, r)))))
            j1 = sv.add(j, 1)
            old = interval(L, pre, j, r)
            # ranks of the old interval: the witness of the induction hypothesis serves (its coordinate L is < j < j+1)
            out.append((f"{tag}:every-rank-is-attained:axis-{L}:step(old-ranks)",
                        sv.implies(sv.and_(pre_ok, box_pre, inax(j), EX(L, pre, j, r), old), OK(L, pre, j1, r, W(L, pre, j, r)))))
            # new ranks: the member (pre, j) itself on the last axis, else the witness of the next level in the sub-box (pre, j)
            hyp = [pre_ok, box_pre, inax(j), interval(L, pre, j1, r), sv.not_(old)]
            if L == d - 1:
                wnew = pre + [j]
            else:
                hyp.append(EX(L + 1, pre + [j], h, r))
                wnew = W(L + 1, pre + [j], h, r)
            out.append((f"{tag}:every-rank-is-attained:axis-{L}:step(new-ranks)", sv.implies(sv.and_(*hyp), OK(L, pre, j1, r, wnew))))
        # ---- (a), (b), (c) for S(r) := W_0(h, r)
        S = lambda x: W(0, [], h, x)
        a_fact = lambda x, row: sv.implies(sv.and_(sv.cmp(">=", x, 0), sv.cmp("<", x, E.CNT)),
                                           sv.and_(inB(row), E.valid(row), sv.cmp("==", E.rank_closed(row), x)))
        out.append((f"{tag}:(a):S(r)-is-a-member-of-rank-r", sv.implies(sv.and_(pre_ok, EX(0, [], h, r)), a_fact(r, S(r)))))
        Mgen = lambda u, v: sv.and_(*[M(L0, u, v) for L0 in range(d)])
        rp = E.rank_closed(p)
        nn_rank = sv.and_(*[nn(list(p[:c]), p[c]) for c in range(d)])
        hyp_b = [pre_ok, inB(p), E.valid(p), T(0, p), nn_rank, a_fact(rp, q), Mgen(p, q), Mgen(q, p)]
        out.append((f"{tag}:(b):S(rank(p))=p-and-rank(p)<|D|",
                    sv.implies(sv.and_(*hyp_b), sv.and_(sv.cmp(">=", rp, 0), sv.cmp("<", rp, E.CNT), *[sv.cmp("==", q[c], p[c]) for c in range(d)]))))
        r2 = sv.integer("r2")
        hyp_c = [pre_ok, sv.cmp(">=", r, 0), sv.cmp("<", r, r2), sv.cmp("<", r2, E.CNT), a_fact(r, p), a_fact(r2, q), Mgen(q, p)]
        out.append((f"{tag}:(c):S-strictly-increasing", sv.implies(sv.and_(*hyp_c), _lex_lt(p, q))))
    return out


UNITS = [Method(K) for K in (5, 4, 3, 2, 1)] + [Dispatch(), SqInit(), ChooseWaveVectorSym()]
def extra_checks(tier, seed, repo):
    """lemmas on fresh symbols: the algebra behind the sum rule / the sign of the diagonal terms, and the induction lemmas of the default
    wave-vector set (|D| <= numofq^d).  No bounded stand-in is left: choosewavevector is under contract for symbolic numofq."""
    from pyvc.vc import prove_lemmas
    return {"obligations": prove_lemmas("C04", lemmas() + cwv_lemmas()) + prove_lemmas("C04", cwv_enum_lemmas(), opts={"ext": False}), "bounded": []}


def replay_extra(rec):
    if "choosewavevector" in rec.get("obligation", "") or ":cwv:" in rec.get("obligation", ""):
        return _replay_cwv(rec.get("model"), int(rec.get("seed") or 0))
    return {"ran": False, "failed": False, "error": "no replay for this obligation"}


def lemmas():
    """lemmas on fresh symbols (no assumptions): the algebra behind "diagonal terms are non-negative" and the sum rule
    N S = sum_a N_a S_aa + 2 sum_{a<b} sqrt(N_a N_b) S_ab (before rounding), each as base/step of the inductions over particles / frames"""
    out = []
    x, y, S, f = sv.real("x"), sv.real("y"), sv.real("S_k"), sv.real("f_k")
    out.append(("lemma:|rho|^2=re^2+im^2>=0", sv.cmp(">=", sv.add(sv.mul(x, x), sv.mul(y, y)), 0)))
    out.append(("lemma:sum-of-non-negative-terms:induction-step", sv.implies(sv.and_(S >= 0, f >= 0), sv.cmp(">=", sv.add(S, f), 0))))
    raw, T, Na = sv.real("raw"), sv.integer("T"), sv.integer("N_a")
    out.append(("lemma:raw>=0=>S_aa>=0", sv.implies(sv.and_(raw >= 0, T >= 1, Na >= 1), sv.cmp(">=", sv.mul(sv.div(raw, sv.mul(T, Na)), sv.mul(T, Na)), 0))))
    cc, rr, vv, ee = sv.real("c"), sv.real("r"), sv.real("v"), sv.real("e")
    absle = lambda x_, y_: sv.and_(sv.cmp("<=", x_, y_), sv.cmp("<=", sv.neg(y_), x_))
    out.append(("lemma:scaled-rounding-error", sv.implies(sv.and_(cc >= 0, absle(sv.sub(rr, vv), ee)), absle(sv.sub(sv.mul(cc, rr), sv.mul(cc, vv)), sv.mul(cc, ee)))))
    uu, bb, dd = sv.real("u"), sv.real("B"), sv.real("d")
    out.append(("lemma:|u|<=B.d,d>=1=>|u/d|<=B", sv.implies(sv.and_(absle(uu, sv.mul(bb, dd)), dd >= 1), absle(sv.div(uu, dd), bb))))
    for K in (2, 3, 4, 5):
        t = sv.integer("type_i")
        e = sv.real("e_i")
        # induction step over particles of rho = sum_a rho_a: a particle of type t in 1..K contributes to exactly one species mode
        contrib = _sum([sv.ite(sv.cmp("==", t, a), e, 0) for a in range(1, K + 1)])
        out.append((f"lemma:K={K}:rho=sum_a-rho_a:induction-step", sv.implies(sv.and_(t >= 1, t <= K), sv.cmp("==", contrib, e))))
        re = [sv.real(f"re_{a}") for a in range(1, K + 1)]
        im = [sv.real(f"im_{a}") for a in range(1, K + 1)]
        R, I = _sum(re), _sum(im)
        lhs = sv.add(sv.mul(R, R), sv.mul(I, I))
        rhs = _sum([sv.add(sv.mul(re[a], re[a]), sv.mul(im[a], im[a])) for a in range(K)])
        rhs = sv.add(rhs, sv.mul(2, _sum([sv.add(sv.mul(re[a], re[b]), sv.mul(im[a], im[b])) for a in range(K) for b in range(a + 1, K)])))
        # per frame: |sum_a rho_a|^2 = sum_a |rho_a|^2 + 2 sum_{a<b} Re[rho_a conj rho_b]; summed over frames and divided by T this is
        # N S = sum_a N_a S_aa + 2 sum_{a<b} sqrt(N_a N_b) S_ab by the normalisation clauses (S_ab = raw_ab / (T sqrt(N_a N_b)))
        out.append((f"lemma:K={K}:sum-rule:per-frame-identity", sv.cmp("==", lhs, rhs)))
    return out


MANIFEST = {
    "text": "sq.unary/binary/ternary/quarternary/quinary (real ASTs, re-read every run; symbolic frame number T, particle number N, "
            "number M of supplied integer wave vectors, positions, box edges; d in {2,3}; with/without CSV and per-vector file; "
            "unary also with six species): at an arbitrary wave vector m the value that enters the |q|-average of every column is "
            "round6(raw_ab(m) / (T sqrt(N_a N_b))) (diagonal: T N_a, total: T N), where (modes) the Sigma-term accumulated by the real "
            "frame loop, particle loop and if/elif routing equals sum_s Re[rho_a(s,m) conj rho_b(s,m)], rho_a = sum over a-particles "
            "of exp(-i q_m.r), q_m = 2 pi n_m / L component-wise (Sigma-extensionality over particles and frames; routing conditions "
            "vs [type = a] under type ids in 1..K), (normalisation) for any value of that sum (ring normal form); every returned "
            "column is the mean of these rounded values over the vectors whose round6(|q_m|) is the row's key, the q column is the key; "
            "columns exist exactly for a <= b <= K in the stated order; CSV = returned table; _qvectors.csv = integer vectors, |q| and the "
            "unrounded per-vector values; diagonal and total per-vector values are >= 0; sq.getresults dispatches on the species number "
            "(1..5, >5 -> total only); sq.__init__ establishes q = 2 pi n / L, |q|, df_qvector, N, T, species counts = #{i: type_i = id} "
            "and calls choosewavevector(ndim, int(2 qrange / min(2 pi / L)), onlypositive) for the default set; choosewavevector (real "
            "AST, SYMBOLIC numofq >= 0, d in {2,3}, onlypositive in {False, True, 'x','y','z'}): the returned rows are exactly - each once, in the "
            "lexicographic order of the loops - the vectors n of [-h,h)^d, h = numofq//2, with n != 0, n.n a perfect square, further all "
            "components >= 0 (True) / positive along the axis and zero elsewhere ('x','y','z'): soundness, completeness, strict order on the "
            "returned array; written loop invariant of the nested compaction loops (index = rank of the position = number of valid positions "
            "before it, rows below index = the lexicographic enumeration, rows from index on = 0) with loop-init / loop-step obligations from "
            "the real bodies; no store leaves the buffer (|D| <= numofq^d by induction lemmas per axis); lemmas: per-frame "
            "sum-rule identity |sum_a rho_a|^2 = sum_a |rho_a|^2 + 2 sum_{a<b} Re[rho_a conj rho_b] and the induction steps of "
            "rho = sum_a rho_a and of 'sum of non-negative terms'; on the real terms of every method: diagonal and total columns of the "
            "RETURNED table are >= 0 (induction steps over frames and over the vectors of a group, mean of non-negative values), and the sum "
            "rule N S = sum_a N_a S_aa + 2 sum_{a<b} sqrt(N_a N_b) S_ab holds exactly for the unrounded per-vector values (induction steps "
            "over particles and frames, ring identities with the code's normalisations) and within (N + sum_{a<b} sqrt(N_a N_b)) 1e-6 on every "
            "row of the returned (rounded, |q|-averaged) table (per-vector defect bound, induction step over the vectors of a group, linearity "
            "of the group sums, mean of the combination).",
    "note": "floats as reals (A1); assumed: pandas frame/round/groupby-mean/to_csv contracts, np.unique (relational), np.linalg.norm, "
            "exp(-ix) = cos x - i sin x, math.modf(sqrt(k))[0] == 0 iff k is a perfect square; the methods take the invariant of "
            "sq.__init__ as precondition with type ids 1..K; choosewavevector: documented range = half-open [-floor(n/2), floor(n/2)) per "
            "axis; assumed: the ghost lexicographic enumeration of the documented set with rank = count of preceding members (d-dimensional "
            "SEL/RANK), the a[mask] selection contract, modf/sqrt as the perfect-square test, induction over an axis for the count bound; "
            "no bounded stand-in is left; the sum rule is exact for the unrounded per-vector values, on the rounded / averaged table it is "
            "proved up to the stated rounding bound; induction principles and den >= 1 of groupby trusted; the raising behaviour of __init__ for varying "
            "particle number / box is not under contract",
}
