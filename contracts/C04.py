"""C04 draft"""
import z3

from contracts.common import Traj
from pyvc import arr as A
from pyvc import sigma, sv
from pyvc.sigma import Sum
from pyvc.vc import Unit

MOD = "PyMatterSim.static.sq"
METHODS = {1: "unary", 2: "binary", 3: "ternary", 4: "quarternary", 5: "quinary"}

NOT_DECIDED = []
TRUSTED = []


def _sum(xs):
    acc = 0
    for x in xs:
        acc = sv.add(acc, x)
    return acc


def _setup_self(ctx, d, K, outputfile, saveq):
    tr = Traj(ctx, d, same_cell=True)
    T, N = tr.T, tr.N
    M = ctx.int("M")
    ctx.assume(M >= 1)
    ctx.array_fact("TYPE", lambda s, i: z3.And(tr.TYPE(s, i) >= 1, tr.TYPE(s, i) <= K))
    Na = [ctx.int(f"N_{a+1}") for a in range(K)]
    for x in Na:
        ctx.assume(x >= 1)
    ctx.assume(sv.cmp("==", _sum(Na), N))
    L = [tr.bl(0, c) for c in range(d)]
    for x in L:
        ctx.assume(x > 0)
    NQ = z3.Function("NQ", z3.IntSort(), z3.IntSort(), z3.IntSort())

    def nq(m, c):
        return sv.SV(NQ(sv.znum(m), sv.znum(c)))

    def qv(m, c):
        return sv.mul(sv.to_real(nq(m, c)), sv.div(sv.mul(2, sv.PI), L[c]))
    snaps = tr.snapshots()
    qint = ctx.array_of((M, d), lambda idx: nq(idx[0], idx[1]), "int", name="qvector_int")
    qvector = ctx.array_of((M, d), lambda idx: qv(idx[0], idx[1]), "float", name="qvector")
    qvalue = ctx.array_of((M,), lambda idx: sv.sqrt(_sum([sv.mul(qv(idx[0], c), qv(idx[0], c)) for c in range(d)])), "float", name="qvalue")
    from pyvc.pandas_model import new_df
    with_state = ctx.state
    from pyvc.state import use_state
    with use_state(with_state):
        dfq = new_df({f"q{c}": A.new_arr((M,), lambda idx, c=c: nq(idx[0], c), "int") for c in range(d)}, [f"q{c}" for c in range(d)], M)
    typecount = A.from_nested(Na, "int")
    typenumber = A.from_nested(list(range(1, K + 1)), "int")
    attrs = dict(snapshots=snaps, outputfile=outputfile, saveqvectors=saveq, nsnapshots=T, nparticle=N,
                 typenumber=typenumber, typecount=typecount, qvector=qvector, df_qvector=dfq, qvalue=qvalue)
    o = ctx.obj(MOD, "sq", attrs)
    return o, dict(tr=tr, T=T, N=N, M=M, Na=Na, L=L, d=d, K=K, nq=nq, qv=qv)


class Method(Unit):
    module = MOD
    prop = "C04"
    timeout = 30
    solver_opts = {"rounds": 4}

    def __init__(self, K):
        self.K = K
        self.qualname = f"sq.{METHODS[K]}"

    def cases(self):
        return [f"d={d}/nofile" for d in (2, 3)]

    def setup(self, ctx, case):
        d = int(case[2])
        o, inp = _setup_self(ctx, d, self.K, None, False)
        inp["g"] = ctx.int("g")
        return [o], {}, inp

    def clause_names(self, case):
        return ["columns"]

    def ensures(self, ctx, case, inp, out):
        from pyvc.pandas_model import df_content
        res = out.value
        c = df_content(res)
        print("ORDER", c["order"], c["n"])
        for nm in c["order"]:
            print(nm, c["cols"][nm].get((inp["g"],)))
        yield "columns", True


UNITS = [Method(K) for K in (1, 2, 3, 4, 5)]
MANIFEST = {"text": "", "note": ""}
