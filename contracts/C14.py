"""C14 — time correlation equals the origin-averaged normalised autocorrelation.

Function under contract: PyMatterSim.dynamic.time_corr.time_correlation (real AST, re-read every run).

Spec (from the property statement; tensor product as documented in docs/orderings.md, Tr[Q . Q]):
  <a, b> = a conj(b) (scalar), sum_c a_c conj(b_c) (vector), tr(a . conj(b)) (tensor)
  P(n, n0) = Re sum_{i<N} <A[n,i], A[n0,i]>            (later frame n, earlier frame n0: the conjugate is on the EARLIER one)
  evenly spaced frames (T >= 2, ts_j = ts_0 + j h):     C(k) = 1/(T-k) sum_{n0=0}^{T-1-k} P(n0+k, n0)      (all origins)
  unevenly spaced frames, or T = 1:                     C(k) = P(k, 0)                                     (first frame only)
  returned DataFrame: columns (t, time_corr), T rows, time_corr[k] = C(k)/C(0), time_corr[0] = 1, t[k] = (ts_k - ts_0) dt
  requires C(0) != 0 (the statement divides by the lag-zero value); other ranks raise ValueError.

All clauses are stated at a symbolic lag k with symbolic frame number T and particle number N (no bound).
The engine summarises the accumulation loops by inductively checked closed forms (nested Sigma terms; obligations
loop-init / loop-step inside `safety`).  The connection "nested scatter-add sums = origin sum of the statement" is an
induction over the loop bounds that the Sigma axiom instances (unfold-last, extensionality) cannot do by themselves:
it is carried by explicit lemma obligations  lemma:<what>:<level>:base / :step  (one induction per loop level, the claim
of each level is the spec-level value that the loop level adds to slot k), generated for the Sigma terms that the
execution of the REAL body produced; the proved claims are then used as instances (`assume`) in the main clauses.
"""
import z3

from pyvc import arr as A
from pyvc import sigma, sv
from pyvc.interp import Ref, load_module, new_obj
from pyvc.sigma import Sum
from pyvc.state import Content
from pyvc.vc import Unit

MOD = "PyMatterSim.dynamic.time_corr"
RU = "PyMatterSim.reader.reader_utils"

NOT_DECIDED = [
    "floating-point accuracy of the accumulated sums (A1: floats are reals); the clause time_corr[0] == 1 is x/x == 1 for x != 0, exact in IEEE as well",
    "inputs whose lag-zero correlation C(0) is exactly 0 (the statement divides by it; excluded by the precondition, numpy would return nan/inf)",
    "content of the CSV file beyond 'the returned columns are what is handed to DataFrame.to_csv' (text formatting by pandas)",
]
TRUSTED = [
    "assumed contract of len(set(s)) for a symbolic-length sequence (pyvc/libext/C14.py): relational — c == 1 iff the sequence is non-empty and all elements are equal (Skolem witness + instances at the integer constants of the path)",
    "assumed contracts of np.diff, np.conj, .real, .sum, np.trace, np.matmul (d x d, d in {2,3}), np.column_stack, pd.DataFrame(2-D array, columns=...), DataFrame.to_csv = file-write event",
    "numpy item store a[i] += z (z complex, a float): stores the real part and emits ComplexWarning (checked natively on the pinned numpy; pyvc/arr.py)",
    "induction principle used by the lemma obligations: base (q = lo) and step (q -> q+1, q >= lo arbitrary) imply the claim for every q >= lo; all other symbols of a claim are fresh constants (universally quantified), instances are obtained by substitution",
    "evenly spaced frames are represented as ts_j = ts_0 + j h with symbolic integers ts_0, h (every evenly spaced integer series has this form); unevenly spaced frames as an arbitrary integer series with a witness index w, diff(w) != diff(0)",
    "vector / tensor dimension d is enumerated (2, 3); particle number N and frame number T are symbolic",
]

ZERO = z3.IntVal(0)


# ------------------------------------------------------------------------------------------------------------------
# specification (built from the statement, never from the code)


def inner(cond, rank, d, a, b, i, M=sv):
    """<A[a,i], A[b,i]>: value at frame a times the conjugate of the value at frame b, contracted over the components"""
    g = cond.get
    if rank == 2:
        return M.mul(g((a, i)), M.conj(g((b, i))))
    acc = 0
    if rank == 3:
        if not isinstance(d, int):      # symbolic number of components (spec side only symbolic: M is sv)
            return Sum(0, d, lambda c: M.mul(g((a, i, c)), M.conj(g((b, i, c)))))
        for c in range(d):
            acc = M.add(acc, M.mul(g((a, i, c)), M.conj(g((b, i, c)))))
        return acc
    for c in range(d):          # tr(X . conj(Y)) = sum_{c,e} X[c,e] conj(Y[e,c])
        for e in range(d):
            acc = M.add(acc, M.mul(g((a, i, c, e)), M.conj(g((b, i, e, c)))))
    return acc


class Spec:
    """spec terms with one Sigma symbol per notion (templates over fresh constants, instances by substitution)"""

    def __init__(self, cond, rank, d, T, N):
        self.cond, self.rank, self.d, self.T, self.N = cond, rank, d, T, N
        self.pa, self.pb, self.pq = z3.Int("sp!a"), z3.Int("sp!b"), z3.Int("sp!q")
        self.pm, self.pk = z3.Int("sp!m"), z3.Int("sp!k")
        # P(a, b; q) = Re sum_{i<q} <A[a,i], A[b,i]>
        self._P = sv.zr(Sum(0, sv.SV(self.pq), lambda i: sv.re(inner(cond, rank, d, sv.SV(self.pa), sv.SV(self.pb), i))))
        # R(m, k) = sum_{n0=0}^{m-k-1} P(n0+k, n0; N)
        self._R = sv.zr(Sum(0, sv.SV(self.pm - self.pk), lambda n0: sv.SV(self.P(sv.znum(n0) + self.pk, sv.znum(n0)))))

    def P(self, a, b, q=None):
        q = sv.znum(self.N) if q is None else q
        return z3.substitute(self._P, (self.pa, sv.znum(a)), (self.pb, sv.znum(b)), (self.pq, sv.znum(q)))

    def R(self, m, k):
        return z3.substitute(self._R, (self.pm, sv.znum(m)), (self.pk, sv.znum(k)))

    def C(self, k, spacing):
        """un-normalised correlation at lag k (z3 Real term)"""
        k = sv.znum(k)
        if spacing == "linear":
            return self.R(self.T, k) / z3.ToReal(sv.znum(self.T) - k)
        return self.P(k, ZERO)


# ------------------------------------------------------------------------------------------------------------------
# Sigma-term helpers (code side: the closed forms the loop summaries produced)


def _is_sig(e):
    return z3.is_app(e) and sigma.sigma_def_of(e) is not None


def _args(app):
    return [app.arg(i) for i in range(2, app.num_args())]


def with_hi(app, q):
    return sigma.sigma_def_of(app).fn(app.arg(0), sv.znum(q), *_args(app))


def body_at(app, x):
    return z3.simplify(sigma.sigma_def_of(app).body_at(sv.znum(x), _args(app)), som=False)


def top_sigma_apps(term):
    """Sigma applications of a term that are not nested inside another Sigma application"""
    out, seen, stack = [], set(), [term]
    while stack:
        e = stack.pop()
        if e.get_id() in seen:
            continue
        seen.add(e.get_id())
        if _is_sig(e):
            out.append(e)
            continue
        stack.extend(e.children())
    return out


def mentions(term, names=(), consts=()):
    cids = {c.get_id() for c in consts}
    seen, stack = set(), [term]
    while stack:
        e = stack.pop()
        if e.get_id() in seen:
            continue
        seen.add(e.get_id())
        if e.get_id() in cids:
            return True
        if z3.is_app(e):
            dn = e.decl().name()
            if e.decl().kind() == z3.Z3_OP_UNINTERPRETED and dn in names:
                return True
            sd = sigma.BY_DECL.get(dn)
            if sd is not None and names:
                stack.append(sd.body)
            stack.extend(e.children())
    return False


def _sig_names(term, q):
    """names of the Sigma-functions applied in `term` with an upper bound that depends on q (the ones an induction step over q unfolds)"""
    return {e.decl().name() for e in top_sigma_apps(term) if mentions(e.arg(1), consts=[q])}


def induction_chain(prefix, app, levels, hyps):
    """app: code-side Sigma application (outermost loop level).  levels: outermost -> innermost, each a dict
         name; var: fresh z3 Int constant standing for the loop variable of this level (free in the inner levels);
         rhs: function q -> z3 term, the spec-level value of  Sigma_{t<q} summand_level(t)
       Level l+1's application is the summand of level l at its loop variable.  Returns (top, obligations).
       Per level, with q a fresh constant (the induction variable) and claim(q): Sigma_{t<q} summand(t) == rhs(q):
         :base     claim(lo)                                                    (empty-range axiom)
         :summand  q >= lo  ->  summand(q) == rhs(q+1) - rhs(q)                  (innermost level: extensionality with the
                   particle sum of the statement; other levels: the claim of level l+1 instantiated at var_l := q and the
                   bound the code has there, plus unfold-last of the statement's own origin sum)
         :step     q >= lo, claim(q), summand(q) == rhs(q+1) - rhs(q)  ->  claim(q+1)     (unfold-last of the code's sum)
       top = (qvar, formula) is the outermost claim.  top is None if the code-side term does not have this nesting (then
       no lemma obligation is generated: they stay UNDECIDED and the replay decides)."""
    apps = [app]
    for lv in levels[:-1]:
        b = body_at(apps[-1], lv["var"])
        if not _is_sig(b):
            return None, []
        apps.append(b)
    obligations = []
    claims = [None] * len(levels)       # (qvar, formula with qvar free)
    H = z3.And(*hyps) if hyps else z3.BoolVal(True)
    for l in range(len(levels) - 1, -1, -1):
        ap, lv = apps[l], levels[l]
        lo = ap.arg(0)
        q = z3.Int(f"ind!q{l}")

        def claim(x, ap=ap, lv=lv):
            return with_hi(ap, x) == lv["rhs"](x)
        inc = lv["rhs"](q + 1) - lv["rhs"](q)
        S = body_at(ap, q) == inc
        inst = []
        if l + 1 < len(levels):
            q1, f1 = claims[l + 1]
            hi1 = z3.substitute(apps[l + 1].arg(1), (lv["var"], q))
            inst.append(z3.substitute(z3.substitute(f1, (lv["var"], q)), (q1, hi1)))
            so = {"unfold_only": sorted(_sig_names(inc, q)), "ext": False, "rounds": 1}
        elif top_sigma_apps(body_at(ap, q)):
            so = {"unfold": False, "rounds": 3}     # extensionality: particle sum, then component sum (symbolic d)
        else:
            # the innermost summand is the per-particle product itself: unfold-last of the statement's particle sum
            so = {"unfold_only": sorted(_sig_names(inc, q)), "ext": False, "rounds": 1}
        none = {"unfold": False, "ext": False, "rounds": 1}
        obligations.append((f"{prefix}:{lv['name']}:base", z3.Implies(H, claim(lo)), {"solver_opts": none}))
        obligations.append((f"{prefix}:{lv['name']}:summand", z3.Implies(z3.And(H, q >= lo), S), {"assume": inst, "solver_opts": so}))
        obligations.append((f"{prefix}:{lv['name']}:step", z3.Implies(z3.And(H, q >= lo, claim(q), S), claim(q + 1)),
                            {"solver_opts": {"unfold_only": [ap.decl().name()], "ext": False, "rounds": 1}}))
        claims[l] = (q, z3.Implies(z3.And(H, q >= lo), claim(q)))
    return claims[0], obligations


# ------------------------------------------------------------------------------------------------------------------


class TimeCorr(Unit):
    module = MOD
    qualname = "time_correlation"
    prop = "C14"
    timeout = 20
    # the lemma chain follows the loop nest level by level: every level's closed form must be a Σ-application
    loop_opts = {"cond_acc": "sigma-ite"}

    def cases(self):
        out = []
        for dt in ("real", "complex"):
            for sp in ("linear", "log"):
                out.append(f"rank2/{dt}/{sp}")
                for r in (3, 4):
                    for d in (2, 3):
                        out.append(f"rank{r}/{dt}/{sp}/d={d}")
        out += ["rank3/real/linear/d=sym", "rank3/complex/linear/d=sym", "rank3/real/log/d=sym", "rank3/complex/log/d=sym"]
        out += ["rank2/real/linear/csv", "rank3/complex/log/d=3/csv", "rank1/real/linear", "rank5/real/log/d=2"]
        return out

    @staticmethod
    def parse(case):
        p = case.split("/")
        rank = int(p[0][4:])
        d = next(((x[2:] if x[2:] == "sym" else int(x[2:])) for x in p if x.startswith("d=")), 3)
        return rank, p[1], p[2], d, "csv" in p

    def setup(self, ctx, case):
        rank, dtype, spacing, d, csv = self.parse(case)
        T, N = ctx.int("T"), ctx.int("N")
        ctx.assume(T >= 1)
        ctx.assume(N >= 1)      # no additional restriction: N = 0 gives C(0) = 0, excluded below (the statement divides by C(0))
        if d == "sym":
            d = ctx.int("d")
            ctx.assume(d >= 1)
        shape = (T, N) + (d,) * (rank - 2) if rank >= 2 else (T,)
        cond = ctx.array("A", shape, "float" if dtype == "real" else "complex", origin="argument condition")
        ts0, h = ctx.int("ts0"), ctx.int("h")
        if spacing == "linear":
            # evenly spaced: ts_j = ts0 + j h, at least two frames (one frame has no spacing: it is the "log" case)
            ctx.assume(T >= 2)
            tsf = lambda i: sv.add(ts0, sv.mul(i, h))
        else:
            f = z3.Function("ts", z3.IntSort(), z3.IntSort())
            tsf = lambda i: sv.SV(f(sv.znum(i)))
            w = ctx.int("w")
            ctx.assume(sv.or_(sv.cmp("==", T, 1),
                              sv.and_(w >= 0, sv.cmp("<", w, sv.sub(T, 1)),
                                      sv.cmp("!=", sv.sub(tsf(sv.add(w, 1)), tsf(w)), sv.sub(tsf(1), tsf(0))))))
        cls = load_module(RU).get_class("SingleSnapshot")
        made = []

        def snap(i):
            o = new_obj(cls, dict(timestep=tsf(i), nparticle=N), frozen=True)
            made.append(o.sid)
            return o
        lst = Ref(ctx.state.alloc(Content("list", A.SeqVal(T, snap))), "list")
        snaps = ctx.obj(RU, "Snapshots", dict(nsnapshots=T, snapshots=lst))
        dt = ctx.real("dt")
        spec = None
        if rank in (2, 3, 4):
            spec = Spec(cond, rank, d, T, N)
            ctx.assume(spec.C(ZERO, spacing) != 0)           # the statement divides by the lag-zero value
        kwargs = {"outputfile": "out.csv"} if csv else {}
        return [snaps, cond, dt], kwargs, dict(T=T, N=N, cond=cond, tsf=tsf, dt=dt, rank=rank, spacing=spacing, d=d, dtype=dtype,
                                               spec=spec, csv=csv, snaps=snaps, lst=lst, made=made)

    MAIN = ["result-is-DataFrame(t,time_corr)-with-T-rows", "time_corr[k]=C(k)/C(0)", "time_corr[0]=1", "t[k]=(ts_k-ts_0)*dt",
            "divisors-nonzero", "frame:inputs-not-written", "csv-written-iff-outputfile"]

    def lemma_names(self, case):
        rank, dtype, spacing, d, csv = self.parse(case)
        names = []
        if spacing == "linear":
            lv = ["n", "nn"] + (["i"] if rank == 4 else [])
            for what in ("lemma:origin-sum", "lemma:origin-count"):
                for l in lv:
                    names += [f"{what}:{l}:base", f"{what}:{l}:summand", f"{what}:{l}:step"]
            if rank == 4:
                names.append("lemma:particle-count-cancels")
        elif rank == 4:
            for l in ("n", "i"):
                names += [f"lemma:first-origin:{l}:base", f"lemma:first-origin:{l}:summand", f"lemma:first-origin:{l}:step"]
        else:
            names.append("lemma:first-origin:particle-sum")
        names.append("lemma:lag-0-terms-are-the-k=0-instances")
        return names

    def clause_names(self, case):
        rank = self.parse(case)[0]
        if rank not in (2, 3, 4):
            return []
        return list(self.MAIN) + self.lemma_names(case)

    # --------------------------------------------------------------------------------------------------------------
    def ensures(self, ctx, case, inp, out):
        from pyvc.pandas_model import df_content
        rank, dtype, spacing, d, csv = self.parse(case)
        T, N, spec = inp["T"], inp["N"], inp["spec"]
        Tz, Nz = sv.znum(T), sv.znum(N)
        res = out.value
        ok = isinstance(res, Ref) and res.kind == "df"
        if ok:
            c = df_content(res)
            ok = list(c["order"]) == ["t", "time_corr"] and A.dim_eq_syntactic(c["n"], T) and all(
                isinstance(c["cols"][x], A.Arr) and c["cols"][x].ndim == 1 and A.dim_eq_syntactic(c["cols"][x].shape[0], T) for x in c["order"])
        yield "result-is-DataFrame(t,time_corr)-with-T-rows", bool(ok)
        if not ok:
            return
        k = z3.Int("k")
        ks = sv.SV(k)
        tc_k = sv.zr(c["cols"]["time_corr"].get((ks,)))
        tc_0 = sv.zr(c["cols"]["time_corr"].get((0,)))
        t_k = c["cols"]["t"].get((ks,))
        inr = z3.And(k >= 0, k < Tz)
        # ---- time axis
        yield "t[k]=(ts_k-ts_0)*dt", sv.implies(sv.SV(inr), sv.cmp("==", t_k, sv.mul(sv.to_real(sv.sub(inp["tsf"](ks), inp["tsf"](0))), inp["dt"])))
        # ---- frame
        watch = {inp["cond"].sid, inp["snaps"].sid, inp["lst"].sid} | set(inp["made"])
        stores = [e for e in out.state.events if e[0] in ("store", "setattr") and e[1] in watch]
        yield "frame:inputs-not-written", len(stores) == 0
        # ---- csv
        writes = [e for e in out.state.trace if e[0] == "to_csv"]
        if csv:
            good = len(writes) == 1 and writes[0][1] == "out.csv" and list(writes[0][3]) == ["t", "time_corr"]
            if good:
                j = sv.fresh_int("row")
                snap_cols = writes[0][2]
                eqs = [sv.cmp("==", snap_cols[nm].get((j,)), c["cols"][nm].get((j,))) for nm in ("t", "time_corr")]
                yield "csv-written-iff-outputfile", sv.implies(sv.and_(j >= 0, sv.cmp("<", j, T)), sv.and_(*eqs))
            else:
                yield "csv-written-iff-outputfile", False
        else:
            yield "csv-written-iff-outputfile", len(writes) == 0
        # ---- lemmas: the closed forms of the loop summaries are the origin sums of the statement
        arrnames = ("A",) if dtype == "real" else ("A_re", "A_im")
        tops = top_sigma_apps(tc_k)
        facts = []          # proved claims, instantiated (assumed in the main clauses)
        divisors = []
        hy = [k >= 0, Nz >= 0]
        num = [e for e in tops if mentions(e, consts=[k]) and mentions(e, names=arrnames)]
        cnt = [e for e in tops if mentions(e, consts=[k]) and not mentions(e, names=arrnames)]
        vn, vnn, vi = z3.Int("lv!n"), z3.Int("lv!nn"), z3.Int("lv!i")

        def use(top):
            if top is not None:
                q0, f0 = top
                facts.append(z3.substitute(f0, (q0, Tz)))
                facts.append(z3.substitute(z3.substitute(f0, (q0, Tz)), (k, ZERO)))

        if spacing == "linear":
            if len(num) == 1:
                levels = [dict(name="n", var=vn, rhs=lambda q: spec.R(q, k)),
                          dict(name="nn", var=vnn, rhs=lambda q: z3.If(z3.And(k >= 0, k < q), spec.P(vn, vn - k), 0))]
                if rank == 4:
                    levels.append(dict(name="i", var=vi, rhs=lambda q: z3.If(k == vnn, spec.P(vn, vn - vnn, q), 0)))
                top, obs = induction_chain("lemma:origin-sum", num[0], levels, hy)
                for o in obs:
                    yield o
                use(top)
            if len(cnt) == 1:
                e = cnt[0]
                per = Nz if rank == 4 else z3.IntVal(1)      # origins are counted once per particle in the tensor branch
                levels = [dict(name="n", var=vn, rhs=lambda q: z3.ToReal(per * z3.If(q - k > 0, q - k, 0))),
                          dict(name="nn", var=vnn, rhs=lambda q: z3.ToReal(z3.If(z3.And(k >= 0, k < q), per, 0)))]
                if rank == 4:
                    levels.append(dict(name="i", var=vi, rhs=lambda q: z3.ToReal(z3.If(k == vnn, q, 0))))
                top, obs = induction_chain("lemma:origin-count", e, levels, hy)
                for o in obs:
                    yield o
                use(top)
                divisors.append(e)
            if rank == 4:
                # (a/(N x)) / (b/(N y)) = (a/x)/(b/y): the per-particle origin count cancels in the normalisation
                a_, b_, x_, y_, n_ = [sv.real(f"pc!{s}") for s in "abxyn"]
                yield ("lemma:particle-count-cancels",
                       sv.implies(sv.and_(sv.cmp("!=", n_, 0), sv.cmp("!=", x_, 0), sv.cmp("!=", y_, 0), sv.cmp("!=", b_, 0)),
                                  sv.cmp("==", sv.div(sv.div(a_, sv.mul(n_, x_)), sv.div(b_, sv.mul(n_, y_))), sv.div(sv.div(a_, x_), sv.div(b_, y_)))),
                       {"ring_only": True})
        elif rank == 4:
            if len(num) == 1:
                levels = [dict(name="n", var=vn, rhs=lambda q: z3.If(z3.And(k >= 0, k < q), spec.P(k, ZERO), 0)),
                          dict(name="i", var=vi, rhs=lambda q: z3.If(k == vn, spec.P(vn, ZERO, q), 0))]
                top, obs = induction_chain("lemma:first-origin", num[0], levels, [Nz >= 0])
                for o in obs:
                    yield o
                use(top)
        else:
            if len(num) == 1:
                # no accumulation loop: the particle sum of the code is the particle sum of the statement (extensionality)
                f0 = num[0] == spec.P(k, ZERO)
                yield "lemma:first-origin:particle-sum", f0, {"solver_opts": {"unfold": False}}
                facts.append(f0)
                facts.append(z3.substitute(f0, (k, ZERO)))
        # the k-free Sigma terms of the result (they come from results[0] / counts[0]) are the k = 0 instances of the terms at lag k
        bridges = []
        for a in top_sigma_apps(z3.And(tc_k == 0, tc_0 == 0)):
            if mentions(a, consts=[k]):
                continue
            fam = num if mentions(a, names=arrnames) else cnt
            if len(fam) == 1:
                e0 = z3.substitute(fam[0], (k, ZERO))
                if not a.eq(e0):
                    bridges.append(a == e0)
        yield "lemma:lag-0-terms-are-the-k=0-instances", (z3.And(*bridges) if bridges else True), {"solver_opts": {"unfold": False}}
        facts.extend(bridges)
        # ---- main clauses
        Ck, C0 = spec.C(k, spacing), spec.C(ZERO, spacing)
        # with the lemma instances the main clauses are arithmetic over the Sigma terms as atoms: no unfolding and no
        # extensionality instances (keeps the queries free of the particle-level polynomial summands: false variants are
        # then refuted in milliseconds instead of timing out)
        opts = {"assume": facts, "solver_opts": {"unfold": False, "ext": False}}
        yield "time_corr[k]=C(k)/C(0)", z3.Implies(inr, tc_k == Ck / C0), opts
        yield "time_corr[0]=1", tc_0 == 1, opts
        # divisors the code introduces: the per-lag origin counts (linear) and the un-normalised lag-zero value x
        # (time_corr[0] is x / x: results[0] before `results /= results[0]`)
        goals = [z3.Implies(inr, e != 0) for e in divisors]
        if z3.is_app(tc_0) and tc_0.decl().kind() == z3.Z3_OP_DIV and tc_0.arg(0).eq(tc_0.arg(1)):
            goals.append(tc_0.arg(0) != 0)
            yield "divisors-nonzero", z3.And(*goals), opts
        # (if time_corr[0] is not of the shape x / x the clause is not generated: UNDECIDED, the replay decides)

    def raises(self, ctx, case, inp, out):
        rank = self.parse(case)[0]
        if rank not in (2, 3, 4):
            return out.exc == "ValueError"
        return None

    def replay(self, case, clause, model, seed):
        return _replay(case, clause, model, seed)


# ------------------------------------------------------------------------------------------------------------------
# replay (runs under /venv/bin/python against the real package)


def _fr(x, default=None):
    if isinstance(x, bool):
        return float(x)
    if isinstance(x, (int, float)):
        return float(x)
    if isinstance(x, str):
        try:
            if "/" in x:
                a, b = x.split("/")
                return int(a) / int(b)
            return float(x)
        except ValueError:
            return default
    return default


def _func_entries(model, name):
    v = model.get(name)
    if isinstance(v, dict) and v.get("__func__") is not None:
        return v["__func__"], _fr(v.get("else"))
    return [], None


def _replay(case, clause, model, seed):
    import importlib
    import os
    import random
    import tempfile
    import warnings

    import numpy as np
    P = importlib.import_module(MOD)
    RUm = importlib.import_module(RU)
    rank, dtype, spacing, d, csv = TimeCorr.parse(case)
    rng = random.Random(seed)
    nrng = np.random.default_rng(seed)
    dsym = d == "sym"
    if dsym:
        d = model.get("d") if isinstance(model.get("d"), int) and 1 <= model.get("d") <= 9 else 5

    def mk_snaps(ts, N):
        z = np.zeros((N, 2))
        return RUm.Snapshots(nsnapshots=len(ts), snapshots=[
            RUm.SingleSnapshot(timestep=int(t), nparticle=N, particle_type=np.ones(N, dtype=int), positions=z, boxlength=np.ones(2),
                               boxbounds=np.zeros((2, 2)), realbounds=np.zeros((2, 2)), hmatrix=np.eye(2)) for t in ts])

    def shape_of(T, N):
        if rank == 1:
            return (T,)
        return (T, N) + (d,) * (rank - 2)

    def sample(first, trial):
        T = N = None
        if first:
            Tm, Nm = model.get("T"), model.get("N")
            if isinstance(Tm, int) and 1 <= Tm <= 12:
                T = Tm
            if isinstance(Nm, int) and 1 <= Nm <= 12:
                N = Nm
        if T is None:
            T = [1, 2, 3, 4, 5, 7][trial % 6] if spacing == "log" else [2, 3, 4, 5, 7, 2][trial % 6]
        if N is None:
            N = rng.choice([1, 2, 3, 5])
        if spacing == "linear":
            T = max(T, 2)
            ts0 = int(_fr(model.get("ts0"), 0)) if first else rng.randint(-5, 1000)
            h = int(_fr(model.get("h"), 1)) if first else rng.choice([1, 1, 2, 10, 50, 1000, -3])
            ts = [ts0 + j * h for j in range(T)]
        else:
            if T == 2:
                T = 3
            ts = [rng.randint(0, 5)]
            for j in range(1, T):
                ts.append(ts[-1] + rng.choice([1, 2, 5, 10, 100]) * (j + 1))
            if T >= 3 and len(set(np.diff(ts))) == 1:
                ts[-1] += 7
        dt = _fr(model.get("dt")) if first else None
        if dt is None:
            dt = rng.choice([0.002, 0.5, 1.0, 0.01])
        shp = shape_of(T, N)
        Aarr = nrng.normal(size=shp)
        if dtype == "complex":
            Aarr = Aarr + 1j * nrng.normal(size=shp)
        if trial % 5 == 3 and rank >= 2:
            Aarr = Aarr + 3.0          # non-zero mean
        if first:
            for nm, part in ((("A", "re"),) if dtype == "real" else (("A_re", "re"), ("A_im", "im"))):
                ents, _ = _func_entries(model, nm)
                for ent in ents:
                    idx, val = ent[:-1], _fr(ent[-1])
                    if val is None or len(idx) != len(shp) or not all(isinstance(x, int) and 0 <= x < s for x, s in zip(idx, shp)):
                        continue
                    if part == "re":
                        Aarr[tuple(idx)] = val + (1j * Aarr[tuple(idx)].imag if dtype == "complex" else 0)
                    else:
                        Aarr[tuple(idx)] = Aarr[tuple(idx)].real + 1j * val
        return T, N, ts, dt, Aarr

    def pair(x, y):
        """<x, y> per particle: later value x, earlier value y (conjugated)"""
        if rank == 2:
            return x * np.conj(y)
        if rank == 3:
            s = 0
            for c in range(d):
                s = s + x[c] * np.conj(y[c])
            return s
        s = 0
        for c in range(d):
            for e in range(d):
                s = s + x[c, e] * np.conj(y[e, c])
        return s

    def Pfun(Aarr, n, n0, N):
        s = 0.0
        for i in range(N):
            s += complex(pair(Aarr[n, i], Aarr[n0, i])).real
        return s

    tried = 0
    for trial in range(200):
        if dsym and trial > 0:
            d = [1, 2, 3, 5, 7][trial % 5]
        T, N, ts, dt, Aarr = sample(trial == 0, trial)
        snaps = mk_snaps(ts, N)
        keepA = Aarr.copy()
        keep_ts = [s.timestep for s in snaps.snapshots]
        path = ""
        tmpd = None
        if csv:
            tmpd = tempfile.mkdtemp(prefix="c14-replay-")
            path = os.path.join(tmpd, "out.csv")
        inputs = {"timesteps": ts, "N": N, "T": T, "dt": dt,
                  "condition": (Aarr.tolist() if Aarr.size <= 60 and dtype == "real" else f"seeded array shape {Aarr.shape}, seed {seed}, trial {trial}")}
        if rank not in (2, 3, 4):
            tried += 1
            try:
                P.time_correlation(snaps, Aarr, dt)
            except ValueError:
                continue
            except Exception as e:  # noqa
                return {"ran": True, "failed": True, "inputs": inputs, "detail": f"rank {rank} input raises {type(e).__name__} instead of ValueError", "searched": tried}
            return {"ran": True, "failed": True, "inputs": inputs, "detail": f"rank {rank} input does not raise ValueError", "searched": tried}
        # spec
        if spacing == "linear" and len(set(np.diff(ts))) == 1 and T >= 2:
            C = [sum(Pfun(Aarr, n0 + k, n0, N) for n0 in range(T - k)) / (T - k) for k in range(T)]
        else:
            C = [Pfun(Aarr, k, 0, N) for k in range(T)]
        if abs(C[0]) < 1e-6:
            continue
        tried += 1
        try:
            with warnings.catch_warnings():
                warnings.simplefilter("ignore")
                df = P.time_correlation(snaps, Aarr, dt, path) if csv else P.time_correlation(snaps, Aarr, dt)
        except Exception as e:  # noqa
            return {"ran": True, "failed": True, "from_model": trial == 0, "inputs": inputs, "detail": f"raises {type(e).__name__}: {e}", "searched": tried}
        bad = None
        try:
            cols = list(df.columns)
            if cols != ["t", "time_corr"] or len(df) != T:
                bad = f"result columns {cols}, {len(df)} rows (expected ['t','time_corr'], {T} rows)"
            else:
                tc = np.asarray(df["time_corr"].values, dtype=float)
                tt = np.asarray(df["t"].values, dtype=float)
                want = np.array([C[k] / C[0] for k in range(T)])
                wt = np.array([(ts[k] - ts[0]) * dt for k in range(T)])
                scale = max(1.0, np.abs(want).max())
                if not np.all(np.isfinite(tc)) or np.abs(tc - want).max() > 1e-9 * scale:
                    kbad = int(np.nanargmax(np.abs(tc - want))) if np.all(np.isfinite(tc)) else int(np.argmax(~np.isfinite(tc)))
                    bad = f"time_corr[{kbad}] = {tc[kbad]!r}, statement gives C({kbad})/C(0) = {want[kbad]!r} ({spacing} spacing, rank {rank}, {dtype})"
                elif tc[0] != 1.0:
                    bad = f"time_corr[0] = {tc[0]!r} != 1"
                elif np.abs(tt - wt).max() > 1e-9 * max(1.0, np.abs(wt).max()):
                    kbad = int(np.argmax(np.abs(tt - wt)))
                    bad = f"t[{kbad}] = {tt[kbad]!r}, expected (ts_k - ts_0) dt = {wt[kbad]!r}"
                elif not np.array_equal(keepA, Aarr) or keep_ts != [s.timestep for s in snaps.snapshots]:
                    bad = "an input was modified"
                elif csv:
                    import pandas as pd
                    if not os.path.exists(path):
                        bad = "outputfile given but no file written"
                    else:
                        back = pd.read_csv(path)
                        if list(back.columns) != ["t", "time_corr"] or len(back) != T or np.abs(back["time_corr"].values - tc).max() > 1e-7 \
                                or np.abs(back["t"].values - tt).max() > 1e-7:
                            bad = "file content differs from the returned frame (beyond the %.8f format)"
        finally:
            if tmpd:
                import shutil
                shutil.rmtree(tmpd, ignore_errors=True)
        if bad:
            return {"ran": True, "failed": True, "from_model": trial == 0, "searched": tried, "inputs": inputs, "detail": bad}
    return {"ran": True, "failed": False, "searched": tried, "detail": "real code satisfies every clause on the model inputs and the seeded inputs"}


UNITS = [TimeCorr()]


# ------------------------------------------------------------------------------------------------------------------
# conformance probes of the assumed library contracts this property adds (run under the repository's interpreter)

_PROBES = {
    "len(set(np.diff(ts)))==1<=>at-least-two-frames-and-all-differences-equal": """
import numpy as np, random
rng = random.Random(SEED)
bad = None
for trial in range(400):
    T = rng.choice([1, 1, 2, 3, 4, 6, 9])
    kind = rng.choice(["even", "even0", "rand", "one-off"])
    h = rng.choice([1, 2, 10, -3, 1000])
    ts = [rng.randint(-5, 50) + j * (0 if kind == "even0" else h) for j in range(T)]
    if kind == "rand":
        ts = [rng.randint(0, 6) for _ in range(T)]
    if kind == "one-off" and T >= 3:
        ts[rng.randrange(1, T)] += rng.choice([1, -1, 7])
    got = len(set(np.diff(np.array(ts)))) == 1
    want = T >= 2 and all(ts[j + 1] - ts[j] == ts[1] - ts[0] for j in range(T - 1))
    if got != want:
        bad = f"timesteps {ts}: len(set(diff)) == 1 is {got}, contract says {want}"
        break
""",
    "float_array[i]+=complex128-stores-the-real-part": """
import numpy as np, warnings
bad = None
a = np.zeros(3)
with warnings.catch_warnings():
    warnings.simplefilter("ignore")
    a[1] += np.trace(np.matmul(np.eye(2) * (1 + 2j), np.conj(np.eye(2) * (3 + 1j))))
want = (2 * (1 + 2j) * (3 - 1j)).real
if a.dtype != np.float64 or abs(a[1] - want) > 1e-12 or a[0] != 0 or a[2] != 0:
    bad = f"a = {a.tolist()}, expected [0, {want}, 0]"
""",
}


def _run_probe(name, seed, py=None):
    import json
    import os
    import subprocess
    py = py or os.environ.get("PYVC_REPLAY_PYTHON", "/venv/bin/python")
    code = f"SEED = {int(seed)}\n" + _PROBES[name] + "\nimport json; print('PROBE ' + json.dumps({'bad': bad}))\n"
    try:
        r = subprocess.run([py, "-c", code], capture_output=True, text=True, timeout=120, cwd="/tmp")
    except subprocess.TimeoutExpired:
        return "timeout"
    for line in r.stdout.splitlines():
        if line.startswith("PROBE "):
            return json.loads(line[6:])["bad"]
    return (r.stderr or "no output").strip().splitlines()[-1:]


def extra_checks(tier, seed, repo):
    import time

    from pyvc.probe import import_probe
    obs = import_probe([MOD], repo)
    for name in _PROBES:
        t0 = time.time()
        bad = _run_probe(name, seed)
        ob = {"name": f"library-contract-probe:{name}", "status": "PROVED" if bad is None else "REFUTED", "ms": round((time.time() - t0) * 1000, 1),
              "backends": ["cpython-probe"], "queries": 1, "replayable": True, "probe": {"kind": "lib", "name": name}}
        if bad is not None:
            ob["failed"] = [{"status": "REFUTED", "backend": "cpython-probe", "reason": str(bad), "model": {"probe": name}}]
        obs.append(ob)
    return {"obligations": obs}


def replay_extra(rec):
    m = rec.get("model") or {}
    if m.get("probe") in _PROBES:
        import sys
        bad = _run_probe(m["probe"], int(rec.get("seed") or 0), py=sys.executable)
        return {"ran": True, "failed": bad is not None, "detail": str(bad)}
    from pyvc.probe import replay_import
    return replay_import(rec)

MANIFEST = {
    "text": "time_correlation (real AST, re-read every run), symbolic frame number T >= 1 and particle number N, at a symbolic lag k, for condition of rank 2, 3 (d in {2,3} and symbolic d) and 4 (d x d, d in {2,3}), real and complex, evenly spaced (ts_j = ts_0 + j h, T >= 2) and unevenly spaced / single-frame timesteps: the returned DataFrame has columns (t, time_corr) and T rows; time_corr[k] = C(k)/C(0) with C(k) = 1/(T-k) sum_{n0<T-k} Re sum_i <A[n0+k,i], conj A[n0,i]> for evenly spaced frames (all origins; per-lag origin count T-k, N(T-k) in the tensor branch where it cancels) and C(k) = Re sum_i <A[k,i], conj A[0,i]> otherwise (first frame the only origin); the conjugate is on the earlier frame; time_corr[0] = 1; t[k] = (ts_k - ts_0) dt; divisors non-zero; inputs not written; the CSV write happens iff outputfile is given and receives the returned columns; other ranks raise ValueError. Loop nests are replaced by inductively checked closed forms (loop-init/loop-step), connected to the statement's origin sums by one explicit induction per loop level (lemma obligations, base + step).",
    "note": "floats as reals (A1); requires C(0) != 0; assumed contracts: len(set(.)) == 1 iff non-empty and all equal (relational), np.diff, np.conj, .real, .sum, np.trace, np.matmul, np.column_stack, pd.DataFrame, to_csv event, numpy complex->float item store keeps the real part; induction principle for the lemma obligations; d enumerated in {2,3} for tensors, also symbolic for vectors",
}
